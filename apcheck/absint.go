package main

// E3: a small abstract interpreter over go/ssa — conditional constant / dynamic-type / nilness propagation
// with executable-edge tracking, flow-sensitive cells for allocations (captured variables), and
// context-sensitive evaluation of package-local callees and closures. Nothing is executed: values are
// elements of a finite lattice and unknown conditions make both successors executable.

import (
	"fmt"
	"go/constant"
	"go/token"
	"go/types"
	"sort"
	"strings"

	"golang.org/x/tools/go/ssa"
)

type avKind uint8

const (
	kBot avKind = iota
	kTop
	kConst // C
	kPtr   // T (pointer type), Nil, Cell/Pointee
	kIface // Nil; Dyn (when Nil==nilNo and the dynamic value is known)
	kFunc  // Fn, Bind; Nil
	kTuple // Tup
	kSlice // Nil, Elem
	kExtFn // an opaque callback supplied by the (unknown) caller
)

type tri uint8

const (
	nilUnknown tri = iota
	nilYes
	nilNo
)

type Cell struct {
	id      int
	name    string
	isArray bool
}

type AV struct {
	K       avKind
	T       types.Type // static type of a non-interface value (pointer type for kPtr, slice type for kSlice, dynamic type when used as Dyn)
	Nil     tri
	C       constant.Value
	Dyn     *AV
	Cell    *Cell
	IsElem  bool // pointer to an element of the (array) cell
	Pointee *AV
	Elem    *AV
	Fn      *ssa.Function
	Bind    []AV
	Tup     []AV
	Tag     string   // for kExtFn: label
	Consts  []string // kSlice: the complete, constant contents of a string-kinded list (package-level tables)
	Len     int      // kSlice: exact length + 1 when known (0: unknown) — seeds "list with one member"
}

var (
	avTop = AV{K: kTop}
	avBot = AV{K: kBot}
)

func avConst(c constant.Value) AV { return AV{K: kConst, C: c} }
func avBool(b bool) AV            { return AV{K: kConst, C: constant.MakeBool(b)} }
func avStr(s string) AV           { return AV{K: kConst, C: constant.MakeString(s)} }

func (a AV) isConstBool() (bool, bool) {
	if a.K == kConst && a.C != nil && a.C.Kind() == constant.Bool {
		return constant.BoolVal(a.C), true
	}
	return false, false
}

// definitelyNil reports whether the value is a nil pointer / nil interface / interface holding a nil pointer.
func (a AV) definitelyNilPtr() bool { return a.K == kPtr && a.Nil == nilYes }
func (a AV) nilIface() bool         { return a.K == kIface && a.Nil == nilYes }
func (a AV) typedNil() bool {
	return a.K == kIface && a.Nil == nilNo && a.Dyn != nil && a.Dyn.K == kPtr && a.Dyn.Nil == nilYes
}

func (a AV) String() string {
	switch a.K {
	case kBot:
		return "⊥"
	case kTop:
		return "⊤"
	case kConst:
		return a.C.ExactString()
	case kPtr:
		n := map[tri]string{nilUnknown: "?", nilYes: "nil", nilNo: "nonnil"}[a.Nil]
		t := "?"
		if a.T != nil {
			t = typeName(a.T)
		}
		return fmt.Sprintf("%s(%s)", t, n)
	case kIface:
		if a.Nil == nilYes {
			return "nil-interface"
		}
		if a.Dyn != nil {
			return "iface{" + a.Dyn.String() + "}"
		}
		if a.Nil == nilNo {
			return "iface{nonnil ?}"
		}
		return "iface{?}"
	case kFunc:
		if a.Fn != nil {
			return "func " + funcName(a.Fn)
		}
		return "func(nil)"
	case kExtFn:
		return "callback " + a.Tag
	case kTuple:
		var s []string
		for _, t := range a.Tup {
			s = append(s, t.String())
		}
		return "(" + strings.Join(s, ", ") + ")"
	case kSlice:
		n := map[tri]string{nilUnknown: "?", nilYes: "nil", nilNo: "nonnil"}[a.Nil]
		e := "?"
		if a.Elem != nil {
			e = a.Elem.String()
		}
		t := "[]"
		if a.T != nil {
			t = typeName(a.T)
		}
		if a.Len > 0 {
			return fmt.Sprintf("%s(%s){%s}#%d", t, n, e, a.Len-1)
		}
		return fmt.Sprintf("%s(%s){%s}", t, n, e)
	}
	return "?"
}

func avEqual(a, b AV) bool {
	if a.K != b.K {
		return false
	}
	switch a.K {
	case kBot, kTop:
		return true
	case kConst:
		return a.C.Kind() == b.C.Kind() && constant.Compare(a.C, token.EQL, b.C)
	case kPtr:
		return a.Nil == b.Nil && a.Cell == b.Cell && a.IsElem == b.IsElem && sameType(a.T, b.T) && avPtrEq(a.Pointee, b.Pointee)
	case kIface:
		return a.Nil == b.Nil && avPtrEq(a.Dyn, b.Dyn)
	case kFunc:
		if a.Fn != b.Fn || a.Nil != b.Nil || len(a.Bind) != len(b.Bind) {
			return false
		}
		for i := range a.Bind {
			if !avEqual(a.Bind[i], b.Bind[i]) {
				return false
			}
		}
		return true
	case kExtFn:
		return a.Tag == b.Tag
	case kTuple:
		if len(a.Tup) != len(b.Tup) {
			return false
		}
		for i := range a.Tup {
			if !avEqual(a.Tup[i], b.Tup[i]) {
				return false
			}
		}
		return true
	case kSlice:
		if len(a.Consts) != len(b.Consts) || a.Len != b.Len {
			return false
		}
		for i := range a.Consts {
			if a.Consts[i] != b.Consts[i] {
				return false
			}
		}
		return a.Nil == b.Nil && sameType(a.T, b.T) && avPtrEq(a.Elem, b.Elem)
	}
	return false
}

func avPtrEq(a, b *AV) bool {
	if a == nil || b == nil {
		return a == b
	}
	return avEqual(*a, *b)
}

func sameType(a, b types.Type) bool {
	if a == nil || b == nil {
		return a == b
	}
	return types.Identical(a, b)
}

func joinTri(a, b tri) tri {
	if a == b {
		return a
	}
	return nilUnknown
}

func avJoin(a, b AV) AV {
	if a.K == kBot {
		return b
	}
	if b.K == kBot {
		return a
	}
	if a.K == kTop || b.K == kTop {
		return avTop
	}
	if avEqual(a, b) {
		return a
	}
	if a.K != b.K {
		return avTop
	}
	switch a.K {
	case kPtr:
		r := AV{K: kPtr, Nil: joinTri(a.Nil, b.Nil)}
		if sameType(a.T, b.T) {
			r.T = a.T
		}
		if a.Cell == b.Cell && a.IsElem == b.IsElem {
			r.Cell, r.IsElem = a.Cell, a.IsElem
		}
		if a.Pointee != nil && b.Pointee != nil {
			j := avJoin(*a.Pointee, *b.Pointee)
			r.Pointee = &j
		}
		return r
	case kIface:
		r := AV{K: kIface, Nil: joinTri(a.Nil, b.Nil)}
		if a.Dyn != nil && b.Dyn != nil && sameType(a.Dyn.T, b.Dyn.T) && a.Dyn.K == b.Dyn.K {
			j := avJoin(*a.Dyn, *b.Dyn)
			if j.K != kTop {
				r.Dyn = &j
			}
		}
		if r.Nil == nilUnknown && r.Dyn == nil {
			return avTop
		}
		if r.Nil != nilNo {
			r.Dyn = nil
			if r.Nil == nilUnknown {
				return avTop
			}
		}
		return r
	case kTuple:
		if len(a.Tup) != len(b.Tup) {
			return avTop
		}
		r := AV{K: kTuple, Tup: make([]AV, len(a.Tup))}
		for i := range a.Tup {
			r.Tup[i] = avJoin(a.Tup[i], b.Tup[i])
		}
		return r
	case kSlice:
		r := AV{K: kSlice, Nil: joinTri(a.Nil, b.Nil)}
		if sameType(a.T, b.T) {
			r.T = a.T
		}
		if a.Len == b.Len {
			r.Len = a.Len
		}
		switch {
		case a.Elem != nil && b.Elem != nil:
			j := avJoin(*a.Elem, *b.Elem)
			r.Elem = &j
		case a.Nil == nilYes:
			r.Elem = b.Elem
		case b.Nil == nilYes:
			r.Elem = a.Elem
		}
		return r
	}
	return avTop
}

// ---- store ----

type Store map[*Cell]AV

func (s Store) clone() Store {
	n := make(Store, len(s))
	for k, v := range s {
		n[k] = v
	}
	return n
}

// joinInto joins src into dst; returns true if dst changed.
func storeJoin(dst, src Store) (Store, bool) {
	changed := false
	for k, v := range src {
		if old, ok := dst[k]; ok {
			j := avJoin(old, v)
			if !avEqual(j, old) {
				dst[k] = j
				changed = true
			}
		} else {
			dst[k] = v
			changed = true
		}
	}
	return dst, changed
}

// ---- interpreter ----

type Fault struct {
	Kind  string // nil-invoke | nil-deref | failed-assert | nil-func-call
	Instr ssa.Instruction
	Fn    *ssa.Function
	What  string
	Stack []string
}

type memoEntry struct {
	val   AV
	hit   bool
	depth int
}

type doneEntry struct {
	res      AV
	returned bool
}

type callEvent struct {
	Caller *ssa.Function
	Callee *ssa.Function
	Args   []AV
	Site   ssa.Instruction
}

type Interp struct {
	w         *World
	maxDepth  int
	maxSteps  int
	steps     int
	aborted   string
	faults    []Fault
	faultSeen map[string]bool
	stack     []string
	depth     int
	inprog    map[string]*memoEntry
	done      map[string]doneEntry // completed, store-independent calls
	minHit    int                  // shallowest in-progress frame hit by a recursive call during the current evaluation
	cellSeq   int
	// configuration
	overrides map[ssa.Value]AV                                  // forced abstract results of specific instructions
	stopAt    func(fn *ssa.Function) bool                       // treat as opaque (result Top) but report the call event
	onCall    func(ev callEvent)                                // every resolved call (package functions only)
	postCall  func(callee *ssa.Function, args []AV, res AV) AV  // may refine results (e.g. the IsNil anchor)
	onExtCall func(site ssa.Instruction, tag string, args []AV) // invocation of a caller-supplied callback
	onResult  func(site *ssa.Call, res AV)                      // abstract result of every evaluated call instruction
	globals   map[*ssa.Global]AV                                // known initial values of package-level variables
	profile   map[string]int
	execEdge  map[[2]*ssa.BasicBlock]bool // CFG edges found executable (any activation)
	execInstr map[ssa.Instruction]bool    // instructions reached on executable paths
}

func newInterp(w *World) *Interp {
	ip := &Interp{w: w, maxDepth: interpDepth(), maxSteps: interpSteps(), inprog: map[string]*memoEntry{}, done: map[string]doneEntry{}, minHit: 1 << 30, faultSeen: map[string]bool{},
		overrides: map[ssa.Value]AV{}, execInstr: map[ssa.Instruction]bool{}, execEdge: map[[2]*ssa.BasicBlock]bool{}}
	ip.globals = w.globalInits()
	return ip
}

// globalInits finds package-level variables that the package initialiser sets exactly once to a function
// constant or nil (the "hooks unset" configuration); other globals are unknown.
func (w *World) globalInits() map[*ssa.Global]AV {
	out := map[*ssa.Global]AV{}
	count := map[*ssa.Global]int{}
	for _, f := range w.Funcs {
		for _, b := range f.Blocks {
			for _, in := range b.Instrs {
				st, ok := in.(*ssa.Store)
				if !ok {
					continue
				}
				g, ok := st.Addr.(*ssa.Global)
				if !ok {
					continue
				}
				count[g]++
			}
		}
	}
	initFn := w.SSA.Func("init")
	if initFn == nil {
		return out
	}
	for _, b := range initFn.Blocks {
		for _, in := range b.Instrs {
			if st, ok := in.(*ssa.Store); ok {
				if g, ok := st.Addr.(*ssa.Global); ok {
					count[g]++
				}
			}
		}
	}
	for _, b := range initFn.Blocks {
		for _, in := range b.Instrs {
			st, ok := in.(*ssa.Store)
			if !ok {
				continue
			}
			g, ok := st.Addr.(*ssa.Global)
			if !ok || count[g] != 1 {
				continue
			}
			switch v := st.Val.(type) {
			case *ssa.Function:
				out[g] = AV{K: kFunc, Fn: v, Nil: nilNo}
			case *ssa.ChangeType:
				if fn, ok := v.X.(*ssa.Function); ok {
					out[g] = AV{K: kFunc, Fn: fn, Nil: nilNo}
				}
			case *ssa.Const:
				if v.Value == nil {
					if _, isSig := v.Type().Underlying().(*types.Signature); isSig {
						out[g] = AV{K: kFunc, Nil: nilYes}
					}
				}
			}
		}
	}
	// package-level lists of constants (type-name families, collection-path tables) that are never reassigned
	for name, m := range w.SSA.Members {
		g, ok := m.(*ssa.Global)
		if !ok {
			continue
		}
		sl, isSlice := types.Unalias(derefType(g.Type())).Underlying().(*types.Slice)
		if !isSlice || !isStringish(sl.Elem()) {
			continue
		}
		if vals, _, ok := w.ListVar(name); ok && w.globalStoreCount(g) <= 1 {
			out[g] = AV{K: kSlice, T: derefType(g.Type()), Nil: nilNo, Consts: append([]string{}, vals...)}
		}
	}
	// function-typed globals that are never stored to at all keep their zero value (nil)
	for _, m := range w.SSA.Members {
		g, ok := m.(*ssa.Global)
		if !ok {
			continue
		}
		if _, isSig := derefType(g.Type()).Underlying().(*types.Signature); isSig && count[g] == 0 {
			out[g] = AV{K: kFunc, Nil: nilYes}
		}
	}
	return out
}

// globalStoreCount counts the stores to g anywhere in the package (the initialiser included).
func (w *World) globalStoreCount(g *ssa.Global) int {
	n := 0
	fns := append([]*ssa.Function{}, w.Funcs...)
	if initFn := w.SSA.Func("init"); initFn != nil {
		fns = append(fns, initFn)
	}
	for _, f := range fns {
		for _, b := range f.Blocks {
			for _, in := range b.Instrs {
				if st, ok := in.(*ssa.Store); ok && st.Addr == ssa.Value(g) {
					n++
				}
			}
		}
	}
	return n
}

// isFoldContains recognises the package's membership helpers: a method on a string-kinded list whose only calls
// are strings.EqualFold between an element and the argument.
func isFoldContains(fn *ssa.Function) bool {
	if fn == nil || fn.Signature.Recv() == nil || fn.Signature.Params().Len() != 1 || fn.Signature.Results().Len() != 1 {
		return false
	}
	folds := 0
	for _, b := range fn.Blocks {
		for _, in := range b.Instrs {
			if call, ok := in.(ssa.CallInstruction); ok {
				cal := call.Common().StaticCallee()
				if cal == nil || cal.Object() == nil || cal.Object().Pkg() == nil || cal.Object().Pkg().Path() != "strings" || cal.Name() != "EqualFold" {
					if _, isBuiltin := call.Common().Value.(*ssa.Builtin); isBuiltin {
						continue
					}
					return false
				}
				folds++
			}
		}
	}
	return folds == 1
}

// foldLookup: fn(x) has the shape "range over ONE package-level table, compare x with the element by strings.EqualFold
// (its only call), return the element on a match, a constant otherwise". Returns the table and the constant.
func foldLookup(fn *ssa.Function) (*ssa.Global, constant.Value, bool) {
	if fn == nil || fn.Blocks == nil || fn.Signature.Recv() != nil || len(fn.Params) != 1 || fn.Signature.Results().Len() != 1 {
		return nil, nil, false
	}
	if !isStringish(fn.Params[0].Type()) || !isStringish(fn.Signature.Results().At(0).Type()) {
		return nil, nil, false
	}
	var table *ssa.Global
	var elem ssa.Value
	folds := 0
	for _, b := range fn.Blocks {
		for _, in := range b.Instrs {
			switch x := in.(type) {
			case ssa.CallInstruction:
				if _, isBuiltin := x.Common().Value.(*ssa.Builtin); isBuiltin {
					continue
				}
				cal := x.Common().StaticCallee()
				if cal == nil || cal.Object() == nil || cal.Object().Pkg() == nil || cal.Object().Pkg().Path() != "strings" || cal.Name() != "EqualFold" {
					return nil, nil, false
				}
				folds++
				// one operand is the parameter, the other an element of the table
				var other ssa.Value
				a0, a1 := unwrap(x.Common().Args[0]), unwrap(x.Common().Args[1])
				switch {
				case a0 == ssa.Value(fn.Params[0]):
					other = a1
				case a1 == ssa.Value(fn.Params[0]):
					other = a0
				default:
					return nil, nil, false
				}
				elem = other
			case *ssa.UnOp:
				if g, ok := x.X.(*ssa.Global); ok && x.Op == token.MUL {
					if table != nil && table != g {
						return nil, nil, false
					}
					table = g
				}
			case *ssa.Store, *ssa.MapUpdate, *ssa.Go, *ssa.Defer:
				return nil, nil, false
			}
		}
	}
	if folds != 1 || table == nil || elem == nil {
		return nil, nil, false
	}
	// the element is a load of &table[i]
	ld, ok := elem.(*ssa.UnOp)
	if !ok || ld.Op != token.MUL {
		return nil, nil, false
	}
	ia, ok := ld.X.(*ssa.IndexAddr)
	if !ok {
		return nil, nil, false
	}
	if tl, ok := ia.X.(*ssa.UnOp); !ok || tl.X != ssa.Value(table) {
		return nil, nil, false
	}
	var notFound constant.Value
	for _, rb := range returnBlocks(fn) {
		r := rb.Instrs[len(rb.Instrs)-1].(*ssa.Return).Results[0]
		if k, isConst := r.(*ssa.Const); isConst && k.Value != nil {
			if notFound != nil && !constant.Compare(notFound, token.EQL, k.Value) {
				return nil, nil, false
			}
			notFound = k.Value
			continue
		}
		if unwrap(r) != elem {
			// a second load of the same element
			l2, ok := unwrap(r).(*ssa.UnOp)
			if !ok || l2.Op != token.MUL || l2.X != ld.X {
				return nil, nil, false
			}
		}
	}
	if notFound == nil {
		return nil, nil, false
	}
	return table, notFound, true
}

func zeroAV(t types.Type) AV {
	switch u := types.Unalias(t).Underlying().(type) {
	case *types.Pointer:
		return AV{K: kPtr, T: t, Nil: nilYes}
	case *types.Interface:
		return AV{K: kIface, Nil: nilYes}
	case *types.Slice:
		return AV{K: kSlice, T: t, Nil: nilYes}
	case *types.Signature:
		return AV{K: kFunc, Nil: nilYes}
	case *types.Basic:
		switch {
		case u.Info()&types.IsBoolean != 0:
			return avBool(false)
		case u.Info()&types.IsString != 0:
			return avStr("")
		case u.Info()&types.IsInteger != 0:
			return avConst(constant.MakeInt64(0))
		}
	}
	return avTop
}

type frame struct {
	fn       *ssa.Function
	env      map[ssa.Value]AV
	inStore  map[*ssa.BasicBlock]Store
	edge     map[[2]int]bool
	work     []*ssa.BasicBlock
	inWork   map[*ssa.BasicBlock]bool
	ret      AV
	retStore Store
	returned bool
	cells    map[*ssa.Alloc]*Cell
}

func (ip *Interp) fault(fr *frame, in ssa.Instruction, kind, what string) {
	key := fmt.Sprintf("%s|%s|%p", kind, funcName(fr.fn), in)
	if ip.faultSeen[key] {
		return
	}
	ip.faultSeen[key] = true
	ip.faults = append(ip.faults, Fault{Kind: kind, Instr: in, Fn: fr.fn, What: what, Stack: append([]string(nil), ip.stack...)})
}

func hasCells(as []AV) bool {
	for _, a := range as {
		switch a.K {
		case kPtr:
			if a.Cell != nil {
				return true
			}
			if a.Pointee != nil && hasCells([]AV{*a.Pointee}) {
				return true
			}
		case kIface:
			if a.Dyn != nil && hasCells([]AV{*a.Dyn}) {
				return true
			}
		case kFunc:
			if hasCells(a.Bind) {
				return true
			}
		case kSlice:
			if a.Elem != nil && hasCells([]AV{*a.Elem}) {
				return true
			}
		case kTuple:
			if hasCells(a.Tup) {
				return true
			}
		}
	}
	return false
}

func argsKey(fn *ssa.Function, args []AV) string {
	var sb strings.Builder
	fmt.Fprintf(&sb, "%p", fn)
	for _, a := range args {
		sb.WriteString("|")
		sb.WriteString(a.String())
		if a.K == kPtr && a.Cell != nil {
			fmt.Fprintf(&sb, "#%d", a.Cell.id)
		}
	}
	return sb.String()
}

// Call evaluates fn on abstract arguments (receiver first) with free-variable bindings, threading the store.
func (ip *Interp) Call(fn *ssa.Function, args []AV, bind []AV, st Store, site ssa.Instruction) (AV, Store, bool) {
	if fn == nil || fn.Blocks == nil {
		return avTop, st, true
	}
	if ip.aborted != "" {
		return avTop, st, true
	}
	if ip.depth >= ip.maxDepth {
		ip.aborted = "call depth bound reached in " + funcName(fn)
		return avTop, st, true
	}
	key := argsKey(fn, args)
	for _, b := range bind {
		key += "^" + b.String()
		if b.K == kPtr && b.Cell != nil {
			key += fmt.Sprintf("#%d", b.Cell.id)
		}
	}
	cellFree := !hasCells(args) && !hasCells(bind)
	if cellFree {
		if d, ok := ip.done[key]; ok {
			return d.res, st, d.returned
		}
	}
	if memo, busy := ip.inprog[key]; busy {
		// recursive call with the same abstract arguments: optimistic (⊥ first, then the previous iterate)
		memo.hit = true
		if memo.depth < ip.minHit {
			ip.minHit = memo.depth
		}
		if memo.val.K == kBot {
			return avBot, st, false
		}
		return memo.val, st, true
	}
	memo := &memoEntry{val: avBot, depth: ip.depth}
	ip.inprog[key] = memo
	defer delete(ip.inprog, key)
	myDepth := ip.depth
	savedMin := ip.minHit
	ip.minHit = 1 << 30
	ip.depth++
	label := funcName(fn)
	if site != nil {
		label = fmt.Sprintf("%s (called at %s)", label, ip.w.InstrPos(site))
	}
	ip.stack = append(ip.stack, label)
	defer func() { ip.depth--; ip.stack = ip.stack[:len(ip.stack)-1] }()

	var res AV
	var out Store
	var returned bool
	for iter := 0; iter < 4; iter++ {
		memo.hit = false
		res, out, returned = ip.runFrame(fn, args, bind, st)
		if !memo.hit || avEqual(res, memo.val) {
			break
		}
		memo.val = avJoin(memo.val, res)
	}
	mine := ip.minHit
	if mine >= myDepth && cellFree && ip.aborted == "" {
		// the evaluation did not depend on an unfinished ancestor: the result is final and store-independent
		ip.done[key] = doneEntry{res: res, returned: returned}
	}
	if mine < myDepth && mine < savedMin {
		savedMin = mine
	}
	ip.minHit = savedMin
	return res, out, returned
}

func (ip *Interp) runFrame(fn *ssa.Function, args []AV, bind []AV, st Store) (AV, Store, bool) {
	fr := &frame{fn: fn, env: map[ssa.Value]AV{}, inStore: map[*ssa.BasicBlock]Store{}, edge: map[[2]int]bool{},
		inWork: map[*ssa.BasicBlock]bool{}, ret: avBot, cells: map[*ssa.Alloc]*Cell{}}
	for i, p := range fn.Params {
		if i < len(args) {
			fr.env[p] = args[i]
		} else {
			fr.env[p] = avTop
		}
	}
	for i, fv := range fn.FreeVars {
		if i < len(bind) {
			fr.env[fv] = bind[i]
		} else {
			fr.env[fv] = avTop
		}
	}
	entry := fn.Blocks[0]
	fr.inStore[entry] = st.clone()
	fr.push(entry)
	for len(fr.work) > 0 {
		b := fr.work[0]
		fr.work = fr.work[1:]
		fr.inWork[b] = false
		ip.runBlock(fr, b)
		if ip.aborted != "" {
			return avTop, st, true
		}
	}
	if !fr.returned {
		return avBot, st, false
	}
	return fr.ret, gcStore(fr.retStore, st, fr.ret), true
}

// gcStore drops cells created during a call that are no longer reachable from the caller's cells or from the
// returned value, so that dead callee locals do not make the caller's store grow on every call.
func gcStore(out, entry Store, ret AV) Store {
	live := map[*Cell]bool{}
	var mark func(a AV, d int)
	mark = func(a AV, d int) {
		if d > 6 {
			return
		}
		switch a.K {
		case kPtr:
			if a.Cell != nil && !live[a.Cell] {
				live[a.Cell] = true
				if v, ok := out[a.Cell]; ok {
					mark(v, d+1)
				}
			}
			if a.Pointee != nil {
				mark(*a.Pointee, d+1)
			}
		case kIface:
			if a.Dyn != nil {
				mark(*a.Dyn, d+1)
			}
		case kFunc:
			for _, b := range a.Bind {
				mark(b, d+1)
			}
		case kSlice:
			if a.Elem != nil {
				mark(*a.Elem, d+1)
			}
		case kTuple:
			for _, t := range a.Tup {
				mark(t, d+1)
			}
		}
	}
	for c := range entry {
		if !live[c] {
			live[c] = true
			if v, ok := out[c]; ok {
				mark(v, 0)
			}
		}
	}
	mark(ret, 0)
	for c := range out {
		if !live[c] {
			delete(out, c)
		}
	}
	return out
}

func (fr *frame) push(b *ssa.BasicBlock) {
	if !fr.inWork[b] {
		fr.inWork[b] = true
		fr.work = append(fr.work, b)
	}
}

func (fr *frame) set(v ssa.Value, a AV) {
	old, ok := fr.env[v]
	if ok {
		a = avJoin(old, a)
		if avEqual(a, old) {
			return
		}
	}
	fr.env[v] = a
	if refs := v.Referrers(); refs != nil {
		for _, r := range *refs {
			if rb := r.Block(); rb != nil && rb != nil {
				if _, reached := fr.inStore[rb]; reached {
					fr.push(rb)
				}
			}
		}
	}
}

func (ip *Interp) val(fr *frame, v ssa.Value) AV {
	if ov, ok := ip.overrides[v]; ok {
		return ov
	}
	switch x := v.(type) {
	case *ssa.Const:
		if x.Value == nil {
			return zeroAV(x.Type())
		}
		return avConst(x.Value)
	case *ssa.Function:
		return AV{K: kFunc, Fn: x, Nil: nilNo}
	case *ssa.Global:
		return AV{K: kPtr, T: x.Type(), Nil: nilNo}
	case *ssa.Builtin:
		return avTop
	}
	if a, ok := fr.env[v]; ok {
		return a
	}
	return avBot
}

func (ip *Interp) takeEdge(fr *frame, from, to *ssa.BasicBlock, st Store) {
	ip.execEdge[[2]*ssa.BasicBlock{from, to}] = true
	k := [2]int{from.Index, to.Index}
	newEdge := !fr.edge[k]
	fr.edge[k] = true
	cur, seen := fr.inStore[to]
	if !seen {
		fr.inStore[to] = st.clone()
		fr.push(to)
		return
	}
	_, changed := storeJoin(cur, st)
	if changed || newEdge {
		fr.push(to)
	}
}

func (ip *Interp) runBlock(fr *frame, b *ssa.BasicBlock) {
	st := fr.inStore[b].clone()
	for _, in := range b.Instrs {
		ip.steps++
		if ip.profile != nil {
			ip.profile[funcName(fr.fn)]++
		}
		if ip.steps > ip.maxSteps {
			ip.aborted = "step bound reached"
			return
		}
		ip.execInstr[in] = true
		switch x := in.(type) {
		case *ssa.Phi:
			r := avBot
			for i, p := range b.Preds {
				if fr.edge[[2]int{p.Index, b.Index}] {
					r = avJoin(r, ip.val(fr, x.Edges[i]))
				}
			}
			fr.set(x, ip.ov(x, r))
		case *ssa.If:
			c := ip.val(fr, x.Cond)
			if c.K == kBot {
				return
			}
			if bv, ok := c.isConstBool(); ok {
				if bv {
					ip.takeEdge(fr, b, b.Succs[0], st)
				} else {
					ip.takeEdge(fr, b, b.Succs[1], st)
				}
			} else {
				ip.takeEdge(fr, b, b.Succs[0], st)
				ip.takeEdge(fr, b, b.Succs[1], st)
			}
			return
		case *ssa.Jump:
			ip.takeEdge(fr, b, b.Succs[0], st)
			return
		case *ssa.Return:
			var r AV
			switch len(x.Results) {
			case 0:
				r = AV{K: kTuple}
			case 1:
				r = ip.val(fr, x.Results[0])
			default:
				r = AV{K: kTuple, Tup: make([]AV, len(x.Results))}
				for i, rv := range x.Results {
					r.Tup[i] = ip.val(fr, rv)
				}
			}
			if !fr.returned {
				fr.ret, fr.retStore, fr.returned = r, st.clone(), true
			} else {
				fr.ret = avJoin(fr.ret, r)
				fr.retStore, _ = storeJoin(fr.retStore, st)
			}
			return
		case *ssa.Panic:
			return
		case *ssa.Store:
			addr := ip.val(fr, x.Addr)
			v := ip.val(fr, x.Val)
			if addr.K == kBot || v.K == kBot {
				return
			}
			if addr.definitelyNilPtr() {
				ip.fault(fr, in, "nil-deref", "store through a nil pointer "+addr.String())
				return
			}
			if addr.K == kPtr && addr.Cell != nil {
				if addr.IsElem {
					cur := st[addr.Cell]
					if cur.K == kSlice && cur.Elem != nil {
						j := avJoin(*cur.Elem, v)
						cur.Elem = &j
					} else {
						vv := v
						cur = AV{K: kSlice, Nil: nilNo, Elem: &vv}
					}
					st[addr.Cell] = cur
				} else {
					st[addr.Cell] = v
				}
			}
		case *ssa.MapUpdate, *ssa.DebugRef, *ssa.RunDefers:
			// no abstract effect
		case *ssa.Defer, *ssa.Go, *ssa.Send:
			// not used by the package; ignore
		case ssa.Value:
			if o, forced := ip.overrides[x]; forced {
				fr.set(x, o)
				continue
			}
			r, cont := ip.evalValue(fr, x, &st)
			if !cont {
				return
			}
			if r.K == kBot {
				// an operand is not yet available (optimistic): stop this pass over the block
				return
			}
			fr.set(x, ip.ov(x, r))
		}
	}
}

func (ip *Interp) ov(v ssa.Value, r AV) AV {
	if o, ok := ip.overrides[v]; ok {
		return o
	}
	return r
}

// evalValue computes the abstract value of a value-producing instruction. cont=false means control does not
// continue past it on this path (definite fault, or a call that never returns).
func (ip *Interp) evalValue(fr *frame, v ssa.Value, st *Store) (AV, bool) {
	switch x := v.(type) {
	case *ssa.Alloc:
		c := fr.cells[x]
		if c == nil {
			ip.cellSeq++
			_, isArr := derefType(x.Type()).Underlying().(*types.Array)
			c = &Cell{id: ip.cellSeq, name: x.Comment, isArray: isArr}
			fr.cells[x] = c
		}
		if c.isArray {
			(*st)[c] = AV{K: kSlice, Nil: nilNo}
		} else {
			(*st)[c] = zeroAV(derefType(x.Type()))
		}
		return AV{K: kPtr, T: x.Type(), Nil: nilNo, Cell: c}, true
	case *ssa.MakeInterface:
		a := ip.val(fr, x.X)
		if a.K == kBot {
			return avBot, true
		}
		d := a
		if d.K == kTop || d.K == kConst {
			d = AV{K: kTop}
		}
		d.T = x.X.Type()
		return AV{K: kIface, Nil: nilNo, Dyn: &d}, true
	case *ssa.ChangeInterface:
		return ip.val(fr, x.X), true
	case *ssa.ChangeType:
		a := ip.val(fr, x.X)
		if a.K == kPtr || a.K == kSlice {
			a.T = x.Type()
		}
		return a, true
	case *ssa.Convert:
		a := ip.val(fr, x.X)
		switch a.K {
		case kBot:
			return avBot, true
		case kPtr:
			// pointer <-> unsafe.Pointer <-> pointer keeps nilness; the cell is only kept when the pointee type is unchanged
			r := AV{K: kPtr, T: x.Type(), Nil: a.Nil}
			return r, true
		case kConst:
			if isStringish(x.Type()) && isStringish(x.X.Type()) {
				return a, true
			}
			return avTop, true
		}
		if _, isPtr := types.Unalias(x.Type()).Underlying().(*types.Pointer); isPtr {
			return AV{K: kPtr, T: x.Type(), Nil: nilUnknown}, true
		}
		return avTop, true
	case *ssa.TypeAssert:
		return ip.evalTypeAssert(fr, x)
	case *ssa.Extract:
		t := ip.val(fr, x.Tuple)
		if t.K == kBot {
			return avBot, true
		}
		if t.K == kTuple && x.Index < len(t.Tup) {
			return t.Tup[x.Index], true
		}
		return avTop, true
	case *ssa.BinOp:
		return ip.evalBinOp(fr, x), true
	case *ssa.UnOp:
		a := ip.val(fr, x.X)
		if a.K == kBot {
			return avBot, true
		}
		switch x.Op {
		case token.NOT:
			if b, ok := a.isConstBool(); ok {
				return avBool(!b), true
			}
			return avTop, true
		case token.MUL:
			if g, ok := x.X.(*ssa.Global); ok {
				if gv, known := ip.globals[g]; known {
					return gv, true
				}
				return topOfType(x.Type()), true
			}
			if a.definitelyNilPtr() {
				ip.fault(fr, x, "nil-deref", fmt.Sprintf("load through nil pointer %s", a.String()))
				return avBot, false
			}
			if a.K == kPtr && a.Cell != nil && !a.IsElem {
				if cv, ok := (*st)[a.Cell]; ok {
					if cv.K == kSlice && a.Cell.isArray {
						return avTop, true
					}
					return cv, true
				}
				return avTop, true
			}
			if a.K == kPtr && a.Cell != nil && a.IsElem {
				if cv, ok := (*st)[a.Cell]; ok && cv.K == kSlice && cv.Elem != nil {
					return *cv.Elem, true
				}
				return avTop, true
			}
			if a.K == kPtr && a.Pointee != nil {
				return *a.Pointee, true
			}
			return topOfType(x.Type()), true
		case token.SUB:
			if a.K == kConst && a.C.Kind() == constant.Int {
				return avConst(constant.UnaryOp(token.SUB, a.C, 0)), true
			}
		}
		return avTop, true
	case *ssa.FieldAddr:
		a := ip.val(fr, x.X)
		if a.K == kBot {
			return avBot, true
		}
		if a.definitelyNilPtr() {
			ip.fault(fr, x, "nil-deref", fmt.Sprintf("field %s accessed through nil pointer %s", fieldNameOf(x.X.Type(), x.Field), a.String()))
			return avBot, false
		}
		return AV{K: kPtr, T: x.Type(), Nil: nilNo}, true
	case *ssa.Field:
		return topOfType(x.Type()), true
	case *ssa.IndexAddr:
		a := ip.val(fr, x.X)
		if a.K == kBot {
			return avBot, true
		}
		if a.definitelyNilPtr() {
			ip.fault(fr, x, "nil-deref", "index through nil array pointer")
			return avBot, false
		}
		if a.K == kPtr && a.Cell != nil && a.Cell.isArray {
			return AV{K: kPtr, T: x.Type(), Nil: nilNo, Cell: a.Cell, IsElem: true}, true
		}
		if a.K == kSlice && a.Elem != nil {
			e := *a.Elem
			return AV{K: kPtr, T: x.Type(), Nil: nilNo, Pointee: &e}, true
		}
		return AV{K: kPtr, T: x.Type(), Nil: nilNo}, true
	case *ssa.Index:
		a := ip.val(fr, x.X)
		if a.K == kSlice && a.Elem != nil {
			return *a.Elem, true
		}
		return topOfType(x.Type()), true
	case *ssa.Slice:
		a := ip.val(fr, x.X)
		if a.K == kBot {
			return avBot, true
		}
		if a.K == kPtr && a.Cell != nil && a.Cell.isArray {
			cv := (*st)[a.Cell]
			r := AV{K: kSlice, T: x.Type(), Nil: nilNo}
			if cv.K == kSlice {
				r.Elem = cv.Elem
			}
			return r, true
		}
		if a.K == kSlice {
			r := a
			r.T = x.Type()
			return r, true
		}
		if _, isSl := types.Unalias(x.Type()).Underlying().(*types.Slice); isSl {
			return AV{K: kSlice, T: x.Type(), Nil: nilUnknown}, true
		}
		return avTop, true
	case *ssa.MakeSlice:
		return AV{K: kSlice, T: x.Type(), Nil: nilNo}, true
	case *ssa.MakeMap, *ssa.MakeChan:
		return avTop, true
	case *ssa.MakeClosure:
		fn := x.Fn.(*ssa.Function)
		b := make([]AV, len(x.Bindings))
		for i, bv := range x.Bindings {
			b[i] = ip.val(fr, bv)
			if b[i].K == kBot {
				return avBot, true
			}
		}
		return AV{K: kFunc, Fn: fn, Bind: b, Nil: nilNo}, true
	case *ssa.Lookup:
		if x.CommaOk {
			return AV{K: kTuple, Tup: []AV{avTop, avTop}}, true
		}
		return avTop, true
	case *ssa.Range:
		return avTop, true
	case *ssa.Next:
		return AV{K: kTuple, Tup: []AV{avTop, avTop, avTop}}, true
	case *ssa.Call:
		r, ok := ip.evalCall(fr, x, st)
		if ip.onResult != nil {
			ip.onResult(x, r)
		}
		return r, ok
	case *ssa.SliceToArrayPointer, *ssa.MultiConvert, *ssa.Select:
		return avTop, true
	}
	return avTop, true
}

func fieldNameOf(ptrT types.Type, idx int) string {
	if st, ok := derefType(ptrT).Underlying().(*types.Struct); ok && idx < st.NumFields() {
		return st.Field(idx).Name()
	}
	return fmt.Sprintf("#%d", idx)
}

func topOfType(t types.Type) AV {
	switch types.Unalias(t).Underlying().(type) {
	case *types.Pointer:
		return AV{K: kPtr, T: t, Nil: nilUnknown}
	case *types.Slice:
		return AV{K: kSlice, T: t, Nil: nilUnknown}
	}
	return avTop
}

func isStringish(t types.Type) bool {
	b, ok := types.Unalias(t).Underlying().(*types.Basic)
	return ok && b.Info()&types.IsString != 0
}

func (ip *Interp) evalTypeAssert(fr *frame, x *ssa.TypeAssert) (AV, bool) {
	a := ip.val(fr, x.X)
	if a.K == kBot {
		return avBot, true
	}
	mk := func(ok tri, val AV) (AV, bool) {
		if x.CommaOk {
			okv := avTop
			if ok == nilYes { // reuse tri: nilYes = definitely ok
				okv = avBool(true)
			} else if ok == nilNo {
				okv = avBool(false)
			}
			return AV{K: kTuple, Tup: []AV{val, okv}}, true
		}
		if ok == nilNo {
			ip.fault(fr, x, "failed-assert", fmt.Sprintf("single-result type assertion to %s on %s always fails (panics)", typeName(x.AssertedType), a.String()))
			return avBot, false
		}
		return val, true
	}
	_, toIface := types.Unalias(x.AssertedType).Underlying().(*types.Interface)
	if a.K == kIface && a.Nil == nilYes {
		return mk(nilNo, zeroAV(x.AssertedType))
	}
	if a.K == kIface && a.Nil == nilNo && a.Dyn != nil && a.Dyn.T != nil {
		d := a.Dyn.T
		if toIface {
			if types.Implements(d, types.Unalias(x.AssertedType).Underlying().(*types.Interface)) {
				return mk(nilYes, a)
			}
			return mk(nilNo, zeroAV(x.AssertedType))
		}
		if types.Identical(d, x.AssertedType) {
			dv := *a.Dyn
			if dv.K == kTop {
				dv = topOfType(x.AssertedType)
			}
			return mk(nilYes, dv)
		}
		return mk(nilNo, zeroAV(x.AssertedType))
	}
	if toIface {
		return mk(nilUnknown, avTop)
	}
	return mk(nilUnknown, topOfType(x.AssertedType))
}

func (ip *Interp) evalBinOp(fr *frame, x *ssa.BinOp) AV {
	a, b := ip.val(fr, x.X), ip.val(fr, x.Y)
	if a.K == kBot || b.K == kBot {
		return avBot
	}
	switch x.Op {
	case token.EQL, token.NEQ:
		eq, known := absEqual(a, b, x.X.Type())
		if known {
			if x.Op == token.NEQ {
				eq = !eq
			}
			return avBool(eq)
		}
		return avTop
	case token.LSS, token.LEQ, token.GTR, token.GEQ:
		if a.K == kConst && b.K == kConst && a.C.Kind() == b.C.Kind() && (a.C.Kind() == constant.Int || a.C.Kind() == constant.String || a.C.Kind() == constant.Float) {
			return avBool(constant.Compare(a.C, x.Op, b.C))
		}
		return avTop
	case token.ADD, token.SUB, token.MUL:
		if a.K == kConst && b.K == kConst && a.C.Kind() == constant.Int && b.C.Kind() == constant.Int {
			return avConst(constant.BinaryOp(a.C, x.Op, b.C))
		}
		if x.Op == token.ADD && a.K == kConst && b.K == kConst && a.C.Kind() == constant.String && b.C.Kind() == constant.String {
			return avConst(constant.BinaryOp(a.C, token.ADD, b.C))
		}
		return avTop
	}
	return avTop
}

// absEqual decides x == y where possible.
func absEqual(a, b AV, staticT types.Type) (eq, known bool) {
	if a.K == kConst && b.K == kConst {
		if a.C.Kind() != b.C.Kind() {
			return false, false
		}
		return constant.Compare(a.C, token.EQL, b.C), true
	}
	isNilLit := func(v AV) bool {
		switch v.K {
		case kPtr, kIface, kSlice, kFunc:
			return v.Nil == nilYes && v.Dyn == nil && v.Cell == nil
		}
		return false
	}
	cmpNil := func(v AV) (bool, bool) {
		switch v.K {
		case kPtr, kSlice, kFunc, kIface:
			switch v.Nil {
			case nilYes:
				return true, true
			case nilNo:
				return false, true
			}
		case kExtFn:
			return false, true
		}
		return false, false
	}
	// comparisons against a nil literal of the same static type
	if isNilLit(b) {
		return cmpNil(a)
	}
	if isNilLit(a) {
		return cmpNil(b)
	}
	return false, false
}

var errorCtors = map[string]bool{
	"fmt.Errorf": true, "errors.New": true,
	"github.com/go-ap/errors.Newf": true, "github.com/go-ap/errors.Errorf": true, "github.com/go-ap/errors.New": true,
	"github.com/go-ap/errors.NotFoundf": true, "github.com/go-ap/errors.NewNotFound": true,
}

func (ip *Interp) evalCall(fr *frame, x *ssa.Call, st *Store) (AV, bool) {
	cc := x.Common()
	args := make([]AV, len(cc.Args))
	for i, a := range cc.Args {
		args[i] = ip.val(fr, a)
		if args[i].K == kBot {
			return avBot, true
		}
	}
	resT := x.Type()
	unknownResult := func() AV { return topOfResult(resT) }

	if cc.IsInvoke() {
		recv := ip.val(fr, cc.Value)
		if recv.K == kBot {
			return avBot, true
		}
		if recv.nilIface() {
			ip.fault(fr, x, "nil-invoke", fmt.Sprintf("method %s invoked on a nil interface", cc.Method.Name()))
			return avBot, false
		}
		// reflect.TypeOf(a).ConvertibleTo(reflect.TypeOf(b)) with both dynamic types known (the inline reflection fallback
		// of the typed views)
		if recv.Tag == "reflect.Type" && recv.T != nil && cc.Method.Name() == "ConvertibleTo" && len(args) == 1 && args[0].Tag == "reflect.Type" && args[0].T != nil {
			return avBool(types.ConvertibleTo(recv.T, args[0].T)), true
		}
		if recv.K == kIface && recv.Nil == nilNo && recv.Dyn != nil && recv.Dyn.T != nil {
			sel := ip.w.Prog.MethodSets.MethodSet(recv.Dyn.T).Lookup(cc.Method.Pkg(), cc.Method.Name())
			if sel != nil {
				fn := ip.w.Prog.MethodValue(sel)
				if fn != nil && fn.Blocks != nil && (ip.w.InPkg(fn) || fn.Synthetic != "") {
					dv := *recv.Dyn
					if dv.K == kTop {
						dv = topOfType(recv.Dyn.T)
					}
					return ip.callFn(fr, x, fn, append([]AV{dv}, args...), nil, st)
				}
			}
		}
		ip.escape(args, st)
		return unknownResult(), true
	}
	switch callee := cc.Value.(type) {
	case *ssa.Builtin:
		r := ip.evalBuiltin(fr, x, callee, args, st)
		if r.K == kBot {
			return avBot, false
		}
		return r, true
	case *ssa.Function:
		return ip.callFn(fr, x, callee, args, nil, st)
	case *ssa.MakeClosure:
		fv := ip.val(fr, callee)
		if fv.K == kFunc && fv.Fn != nil {
			return ip.callFn(fr, x, fv.Fn, args, fv.Bind, st)
		}
	default:
		fv := ip.val(fr, cc.Value)
		switch {
		case fv.K == kBot:
			return avBot, true
		case fv.K == kFunc && fv.Nil == nilYes:
			ip.fault(fr, x, "nil-func-call", "call of a nil function value")
			return avBot, false
		case fv.K == kFunc && fv.Fn != nil:
			return ip.callFn(fr, x, fv.Fn, args, fv.Bind, st)
		case fv.K == kExtFn:
			if ip.onExtCall != nil {
				ip.onExtCall(x, fv.Tag, args)
			}
			ip.escape(args, st)
			return unknownResult(), true
		}
	}
	ip.escape(args, st)
	return unknownResult(), true
}

func topOfResult(t types.Type) AV {
	if tup, ok := t.(*types.Tuple); ok {
		r := AV{K: kTuple, Tup: make([]AV, tup.Len())}
		for i := 0; i < tup.Len(); i++ {
			r.Tup[i] = topOfType(tup.At(i).Type())
		}
		return r
	}
	return topOfType(t)
}

func (ip *Interp) callFn(fr *frame, site *ssa.Call, fn *ssa.Function, args []AV, bind []AV, st *Store) (AV, bool) {
	resT := site.Type()
	inPkg := ip.w.InPkg(fn) || (fn.Synthetic != "" && fn.Blocks != nil && fn.Pkg == nil) || (fn.Origin() != nil && ip.w.InPkg(fn.Origin()))
	if ip.onCall != nil && (inPkg || ip.w.InPkg(fn)) {
		ip.onCall(callEvent{Caller: fr.fn, Callee: fn, Args: args, Site: site})
	}
	if !inPkg || fn.Blocks == nil {
		full := ""
		if fn.Object() != nil && fn.Object().Pkg() != nil {
			full = fn.Object().Pkg().Path() + "." + fn.Name()
		}
		// modelled externals
		if errorCtors[full] {
			return AV{K: kIface, Nil: nilNo}, true
		}
		switch full {
		case "reflect.TypeOf":
			if len(args) == 1 && args[0].nilIface() {
				return AV{K: kIface, Nil: nilYes}, true // reflect.TypeOf(nil) == nil
			}
			if len(args) == 1 && args[0].K == kIface && args[0].Nil == nilNo {
				r := AV{K: kIface, Nil: nilNo}
				if args[0].Dyn != nil && args[0].Dyn.T != nil {
					// the reflect.Type of a value whose dynamic type is known: remembered for ConvertibleTo
					r.Tag, r.T = "reflect.Type", args[0].Dyn.T
				}
				return r, true
			}
		case "strings.EqualFold":
			if len(args) == 2 && args[0].K == kConst && args[1].K == kConst {
				return avBool(strings.EqualFold(constant.StringVal(args[0].C), constant.StringVal(args[1].C))), true
			}
		}
		ip.escape(args, st)
		return topOfResult(resT), true
	}
	if ip.stopAt != nil && ip.stopAt(fn) {
		ip.escape(args, st)
		r := topOfResult(resT)
		if ip.postCall != nil {
			r = ip.postCall(fn, args, r)
		}
		return r, true
	}
	// membership in a constant package-level table, decided exactly
	if len(args) == 2 && args[0].K == kSlice && args[0].Consts != nil && args[1].K == kConst && args[1].C.Kind() == constant.String && isFoldContains(fn) {
		want := constant.StringVal(args[1].C)
		for _, e := range args[0].Consts {
			if strings.EqualFold(e, want) {
				return avBool(true), true
			}
		}
		return avBool(false), true
	}
	// the reflection fallback of the typed views: reflectItemToType[T](it) converts it to *T when reflect says the
	// dynamic type is convertible — for a non-nil pointer to a package struct that is types.ConvertibleTo — and returns
	// (nil, error) otherwise. Decided exactly when the dynamic type of the argument is known.
	if o := fn.Origin(); o != nil && o.Name() == "reflectItemToType" && len(args) == 1 && len(fn.TypeArgs()) == 1 {
		a := args[0]
		if a.K == kIface && a.Nil == nilNo && a.Dyn != nil && a.Dyn.T != nil && a.Dyn.Nil == nilNo {
			target := types.NewPointer(fn.TypeArgs()[0])
			if !types.ConvertibleTo(a.Dyn.T, target) {
				return AV{K: kTuple, Tup: []AV{{K: kPtr, T: target, Nil: nilYes}, {K: kIface, Nil: nilNo}}}, true
			}
		}
	}
	// lookup in a constant package-level table (for _, t := range table { if EqualFold(x, t) { return t } }; return
	// notFound), decided exactly for a constant argument
	if len(args) == 1 && args[0].K == kConst && args[0].C.Kind() == constant.String {
		if g, notFound, ok := foldLookup(fn); ok {
			if tbl, known := ip.globals[g]; known && tbl.K == kSlice && tbl.Consts != nil && ip.w.globalStoreCount(g) <= 1 {
				want := constant.StringVal(args[0].C)
				for _, e := range tbl.Consts {
					if strings.EqualFold(e, want) {
						return AV{K: kConst, C: constant.MakeString(e), T: resT}, true
					}
				}
				return AV{K: kConst, C: notFound, T: resT}, true
			}
		}
	}
	res, out, returned := ip.Call(fn, args, bind, *st, site)
	if !returned {
		return avBot, false
	}
	*st = out.clone()
	if ip.postCall != nil {
		res = ip.postCall(fn, args, res)
	}
	if res.K == kTop {
		res = topOfResult(resT)
	}
	return res, true
}

// escape: cells reachable from arguments of an opaque call may be written by it.
func (ip *Interp) escape(args []AV, st *Store) {
	var visit func(a AV, d int)
	visit = func(a AV, d int) {
		if d > 4 {
			return
		}
		switch a.K {
		case kPtr:
			if a.Cell != nil {
				if cur, ok := (*st)[a.Cell]; ok {
					(*st)[a.Cell] = avTop
					visit(cur, d+1)
				}
			}
		case kFunc:
			for _, b := range a.Bind {
				visit(b, d+1)
			}
		case kIface:
			if a.Dyn != nil {
				visit(*a.Dyn, d+1)
			}
		}
	}
	for _, a := range args {
		visit(a, 0)
	}
}

func (ip *Interp) evalBuiltin(fr *frame, site *ssa.Call, b *ssa.Builtin, args []AV, st *Store) AV {
	switch b.Name() {
	case "ssa:wrapnilchk":
		// wrapper of a value-receiver method called through a pointer: panics when the pointer is nil
		if len(args) >= 1 {
			if args[0].definitelyNilPtr() {
				what := "value-receiver method called through a nil pointer"
				if len(args) == 3 && args[1].K == kConst && args[2].K == kConst {
					what = fmt.Sprintf("value-receiver method %s.%s called through a nil pointer (implicit dereference)", constant.StringVal(args[1].C), constant.StringVal(args[2].C))
				}
				ip.fault(fr, site, "nil-deref", what)
				return avBot
			}
			return args[0]
		}
		return avTop
	case "len", "cap":
		if len(args) == 1 {
			a := args[0]
			if a.K == kSlice && a.Nil == nilYes {
				return avConst(constant.MakeInt64(0))
			}
			if a.K == kSlice && a.Len > 0 && b.Name() == "len" {
				return avConst(constant.MakeInt64(int64(a.Len - 1)))
			}
			if a.K == kConst && a.C.Kind() == constant.String && b.Name() == "len" {
				return avConst(constant.MakeInt64(int64(len(constant.StringVal(a.C)))))
			}
		}
		return avTop
	case "append":
		if len(args) == 2 {
			base, more := args[0], args[1]
			r := AV{K: kSlice, T: site.Type(), Nil: nilUnknown}
			var e *AV
			if base.K == kSlice {
				e = base.Elem
				if base.Nil == nilNo {
					r.Nil = nilNo
				}
			} else if base.K != kSlice {
				return AV{K: kSlice, T: site.Type(), Nil: nilUnknown}
			}
			if more.K == kSlice {
				if more.Elem != nil {
					if e != nil {
						j := avJoin(*e, *more.Elem)
						e = &j
					} else if base.Nil == nilYes || base.Elem == nil && base.Nil == nilNo {
						e = more.Elem
					}
					if more.Nil == nilNo {
						// at least possibly one element appended; a non-nil argument slice from a literal has >= 1 element
						r.Nil = nilNo
					}
				}
			} else {
				e = nil
			}
			r.Elem = e
			return r
		}
		return avTop
	}
	return avTop
}

// ---- helpers for seeding ----

func avIface(dynT types.Type, dyn AV) AV {
	d := dyn
	d.T = dynT
	return AV{K: kIface, Nil: nilNo, Dyn: &d}
}

func avNonNilPtr(t types.Type) AV { return AV{K: kPtr, T: t, Nil: nilNo} }
func avNilPtr(t types.Type) AV    { return AV{K: kPtr, T: t, Nil: nilYes} }

func (ip *Interp) faultStrings() []string {
	var out []string
	for _, f := range ip.faults {
		out = append(out, fmt.Sprintf("%s in %s at %s: %s", f.Kind, funcName(f.Fn), ip.w.InstrPos(f.Instr), f.What))
	}
	sort.Strings(out)
	return out
}

func (ip *Interp) dumpProfile() {
	type kv struct {
		k string
		v int
	}
	var kvs []kv
	for k, v := range ip.profile {
		kvs = append(kvs, kv{k, v})
	}
	sort.Slice(kvs, func(i, j int) bool { return kvs[i].v > kvs[j].v })
	for i := 0; i < len(kvs) && i < 15; i++ {
		fmt.Printf("     prof %8d %s\n", kvs[i].v, kvs[i].k)
	}
}

func interpDepth() int {
	if thoroughBounds {
		return 40
	}
	return 24
}

func interpSteps() int {
	if thoroughBounds {
		return 1000000
	}
	return 150000
}
