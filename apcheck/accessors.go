package main

import (
	"fmt"
	"go/constant"
	"go/token"
	"go/types"
	"sort"
	"strings"

	"golang.org/x/tools/go/ssa"
)

// Accessor discipline (sibling agreement): every vocabulary struct answers the six Item accessors the same way —
// GetType is the Type field, GetID the ID field, GetLink the ID field seen as an IRI, and the three kind predicates are
// constants of the Go type. The comparison, de-duplication, flattening and list functions are all written against
// exactly that: Object.Equals compares its own Type FIELD with the other side's GetType(), the recipient
// de-duplicator skips whatever is neither IsObject nor IsLink, ItemsEqual matches an IRI with an item by GetLink(),
// FlattenToIRI replaces whatever has a non-empty GetLink(). One type whose accessor computes something else ("default
// the type when empty", "fall back to the url", "an object only when typed") breaks those functions for values of that
// type only, with their own text unchanged.
//
// Link is the one frozen exception for the kind predicates: it decides IsLink/IsObject from its Type field (a Link
// typed "Object" is an object); the rule there is that nothing but the Type field is consulted.
var accessorField = map[string]string{"GetType": "Type", "GetID": "ID", "GetLink": "ID"}

func checkAccessors(w *World, c *Check, rule string, methods []string) {
	pr := newProver(w)
	n := 0
	for _, s := range w.itemStructs() {
		tn := s.Obj().Name()
		for _, mn := range methods {
			m := w.Method(tn, mn)
			key := tn + "." + mn
			if m == nil || m.Blocks == nil {
				c.bad(rule, key, "-", "method not found")
				continue
			}
			n++
			var rets []ssa.Value
			for _, b := range m.Blocks {
				if r, ok := b.Instrs[len(b.Instrs)-1].(*ssa.Return); ok && len(r.Results) == 1 {
					rets = append(rets, r.Results[0])
				}
			}
			if len(rets) == 0 {
				c.bad(rule, key, w.FuncPos(m), "no return found (undecided)")
				continue
			}
			sum := symReturns(pr, m, 0, map[*ssa.Function]bool{})
			if want, isField := accessorField[mn]; isField {
				bad := ""
				for _, sv := range sum {
					if sv.kind != "field" || sv.param != 0 || sv.name != want {
						bad = fmt.Sprintf("returns %s, not (only) its %s field", sv.String(), want)
					}
				}
				if bad != "" {
					c.bad(rule, key, w.FuncPos(m), fmt.Sprintf("%s.%s() %s: the comparison, de-duplication, flattening and list functions read this accessor as the plain field for every type; a value of this type is then treated differently from its siblings (not equal to itself, skipped, or replaced) while those functions are unchanged", tn, mn, bad))
				} else {
					c.ok(rule, key, w.FuncPos(m), "the "+want+" field")
				}
				continue
			}
			// kind predicates
			allConst := true
			consts := map[string]bool{}
			for _, sv := range sum {
				if sv.kind != "const" {
					allConst = false
				}
				consts[sv.desc] = true
			}
			if len(consts) > 1 {
				allConst = false // true on some paths and false on others: decided by the value
			}
			if !allConst {
				// expressed through its sibling predicates (!t.IsCollection()): decided by constant evaluation
				ip := newInterp(w)
				if r, _, _ := ip.Call(m, []AV{avTop}, nil, Store{}, nil); r.K == kConst && len(ip.faults) == 0 {
					allConst = true
				}
			}
			if allConst {
				c.ok(rule, key, w.FuncPos(m), "constant of the Go type (value judged by C07.family)")
				continue
			}
			if tn == "Link" && (mn == "IsLink" || mn == "IsObject") {
				refs := map[string]bool{}
				for _, r := range rets {
					for _, fp := range pr.prov(r).list() {
						refs[strings.Join(fp.Names, ".")] = true
					}
				}
				var names []string
				for f := range refs {
					names = append(names, f)
				}
				sort.Strings(names)
				if len(names) == 1 && names[0] == "Type" {
					c.ok(rule, key, w.FuncPos(m), "decided from the Type field only (frozen exception: a Link is what its type says)")
				} else {
					c.bad(rule, key, w.FuncPos(m), fmt.Sprintf("Link.%s() consults %v; only the Type field may decide it", mn, names))
				}
				continue
			}
			c.bad(rule, key, w.FuncPos(m), fmt.Sprintf("%s.%s() depends on the value (its siblings answer with a constant of the Go type): a %s for which it answers differently — e.g. one without a type — is neither object nor link for the recipient de-duplicator, the flatteners and the list functions and is silently skipped", tn, mn, tn))
		}
	}
	c.stat(rule+"_methods", n)
}

// phiLeaves: the values a phi (of phis) can take; v itself when it is no phi. Conversions are looked through.
func phiLeaves(v ssa.Value) []ssa.Value {
	seen := map[ssa.Value]bool{}
	var out []ssa.Value
	var walk func(x ssa.Value)
	walk = func(x ssa.Value) {
		x = unwrap(x)
		if seen[x] {
			return
		}
		seen[x] = true
		if p, ok := x.(*ssa.Phi); ok {
			for _, e := range p.Edges {
				walk(e)
			}
			return
		}
		out = append(out, x)
	}
	walk(v)
	return out
}

func describeAccessorValue(pr *prover, v ssa.Value) string {
	if fp, ok := pr.fieldOf(v); ok {
		return "field " + strings.Join(fp.Names, ".")
	}
	if k, ok := v.(*ssa.Const); ok {
		return "the constant " + k.String()
	}
	if call, ok := v.(*ssa.Call); ok {
		if cal := call.Common().StaticCallee(); cal != nil {
			return "the result of " + funcName(cal)
		}
		if call.Common().IsInvoke() {
			return "the result of a " + call.Common().Method.Name() + " call"
		}
	}
	return shortVal(v)
}

var _ = types.Typ

// Exact text comparison (who-may-call): the comparison methods of the text-bearing types — the list of language/text
// pairs, one pair, the text, the language tag — decide byte for byte. None of them, nor anything they call inside the
// package, may reach a case-folding, trimming or otherwise normalising comparison: item equality (C09), the list
// functions built on it (Contains, Append's skip of members already present — used by the JSON decoder for every list)
// and the text-list equality itself (C19) then treat texts that differ only in case or padding as the same, and the
// decoder silently drops the second of two siblings such as #GoLang / #golang.
var inexactTextCalls = []string{"strings.EqualFold", "bytes.EqualFold", "strings.ToLower", "strings.ToUpper", "bytes.ToLower", "bytes.ToUpper",
	"strings.TrimSpace", "bytes.TrimSpace", "strings.Trim", "bytes.Trim", "strings.TrimLeft", "strings.TrimRight", "bytes.TrimLeft", "bytes.TrimRight",
	"strings.Title", "strings.ToTitle", "bytes.Title", "bytes.ToTitle", "unicode.ToLower", "unicode.ToUpper", "unicode.SimpleFold", "strings.Fields", "bytes.Fields",
	"strings.ToValidUTF8", "bytes.ToValidUTF8"}

func checkExactTextEquality(w *World, c *Check, rule string) {
	nlv := w.Named("NaturalLanguageValues")
	if nlv == nil {
		c.bad(rule, "anchor:NaturalLanguageValues", "-", "type not found")
		return
	}
	// the text types: the list, its element, and the named types of the element's fields
	typesOf := []*types.Named{nlv}
	if sl, ok := nlv.Underlying().(*types.Slice); ok {
		if el := namedOf(sl.Elem()); el != nil {
			typesOf = append(typesOf, el)
			if st, ok := el.Underlying().(*types.Struct); ok {
				for i := 0; i < st.NumFields(); i++ {
					if fn := namedOf(st.Field(i).Type()); fn != nil && fn.Obj().Pkg() == w.Types {
						typesOf = append(typesOf, fn)
					}
				}
			}
		}
	}
	banned := map[string]bool{}
	for _, b := range inexactTextCalls {
		banned[b] = true
	}
	n := 0
	for _, tn := range typesOf {
		m := w.Method(tn.Obj().Name(), "Equals")
		if m == nil || m.Blocks == nil {
			continue
		}
		n++
		key := tn.Obj().Name() + ".Equals"
		bad := ""
		identity := false
		pos := w.FuncPos(m)
		for _, g := range w.Reach([]*ssa.Function{m}, nil) {
			for _, fn := range append([]*ssa.Function{g}, allAnon(g)...) {
				for _, b := range fn.Blocks {
					for _, in := range b.Instrs {
						// identity of storage is not equality of text: two views that start at the same address can have
						// different lengths (a prefix re-slice), so &a[0] == &b[0] must never settle the verdict
						if bo, isB := in.(*ssa.BinOp); isB && (bo.Op == token.EQL || bo.Op == token.NEQ) && bad == "" && w.InPkg(fn) {
							if _, isPtr := types.Unalias(bo.X.Type()).Underlying().(*types.Pointer); isPtr && !isNilConst(bo.X) && !isNilConst(bo.Y) {
								_, xIdx := bo.X.(*ssa.IndexAddr)
								_, yIdx := bo.Y.(*ssa.IndexAddr)
								if xIdx || yIdx {
									bad = fmt.Sprintf("%s compares the addresses of two texts' bytes (in %s)", key, funcName(fn))
									pos = w.InstrPos(in)
									identity = true
								}
							}
						}
						call, ok := in.(ssa.CallInstruction)
						if !ok {
							continue
						}
						cal := call.Common().StaticCallee()
						if cal == nil || w.InPkg(cal) {
							continue
						}
						if banned[extName(cal)] && bad == "" {
							bad = fmt.Sprintf("%s reaches %s (in %s)", key, extName(cal), funcName(fn))
							pos = w.InstrPos(in)
						}
					}
				}
			}
		}
		if identity {
			c.bad(rule, key, pos, bad+": two texts that share their first byte but differ in length (one is a prefix view of the other's buffer) compare equal although Get returns different texts for them")
		} else if bad != "" {
			c.bad(rule, key, pos, bad+": texts that differ only in letter case or padding compare equal, so item equality, Contains and the decoder's skip of list members already present (Append) treat two different texts as one — the second sibling is dropped on decode")
		} else {
			c.ok(rule, key, pos, "no case-folding or trimming comparison in its closure")
		}
	}
	if n < 3 {
		c.bad(rule, "anchor:text-equals", "-", fmt.Sprintf("only %d Equals methods found on the text types", n))
	}
}

// Registry rows are empty (fresh): the value the type registry creates for a name carries its type and nothing else.
// The gob decoder and the hooks path fill only the properties whose keys are present, and the JSON loaders for nested
// sub-values do the same: a row that pre-sets any other field ("the default unit is m") makes every value of that type
// that was stored WITHOUT the property read back WITH it. Obligation per struct built in GetItemByType and in the
// constructors it calls: every field store other than Type is a zero value or a freshly made empty container; the Type
// field is fed by the name parameter or a vocabulary type constant.
func checkRegistryFresh(w *World, c *Check, rule string) {
	reg := w.Func("GetItemByType")
	if reg == nil {
		c.bad(rule, "anchor:GetItemByType", "-", "type registry not found")
		return
	}
	fns := []*ssa.Function{reg}
	for _, call := range callsIn(reg) {
		if g := call.Common().StaticCallee(); g != nil && w.InPkg(g) && g.Blocks != nil {
			if p, ok := types.Unalias(g.Signature.Results().At(0).Type()).(*types.Pointer); g.Signature.Results().Len() > 0 && ok {
				if n := namedOf(p.Elem()); n != nil && w.StructInfoOf(n.Obj().Name()) != nil {
					fns = append(fns, g)
				}
			}
		}
	}
	var eff *effects
	emptyValue := func(v ssa.Value) bool {
		v = unwrap(v)
		switch x := v.(type) {
		case *ssa.Const:
			return isZeroConst(x.Value)
		case *ssa.MakeSlice:
			k, ok := x.Len.(*ssa.Const)
			return ok && k.Int64() == 0
		case *ssa.MakeMap:
			return true
		case *ssa.Call:
			// a constructor called with nothing: NaturalLanguageValuesNew(), make-like helpers
			for _, a := range x.Common().Args {
				if k, ok := a.(*ssa.Const); !ok || !isZeroConst(k.Value) {
					return false
				}
			}
			cal := x.Common().StaticCallee()
			if cal == nil || !w.InPkg(cal) {
				return false
			}
			// … and what it hands back is memory of its own: not a package-level value (one shared "empty" list with
			// spare capacity is appended into by every decoded object) and nothing reachable from elsewhere
			if eff == nil {
				eff = computeEffects(w)
			}
			if sm := eff.sum[cal]; sm == nil || sm.ret != 0 {
				return false
			}
			return true
		}
		return false
	}
	n := 0
	for _, f := range fns {
		var typParam ssa.Value
		if len(f.Params) > 0 {
			typParam = f.Params[0]
		}
		for _, b := range f.Blocks {
			for _, in := range b.Instrs {
				st, ok := in.(*ssa.Store)
				if !ok {
					continue
				}
				fa, ok := st.Addr.(*ssa.FieldAddr)
				if !ok {
					continue
				}
				al, ok := fa.X.(*ssa.Alloc)
				if !ok {
					continue
				}
				sn := namedOf(derefType(al.Type()))
				if sn == nil || w.StructInfoOf(sn.Obj().Name()) == nil {
					continue
				}
				stt := sn.Underlying().(*types.Struct)
				fname := stt.Field(fa.Field).Name()
				n++
				key := fmt.Sprintf("%s:%s.%s", funcName(f), sn.Obj().Name(), fname)
				if fname == "Type" {
					okT := true
					for _, leaf := range phiLeaves(st.Val) {
						if leaf == typParam {
							continue
						}
						if k, isC := leaf.(*ssa.Const); isC && types.Identical(k.Type(), stt.Field(fa.Field).Type()) {
							continue
						}
						okT = false
					}
					if okT {
						c.ok(rule, key, w.InstrPos(st), "the type is the name asked for (or a vocabulary constant)")
					} else {
						c.bad(rule, key, w.InstrPos(st), fmt.Sprintf("%s sets the type of the value it creates from %s, neither the name asked for nor a vocabulary constant", funcName(f), shortVal(st.Val)))
					}
					continue
				}
				if emptyValue(st.Val) {
					c.ok(rule, key, w.InstrPos(st), "an empty value")
				} else {
					c.bad(rule, key, w.InstrPos(st), fmt.Sprintf("the value the type registry creates for a %s already has %s set, or set to memory that is not its own (%s): decoders fill only the properties that are present and append into what is there, so a %s stored without %s reads back with it — or shares it with every other decoded value", sn.Obj().Name(), fname, shortVal(st.Val), sn.Obj().Name(), strings.ToLower(fname[:1])+fname[1:]))
				}
			}
		}
	}
	c.stat(rule+"_stores", n)
}

// retSym: what a function can return, in terms of its own parameters: a field of a parameter, a parameter itself, a
// constant, or something else.
type retSym struct {
	kind  string // "field", "param", "const", "other"
	param int
	name  string
	desc  string
}

func (v retSym) String() string {
	switch v.kind {
	case "field":
		return "field " + v.name
	case "param":
		return fmt.Sprintf("its argument #%d", v.param)
	case "const":
		return "the constant " + v.desc
	}
	return v.desc
}

// symReturns summarises the values fn can return: through conversions, phis, locals, and calls of package functions
// whose own summary is a field of / one of their parameters (id := p.GetID(); return id.GetLink() is "field ID").
func symReturns(pr *prover, fn *ssa.Function, depth int, busy map[*ssa.Function]bool) []retSym {
	if fn == nil || fn.Blocks == nil || depth > 4 || busy[fn] {
		return []retSym{{kind: "other", desc: "an unresolved call"}}
	}
	busy[fn] = true
	defer delete(busy, fn)
	var out []retSym
	var resolve func(v ssa.Value, d int) []retSym
	resolve = func(v ssa.Value, d int) []retSym {
		var res []retSym
		for _, leaf := range phiLeaves(v) {
			if d > 8 {
				res = append(res, retSym{kind: "other", desc: shortVal(leaf)})
				continue
			}
			if k, ok := leaf.(*ssa.Const); ok {
				res = append(res, retSym{kind: "const", desc: k.String()})
				continue
			}
			if fp, ok := pr.fieldOf(leaf); ok && len(fp.Names) == 1 {
				if pi := paramIndexByRoot(pr, fn, fp.Root); pi >= 0 {
					res = append(res, retSym{kind: "field", param: pi, name: fp.Names[0]})
					continue
				}
			}
			if pi := paramIndexByRoot(pr, fn, pr.canonicalRoot(leaf)); pi >= 0 {
				if _, isParam := leaf.(*ssa.Parameter); isParam {
					res = append(res, retSym{kind: "param", param: pi})
					continue
				}
			}
			// a local that was assigned once
			if ld, ok := leaf.(*ssa.UnOp); ok && ld.Op == token.MUL {
				if al, ok := ld.X.(*ssa.Alloc); ok {
					sts := storesTo(al)
					if len(sts) > 0 {
						for _, st := range sts {
							res = append(res, resolve(st.Val, d+1)...)
						}
						continue
					}
				}
			}
			if call, ok := leaf.(*ssa.Call); ok {
				if cal := call.Common().StaticCallee(); cal != nil && cal.Pkg == fn.Pkg {
					calSum := symReturns(pr, cal, depth+1, busy)
					// a callee that answers with different constants on different paths (a table lookup returning
					// true / false) does not return "a constant": which one depends on its arguments
					distinct := map[string]bool{}
					for _, sv := range calSum {
						if sv.kind == "const" {
							distinct[sv.desc] = true
						}
					}
					if len(distinct) > 1 {
						res = append(res, retSym{kind: "other", desc: "the result of " + funcName(cal)})
						continue
					}
					for _, sv := range calSum {
						switch sv.kind {
						case "const":
							res = append(res, sv)
						case "param":
							if sv.param < len(call.Common().Args) {
								res = append(res, resolve(call.Common().Args[sv.param], d+1)...)
							} else {
								res = append(res, retSym{kind: "other", desc: "the result of " + funcName(cal)})
							}
						case "field":
							ok2 := false
							if sv.param < len(call.Common().Args) {
								for _, av := range resolve(call.Common().Args[sv.param], d+1) {
									if av.kind == "param" {
										res = append(res, retSym{kind: "field", param: av.param, name: sv.name})
										ok2 = true
									}
								}
							}
							if !ok2 {
								res = append(res, retSym{kind: "other", desc: "the result of " + funcName(cal)})
							}
						default:
							res = append(res, retSym{kind: "other", desc: "the result of " + funcName(cal)})
						}
					}
					continue
				}
			}
			res = append(res, retSym{kind: "other", desc: describeAccessorValue(pr, leaf)})
		}
		return res
	}
	for _, b := range fn.Blocks {
		if r, ok := b.Instrs[len(b.Instrs)-1].(*ssa.Return); ok && len(r.Results) == 1 {
			out = append(out, resolve(r.Results[0], 0)...)
		}
	}
	if len(out) == 0 {
		out = append(out, retSym{kind: "other", desc: "nothing"})
	}
	return out
}

func paramIndexByRoot(pr *prover, fn *ssa.Function, root ssa.Value) int {
	if root == nil {
		return -1
	}
	for i, p := range fn.Params {
		if pr.canonicalRoot(p) == root || ssa.Value(p) == root {
			return i
		}
	}
	return -1
}

// checkLoaderFilter: the item loader drops what NotEmpty refuses, so for every vocabulary struct NotEmpty must follow
// the value's own kind-level test (see C07.family:not-empty, which runs the same interpretation per type NAME): with
// those tests forced to true and GetType() forced to the struct's own name, NotEmpty(*T) is true.
func checkLoaderFilter(w *World, c *Check, rule string) {
	notEmptyFn := w.Func("NotEmpty")
	if notEmptyFn == nil {
		c.bad(rule, "anchor:NotEmpty", "-", "the loader's emptiness filter NotEmpty was not found")
		return
	}
	kindTests := notEmptyKindTests(w, notEmptyFn)
	for _, k := range w.itemStructs() {
		n := k.Obj().Name()
		pk := types.NewPointer(k)
		item := avIface(pk, avNonNilPtr(pk))
		ip := newInterp(w)
		forced := 0
		ip.postCall = func(callee *ssa.Function, args []AV, res AV) AV {
			if callee.Name() == "GetType" && len(args) == 1 {
				return AV{K: kConst, C: constant.MakeString(n), T: w.Named("ActivityVocabularyType")}
			}
			if kindTests[callee] {
				forced++
				return avBool(true)
			}
			if callee.Name() == "IsLink" && n == "Link" && callee.Signature.Recv() != nil {
				return avBool(true)
			}
			return res
		}
		res, _, _ := ip.Call(notEmptyFn, []AV{item}, nil, Store{}, nil)
		b, isConst := res.isConstBool()
		switch {
		case ip.aborted != "":
			c.bad(rule, n, w.FuncPos(notEmptyFn), "undecided: "+ip.aborted)
		case isConst && b && forced > 0:
			c.ok(rule, n, w.FuncPos(notEmptyFn), "kept or dropped by the value's own kind-level emptiness test")
		default:
			c.bad(rule, n, w.FuncPos(notEmptyFn), fmt.Sprintf("NotEmpty(*%s) evaluates to %s although the kind-level emptiness test of the value says non-empty (%d such tests reached): JSONLoadItem drops documents of this type on the word of another criterion (e.g. a collection without inline members): every property of such a document is lost on decode", n, res, forced))
		}
	}
}

// checkAssertionsTested (stated belief "cannot fail"): a comma-ok type assertion whose ok result is thrown away while
// its value is used asserts that the dynamic type is known — by a surrounding type switch, a registry — without
// checking it. Where the belief is wrong (a generic view helper instantiated at the neighbouring type in one of
// thirty copy-pasted cases) the value is silently the zero value: a typed view of nothing, with no error.
func checkAssertionsTested(w *World, c *Check, rule string, fns []*ssa.Function) {
	n := 0
	for _, f := range fns {
		for _, g := range append([]*ssa.Function{f}, allAnon(f)...) {
			k := 0
			for _, b := range g.Blocks {
				for _, in := range b.Instrs {
					ta, ok := in.(*ssa.TypeAssert)
					if !ok || !ta.CommaOk || ta.Referrers() == nil {
						continue
					}
					valUsed, okUsed := false, false
					for _, r := range *ta.Referrers() {
						ex, isEx := r.(*ssa.Extract)
						if !isEx || ex.Referrers() == nil || len(*ex.Referrers()) == 0 {
							continue
						}
						if ex.Index == 0 {
							valUsed = true
						} else {
							okUsed = true
						}
					}
					if !valUsed && !okUsed {
						continue
					}
					n++
					k++
					key := fmt.Sprintf("%s:assert#%d", funcName(g), k)
					if valUsed && !okUsed {
						c.bad(rule, key, w.InstrPos(ta), fmt.Sprintf("%s uses the value of %s.(%s) without looking at whether the assertion held: where it does not, the code goes on with the zero value — a view of an empty value instead of the one it was given — and reports no error", funcName(g), shortVal(ta.X), types.TypeString(ta.AssertedType, func(p *types.Package) string { return "" })))
					} else {
						c.ok(rule, key, w.InstrPos(ta), "the outcome of the assertion is tested")
					}
				}
			}
		}
	}
	c.stat(rule+"_assertions", n)
}

// notEmptyKindTests: the kind-level emptiness tests NotEmpty delegates to — package functions func(*T) bool on a
// vocabulary struct that are called from a callback somewhere in the closure of NotEmpty (NotEmpty itself, or the
// per-family helpers it may have been split into).
func notEmptyKindTests(w *World, notEmptyFn *ssa.Function) map[*ssa.Function]bool {
	kindTests := map[*ssa.Function]bool{}
	for _, f := range w.Reach([]*ssa.Function{notEmptyFn}, nil) {
		for _, a := range allAnon(f) {
			for _, call := range callsIn(a) {
				g := call.Common().StaticCallee()
				if g == nil || !w.InPkg(g) || g.Signature.Params().Len() != 1 || g.Signature.Results().Len() != 1 {
					continue
				}
				if bt, ok := g.Signature.Results().At(0).Type().Underlying().(*types.Basic); !ok || bt.Kind() != types.Bool {
					continue
				}
				if pt, ok := types.Unalias(g.Signature.Params().At(0).Type()).(*types.Pointer); ok {
					if sn := namedOf(pt.Elem()); sn != nil && w.StructInfoOf(sn.Obj().Name()) != nil {
						kindTests[g] = true
					}
				}
			}
		}
	}
	return kindTests
}
