package main

import (
	"fmt"
	"go/constant"
	"go/token"
	"go/types"
	"sort"
	"strings"

	"golang.org/x/tools/go/ssa"
)

func init() {
	register("C01", checkC01)
	register("C05", checkC05)
}

// fieldSites groups the sites of a closure by top-level field index of struct S (through prefix views).
func fieldSites(sites []*site, s *StructInfo) (byField map[int][]*site, other []*site) {
	byField = map[int][]*site{}
	for _, st := range sites {
		if st.field.RootType == nil || len(st.field.Idx) == 0 {
			other = append(other, st)
			continue
		}
		if !isPrefixView(st.field.RootType, s.Named) {
			continue // a different value (nested struct handled by its own table)
		}
		byField[st.field.Idx[0]] = append(byField[st.field.Idx[0]], st)
	}
	return
}

// firstKeys: the wire key a read site consumes. For the 14 item structs it is the first element of each lookup
// path (relative to the document). Sub-structs (Source, PublicKey, Endpoints) are loaded from a nested value:
// the leading elements that address that nested value (a parameter of the getter, or the term under which the
// sub-struct is embedded) are skipped.
func firstKeys(st *site, skip map[string]bool) (keys []string, unresolved bool) {
	for _, p := range st.paths {
		found := false
		for _, e := range p {
			if skip != nil && (e.param >= 0 || (e.param == -1 && skip[e.c])) {
				continue
			}
			if e.param != -1 {
				unresolved = true
			} else {
				keys = append(keys, e.c)
			}
			found = true
			break
		}
		_ = found
	}
	return uniq(keys), unresolved
}

// embedTerms: terms under which struct s is embedded as a field of other tagged structs.
func embedTerms(w *World, s *StructInfo) map[string]bool {
	if isItemStruct(w, s.Named) {
		return nil
	}
	m := map[string]bool{}
	for _, o := range w.TaggedStructs() {
		for _, f := range o.Fields {
			if n := namedOf(f.Type); n == s.Named && f.Term != "" {
				m[f.Term] = true
			}
		}
	}
	return m
}

type jsonTable struct {
	s      *StructInfo
	isItem bool
	wroot  *ssa.Function
	rroot  *ssa.Function
	wclos  []*ssa.Function
	rclos  []*ssa.Function
	wByF   map[int][]*site
	rByF   map[int][]*site
	wOther []*site
	wAll   []*site
}

func (t *tables) jsonTableFor(s *StructInfo) *jsonTable {
	jt := &jsonTable{s: s, isItem: isItemStruct(t.w, s.Named)}
	jt.wroot = t.w.Method(s.Name, "MarshalJSON")
	jt.rroot = t.w.Method(s.Name, "UnmarshalJSON")
	if jt.wroot != nil {
		jt.wclos = t.codecClosure(jt.wroot, s.Named, "enc")
		jt.wAll = t.sitesIn(jt.wclos, t.jsW)
		jt.wByF, jt.wOther = fieldSites(jt.wAll, s)
	}
	if jt.rroot != nil {
		jt.rclos = t.codecClosure(jt.rroot, s.Named, "dec")
		if !jt.isItem {
			// sub-structs are also loaded in place by the getters of the types that embed them
			for _, f := range t.w.Funcs {
				for _, st := range t.jsR[f] {
					if st.field.RootType == s.Named {
						jt.rclos = appendUniqueFn(jt.rclos, f)
					}
				}
			}
		}
		jt.rByF, _ = fieldSites(t.sitesIn(jt.rclos, t.jsR), s)
	}
	return jt
}

func appendUniqueFn(fs []*ssa.Function, f *ssa.Function) []*ssa.Function {
	for _, g := range fs {
		if g == f {
			return fs
		}
	}
	return append(fs, f)
}

func allowedNames(f *FieldInfo) map[string]bool {
	m := map[string]bool{f.Term: true}
	if f.Collapsible {
		m[f.Term+"Map"] = true
	}
	return m
}

func checkC01(w *World, c *Check, tier string) {
	c.Exhaustive = true
	c.Explanation = "Decides that the three hand-written per-field tables agree for every (type, field) of the 14 vocabulary structs and the 3 tagged sub-structs (Source, PublicKey, Endpoints): the jsonld struct tag (the repository's own declaration of each field's term), the JSON writer (every call of a prop writer — discovered structurally from JSONWritePropName — whose value argument derives, on the SSA form, from that field) and the JSON reader (every store into that field whose value derives from a fastjson key lookup, through getter summaries). Obligations per field: written at all (W-cover), under its term (W-term), not under a sign-sensitive or inverted emptiness guard (W-guard), read at all from its term (R-cover), from nothing but its term (R-foreign), every key the writer can emit is consumed (RW), loaders read the same document (R-doc), and the scalar helper pairs are inverse by construction (pair: bool unquoted, float shortest-round-trip, duration xsd on both sides). A property that is dropped, renamed, moved or sign-filtered shows up as one failing table entry whether or not any test value sets it. NOT decided: that concrete values survive (time-zone normalisation, list compaction, nested composition, text escaping — see C06)."
	c.RuleText = "obligation = (struct type, field) x rule; universe = every jsonld-tagged field of every tagged struct (enumerated from go/types); exhaustive"
	c.Trusted = []string{"go/types, go/ssa (x/tools v0.29.0)", "apcheck provenance slicing (prov.go) and table extraction (tables.go)", "fastjson accessor semantics (Get/Exists/GetStringBytes look up exactly the keys they are given)"}
	t, err := buildTables(w)
	if err != nil {
		c.bad("C01.M", "anchor", "-", err.Error())
		return
	}
	c.stat("prop_writers", len(t.pw))
	for f, info := range t.pw {
		c.note("prop writer %s name-param=%d suffixes=%q", funcName(f), info.nameParam, info.suffixes)
	}
	structs := w.TaggedStructs()
	c.stat("tagged_structs", len(structs))
	checkNothingInvented(w, c, t, "C01.R-clobber")
	checkLoaderFilter(w, c, "C01.filter")
	checkWholeListWritten(w, c, t, "C01.W-whole")
	c.floor("C01.W-asis", 8)
	checkQuotedAsIs(w, c, "C01.W-asis")
	c.floor("C01.filter", 14)
	checkAccessors(w, c, "C01.accessor", []string{"GetType", "GetID", "GetLink"})
	c.floor("C01.accessor", 42)
	c.floor("C01.W-cover", 300)
	c.floor("C01.R-cover", 300)
	c.floor("C01.RW", 300)
	nW, nR := 0, 0
	for _, s := range structs {
		jt := t.jsonTableFor(s)
		if jt.wroot == nil || jt.rroot == nil {
			c.bad("C01.M", s.Name, "-", fmt.Sprintf("%s lacks MarshalJSON or UnmarshalJSON", s.Name))
			continue
		}
		c.ok("C01.M", s.Name, w.FuncPos(jt.wroot), fmt.Sprintf("writer closure %d functions, reader closure %d functions", len(jt.wclos), len(jt.rclos)))
		for _, st := range jt.wOther {
			c.bad("C01.W-foreign", s.Name+":"+strings.Join(st.names, "|"), w.InstrPos(st.instr), fmt.Sprintf("write of %q in %s: %s", st.names, funcName(st.fn), st.note))
		}
		grouped := groupUncoveredViews(w, c, "C01.W-cover", s, jt.wByF, w.FuncPos(jt.wroot), "written by "+s.Name+".MarshalJSON")
		groupedR := groupUncoveredViews(w, c, "C01.R-cover", s, jt.rByF, w.FuncPos(jt.rroot), "decoded by (*"+s.Name+").UnmarshalJSON")
		for _, f := range s.Fields {
			if f.Term == "" || (grouped[f.Index] && groupedR[f.Index]) {
				continue
			}
			key := s.Name + "." + f.Name
			ws := jt.wByF[f.Index]
			nW += len(ws)
			allowed := allowedNames(f)
			if grouped[f.Index] {
			} else if len(ws) == 0 {
				c.bad("C01.W-cover", key, w.FuncPos(jt.wroot), fmt.Sprintf("no JSON write site for %s (term %q) is reachable from %s.MarshalJSON: the property is never encoded", key, f.Term, s.Name))
			} else {
				c.ok("C01.W-cover", key, w.InstrPos(ws[0].instr), fmt.Sprintf("%d site(s) in %s", len(ws), funcName(ws[0].fn)))
				var emitted []string
				badTerm := false
				for _, st := range ws {
					emitted = append(emitted, st.names...)
					for _, n := range st.names {
						if !allowed[n] {
							badTerm = true
						}
					}
				}
				emitted = uniq(emitted)
				if badTerm || !setOf(emitted)[f.Term] {
					c.bad("C01.W-term", key, w.InstrPos(ws[0].instr), fmt.Sprintf("%s is declared with term %q but written under %v", key, f.Term, emitted))
				} else {
					c.ok("C01.W-term", key, w.InstrPos(ws[0].instr), fmt.Sprintf("written under %v", emitted))
				}
				// guards on the field itself
				gbad := ""
				for _, st := range ws {
					for _, g := range st.guards {
						if !guardOnField(g, s, f.Index) {
							if other := guardOnOtherField(g, s, f.Index); other != "" && g.side != sideNeutral {
								gbad = fmt.Sprintf("%q is written only when another property (%s) is set/unset (%s): the property is dropped whenever that other one is absent", st.names, other, g.desc)
							}
							continue
						}
						if g.side == sideUnset {
							gbad = fmt.Sprintf("inverted guard: %q is written only when %s says the field is unset", st.names, g.desc)
						} else if g.signOnly {
							gbad = fmt.Sprintf("sign-sensitive emptiness guard %s on %s (type %s): negative values are never written", g.desc, key, typeName(f.Type))
						} else if miss := partialGuard(g, s, f.Index); miss != "" {
							gbad = fmt.Sprintf("partial guard: %q is written only when %s holds, which ignores the sub-field(s) %s of %s: a value with only those set is dropped", st.names, g.desc, miss, key)
						}
					}
				}
				for _, st := range ws {
					if len(st.condWrites) > 0 {
						gbad = fmt.Sprintf("%q is written only depending on whether other properties %v were written before it (short-circuit on the accumulated result): the property is dropped for some combinations of set properties", st.names, st.condWrites)
					}
				}
				if gbad != "" {
					c.bad("C01.W-guard", key, w.InstrPos(ws[0].instr), gbad)
				} else {
					c.ok("C01.W-guard", key, w.InstrPos(ws[0].instr), "no sign-sensitive or inverted guard")
				}
			}
			rs := jt.rByF[f.Index]
			nR += len(rs)
			var rkeys []string
			unresolved := false
			for _, st := range rs {
				ks, un := firstKeys(st, embedTerms(w, s))
				rkeys = append(rkeys, ks...)
				unresolved = unresolved || un
			}
			rkeys = uniq(rkeys)
			rset := setOf(rkeys)
			switch {
			case groupedR[f.Index]:
			case len(rs) == 0:
				c.bad("C01.R-cover", key, w.FuncPos(jt.rroot), fmt.Sprintf("no store into %s fed by a JSON key lookup is reachable from (*%s).UnmarshalJSON: the property is never decoded", key, s.Name))
			case unresolved:
				c.bad("C01.R-cover", key, w.InstrPos(rs[0].instr), "the key read into "+key+" is not a compile-time constant (undecided)")
			case !rset[f.Term]:
				c.bad("C01.R-cover", key, w.InstrPos(rs[0].instr), fmt.Sprintf("%s (term %q) is loaded from key(s) %v, never from its own term", key, f.Term, rkeys))
			default:
				c.ok("C01.R-cover", key, w.InstrPos(rs[0].instr), fmt.Sprintf("read from %v", rkeys))
			}
			if len(rs) > 0 {
				var foreign []string
				for _, k := range rkeys {
					if !allowed[k] {
						foreign = append(foreign, k)
					}
				}
				if len(foreign) > 0 {
					c.bad("C01.R-foreign", key, w.InstrPos(rs[0].instr), fmt.Sprintf("%s (term %q) is also/only fed from foreign key(s) %v: a value of another property is attached to it", key, f.Term, foreign))
				} else {
					c.ok("C01.R-foreign", key, w.InstrPos(rs[0].instr), "only its own term")
				}
			}
			if len(ws) > 0 && len(rs) > 0 {
				var lost []string
				for _, st := range ws {
					for _, n := range st.names {
						if allowed[n] && !rset[n] {
							lost = append(lost, n)
						}
					}
				}
				lost = uniq(lost)
				if len(lost) > 0 {
					c.bad("C01.RW", key, w.InstrPos(ws[0].instr), fmt.Sprintf("the writer can emit %s under %v but the reader of %s never consumes %v", key, lost, s.Name, lost))
				} else {
					c.ok("C01.RW", key, w.InstrPos(ws[0].instr), "every emitted key is consumed")
				}
			}
		}
		// R-doc: nested loaders are handed the same document
		for _, f := range jt.rclos {
			for _, b := range f.Blocks {
				for _, in := range b.Instrs {
					call, ok := in.(*ssa.Call)
					if !ok {
						continue
					}
					cal := call.Common().StaticCallee()
					if cal == nil || !w.InPkg(cal) {
						continue
					}
					vi, ki := -1, -1
					for i := 0; i < cal.Signature.Params().Len(); i++ {
						pt := cal.Signature.Params().At(i).Type()
						if isFastjsonValuePtr(pt) {
							vi = i
						}
						if n := namedOf(pt); n != nil && isPrefixView(n, s.Named) {
							if _, isPtr := types.Unalias(pt).(*types.Pointer); isPtr {
								ki = i
							}
						}
					}
					if vi < 0 || ki < 0 || vi >= len(call.Common().Args) {
						continue
					}
					p, ok := t.valuePath(call.Common().Args[vi], 0)
					dkey := fmt.Sprintf("%s:%s→%s", s.Name, funcName(f), funcName(cal))
					if !ok || len(p) != 0 {
						c.bad("C01.R-doc", dkey, w.InstrPos(in), fmt.Sprintf("%s loads the %s part of a %s from a different JSON value (path %q) than the document being decoded", funcName(cal), namedOf(cal.Signature.Params().At(ki).Type()).Obj().Name(), s.Name, pathString(p)))
					} else {
						c.ok("C01.R-doc", dkey, w.InstrPos(in), "same document")
					}
				}
			}
		}
	}
	c.stat("json_write_sites_matched", nW)
	c.stat("json_read_sites_matched", nR)
	for _, st := range t.nameProblems {
		if st.kind == siteJSONWrite {
			c.bad("C01.W-foreign", "non-constant-name:"+funcName(st.fn), w.InstrPos(st.instr), "a property is written under a name that is not a compile-time constant")
		}
	}
	checkScalarPairs(w, c, t, "C01.pair")
	checkEmptinessPredicate(w, c, t)
}

// checkEmptinessPredicate: the decoder discards values its emptiness check (IsNotEmpty hook, initially NotEmpty)
// judges empty. For a value without id and type to survive whenever it carries any property, the predicate of each
// struct must read every tagged field that struct adds (Object: all), and must not test a signed field by sign.
func checkEmptinessPredicate(w *World, c *Check, t *tables) {
	root := w.Func("NotEmpty")
	if g := w.Global("IsNotEmpty"); g != nil {
		if a, ok := w.globalInits()[g]; ok && a.Fn != nil {
			root = a.Fn
		}
	}
	if root == nil {
		c.bad("C01.empty", "anchor:NotEmpty", "-", "emptiness predicate not found")
		return
	}
	disp := w.Func("JSONLoadItem")
	if disp != nil {
		used := false
		for _, f := range w.Reach([]*ssa.Function{disp}, func(f *ssa.Function) bool { return f != disp && wireLeafType(w, f) != nil }) {
			if f == root {
				used = true
			}
		}
		_ = used
	}
	pr := t.pr
	reads := map[*types.Named]map[string]bool{}
	signBad := map[string]string{}
	setTested := map[*types.Named]map[string]bool{}
	for _, f := range w.Reach([]*ssa.Function{root}, nil) {
		if f.Signature.Results().Len() != 1 {
			continue
		}
		if b, ok := f.Signature.Results().At(0).Type().Underlying().(*types.Basic); !ok || b.Kind() != types.Bool {
			continue
		}
		for _, p := range f.Params {
			n := namedOf(p.Type())
			if n == nil || !isItemStruct(w, n) {
				continue
			}
			if _, isPtr := types.Unalias(p.Type()).(*types.Pointer); !isPtr {
				continue
			}
			if reads[n] == nil {
				reads[n] = map[string]bool{}
			}
			for _, b := range f.Blocks {
				for _, in := range b.Instrs {
					if fa, ok := in.(*ssa.FieldAddr); ok {
						if fp, ok := pr.structPath(fa, 0); ok && len(fp.Idx) >= 1 && fp.Root == pr.canonicalRoot(p) {
							reads[n][fp.Names[0]] = true
						}
					}
					if bo, ok := in.(*ssa.BinOp); ok {
						for _, g := range pr.classifyCond(bo, true) {
							if g.signOnly {
								for _, r := range g.refs {
									if r.Root == pr.canonicalRoot(p) && len(r.Names) > 0 {
										signBad[n.Obj().Name()+"."+r.Names[0]] = g.desc
									}
								}
							}
						}
					}
					// which fields are tested for being set at all (len(x) > 0, x != nil, x != "", !x.IsZero(), x != 0)?
					if v, ok := in.(ssa.Value); ok {
						switch in.(type) {
						case *ssa.BinOp, *ssa.Call, *ssa.UnOp:
							for _, hold := range []bool{true, false} {
								// for _, it := range [...]Item{o.A, o.B, …} { if it != nil … }: the test applies to every listed field
								gs := substGuards(pr, pr.classifyCond(v, hold), func(x ssa.Value) []FieldPath {
									elems, _, isLit := rangedLiteralElemOpt(x, false)
									if !isLit {
										return nil
									}
									var out []FieldPath
									for _, e := range elems {
										out = append(out, pr.prov(e).list()...)
									}
									return out
								})
								for _, g := range gs {
									if g.side != sideSet || g.signOnly {
										continue
									}
									for _, r := range g.refs {
										if r.Root == pr.canonicalRoot(p) && len(r.Names) > 0 {
											if setTested[n] == nil {
												setTested[n] = map[string]bool{}
											}
											setTested[n][r.Names[0]] = true
										}
									}
								}
							}
						}
					}
				}
			}
		}
	}
	c.floor("C01.empty", 30)
	checkWrittenThenLost(w, c, "C01.W-lost")
	for _, s := range w.TaggedStructs() {
		rd := reads[s.Named]
		if rd == nil {
			continue
		}
		// fields this struct adds on top of the largest prefix view that has its own predicate
		start := 0
		for _, v := range w.TaggedStructs() {
			if v.Named != s.Named && isPrefixView(v.Named, s.Named) && reads[v.Named] != nil && len(v.Fields) > start {
				start = len(v.Fields)
			}
		}
		for _, f := range s.Fields[start:] {
			if f.Term == "" {
				continue
			}
			key := s.Name + "." + f.Name
			switch {
			case !rd[f.Name]:
				c.bad("C01.empty", key, w.FuncPos(root), fmt.Sprintf("the emptiness check applied to decoded values never looks at %s: an embedded value without id and type that only carries %q is judged empty and dropped by the decoder", key, f.Term))
			case !setTested[s.Named][f.Name] && !(f.Name == "Type" && isLeafStruct(w, s)):
				// (a struct no other struct extends is reached only through the names of its own family, so a membership
				// test of its type name is as wide as 'is set' for every value the decoder can hand it)
				c.bad("C01.empty", key, w.FuncPos(root), fmt.Sprintf("the emptiness check looks at %s only through a test that is narrower than 'is set' (no plain non-empty / non-nil / non-zero test of it): a value without id that only carries an unusual %q is judged empty and dropped by the decoder", key, f.Term))
			case signBad[key] != "":
				c.bad("C01.empty", key, w.FuncPos(root), fmt.Sprintf("the emptiness check tests %s by sign (%s): a value that only carries a negative %q is judged empty and dropped by the decoder", key, signBad[key], f.Term))
			default:
				c.ok("C01.empty", key, w.FuncPos(root), "considered by the emptiness check")
			}
		}
	}
}

// guardOnOtherField: the guard tests a different top-level field of the same struct value (and not the field itself).
func guardOnOtherField(g guard, s *StructInfo, idx int) string {
	other := ""
	for _, r := range g.refs {
		if len(r.Idx) == 0 || r.RootType == nil || !isPrefixView(r.RootType, s.Named) {
			return ""
		}
		if r.Idx[0] == idx {
			return ""
		}
		other = r.String()
	}
	return other
}

// partialGuard: a set-side guard on the field that looks only at some of the field's own sub-fields (o.Source.Content
// but not o.Source.MediaType): the property is dropped for a value in which only the other sub-fields are set.
// A single condition that mentions every sub-field (len(a)+len(b) > 0) is complete; a conjunction of per-sub-field
// conditions is a chain of partial guards.
func partialGuard(g guard, s *StructInfo, idx int) string {
	if g.side != sideSet {
		return ""
	}
	var ft types.Type
	for _, f := range s.Fields {
		if f.Index == idx {
			ft = f.Type
		}
	}
	if ft == nil {
		return ""
	}
	st, ok := types.Unalias(ft).Underlying().(*types.Struct)
	if !ok || st.NumFields() < 2 {
		return ""
	}
	seen := map[int]bool{}
	for _, r := range g.refs {
		if len(r.Idx) == 0 || r.Idx[0] != idx || r.RootType == nil || !isPrefixView(r.RootType, s.Named) {
			return "" // mentions something else as well: judged by the other rules
		}
		if len(r.Idx) == 1 {
			return "" // the whole field
		}
		seen[r.Idx[1]] = true
	}
	var missing []string
	for i := 0; i < st.NumFields(); i++ {
		if !seen[i] {
			missing = append(missing, st.Field(i).Name())
		}
	}
	if len(seen) == 0 || len(missing) == 0 {
		return ""
	}
	return strings.Join(missing, ", ")
}

func guardOnField(g guard, s *StructInfo, idx int) bool {
	for _, r := range g.refs {
		if len(r.Idx) > 0 && r.Idx[0] == idx && r.RootType != nil && isPrefixView(r.RootType, s.Named) {
			return true
		}
	}
	return false
}

// checkScalarPairs: the scalar prop writers and getters are inverse by construction.
func checkScalarPairs(w *World, c *Check, t *tables, rule string) {
	// writers by value-parameter kind
	for f, info := range t.pw {
		sig := f.Signature
		var kind string
		for i := 0; i < sig.Params().Len(); i++ {
			if i == info.nameParam {
				continue
			}
			pt := types.Unalias(sig.Params().At(i).Type())
			if b, ok := pt.(*types.Basic); ok {
				switch {
				case b.Kind() == types.Bool && sig.Params().Len() == 3:
					kind = "bool"
				case b.Kind() == types.Float64:
					kind = "float"
				case b.Kind() == types.Int64:
					kind = "int"
				}
			}
			if n, ok := pt.(*types.Named); ok && n.Obj().Pkg() != nil && n.Obj().Pkg().Path() == "time" && n.Obj().Name() == "Duration" {
				kind = "duration"
			}
		}
		if kind == "" {
			continue
		}
		formats, callees := formatCalls(f)
		key := kind + ":" + funcName(f)
		switch kind {
		case "bool":
			bad := ""
			for _, fm := range formats {
				if strings.Contains(fm, `"`) {
					bad = fmt.Sprintf("booleans are written with format %q, i.e. as a JSON string; the reader only accepts the JSON literals true/false, so every boolean decodes to false", fm)
				}
			}
			if bad != "" {
				c.bad(rule, key, w.FuncPos(f), bad)
			} else {
				c.ok(rule, key, w.FuncPos(f), fmt.Sprintf("formats %v", formats))
			}
		case "float":
			bad := ""
			for _, fm := range formats {
				if strings.Contains(fm, "%f") || strings.Contains(fm, "%.") || strings.Contains(fm, "%e") {
					bad = fmt.Sprintf("floats are written with the fixed-precision format %q: values are rounded to 6 decimals, so they do not read back equal", fm)
				}
				if strings.Contains(fm, `"`) {
					bad = fmt.Sprintf("floats are written quoted (%q)", fm)
				}
			}
			if p, found := floatPrecisionArg(f); found && p != -1 {
				bad = fmt.Sprintf("floats are formatted with a fixed precision of %d digits instead of the shortest representation that reads back exactly (precision -1): values needing more digits change", p)
			}
			if bs, found := floatBitSizeArg(f); found && bs != 64 {
				bad = fmt.Sprintf("float64 properties are formatted with bit size %d: the shortest decimal of the nearest float%d is written, so values that need more than its mantissa do not read back equal", bs, bs)
			}
			if bad != "" {
				c.bad(rule, key, w.FuncPos(f), bad)
			} else {
				c.ok(rule, key, w.FuncPos(f), fmt.Sprintf("formats %v callees %v", formats, callees))
			}
		case "int":
			bad := ""
			for _, fm := range formats {
				if strings.Contains(fm, `"`) || !strings.Contains(fm, "%d") && !strings.Contains(fm, "%v") {
					bad = fmt.Sprintf("integers are written with format %q", fm)
				}
			}
			if bad != "" {
				c.bad(rule, key, w.FuncPos(f), bad)
			} else {
				c.ok(rule, key, w.FuncPos(f), fmt.Sprintf("formats %v", formats))
			}
		case "duration":
			callees = deepCallees(f, 3)
			wx := usesPkg(callees, "xsd-duration")
			// every value the duration writer hands on to be written comes out of the xsd:duration formatter: a
			// hand-rolled shortcut for "whole seconds under a minute" is a second formatter that nothing checks (it puts
			// the sign of a negative duration after the designator: PT-5S)
			if wx {
				nv := 0
				for _, call := range callsIn(f) {
					cal := call.Common().StaticCallee()
					if cal == nil || cal == f {
						continue
					}
					if _, isPW := t.pw[cal]; !isPW {
						continue
					}
					for _, a := range call.Common().Args {
						if !isByteSlice(a.Type()) && !isStringish(a.Type()) {
							continue
						}
						if _, isConst := a.(*ssa.Const); isConst {
							continue
						}
						if pi := paramIndexOf(f, a); pi >= 0 {
							continue // the property name handed on
						}
						nv++
						vk := fmt.Sprintf("duration:%s:value#%d", funcName(f), nv)
						if valueFromPkg(a, "xsd-duration", 0, map[ssa.Value]bool{}) {
							c.ok(rule, vk, w.InstrPos(call), "the text written comes from the xsd:duration formatter")
						} else {
							c.bad(rule, vk, w.InstrPos(call), fmt.Sprintf("%s writes a duration text that does not come out of the xsd:duration formatter (%s): a second, unchecked rendering of durations — the reader only understands xsd:duration, so values that take this path can come back changed or not at all", funcName(f), shortVal(a)))
						}
					}
				}
			}
			// readers: getters returning time.Duration
			for g := range t.getter {
				res := g.Signature.Results()
				if res.Len() != 1 {
					continue
				}
				n, ok := types.Unalias(res.At(0).Type()).(*types.Named)
				if !ok || n.Obj().Name() != "Duration" || n.Obj().Pkg() == nil || n.Obj().Pkg().Path() != "time" {
					continue
				}
				gcallees := deepCallees(g, 3)
				rx := usesPkg(gcallees, "xsd-duration")
				dk := "duration:" + funcName(f) + "↔" + funcName(g)
				if wx != rx {
					c.bad(rule, dk, w.FuncPos(g), fmt.Sprintf("durations are written by %v but parsed by %v: the two notations (xsd:duration 'PT5S' vs Go '5s') are not inverse, so every duration decodes to 0", pkgNames(callees), pkgNames(gcallees)))
				} else {
					c.ok(rule, dk, w.FuncPos(g), "same notation on both sides")
				}
			}
		}
	}
	// readers of whole numbers: a getter that returns an integer takes it from the parser's integer accessor, not from
	// the float one (int64(v.GetFloat64()) is exact only up to 2^53, and MaxInt64 wraps to MinInt64)
	for g := range t.getter {
		res := g.Signature.Results()
		if res.Len() != 1 {
			continue
		}
		bt, ok := types.Unalias(res.At(0).Type()).Underlying().(*types.Basic)
		if !ok || bt.Info()&types.IsInteger == 0 {
			continue
		}
		if _, isNamed := types.Unalias(res.At(0).Type()).(*types.Named); isNamed {
			continue // time.Duration and friends have their own rule
		}
		via := ""
		for _, call := range callsIn(g) {
			cal := call.Common().StaticCallee()
			if cal == nil || cal.Object() == nil || cal.Object().Pkg() == nil || !strings.HasSuffix(cal.Object().Pkg().Path(), "fastjson") {
				continue
			}
			switch cal.Name() {
			case "GetFloat64", "Float64":
				via = cal.Name()
			}
		}
		if via == "" {
			// strconv.ParseFloat on the text is the same mistake
			for _, call := range callsIn(g) {
				if cal := call.Common().StaticCallee(); cal != nil && cal.Object() != nil && cal.Object().Pkg() != nil && cal.Object().Pkg().Path() == "strconv" && cal.Name() == "ParseFloat" {
					via = "strconv.ParseFloat"
				}
			}
		}
		key := "int-reader:" + funcName(g)
		if via != "" {
			c.bad(rule, key, w.FuncPos(g), fmt.Sprintf("%s returns a whole number but reads it through %s: integers beyond 2^53 (radius, totalItems, startIndex, width, height) come back changed, and the largest ones change sign", funcName(g), via))
		} else {
			c.ok(rule, key, w.FuncPos(g), "read with the integer accessor")
		}
	}
	c.floor(rule, 3)
}

// floatPrecisionArg: the constant precision handed to strconv.FormatFloat / AppendFloat in f.
func floatPrecisionArg(f *ssa.Function) (int64, bool) {
	for _, b := range f.Blocks {
		for _, in := range b.Instrs {
			call, ok := in.(ssa.CallInstruction)
			if !ok {
				continue
			}
			cal := call.Common().StaticCallee()
			if cal == nil || cal.Object() == nil || cal.Object().Pkg() == nil || cal.Object().Pkg().Path() != "strconv" {
				continue
			}
			idx := -1
			switch cal.Name() {
			case "FormatFloat":
				idx = 2
			case "AppendFloat":
				idx = 3
			}
			if idx < 0 || idx >= len(call.Common().Args) {
				continue
			}
			if k, ok := call.Common().Args[idx].(*ssa.Const); ok && k.Value != nil {
				return k.Int64(), true
			}
			return 0, true // non-constant precision: cannot be shown to be the shortest form
		}
	}
	return 0, false
}

// floatBitSizeArg: the constant bit size handed to strconv.FormatFloat / AppendFloat in f (0 when not constant).
func floatBitSizeArg(f *ssa.Function) (int64, bool) {
	for _, b := range f.Blocks {
		for _, in := range b.Instrs {
			call, ok := in.(ssa.CallInstruction)
			if !ok {
				continue
			}
			cal := call.Common().StaticCallee()
			if cal == nil || cal.Object() == nil || cal.Object().Pkg() == nil || cal.Object().Pkg().Path() != "strconv" {
				continue
			}
			idx := -1
			switch cal.Name() {
			case "FormatFloat":
				idx = 3
			case "AppendFloat":
				idx = 4
			}
			if idx < 0 || idx >= len(call.Common().Args) {
				continue
			}
			if k, ok := call.Common().Args[idx].(*ssa.Const); ok && k.Value != nil {
				return k.Int64(), true
			}
			return 0, true
		}
	}
	return 0, false
}

// formatCalls returns the constant format strings of fmt.Sprintf-style calls in f and the external callees.
func formatCalls(f *ssa.Function) (formats []string, callees []string) {
	for _, b := range f.Blocks {
		for _, in := range b.Instrs {
			call, ok := in.(ssa.CallInstruction)
			if !ok {
				continue
			}
			cal := call.Common().StaticCallee()
			if cal == nil || cal.Object() == nil || cal.Object().Pkg() == nil {
				continue
			}
			full := cal.Object().Pkg().Path() + "." + cal.Name()
			if recv := cal.Signature.Recv(); recv != nil {
				full = cal.Object().Pkg().Path() + "." + typeName(recv.Type()) + "." + cal.Name()
			}
			callees = append(callees, full)
			if cal.Object().Pkg().Path() == "fmt" && len(call.Common().Args) > 0 {
				for _, a := range call.Common().Args {
					if c, ok := a.(*ssa.Const); ok && c.Value != nil && c.Value.Kind() == constant.String {
						formats = append(formats, constant.StringVal(c.Value))
						break
					}
				}
			}
		}
	}
	sort.Strings(callees)
	return formats, uniq(callees)
}

// deepCallees: the callees of f and of the same-package helpers it hands the work to (depth levels of helpers): a codec
// reached through an extracted helper is still the codec this function uses.
func deepCallees(f *ssa.Function, depth int) []string {
	seen := map[*ssa.Function]bool{}
	var out []string
	var walk func(g *ssa.Function, d int)
	walk = func(g *ssa.Function, d int) {
		if seen[g] || g.Blocks == nil {
			return
		}
		seen[g] = true
		_, cs := formatCalls(g)
		out = append(out, cs...)
		if d == 0 {
			return
		}
		for _, b := range g.Blocks {
			for _, in := range b.Instrs {
				if call, ok := in.(ssa.CallInstruction); ok {
					if cal := call.Common().StaticCallee(); cal != nil && cal.Pkg != nil && cal.Pkg == f.Pkg {
						walk(cal, d-1)
					}
				}
				if mc, ok := in.(*ssa.MakeClosure); ok {
					if fn, ok := mc.Fn.(*ssa.Function); ok {
						walk(fn, d)
					}
				}
			}
		}
	}
	walk(f, depth)
	sort.Strings(out)
	return uniq(out)
}

func usesPkg(callees []string, frag string) bool {
	for _, c := range callees {
		if strings.Contains(c, frag) {
			return true
		}
	}
	return false
}

func pkgNames(callees []string) []string {
	var out []string
	for _, c := range callees {
		if strings.Contains(c, "xsd") || strings.HasPrefix(c, "time.") || strings.HasPrefix(c, "strconv.") {
			out = append(out, c)
		}
	}
	return out
}

// ---------------- C05 ----------------

func checkC05(w *World, c *Check, tier string) {
	c.Exhaustive = true
	c.Explanation = "Decides the read-side completeness clauses: for every jsonld-tagged field of every vocabulary struct the reader consumes the field's own term and — for fields the vocabulary allows as language maps (tag option 'collapsible') — the term+'Map' form (R-cover/R-map), and nothing else (R-foreign); every getter that branches on the JSON kind of a value and produces items handles string, object and array (shape); no getter looks a key up inside the value it has just obtained under the same key (double lookup, which drops a single embedded object); and every item position funnels into the one type-name dispatcher JSONLoadItem whose name->type table is proved by C07 (type). These are necessary conditions of 'decoding reads what the document says' for every document that uses the field. NOT decided: the re-encoding fixpoint and equality on generated documents; asIRI's acceptance of absolute URLs only."
	c.RuleText = "obligation = (struct type, field) x {R-cover, R-map, R-foreign} + getters x shape + double-lookup sites + item-position funnel; exhaustive over tagged fields and fastjson-typed getters"
	c.Trusted = []string{"go/types, go/ssa", "apcheck tables.go getter summaries", "fastjson accessor semantics"}
	t, err := buildTables(w)
	if err != nil {
		c.bad("C05.R-cover", "anchor", "-", err.Error())
		return
	}
	c.floor("C05.R-cover", 300)
	checkNothingInvented(w, c, t, "C05.invent")
	checkCarriedState(w, c, "C05.carry")
	checkGettersValueBlind(w, c, "C05.invent")
	c.floor("C05.R-map", 20)
	c.floor("C05.shape", 2)
	c.floor("C05.elements", 2)
	c.floor("C05.filter", 14)
	checkLoaderFilter(w, c, "C05.filter")
	c.floor("C05.type", 3)
	for _, s := range w.TaggedStructs() {
		jt := t.jsonTableFor(s)
		if jt.rroot == nil {
			c.bad("C05.R-cover", s.Name+":UnmarshalJSON", "-", "no UnmarshalJSON")
			continue
		}
		for _, f := range s.Fields {
			if f.Term == "" {
				continue
			}
			key := s.Name + "." + f.Name
			rs := jt.rByF[f.Index]
			var rkeys []string
			for _, st := range rs {
				ks, _ := firstKeys(st, embedTerms(w, s))
				rkeys = append(rkeys, ks...)
			}
			rkeys = uniq(rkeys)
			rset := setOf(rkeys)
			pos := w.FuncPos(jt.rroot)
			if len(rs) > 0 {
				pos = w.InstrPos(rs[0].instr)
			}
			if !rset[f.Term] {
				c.bad("C05.R-cover", key, pos, fmt.Sprintf("a document's %q member is ignored when decoding a %s (keys read into the field: %v)", f.Term, s.Name, rkeys))
			} else {
				c.ok("C05.R-cover", key, pos, "reads "+f.Term)
			}
			if f.Collapsible {
				if !rset[f.Term+"Map"] {
					c.bad("C05.R-map", key, pos, fmt.Sprintf("the language-map form %q of %s is never read: multi-language text written by any ActivityStreams producer (and by this library's own encoder) is dropped", f.Term+"Map", key))
				} else {
					c.ok("C05.R-map", key, pos, "reads "+f.Term+"Map")
				}
			}
			allowed := allowedNames(f)
			var foreign []string
			for _, k := range rkeys {
				if !allowed[k] {
					foreign = append(foreign, k)
				}
			}
			if len(foreign) > 0 {
				c.bad("C05.R-foreign", key, pos, fmt.Sprintf("%s is fed from foreign key(s) %v", key, foreign))
			} else if len(rs) > 0 {
				c.ok("C05.R-foreign", key, pos, "only its own term")
			}
		}
	}
	checkShapes(w, c, t)
	checkDoubleLookup(w, c, t)
	checkItemFunnel(w, c, t)
	checkElementFunnel(w, c, t)
}

// checkShapes: getters that switch on (*fastjson.Value).Type() and hand back items must handle the three
// admissible shapes of an item position.
func checkShapes(w *World, c *Check, t *tables) {
	for _, f := range w.Funcs {
		if f.Parent() != nil || !t.producesItems(f) {
			continue
		}
		if _, isGetter := t.getter[f]; !isGetter {
			continue
		}
		kinds := map[string]bool{}
		found := false
		for _, b := range f.Blocks {
			for _, in := range b.Instrs {
				bo, ok := in.(*ssa.BinOp)
				if !ok {
					continue
				}
				var other ssa.Value
				var k *ssa.Const
				if cc, ok := bo.Y.(*ssa.Const); ok {
					other, k = bo.X, cc
				} else if cc, ok := bo.X.(*ssa.Const); ok {
					other, k = bo.Y, cc
				} else {
					continue
				}
				call, ok := other.(*ssa.Call)
				if !ok {
					continue
				}
				cal := call.Common().StaticCallee()
				if cal == nil || cal.Name() != "Type" || !isFastjsonMethod(cal) {
					continue
				}
				found = true
				if n := fastjsonTypeName(w, k); n != "" {
					kinds[n] = true
				}
			}
		}
		if !found {
			continue
		}
		// a single comparison (e.g. "is it an array?") followed by a delegating call is not a shape switch
		if len(kinds) < 2 {
			continue
		}
		var missing []string
		for _, need := range []string{"TypeString", "TypeObject", "TypeArray"} {
			if !kinds[need] {
				missing = append(missing, need)
			}
		}
		if len(missing) > 0 {
			c.bad("C05.shape", funcName(f), w.FuncPos(f), fmt.Sprintf("%s switches on the JSON kind of an item position but does not handle %v", funcName(f), missing))
		} else {
			c.ok("C05.shape", funcName(f), w.FuncPos(f), fmt.Sprintf("handles %v", sortedKeys(kinds)))
		}
	}
}

func fastjsonTypeName(w *World, k *ssa.Const) string {
	n, ok := types.Unalias(k.Type()).(*types.Named)
	if !ok || n.Obj().Pkg() == nil || !strings.HasSuffix(n.Obj().Pkg().Path(), "fastjson") || k.Value == nil {
		return ""
	}
	scope := n.Obj().Pkg().Scope()
	for _, name := range scope.Names() {
		if cst, ok := scope.Lookup(name).(*types.Const); ok && types.Identical(cst.Type(), n) && constant.Compare(cst.Val(), 39 /* token.EQL */, k.Value) {
			return name
		}
	}
	return ""
}

// checkDoubleLookup: v' = v.Get(k) followed by getter(v', k) looks k up inside the value found under k.
func checkDoubleLookup(w *World, c *Check, t *tables) {
	n := 0
	for _, f := range w.Funcs {
		if _, isGetter := t.getter[f]; !isGetter {
			continue
		}
		for _, b := range f.Blocks {
			for _, in := range b.Instrs {
				call, ok := in.(*ssa.Call)
				if !ok {
					continue
				}
				for _, p := range t.lookupsOfCall(call) {
					n++
					if len(p) >= 2 && p[0].param >= 0 && p[1].param == p[0].param {
						callee := "fastjson"
						if cal := call.Common().StaticCallee(); cal != nil {
							callee = funcName(cal)
						}
						c.bad("C05.double", funcName(f)+"→"+callee, w.InstrPos(in), fmt.Sprintf("%s hands the value it found under the property to %s together with the same property name: the member is looked up again inside its own value, so a single embedded object in this position is dropped", funcName(f), callee))
					}
				}
			}
		}
	}
	c.stat("lookup_paths_examined", n)
	c.ok("C05.double", "scan", "-", fmt.Sprintf("%d lookup paths examined", n))
}

// checkItemFunnel: every producer of nested items obtains object-shaped items from the one dispatcher.
func checkItemFunnel(w *World, c *Check, t *tables) {
	disp := w.Func("JSONLoadItem")
	if disp == nil {
		c.bad("C05.type", "anchor:JSONLoadItem", "-", "dispatcher not found")
		return
	}
	for _, f := range w.Funcs {
		if f.Parent() != nil || f == disp {
			continue
		}
		if _, isGetter := t.getter[f]; !isGetter || !t.producesItems(f) {
			continue
		}
		if f.Signature.Recv() != nil {
			continue
		}
		reach := w.Reach([]*ssa.Function{f}, nil)
		ok := false
		for _, g := range reach {
			if g == disp {
				ok = true
			}
		}
		// leaf loaders called by the dispatcher (JSONLoad<K>) are below it, not item positions
		if wireLeafType(w, f) != nil {
			continue
		}
		if ok {
			c.ok("C05.type", funcName(f), w.FuncPos(f), "reaches JSONLoadItem")
		} else {
			c.bad("C05.type", funcName(f), w.FuncPos(f), fmt.Sprintf("%s produces items from JSON without going through the type-name dispatcher JSONLoadItem", funcName(f)))
		}
	}
}

// checkElementFunnel (C05.elements): a getter that hands back items and walks the members of a JSON array hands every
// member to the item dispatcher (directly or through a helper that reaches it). A loop that turns the members into
// items by another route — "the first member is a string, so they all are IRIs" — handles one shape only: the members
// of another shape (an embedded object after an IRI) are silently dropped, which no document with uniform lists shows.
func checkElementFunnel(w *World, c *Check, t *tables) {
	disp := w.Func("JSONLoadItem")
	if disp == nil {
		return
	}
	reaches := map[*ssa.Function]bool{}
	reachesDisp := func(g *ssa.Function) bool {
		if g == nil {
			return false
		}
		if v, ok := reaches[g]; ok {
			return v
		}
		reaches[g] = false
		for _, h := range w.Reach([]*ssa.Function{g}, nil) {
			if h == disp {
				reaches[g] = true
			}
		}
		return reaches[g]
	}
	isArrayOfDoc := func(v ssa.Value) bool {
		sl, ok := types.Unalias(v.Type()).Underlying().(*types.Slice)
		return ok && isFastjsonValuePtr(sl.Elem())
	}
	n := 0
	for _, f := range w.Funcs {
		root := f
		for root.Parent() != nil {
			root = root.Parent()
		}
		if _, isGetter := t.getter[root]; !isGetter || !t.producesItems(root) || root.Signature.Recv() != nil {
			continue
		}
		hs := map[*ssa.BasicBlock]bool{}
		lh := loopHeaders(f)
		for _, b := range f.Blocks {
			for h := range lh[b] {
				hs[h] = true
			}
		}
		type loopUse struct {
			funnel bool
			other  []string
			pos    ssa.Instruction
		}
		loops := map[*ssa.BasicBlock]*loopUse{}
		var order []*ssa.BasicBlock
		for _, b := range f.Blocks {
			for _, in := range b.Instrs {
				ld, ok := in.(*ssa.UnOp)
				if !ok || ld.Op != token.MUL {
					continue
				}
				ia, ok := ld.X.(*ssa.IndexAddr)
				if !ok || !isArrayOfDoc(ia.X) {
					continue
				}
				h := elementLoop(ld, hs)
				if h == nil || ld.Referrers() == nil {
					continue
				}
				lu := loops[h]
				if lu == nil {
					lu = &loopUse{pos: ld}
					loops[h] = lu
					order = append(order, h)
				}
				for _, r := range *ld.Referrers() {
					call, ok := r.(*ssa.Call)
					if !ok {
						continue
					}
					cal := call.Common().StaticCallee()
					if cal == nil {
						continue
					}
					if cal == disp || reachesDisp(cal) || cal == root {
						lu.funnel = true
					} else if w.InPkg(cal) {
						lu.other = append(lu.other, funcName(cal))
					}
				}
			}
		}
		for i, h := range order {
			lu := loops[h]
			if !lu.funnel && len(lu.other) == 0 {
				continue // the members are only inspected (kind tests), nothing is built from them here
			}
			n++
			key := fmt.Sprintf("%s:loop#%d", funcName(f), i+1)
			if lu.funnel {
				c.ok("C05.elements", key, w.InstrPos(lu.pos), "every member goes to the item dispatcher")
			} else {
				c.bad("C05.elements", key, w.InstrPos(lu.pos), fmt.Sprintf("%s builds items from the members of a JSON array through %v only, not through the item dispatcher JSONLoadItem: members of any other shape (an embedded object or link among IRIs) are dropped from the decoded list", funcName(f), uniq(lu.other)))
			}
		}
	}
	c.stat("element_loops", n)
}

// groupUncoveredViews: when no field of a whole prefix view (e.g. the 31 Object fields of Profile) has a site,
// the defect is one construct — the codec never reaches the view's codec — and is reported under one key.
func groupUncoveredViews(w *World, c *Check, rule string, s *StructInfo, byF map[int][]*site, pos, what string) map[int]bool {
	done := map[int]bool{}
	views := w.TaggedStructs()
	sort.Slice(views, func(i, j int) bool { return len(views[i].Fields) > len(views[j].Fields) })
	for _, v := range views {
		if v.Named == s.Named || !isPrefixView(v.Named, s.Named) || len(v.Fields) < 5 {
			continue
		}
		all := true
		n := 0
		for _, f := range v.Fields {
			if f.Term == "" || done[f.Index] {
				continue
			}
			n++
			if len(byF[f.Index]) > 0 {
				all = false
			}
		}
		if all && n >= 5 {
			c.bad(rule, s.Name+"/"+v.Name+"-view", pos, fmt.Sprintf("none of the %d %s properties of a %s is %s: the codec never reaches the %s part of the value", n, v.Name, s.Name, what, v.Name))
			for _, f := range v.Fields {
				done[f.Index] = true
			}
		}
	}
	return done
}

// isLeafStruct: no other tagged struct has s as a proper layout prefix (nothing is viewed through it).
func isLeafStruct(w *World, s *StructInfo) bool {
	for _, v := range w.TaggedStructs() {
		if v.Named != s.Named && isPrefixView(s.Named, v.Named) {
			return false
		}
	}
	return true
}

// checkNothingInvented (C05.invent): a loader fills a property only from what the document says about it. Every store
// into a tagged field inside the JSONLoad* functions must be fed by a read of the document (a call that takes the
// fastjson value/object) or a constant — not by another property of the value being built (a total derived from the
// number of items, a default copied from a sibling): such a value is "invented", it was not in the document, and an
// independent reader of the same document does not see it.
func checkNothingInvented(w *World, c *Check, t *tables, rule string) {
	isDocType := func(tt types.Type) bool {
		n := namedOf(tt)
		return n != nil && n.Obj().Pkg() != nil && strings.HasSuffix(n.Obj().Pkg().Path(), "fastjson")
	}
	var fromDoc func(v ssa.Value, d int, seen map[ssa.Value]bool) (doc bool, other string)
	fromDoc = func(v ssa.Value, d int, seen map[ssa.Value]bool) (bool, string) {
		if d > 10 || seen[v] {
			return false, ""
		}
		seen[v] = true
		switch x := v.(type) {
		case *ssa.Const:
			return true, ""
		case *ssa.Call:
			for _, a := range allArgs(x) {
				if isDocType(a.Type()) {
					return true, ""
				}
			}
			doc, other := false, ""
			for _, a := range allArgs(x) {
				dd, oo := fromDoc(a, d+1, seen)
				doc = doc || dd
				if oo != "" {
					other = oo
				}
			}
			return doc, other
		case *ssa.UnOp:
			if fa, ok := x.X.(*ssa.FieldAddr); ok {
				if fp, ok := t.pr.structPath(fa, 0); ok && len(fp.Names) > 0 {
					return false, fp.String()
				}
			}
			return fromDoc(x.X, d+1, seen)
		case *ssa.Field:
			if fp, ok := t.pr.structPath(x, 0); ok && len(fp.Names) > 0 {
				return false, fp.String()
			}
		case *ssa.FieldAddr:
			if fp, ok := t.pr.structPath(x, 0); ok && len(fp.Names) > 0 {
				return false, fp.String()
			}
		case *ssa.Phi:
			doc, other := false, ""
			for _, e := range x.Edges {
				dd, oo := fromDoc(e, d+1, seen)
				doc = doc || dd
				if oo != "" {
					other = oo
				}
			}
			return doc, other
		case *ssa.Parameter, *ssa.FreeVar:
			return isDocType(x.Type()), ""
		}
		doc, other := false, ""
		if in, ok := v.(ssa.Instruction); ok {
			var rands [8]*ssa.Value
			for _, op := range in.Operands(rands[:0]) {
				if op != nil && *op != nil {
					dd, oo := fromDoc(*op, d+1, seen)
					doc = doc || dd
					if oo != "" {
						other = oo
					}
				}
			}
		}
		return doc, other
	}
	// the loaders: JSONLoad* / JSONUnmarshalTo* and the package functions they hand the document to (a loader split into
	// per-group helpers taking (val, o) is still the loader)
	loaderUnit := map[*ssa.Function]bool{}
	{
		var roots []*ssa.Function
		for _, f := range w.Funcs {
			if f.Parent() == nil && (strings.HasPrefix(f.Name(), "JSONLoad") || strings.HasPrefix(f.Name(), "JSONUnmarshalTo")) {
				roots = append(roots, f)
			}
		}
		takesDoc := func(g *ssa.Function) bool {
			for _, p := range g.Params {
				if isDocType(p.Type()) {
					return true
				}
			}
			return false
		}
		for _, g := range w.Reach(roots, func(g *ssa.Function) bool { return g.Parent() == nil && !takesDoc(g) }) {
			if g.Parent() == nil && takesDoc(g) {
				// a getter hands a value back; a loader (or a part of one) fills what it is given and returns nothing or an error
				res := g.Signature.Results()
				if res.Len() == 0 || (res.Len() == 1 && isErrorType(res.At(0).Type())) || strings.HasPrefix(g.Name(), "JSONLoad") {
					loaderUnit[g] = true
				}
			}
		}
		for _, r := range roots {
			loaderUnit[r] = true
		}
	}
	n := 0
	for _, f := range w.Funcs {
		root := f
		for root.Parent() != nil {
			root = root.Parent()
		}
		if !loaderUnit[root] {
			continue
		}
		cnt := map[string]int{}
		for _, b := range f.Blocks {
			for _, in := range b.Instrs {
				st, ok := in.(*ssa.Store)
				if !ok {
					continue
				}
				fa, ok := st.Addr.(*ssa.FieldAddr)
				if !ok {
					continue
				}
				fp, ok := t.pr.structPath(fa, 0)
				if !ok || len(fp.Names) == 0 || fp.RootType == nil || w.StructInfoOf(fp.RootType.Obj().Name()) == nil {
					continue
				}
				n++
				doc, other := fromDoc(st.Val, 0, map[ssa.Value]bool{})
				key := funcName(f) + ":" + fp.String()
				cnt[key]++
				nth := cnt[key]
				if nth > 1 {
					key = fmt.Sprintf("%s#%d", key, nth)
				}
				_, isConst := unwrap(st.Val).(*ssa.Const)
				if (isConst || (!doc && other == "")) && nth > 1 {
					// a second store into a property this loader has already filled, with a value that owes nothing to
					// the document (a constant, a default): whatever the document said is overwritten on that path
					c.bad(rule, key, w.InstrPos(st), fmt.Sprintf("%s overwrites %s, which it has just read from the document, with a value that does not come from the document (%s): for the documents that take this path the decoded value does not hold what was written", funcName(f), fp.String(), shortVal(st.Val)))
				} else if other != "" && other != fp.String() {
					c.bad(rule, key, w.InstrPos(st), fmt.Sprintf("%s fills %s from %s of the value being built, not from the document: the decoded value holds a property the document does not say (and an independent reader does not see)", funcName(f), fp.String(), other))
				} else {
					c.ok(rule, key, w.InstrPos(st), "filled from the document")
				}
			}
		}
	}
	// … and does not hand a property to a package function that rewrites it from anything but the document: a clean-up
	// pass over what was just read (de-duplicating the recipient lists against each other, sorting, trimming) makes
	// the decoded value differ from what the document says, for the documents the clean-up touches
	eff := computeEffects(w)
	for _, f := range w.Funcs {
		root := f
		for root.Parent() != nil {
			root = root.Parent()
		}
		if !loaderUnit[root] {
			continue
		}
		nc := 0
		for _, call := range callsIn(f) {
			cal := call.Common().StaticCallee()
			if cal == nil || !w.InPkg(cal) || eff.sum[cal] == nil {
				continue
			}
			args := call.Common().Args
			fed := false
			for _, a := range args {
				if isDocType(a.Type()) {
					fed = true
				}
				if _, isConst := a.(*ssa.Const); !isConst {
					if _, isFA := a.(*ssa.FieldAddr); !isFA {
						if d, _ := fromDoc(a, 0, map[ssa.Value]bool{}); d {
							fed = true
						}
					}
				}
			}
			if fed {
				continue
			}
			for ai, a := range args {
				// a variadic list of field addresses counts as each of them
				cands := []ssa.Value{a}
				if elems, ok := variadicElems(a); ok {
					cands = elems
				}
				for _, cand := range cands {
					fa, ok := cand.(*ssa.FieldAddr)
					if !ok {
						continue
					}
					fp, ok := t.pr.structPath(fa, 0)
					if !ok || len(fp.Names) == 0 || fp.RootType == nil || w.StructInfoOf(fp.RootType.Obj().Name()) == nil {
						continue
					}
					if eff.sum[cal].writes&paramBit(ai) == 0 {
						continue
					}
					nc++
					c.bad(rule, fmt.Sprintf("%s:rewrites:%s", funcName(f), fp.String()), w.InstrPos(call), fmt.Sprintf("%s hands %s, which it has read from the document, to %s, which rewrites it from something other than the document: the decoded value no longer holds what the document says (members are removed, reordered or merged)", funcName(f), fp.String(), funcName(cal)))
				}
			}
		}
	}
	c.stat("loader_field_stores", n)
	c.floor(rule, 80)
}

// checkCarriedState (C05.carry): the callback handed to the JSON parser's member iteration (Object.Visit) runs once per
// member. A struct-typed variable it captures from the enclosing decoder and both writes and reads is state carried
// from one member to the next: every read of it (of a field, or of the whole value when it is appended to the result)
// must be preceded, inside the callback and on every path, by a store to each field read — otherwise a member that
// does not set a field (an entry without a text) silently takes the previous member's value: text is invented.
func checkCarriedState(w *World, c *Check, rule string) {
	n := 0
	for _, f := range w.Funcs {
		inFn := 0 // the key counts per function: another function gaining a Visit call must not rename this one's
		for _, call := range callsIn(f) {
			cal := call.Common().StaticCallee()
			if cal == nil || cal.Object() == nil || cal.Object().Pkg() == nil || !strings.HasSuffix(cal.Object().Pkg().Path(), "fastjson") || cal.Name() != "Visit" {
				continue
			}
			mc := closureArg(call)
			if mc == nil {
				continue
			}
			g := mc.Fn.(*ssa.Function)
			n++
			inFn++
			key := fmt.Sprintf("%s:visit#%d", funcName(f), inFn)
			bad := ""
			for fi, fv := range g.FreeVars {
				pt, ok := types.Unalias(fv.Type()).Underlying().(*types.Pointer)
				if !ok {
					continue
				}
				st, ok := types.Unalias(pt.Elem()).Underlying().(*types.Struct)
				if !ok || fi >= len(mc.Bindings) {
					continue
				}
				// stores and loads through the captured cell
				type acc struct {
					in    ssa.Instruction
					field int // -1: whole value
				}
				var stores, loads []acc
				for _, r := range *fv.Referrers() {
					switch x := r.(type) {
					case *ssa.Store:
						if x.Addr == ssa.Value(fv) {
							stores = append(stores, acc{x, -1})
						}
					case *ssa.UnOp:
						if x.Op == token.MUL {
							loads = append(loads, acc{x, -1})
						}
					case *ssa.FieldAddr:
						for _, r2 := range *x.Referrers() {
							switch y := r2.(type) {
							case *ssa.Store:
								if y.Addr == ssa.Value(x) {
									stores = append(stores, acc{y, x.Field})
								}
							case *ssa.UnOp:
								if y.Op == token.MUL {
									loads = append(loads, acc{y, x.Field})
								}
							}
						}
					}
				}
				if len(stores) == 0 || len(loads) == 0 {
					continue // read-only configuration, or a pure output cell
				}
				dominatedBy := func(ld ssa.Instruction, field int) bool {
					for _, s := range stores {
						if s.field != field && s.field != -1 {
							continue
						}
						if s.in.Block() == ld.Block() && instrIndex(s.in) < instrIndex(ld) {
							return true
						}
						if s.in.Block() != ld.Block() && s.in.Block().Dominates(ld.Block()) {
							return true
						}
					}
					return false
				}
				for _, ld := range loads {
					fields := []int{ld.field}
					if ld.field == -1 {
						fields = nil
						for k := 0; k < st.NumFields(); k++ {
							fields = append(fields, k)
						}
					}
					for _, k := range fields {
						if !dominatedBy(ld.in, k) {
							bad = fmt.Sprintf("the per-member callback reads field %s of the captured %s at %s without having set it on every path of this call: a member that does not set it keeps the value of the member visited before (a language-map entry without a text takes the previous entry's text)", st.Field(k).Name(), typeName(pt.Elem()), w.InstrPos(ld.in))
						}
					}
				}
			}
			if bad != "" {
				c.bad(rule, key, w.InstrPos(call), bad)
			} else {
				c.ok(rule, key, w.InstrPos(call), "no struct state is carried from one member to the next")
			}
		}
	}
	c.stat("member_iteration_callbacks", n)
}

// checkWholeListWritten (C01.W-whole): a property writer that is handed a list-typed value (the language/text list, an
// item list) writes the list through the list's own encoder. A branch that writes a single entry of it instead — "all
// languages carry the same text, so the text says it all" — drops the other entries (their tags) for the values that
// take the branch.
func checkWholeListWritten(w *World, c *Check, t *tables, rule string) {
	n := 0
	for f := range t.pw {
		var lists []*ssa.Parameter
		for _, p := range f.Params {
			if _, isSlice := types.Unalias(p.Type()).Underlying().(*types.Slice); isSlice && namedOf(p.Type()) != nil && namedOf(p.Type()).Obj().Pkg() == w.Types {
				lists = append(lists, p)
			}
		}
		for _, lp := range lists {
			// values written by f through another prop writer or the raw value writer
			k := 0
			for _, call := range callsIn(f) {
				cal := call.Common().StaticCallee()
				if cal == nil || !w.InPkg(cal) || cal == f {
					continue
				}
				if _, isPW := t.pw[cal]; !isPW {
					continue
				}
				for _, a := range call.Common().Args {
					if !isByteSlice(a.Type()) && !isStringish(a.Type()) {
						continue
					}
					how := partOfList(a, lp, 0, map[ssa.Value]bool{})
					if how == "" {
						continue
					}
					k++
					n++
					key := fmt.Sprintf("%s:%s#%d", funcName(f), lp.Name(), k)
					if how == "whole" {
						c.ok(rule, key, w.InstrPos(call), "the list is written through its own encoder")
					} else {
						c.bad(rule, key, w.InstrPos(call), fmt.Sprintf("%s writes %s of the list %s instead of the list: for the values that take this path the other entries (and their language tags) are not written at all", funcName(f), how, lp.Name()))
					}
				}
			}
		}
	}
	c.stat(rule+"_list_writes", n)
}

// partOfList: how the written bytes v derive from the list parameter lp: "whole" (a method of the list other than an
// element accessor, e.g. its MarshalJSON), a description of the element access ("the first entry"), or "" when v does
// not derive from lp at all.
func partOfList(v ssa.Value, lp *ssa.Parameter, d int, seen map[ssa.Value]bool) string {
	if v == nil || d > 12 || seen[v] {
		return ""
	}
	seen[v] = true
	v = unwrap(v)
	// the parameter spilled into a local (a pointer-receiver method was called on it): loads of the local are the list
	isList := func(y ssa.Value) bool {
		y = unwrap(y)
		if y == ssa.Value(lp) {
			return true
		}
		if ld, ok := y.(*ssa.UnOp); ok && ld.Op == token.MUL {
			if al, ok := ld.X.(*ssa.Alloc); ok {
				sts := storesTo(al)
				return len(sts) == 1 && sts[0].Val == ssa.Value(lp)
			}
		}
		return false
	}
	if isList(v) {
		return "whole"
	}
	switch x := v.(type) {
	case *ssa.Extract:
		return partOfList(x.Tuple, lp, d+1, seen)
	case *ssa.Phi:
		res := ""
		for _, e := range x.Edges {
			if r := partOfList(e, lp, d+1, seen); r != "" && (res == "" || res == "whole") {
				res = r
			}
		}
		return res
	case *ssa.Field:
		if r := partOfList(x.X, lp, d+1, seen); r != "" {
			return r
		}
	case *ssa.UnOp:
		if ia, ok := x.X.(*ssa.IndexAddr); ok && isList(ia.X) {
			return "one entry"
		}
		if fa, ok := x.X.(*ssa.FieldAddr); ok {
			if ia, ok := fa.X.(*ssa.IndexAddr); ok && isList(ia.X) {
				return "one entry"
			}
		}
		return partOfList(x.X, lp, d+1, seen)
	case *ssa.Index:
		if isList(x.X) {
			return "one entry"
		}
	case *ssa.Call:
		cal := x.Common().StaticCallee()
		args := allArgs(x)
		recvIsList := false
		if len(args) > 0 {
			recvIsList = isList(args[0])
			if al, ok := unwrap(args[0]).(*ssa.Alloc); ok { // pointer receiver: &local
				sts := storesTo(al)
				recvIsList = recvIsList || (len(sts) == 1 && sts[0].Val == ssa.Value(lp))
			}
		}
		if cal != nil && cal.Signature.Recv() != nil && recvIsList {
			switch cal.Name() {
			case "First", "Get", "Last":
				return "the entry " + cal.Name() + "() yields"
			}
			return "whole"
		}
		res := ""
		for _, a := range args {
			if r := partOfList(a, lp, d+1, seen); r != "" && (res == "" || res == "whole") {
				res = r
			}
		}
		return res
	}
	return ""
}

// valueFromPkg: v derives (through conversions, locals, phis, appends and extracts) from the result of a call into a
// package whose path contains frag, on EVERY way it can be produced.
func valueFromPkg(v ssa.Value, frag string, d int, seen map[ssa.Value]bool) bool {
	if v == nil || d > 12 {
		return false
	}
	if seen[v] {
		return true
	}
	seen[v] = true
	switch x := v.(type) {
	case *ssa.Convert:
		return valueFromPkg(x.X, frag, d+1, seen)
	case *ssa.ChangeType:
		return valueFromPkg(x.X, frag, d+1, seen)
	case *ssa.Extract:
		return valueFromPkg(x.Tuple, frag, d+1, seen)
	case *ssa.Slice:
		return valueFromPkg(x.X, frag, d+1, seen)
	case *ssa.Phi:
		for _, e := range x.Edges {
			if !valueFromPkg(e, frag, d+1, seen) {
				return false
			}
		}
		return len(x.Edges) > 0
	case *ssa.UnOp:
		if al, ok := x.X.(*ssa.Alloc); ok && x.Op == token.MUL {
			// what the local was given: direct stores, and what helpers that got its address were handed (JSONWrite(&tb, v...))
			var fills []ssa.Value
			for _, st := range storesTo(al) {
				if k, isC := st.Val.(*ssa.Const); isC && k.Value == nil {
					continue // var tb []byte
				}
				fills = append(fills, st.Val)
			}
			if al.Referrers() != nil {
				for _, r := range *al.Referrers() {
					call, isCall := r.(*ssa.Call)
					if !isCall {
						continue
					}
					for _, a := range call.Common().Args {
						if a == ssa.Value(al) {
							continue
						}
						if elems, okE := variadicElems(a); okE {
							for _, e := range elems {
								if _, isC := e.(*ssa.Const); !isC {
									fills = append(fills, e)
								}
							}
							continue
						}
						if _, isC := a.(*ssa.Const); !isC && (isByteSlice(a.Type()) || isStringish(a.Type())) {
							fills = append(fills, a)
						}
					}
				}
			}
			if len(fills) == 0 {
				return false
			}
			for _, fv := range fills {
				if !valueFromPkg(fv, frag, d+1, seen) {
					return false
				}
			}
			return true
		}
	case *ssa.Call:
		cal := x.Common().StaticCallee()
		if cal != nil && cal.Object() != nil && cal.Object().Pkg() != nil && strings.Contains(cal.Object().Pkg().Path(), frag) {
			return true
		}
		if bi, ok := x.Common().Value.(*ssa.Builtin); ok && bi.Name() == "append" {
			// quotes appended around the formatted text: some operand comes from the package, the others are constants
			from := false
			for _, a := range x.Common().Args {
				if valueFromPkg(a, frag, d+1, seen) {
					from = true
				}
			}
			return from
		}
		// a package helper that wraps the text (adds quotes): look at its text arguments
		if cal != nil && cal.Pkg != nil && x.Parent() != nil && cal.Pkg == x.Parent().Pkg {
			for _, a := range x.Common().Args {
				if (isByteSlice(a.Type()) || isStringish(a.Type())) && valueFromPkg(a, frag, d+1, seen) {
					return true
				}
			}
		}
	}
	return false
}

// checkGettersValueBlind: the scalar getters of the decoder (JSONGet* returning a time, a duration, a number or a bool)
// decide what to return from the presence of the member and the parser's verdict only — never from the decoded value
// itself. A branch on the value ("the Unix epoch stands for no date: return the zero time") makes some documents'
// values disappear: they are read as unset and are no longer written back.
func checkGettersValueBlind(w *World, c *Check, rule string) {
	n := 0
	for _, f := range w.Funcs {
		if f.Parent() != nil || f.Signature.Recv() != nil || !strings.HasPrefix(f.Name(), "JSONGet") || f.Blocks == nil || f.Signature.Results().Len() != 1 || !w.InPkg(f) {
			continue
		}
		rt := f.Signature.Results().At(0).Type()
		scalar := false
		if b, ok := types.Unalias(rt).Underlying().(*types.Basic); ok && b.Info()&types.IsNumeric != 0 {
			scalar = true // (a bool getter's conditions are bools themselves: not judged)
		}
		if nm := namedOf(rt); nm != nil && nm.Obj().Pkg() != nil && nm.Obj().Pkg().Path() == "time" {
			scalar = true
		}
		if !scalar {
			continue
		}
		n++
		var fromValue func(v ssa.Value, d int, seen map[ssa.Value]bool) bool
		fromValue = func(v ssa.Value, d int, seen map[ssa.Value]bool) bool {
			if v == nil || d > 8 || seen[v] {
				return false
			}
			seen[v] = true
			if _, isConst := v.(*ssa.Const); isConst {
				return false
			}
			if types.Identical(v.Type(), rt) {
				return true
			}
			if p, isPtr := types.Unalias(v.Type()).(*types.Pointer); isPtr && types.Identical(p.Elem(), rt) {
				if _, isAl := v.(*ssa.Alloc); isAl {
					return true
				}
			}
			switch x := v.(type) {
			case *ssa.BinOp:
				return fromValue(x.X, d+1, seen) || fromValue(x.Y, d+1, seen)
			case *ssa.UnOp:
				return fromValue(x.X, d+1, seen)
			case *ssa.Convert:
				return fromValue(x.X, d+1, seen)
			case *ssa.ChangeType:
				return fromValue(x.X, d+1, seen)
			case *ssa.Extract:
				return fromValue(x.Tuple, d+1, seen)
			case *ssa.Phi:
				for _, e := range x.Edges {
					if fromValue(e, d+1, seen) {
						return true
					}
				}
			case *ssa.Call:
				// a method of the decoded value (t.Unix(), t.IsZero(), d.Seconds())
				if cal := x.Common().StaticCallee(); cal != nil && cal.Signature.Recv() != nil && len(x.Common().Args) > 0 {
					if isErrorType(x.Type()) {
						return false // the parser's verdict (t.UnmarshalText(str) != nil)
					}
					return fromValue(x.Common().Args[0], d+1, seen)
				}
			}
			return false
		}
		bad := false
		for _, b := range f.Blocks {
			iff, ok := b.Instrs[len(b.Instrs)-1].(*ssa.If)
			if !ok {
				continue
			}
			if fromValue(iff.Cond, 0, map[ssa.Value]bool{}) {
				bad = true
				c.bad(rule, "getter-decides-from-value:"+funcName(f), w.InstrPos(iff), fmt.Sprintf("%s branches on the value it has decoded: for the documents whose value falls on one side (a date at or before the Unix epoch, a zero) the getter returns something else than what the document says, and the property is read as unset", funcName(f)))
				break
			}
		}
		if !bad {
			c.ok(rule, "getter-decides-from-value:"+funcName(f), w.FuncPos(f), "branches on presence and parser verdicts only")
		}
	}
	c.stat("scalar_getters", n)
}
