package main

import (
	"fmt"
	"go/ast"
	"go/constant"
	"go/token"
	"go/types"
	"regexp"
	"sort"
	"strings"

	"golang.org/x/tools/go/ssa"
)

func init() { register("C02", checkC02) }

// bclass: where the bytes of a value come from, as far as JSON-safety is concerned.
type bclass struct {
	raw    bool
	why    string
	params uint64 // bit i: verbatim copy of (part of) parameter i of the enclosing function
}

func (a bclass) join(b bclass) bclass {
	r := bclass{raw: a.raw || b.raw, params: a.params | b.params, why: a.why}
	if r.why == "" {
		r.why = b.why
	}
	return r
}

func rawClass(why string) bclass { return bclass{raw: true, why: why} }

type byteFlow struct {
	w        *World
	pr       *prover
	blessed  map[*ssa.Function]bool   // escapers: whatever they are given ends up escaped in the buffer
	fwd      map[*ssa.Function]uint64 // functions that write (part of) these parameters verbatim to an output buffer
	retc     map[*ssa.Function]*bclass
	busyRet  map[*ssa.Function]bool
	memo     map[ssa.Value]bclass
	busy     map[ssa.Value]bool
	inScope  map[*ssa.Function]bool
	findings map[string]string // key -> detail
	fpos     map[string]string
	nsinks   int
}

func isByteish(t types.Type) bool {
	t = types.Unalias(t)
	if isStringish(t) {
		return true
	}
	if s, ok := t.Underlying().(*types.Slice); ok {
		if b, ok := types.Unalias(s.Elem()).Underlying().(*types.Basic); ok && (b.Kind() == types.Byte || b.Kind() == types.Uint8) {
			return true
		}
	}
	if s, ok := t.Underlying().(*types.Slice); ok && isStringish(s.Elem()) {
		return true // a list of strings (IRIs)
	}
	if b, ok := t.Underlying().(*types.Basic); ok && (b.Kind() == types.Byte || b.Kind() == types.Rune || b.Kind() == types.Int32) {
		return true
	}
	return false
}

func fullName(fn *ssa.Function) string {
	if fn == nil {
		return ""
	}
	return extName(fn)
}

// verbsSafe: a constant fmt format whose verbs, applied to the given argument types, can only produce JSON-safe text.
func verbsSafe(format string, argTypes []types.Type) (bool, string) {
	ai := 0
	for i := 0; i < len(format); i++ {
		if format[i] != '%' {
			continue
		}
		i++
		for i < len(format) && strings.ContainsRune("+-# 0123456789.", rune(format[i])) {
			i++
		}
		if i >= len(format) {
			break
		}
		v := format[i]
		if v == '%' {
			continue
		}
		var at types.Type
		if ai < len(argTypes) {
			at = argTypes[ai]
		}
		ai++
		numeric := false
		if at != nil {
			if b, ok := types.Unalias(at).Underlying().(*types.Basic); ok && b.Info()&(types.IsNumeric|types.IsBoolean) != 0 {
				numeric = true
			}
		}
		switch v {
		case 'd', 't', 'f', 'g', 'e', 'x', 'b', 'o':
			if !numeric {
				return false, fmt.Sprintf("verb %%%c applied to a non-numeric value", v)
			}
		case 'v':
			if !numeric {
				return false, "verb %v applied to a non-numeric value copies it verbatim"
			}
		case 's':
			return false, "verb %s copies the string verbatim (no JSON escaping)"
		case 'q':
			return false, "verb %q applies Go quoting, which is not JSON string syntax (\\x.., \\U…)"
		default:
			return false, fmt.Sprintf("verb %%%c", v)
		}
	}
	return true, ""
}

func (bf *byteFlow) classify(v ssa.Value) bclass {
	if v == nil {
		return bclass{}
	}
	if c, ok := bf.memo[v]; ok {
		return c
	}
	if bf.busy[v] {
		return bclass{}
	}
	bf.busy[v] = true
	defer delete(bf.busy, v)
	c := bf.classify0(v)
	bf.memo[v] = c
	return c
}

func (bf *byteFlow) classify0(v ssa.Value) bclass {
	// the name column of a local literal table (for _, r := range [...]struct{name string; …}{{"to", …}, …}): constants
	if rows, nf, _, isRow := literalTableRowsOf(v); isRow && len(rows) > 0 {
		allConst := true
		for _, row := range rows {
			if _, isC := row[nf].(*ssa.Const); !isC {
				allConst = false
			}
		}
		if allConst {
			return bclass{}
		}
	}
	switch x := v.(type) {
	case *ssa.Const:
		return bclass{}
	case *ssa.Parameter:
		if !isByteish(x.Type()) {
			return bclass{}
		}
		for i, p := range x.Parent().Params {
			if p == x {
				return bclass{params: 1 << uint(i)}
			}
		}
	case *ssa.FreeVar:
		if b, ok := bf.pr.fvMap[x]; ok {
			return bf.classify(b)
		}
		return rawClass("captured variable")
	case *ssa.Convert:
		if isByteish(x.X.Type()) {
			return bf.classify(x.X)
		}
		// byte(b), rune(b) of numbers etc.
		return bf.classify(x.X)
	case *ssa.ChangeType:
		return bf.classify(x.X)
	case *ssa.MakeInterface:
		return bf.classify(x.X)
	case *ssa.Slice:
		if al, ok := x.X.(*ssa.Alloc); ok {
			return bf.arrayLiteral(al)
		}
		return bf.classify(x.X)
	case *ssa.Phi:
		var c bclass
		for _, e := range x.Edges {
			c = c.join(bf.classify(e))
		}
		return c
	case *ssa.BinOp:
		if x.Op == token.ADD && isStringish(x.Type()) {
			return bf.classify(x.X).join(bf.classify(x.Y))
		}
		return bclass{} // arithmetic on bytes/numbers (hex digits etc.)
	case *ssa.Extract:
		return bf.classify(x.Tuple)
	case *ssa.Index, *ssa.IndexAddr:
		// a single byte/element of something: inherits
		if ix, ok := x.(*ssa.Index); ok {
			return bf.classify(ix.X)
		}
		return bf.classify(x.(*ssa.IndexAddr).X)
	case *ssa.Lookup:
		return bf.classify(x.X)
	case *ssa.Field:
		if isByteish(x.Type()) {
			return rawClass("the " + fieldNameOf(x.X.Type(), x.Field) + " field (arbitrary bytes)")
		}
		return bclass{}
	case *ssa.UnOp:
		if x.Op != token.MUL {
			return bf.classify(x.X)
		}
		switch a := x.X.(type) {
		case *ssa.FieldAddr:
			if isByteish(x.Type()) {
				return rawClass("the " + fieldNameOf(a.X.Type(), a.Field) + " field (arbitrary bytes)")
			}
			return bclass{}
		case *ssa.IndexAddr:
			return bf.classify(a.X)
		case *ssa.Alloc:
			return bf.localCell(a)
		case *ssa.FreeVar:
			if b, ok := bf.pr.fvMap[a]; ok {
				if al, ok := b.(*ssa.Alloc); ok {
					return bf.localCell(al)
				}
			}
			return rawClass("captured variable")
		case *ssa.Global:
			// package-level tables such as hex digits
			return bclass{}
		case *ssa.Parameter:
			// *b where b is an out-buffer parameter: its previous contents, not data
			return bclass{}
		}
		return bf.classify(x.X)
	case *ssa.Call:
		return bf.classifyCall(x)
	case *ssa.Alloc:
		return bf.localCell(x)
	case *ssa.MakeSlice:
		return bclass{}
	}
	if !isByteish(v.Type()) {
		return bclass{}
	}
	return rawClass(fmt.Sprintf("%T", v))
}

// arrayLiteral: []byte{'{'} and varargs arrays: join of the stored elements.
func (bf *byteFlow) arrayLiteral(al *ssa.Alloc) bclass {
	var c bclass
	if refs := al.Referrers(); refs != nil {
		for _, r := range *refs {
			if ia, ok := r.(*ssa.IndexAddr); ok && ia.Referrers() != nil {
				for _, rr := range *ia.Referrers() {
					if st, ok := rr.(*ssa.Store); ok && st.Addr == ia {
						c = c.join(bf.classify(st.Val))
					}
				}
			}
		}
	}
	for _, st := range storesTo(al) {
		c = c.join(bf.classify(st.Val))
	}
	return c
}

// localCell: a local variable: what was stored into it plus what was written into it through its address.
func (bf *byteFlow) localCell(al *ssa.Alloc) bclass {
	if _, isArr := derefType(al.Type()).Underlying().(*types.Array); isArr {
		return bf.arrayLiteral(al)
	}
	var c bclass
	for _, st := range storesTo(al) {
		c = c.join(bf.classify(st.Val))
	}
	if refs := al.Referrers(); refs != nil {
		for _, r := range *refs {
			call, ok := r.(*ssa.Call)
			if !ok {
				continue
			}
			c = c.join(bf.writtenInto(call, al))
		}
	}
	return c
}

// writtenInto: the class of the data a call writes into the buffer whose address it is handed.
func (bf *byteFlow) writtenInto(call *ssa.Call, buf ssa.Value) bclass {
	cc := call.Common()
	args := cc.Args
	cal := cc.StaticCallee()
	if cal == nil || len(args) == 0 || args[0] != buf {
		return bclass{}
	}
	if bf.blessed[cal] {
		return bclass{}
	}
	name := fullName(cal)
	switch name {
	case "(*bytes.Buffer).Write", "(*bytes.Buffer).WriteString", "(*bytes.Buffer).WriteByte", "(*bytes.Buffer).WriteRune",
		"(*strings.Builder).Write", "(*strings.Builder).WriteString", "(*strings.Builder).WriteByte", "(*strings.Builder).WriteRune":
		if len(args) > 1 {
			return bf.classify(args[1])
		}
		return bclass{}
	}
	if mask, ok := bf.fwd[cal]; ok {
		var c bclass
		for i := 0; i < len(args) && i < 64; i++ {
			if mask&(1<<uint(i)) != 0 {
				c = c.join(bf.classify(args[i]))
			}
		}
		return c
	}
	if bf.w.InPkg(cal) {
		return bclass{} // a package function that writes nothing verbatim (its own sinks are judged on their own)
	}
	if strings.HasPrefix(name, "fmt.Fprint") {
		return rawClass("fmt.Fprint* into the buffer")
	}
	return bclass{}
}

func (bf *byteFlow) classifyCall(x *ssa.Call) bclass {
	cc := x.Common()
	if cc.IsInvoke() {
		switch cc.Method.Name() {
		case "MarshalJSON":
			return bclass{} // nested JSON produced by another value's encoder (inductively subject to this rule)
		}
		if !isByteish(x.Type()) {
			if tup, ok := x.Type().(*types.Tuple); !ok || tup.Len() == 0 || !isByteish(tup.At(0).Type()) {
				return bclass{}
			}
		}
		return rawClass("result of " + cc.Method.Name() + "() on an interface value")
	}
	if bi, ok := cc.Value.(*ssa.Builtin); ok {
		switch bi.Name() {
		case "append":
			var c bclass
			for _, a := range cc.Args {
				c = c.join(bf.classify(a))
			}
			return c
		case "len", "cap", "copy":
			return bclass{}
		}
		return bclass{}
	}
	cal := cc.StaticCallee()
	if cal == nil {
		return rawClass("result of a dynamic call")
	}
	name := fullName(cal)
	if cal.Name() == "MarshalJSON" && cal.Signature.Recv() != nil {
		return bclass{}
	}
	switch {
	case name == "encoding/json.Marshal", strings.HasPrefix(name, "git.sr.ht/~mariusor/go-xsd-duration.Marshal"), name == "github.com/go-ap/jsonld.Marshal":
		return bclass{}
	case strings.HasPrefix(name, "strconv.Append"), strings.HasPrefix(name, "strconv.Format"), name == "strconv.Itoa", name == "strconv.Quote", name == "strconv.AppendQuote":
		if strings.Contains(name, "Quote") {
			return rawClass(name + " applies Go quoting, not JSON string syntax")
		}
		return bclass{}
	case name == "(time.Time).Format" || name == "(time.Time).AppendFormat":
		for _, a := range cc.Args[1:] {
			if _, ok := a.(*ssa.Const); ok {
				return bclass{}
			}
		}
		return rawClass("time layout is not a constant")
	case name == "(time.Time).UTC" || strings.HasPrefix(name, "(time."):
		return bclass{}
	case name == "fmt.Sprintf":
		f, ok := constString(cc.Args[0])
		if !ok {
			return rawClass("fmt.Sprintf with a non-constant format")
		}
		var ats []types.Type
		var avs []ssa.Value
		if len(cc.Args) > 1 {
			if elems, ok := variadicElems(cc.Args[1]); ok {
				for _, e := range elems {
					e0 := e
					if mi, ok := e.(*ssa.MakeInterface); ok {
						e0 = mi.X
					}
					ats = append(ats, e0.Type())
					avs = append(avs, e0)
				}
			}
		}
		if ok, why := verbsSafe(f, ats); !ok {
			// %s of data: verbatim copy of the arguments
			c := bclass{}
			any := false
			for _, a := range avs {
				if isByteish(a.Type()) {
					ac := bf.classify(a)
					if ac.raw || ac.params != 0 {
						c = c.join(ac)
						any = true
					}
				}
			}
			if any && !c.raw && c.params != 0 {
				return c // deferred to the callers
			}
			if c.raw {
				return c
			}
			return rawClass(fmt.Sprintf("fmt.Sprintf(%q): %s", f, why))
		}
		return bclass{}
	case name == "(*bytes.Buffer).Bytes" || name == "(*bytes.Buffer).String" || name == "(*strings.Builder).String":
		if al, ok := cc.Args[0].(*ssa.Alloc); ok {
			return bf.localCell(al)
		}
		return rawClass("contents of a buffer that is not local")
	}
	if bf.blessed[cal] {
		return bclass{}
	}
	if bf.w.InPkg(cal) {
		rc := bf.retClass(cal)
		c := bclass{raw: rc.raw, why: rc.why}
		for i := 0; i < len(cc.Args) && i < 64; i++ {
			if rc.params&(1<<uint(i)) != 0 {
				c = c.join(bf.classify(cc.Args[i]))
			}
		}
		if rc.params != 0 && !c.raw && c.params == 0 {
			// a package function handed safe input returns safe output only if it does not rewrite: it is not an
			// escaper, but it cannot introduce unsafe bytes either when its input was constant
		}
		return c
	}
	if !isByteish(x.Type()) {
		if tup, ok := x.Type().(*types.Tuple); !ok || tup.Len() == 0 || !isByteish(tup.At(0).Type()) {
			return bclass{}
		}
	}
	return rawClass("result of " + name)
}

// retClass: class of what a package function returns, in terms of its own parameters.
func (bf *byteFlow) retClass(fn *ssa.Function) bclass {
	if c, ok := bf.retc[fn]; ok {
		return *c
	}
	if bf.busyRet[fn] {
		return bclass{}
	}
	bf.busyRet[fn] = true
	defer delete(bf.busyRet, fn)
	var c bclass
	for _, rb := range returnBlocks(fn) {
		ret := rb.Instrs[len(rb.Instrs)-1].(*ssa.Return)
		for _, rv := range ret.Results {
			if isByteish(rv.Type()) {
				c = c.join(bf.classify(rv))
			}
		}
	}
	bf.retc[fn] = &c
	return c
}

var termRE = regexp.MustCompile(`^[@A-Za-z][A-Za-z0-9]*$`)

func checkC02(w *World, c *Check, tier string) {
	c.Exhaustive = true
	c.Explanation = "Decides the structural clauses of 'emitted JSON is valid, unambiguous, injection-free and correctly termed': (raw) provenance of every byte string that reaches an output buffer in the closure of the JSON encoders — each operand appended must be a constant, the output of the blessed escaper stringBytes / encoding/json.Marshal, nested JSON from another MarshalJSON, or numeric/boolean/instant/duration text produced with a constant format; a string-kinded field, a receiver's own bytes, a %s-formatted string or the result of a non-escaping function reaching a buffer is a finding at the place where the raw bytes first enter (parameters are resolved at every call site); (esc-table) the escaper's tables mark none of 0x00–0x1f, '\"' and '\\\\' as safe and the escaper consults them; (name) every member name is a compile-time constant term; (dup) no two write sites of one type's encoder emit the same member name unless they are on mutually exclusive paths; (kind) every field is written by the writer kind its Go type calls for (bool/int/float/instant/duration/text/item/list) with RFC 3339 and xsd:duration produced by constant layout / the xsd package; (brace) every encoder returns either nil or a buffer closed after it was opened. Term conformity is C01.W-term. (grammar) every MarshalJSON method is interpreted path-sensitively over SSA with the buffer's state kept as the stack of a JSON parser: each write keeps the buffer a prefix of a JSON text for every combination of set/unset properties, every non-empty result is one complete value, floats are written only when finite, and (term-kind) no member whose name ends in 'Map' carries a plain JSON string (length classes 0/1/2+ of named slices are tracked through len comparisons and length getters); (escaper) cursor/flush discipline and escape table of stringBytes. NOT decided: an object value under the plain (non-Map) term, the representation of invalid UTF-8, json.Marshaler implementations outside the package."
	c.RuleText = "one obligation per output-buffer sink in the encoder closure (raw), per escaper table entry class, per write site (name, kind), per (type, member name) (dup), per encoder (brace); exhaustive"
	c.Trusted = []string{"go/ssa, go/types", "apcheck tables.go", "encoding/json.Marshal and the copied escaper stringBytes escape per RFC 8259 given their tables"}
	c.floor("C02.raw", 40)
	c.floor("C02.name", 100)
	c.floor("C02.dup", 14)
	checkDynamicNames(w, c, "C02.dup")
	c.floor("C02.asis", 8)
	checkQuotedAsIs(w, c, "C02.asis")
	checkMapTermDecider(w, c)
	c.floor("C02.kind", 100)
	c.floor("C02.brace", 14)
	t, err := buildTables(w)
	if err != nil {
		c.bad("C02.raw", "anchor", "-", err.Error())
		return
	}
	// (kind:pair) the scalar writers and their readers are inverse by construction: bool unquoted, float shortest
	// round trip, durations through the xsd:duration formatter on every path
	checkScalarPairs(w, c, t, "C02.pair")
	checkRaw(w, c, t)
	checkEscTable(w, c)
	checkNamesDupKind(w, c, t)
	checkBraces(w, c)
	checkEscaper(w, c, "C02.escaper")
	checkGrammar(w, c, "C02.grammar")
}

func checkRaw(w *World, c *Check, t *tables) {
	bf := &byteFlow{w: w, pr: t.pr, blessed: map[*ssa.Function]bool{}, fwd: map[*ssa.Function]uint64{}, retc: map[*ssa.Function]*bclass{},
		busyRet: map[*ssa.Function]bool{}, memo: map[ssa.Value]bclass{}, busy: map[ssa.Value]bool{}, inScope: map[*ssa.Function]bool{},
		findings: map[string]string{}, fpos: map[string]string{}}
	esc := w.Func("stringBytes")
	if esc == nil {
		c.bad("C02.raw", "anchor:stringBytes", "-", "the escaper stringBytes was not found")
	} else {
		bf.blessed[esc] = true
	}
	// scope: everything reachable from the JSON encoders and the exported JSONWrite* helpers (not the gob codec)
	var roots []*ssa.Function
	for _, f := range w.Funcs {
		if f.Parent() != nil {
			continue
		}
		if f.Name() == "MarshalJSON" || strings.HasPrefix(f.Name(), "JSONWrite") {
			roots = append(roots, f)
		}
	}
	for _, f := range w.Reach(roots, func(f *ssa.Function) bool {
		n := f.Name()
		return n == "GobEncode" || n == "GobDecode" || strings.HasPrefix(n, "gob") || strings.HasPrefix(n, "Unmarshal") || n == "Format" || n == "String" && false
	}) {
		bf.inScope[f] = true
	}
	var scope []*ssa.Function
	for f := range bf.inScope {
		scope = append(scope, f)
	}
	sort.Slice(scope, func(i, j int) bool { return funcName(scope[i]) < funcName(scope[j]) })
	c.stat("encoder_closure_functions", len(scope))

	type sinkSite struct {
		fn   *ssa.Function
		in   ssa.Instruction
		data []ssa.Value
		what string
	}
	collect := func(f *ssa.Function) []sinkSite {
		var out []sinkSite
		for _, b := range f.Blocks {
			for _, in := range b.Instrs {
				call, ok := in.(*ssa.Call)
				if !ok {
					continue
				}
				cc := call.Common()
				if bi, ok := cc.Value.(*ssa.Builtin); ok && bi.Name() == "append" && len(cc.Args) == 2 {
					// append to an output buffer: *b of a *[]byte parameter / local
					if ld, ok := cc.Args[0].(*ssa.UnOp); ok && ld.Op == token.MUL && isByteBufPtr(ld.X.Type()) {
						out = append(out, sinkSite{f, in, []ssa.Value{cc.Args[1]}, "append to the output buffer"})
					}
					continue
				}
				cal := cc.StaticCallee()
				if cal == nil {
					continue
				}
				switch fullName(cal) {
				case "(*bytes.Buffer).Write", "(*bytes.Buffer).WriteString", "(*bytes.Buffer).WriteByte", "(*bytes.Buffer).WriteRune":
					// writes into a non-local buffer (a parameter): a sink of this function
					if _, isLocal := cc.Args[0].(*ssa.Alloc); !isLocal && len(cc.Args) > 1 {
						out = append(out, sinkSite{f, in, []ssa.Value{cc.Args[1]}, "write into the output buffer"})
					}
				}
				if cal.Signature.Recv() != nil && (cal.Name() == "MarshalJSON" || cal.Name() == "MarshalText") {
					continue // another value's own encoder: judged once, at that encoder
				}
				if mask, ok := bf.fwd[cal]; ok {
					// only when the buffer handed on is itself an output (a parameter), or this is an encoder root
					var data []ssa.Value
					for i := 0; i < len(cc.Args) && i < 64; i++ {
						if mask&(1<<uint(i)) != 0 {
							data = append(data, cc.Args[i])
						}
					}
					if len(cc.Args) > 0 {
						if _, isLocal := cc.Args[0].(*ssa.Alloc); isLocal && isByteBufPtr(cc.Args[0].Type()) {
							// written into a local accumulator: judged where the accumulator itself is emitted — unless
							// this function returns it (an encoder root), which the return rule below covers
							if !returnsCell(f, cc.Args[0].(*ssa.Alloc)) {
								continue
							}
						}
					}
					out = append(out, sinkSite{f, in, data, "passed to " + funcName(cal)})
				}
			}
		}
		// encoder roots that build their result in a local bytes.Buffer and return its bytes
		for _, rb := range returnBlocks(f) {
			ret := rb.Instrs[len(rb.Instrs)-1].(*ssa.Return)
			if f.Name() != "MarshalJSON" || len(ret.Results) == 0 {
				continue
			}
			if call, ok := ret.Results[0].(*ssa.Call); ok {
				if cal := call.Common().StaticCallee(); cal != nil && fullName(cal) == "(*bytes.Buffer).Bytes" {
					out = append(out, sinkSite{f, ret, []ssa.Value{call}, "returned buffer contents"})
				}
			}
		}
		return out
	}
	// fixpoint: discover forwarders
	for iter := 0; iter < 10; iter++ {
		changed := false
		bf.memo = map[ssa.Value]bclass{}
		bf.retc = map[*ssa.Function]*bclass{}
		for _, f := range scope {
			if bf.blessed[f] {
				continue
			}
			var mask uint64
			for _, s := range collect(f) {
				for _, d := range s.data {
					mask |= bf.classify(d).params
				}
			}
			if mask != bf.fwd[f] {
				bf.fwd[f] |= mask
				changed = true
			}
		}
		if !changed {
			break
		}
	}
	// verdicts
	n := 0
	for _, f := range scope {
		if bf.blessed[f] {
			continue
		}
		cnt := map[string]int{}
		for _, s := range collect(f) {
			n++
			var cl bclass
			for _, d := range s.data {
				cl = cl.join(bf.classify(d))
			}
			// receiver bytes of a string-kinded type emitted by its own encoder: raw at this very function
			recvRaw := false
			if f.Signature.Recv() != nil && cl.params&1 != 0 && isByteish(f.Params[0].Type()) && (f.Name() == "MarshalJSON" || f.Name() == "MarshalText") {
				recvRaw = true
			}
			base := funcName(f) + ":" + s.what
			cnt[base]++
			key := base
			if cnt[base] > 1 {
				key = fmt.Sprintf("%s#%d", base, cnt[base])
			}
			switch {
			case cl.raw:
				c.bad("C02.raw", key, w.InstrPos(s.in), fmt.Sprintf("%s %s unescaped bytes: %s — a quote, backslash or control byte in the data terminates or corrupts the JSON string (member injection)", funcName(f), s.what+" receives", cl.why))
			case recvRaw:
				c.bad("C02.raw", key, w.InstrPos(s.in), fmt.Sprintf("%s writes the value's own bytes between quotes without escaping: an id/IRI/type containing '\"' or '\\' injects members into the enclosing document", funcName(f)))
			default:
				c.ok("C02.raw", key, w.InstrPos(s.in), "constant / escaped / nested JSON / numeric text / deferred to callers")
			}
		}
	}
	c.stat("buffer_sinks_examined", n)
	// exported forwarders of string data are raw sinks for library users: report each once
	for f, mask := range bf.fwd {
		obj, _ := f.Object().(*types.Func)
		if obj == nil || !obj.Exported() || f.Signature.Recv() != nil {
			continue
		}
		for i, p := range f.Params {
			if mask&(1<<uint(i)) != 0 && isStringish(p.Type()) && !isNameParam(t, f, i) {
				// a string parameter that is copied verbatim into JSON by an exported helper
				if hasQuoteWrapper(f) {
					c.bad("C02.raw", funcName(f)+":string-parameter-"+p.Name(), w.FuncPos(f), fmt.Sprintf("exported helper %s copies its string parameter %s between quotes without JSON escaping (only quote characters are touched, if anything)", funcName(f), p.Name()))
				}
			}
		}
	}
}

func returnsCell(f *ssa.Function, al *ssa.Alloc) bool {
	for _, rb := range returnBlocks(f) {
		ret := rb.Instrs[len(rb.Instrs)-1].(*ssa.Return)
		for _, rv := range ret.Results {
			if ld, ok := rv.(*ssa.UnOp); ok && ld.X == ssa.Value(al) {
				return true
			}
			if ph, ok := rv.(*ssa.Phi); ok {
				for _, e := range ph.Edges {
					if ld, ok := e.(*ssa.UnOp); ok && ld.X == ssa.Value(al) {
						return true
					}
				}
			}
		}
	}
	return false
}

func isNameParam(t *tables, f *ssa.Function, i int) bool {
	if info := t.pw[f]; info != nil && info.nameParam == i {
		return true
	}
	return f.Name() == "JSONWriteS" || f.Name() == "JSONWrite"
}

// hasQuoteWrapper: the function itself writes a '"' constant around what it emits (so the parameter is a string body).
func hasQuoteWrapper(f *ssa.Function) bool {
	for _, b := range f.Blocks {
		for _, in := range b.Instrs {
			var ops [16]*ssa.Value
			for _, op := range in.Operands(ops[:0]) {
				if op == nil || *op == nil {
					continue
				}
				if k, ok := (*op).(*ssa.Const); ok && k.Value != nil {
					switch k.Value.Kind() {
					case constant.Int:
						if v, ok := constant.Int64Val(k.Value); ok && v == '"' {
							return true
						}
					case constant.String:
						if strings.Contains(constant.StringVal(k.Value), `"`) {
							return true
						}
					}
				}
			}
		}
	}
	return false
}

// checkEscTable evaluates the escaper's safe-set tables (composite literals of constants).
func checkEscTable(w *World, c *Check) {
	for _, name := range []string{"safeSet", "htmlSafeSet"} {
		obj, _ := w.Types.Scope().Lookup(name).(*types.Var)
		if obj == nil {
			c.bad("C02.esc-table", name, "-", "escaper table "+name+" not found")
			continue
		}
		var lit *ast.CompositeLit
		for _, f := range w.Pkg.Syntax {
			ast.Inspect(f, func(n ast.Node) bool {
				vs, ok := n.(*ast.ValueSpec)
				if !ok {
					return true
				}
				for i, id := range vs.Names {
					if w.Info.Defs[id] == obj && i < len(vs.Values) {
						lit, _ = ast.Unparen(vs.Values[i]).(*ast.CompositeLit)
					}
				}
				return true
			})
		}
		if lit == nil {
			c.bad("C02.esc-table", name, w.Pos(obj.Pos()), "table is not a composite literal (undecided)")
			continue
		}
		safe := map[int64]bool{}
		undec := false
		for _, e := range lit.Elts {
			kv, ok := e.(*ast.KeyValueExpr)
			if !ok {
				undec = true
				continue
			}
			ktv, ok1 := w.Info.Types[kv.Key]
			vtv, ok2 := w.Info.Types[kv.Value]
			if !ok1 || !ok2 || ktv.Value == nil || vtv.Value == nil {
				undec = true
				continue
			}
			k, _ := constant.Int64Val(ktv.Value)
			safe[k] = constant.BoolVal(vtv.Value)
		}
		if undec {
			c.bad("C02.esc-table", name, w.Pos(obj.Pos()), "table has non-constant entries (undecided)")
			continue
		}
		var wrong []string
		for b := int64(0); b < 0x20; b++ {
			if safe[b] {
				wrong = append(wrong, fmt.Sprintf("0x%02x", b))
			}
		}
		for _, b := range []int64{'"', '\\'} {
			if safe[b] {
				wrong = append(wrong, fmt.Sprintf("%q", rune(b)))
			}
		}
		if len(wrong) > 0 {
			c.bad("C02.esc-table", name, w.Pos(obj.Pos()), fmt.Sprintf("the escaper's table %s marks %v as safe to copy unescaped into a JSON string", name, wrong))
		} else {
			c.ok("C02.esc-table", name, w.Pos(obj.Pos()), "no control byte, quote or backslash is marked safe")
		}
	}
	if esc := w.Func("stringBytes"); esc != nil {
		g := globalsTouched([]*ssa.Function{esc})
		uses := 0
		for gl := range g {
			if gl.Name() == "safeSet" || gl.Name() == "htmlSafeSet" {
				uses++
			}
		}
		if uses == 2 {
			c.ok("C02.esc-table", "stringBytes-consults-tables", w.FuncPos(esc), "the escaper reads both tables")
		} else {
			c.bad("C02.esc-table", "stringBytes-consults-tables", w.FuncPos(esc), "the escaper no longer consults its safe-set tables")
		}
	}
}

func checkNamesDupKind(w *World, c *Check, t *tables) {
	for _, st := range t.nameProblems {
		if st.kind == siteJSONWrite {
			c.bad("C02.name", "non-constant:"+funcName(st.fn), w.InstrPos(st.instr), "a member name is not a compile-time constant")
		}
	}
	for _, s := range w.TaggedStructs() {
		jt := t.jsonTableFor(s)
		if jt.wroot == nil {
			continue
		}
		// names
		byName := map[string][]*site{}
		seenInstr := map[ssa.Instruction]bool{}
		for _, st := range jt.wAll {
			if st.field.RootType != nil && !isPrefixView(st.field.RootType, s.Named) {
				continue
			}
			for _, n := range st.names {
				if !termRE.MatchString(n) {
					c.bad("C02.name", s.Name+":"+n, w.InstrPos(st.instr), fmt.Sprintf("member name %q is not a plain term", n))
				} else if !seenInstr[st.instr] {
					c.ok("C02.name", fmt.Sprintf("%s:%s@%s", s.Name, n, funcName(st.fn)), w.InstrPos(st.instr), "constant term")
				}
				dup := false
				for _, o := range byName[n] {
					if o.instr == st.instr {
						dup = true
					}
				}
				if !dup {
					byName[n] = append(byName[n], st)
				}
			}
			seenInstr[st.instr] = true
		}
		// dup
		ndup := 0
		for _, n := range sortedKeys(byName) {
			sites := byName[n]
			if len(sites) < 2 {
				continue
			}
			for i := 0; i < len(sites); i++ {
				for j := i + 1; j < len(sites); j++ {
					a, b := sites[i], sites[j]
					exclusive := a.fn == b.fn && !reaches(a.instr.Block(), b.instr.Block()) && !reaches(b.instr.Block(), a.instr.Block())
					if a.fn == b.fn && a.instr.Block() == b.instr.Block() {
						exclusive = false
					}
					if !exclusive {
						ndup++
						c.bad("C02.dup", s.Name+":"+n, w.InstrPos(b.instr), fmt.Sprintf("the encoder of %s can emit the member %q twice (at %s and %s): duplicate member names make the document ambiguous", s.Name, n, w.InstrPos(a.instr), w.InstrPos(b.instr)))
					}
				}
			}
		}
		if ndup == 0 {
			c.ok("C02.dup", s.Name, w.FuncPos(jt.wroot), fmt.Sprintf("%d member names, none emitted twice on one path", len(byName)))
		}
		// kind
		for _, f := range s.Fields {
			if f.Term == "" {
				continue
			}
			for _, st := range jt.wByF[f.Index] {
				if st.writer == nil || len(st.field.Idx) != 1 {
					continue
				}
				want := kindOfFieldType(w, f.Type)
				got := kindOfWriter(w, t, st.writer)
				key := s.Name + "." + f.Name
				implementsParam := false
				if got == "item" {
					for i := 0; i < st.writer.Signature.Params().Len(); i++ {
						if ifc := w.itemLikeIface(st.writer.Signature.Params().At(i).Type()); ifc != nil && (types.Implements(f.Type, ifc) || types.Implements(types.NewPointer(f.Type), ifc)) {
							implementsParam = true
						}
					}
				}
				if want == "" || got == "" || want == got || (want == "string" && got == "raw") || (want == "struct" && got == "raw") || implementsParam {
					c.ok("C02.kind", key, w.InstrPos(st.instr), fmt.Sprintf("%s written as %s", want, got))
				} else {
					c.bad("C02.kind", key, w.InstrPos(st.instr), fmt.Sprintf("%s is a %s property but is written by %s, which emits a %s value", key, want, funcName(st.writer), got))
				}
			}
		}
	}
	// the instant and duration writers use the prescribed notations
	for f := range t.pw {
		for i := 0; i < f.Signature.Params().Len(); i++ {
			pt := f.Signature.Params().At(i).Type()
			if isTimeTime(pt) {
				okLayout := false
				for _, call := range callsIn(f) {
					if cal := call.Common().StaticCallee(); cal != nil && fullName(cal) == "(time.Time).Format" {
						if l, ok := constString(call.Common().Args[1]); ok && (l == "2006-01-02T15:04:05Z07:00" || l == "2006-01-02T15:04:05.999999999Z07:00") {
							okLayout = true
						}
					}
				}
				// a wrapper that hands its instant on to another prop writer taking an instant is judged there
				delegates := false
				for _, call := range callsIn(f) {
					if cal := call.Common().StaticCallee(); cal != nil && cal != f && t.pw[cal] != nil {
						for j := 0; j < cal.Signature.Params().Len(); j++ {
							if isTimeTime(cal.Signature.Params().At(j).Type()) && j < len(call.Common().Args) && unwrap(call.Common().Args[j]) == ssa.Value(f.Params[i]) {
								delegates = true
							}
						}
					}
				}
				if delegates && !okLayout {
					continue
				}
				if okLayout {
					c.ok("C02.kind", "layout:"+funcName(f), w.FuncPos(f), "instants are written in RFC 3339")
				} else {
					c.bad("C02.kind", "layout:"+funcName(f), w.FuncPos(f), "instants are not written with the constant RFC 3339 layout")
				}
			}
		}
	}
}

func kindOfFieldType(w *World, t types.Type) string {
	if isTimeTime(t) {
		return "instant"
	}
	if n := namedOf(t); n != nil {
		if n.Obj().Pkg() != nil && n.Obj().Pkg().Path() == "time" && n.Obj().Name() == "Duration" {
			return "duration"
		}
		if n.Obj().Pkg() == w.Types {
			switch n.Obj().Name() {
			case "NaturalLanguageValues":
				return "text"
			case "ItemCollection":
				return "list"
			}
			if _, isStruct := n.Underlying().(*types.Struct); isStruct {
				return "struct"
			}
		}
	}
	if w.itemLikeIface(t) != nil {
		return "item"
	}
	if b, ok := types.Unalias(t).Underlying().(*types.Basic); ok {
		switch {
		case b.Kind() == types.Bool:
			return "bool"
		case b.Info()&types.IsInteger != 0:
			return "int"
		case b.Info()&types.IsFloat != 0:
			return "float"
		case b.Info()&types.IsString != 0:
			return "string"
		}
	}
	return ""
}

func kindOfWriter(w *World, t *tables, f *ssa.Function) string {
	info := t.pw[f]
	if info == nil {
		return ""
	}
	sig := f.Signature
	for i := 0; i < sig.Params().Len(); i++ {
		if i == info.nameParam {
			continue
		}
		pt := sig.Params().At(i).Type()
		if isByteBufPtr(pt) {
			continue
		}
		if k := kindOfFieldType(w, pt); k != "" && k != "bool" || (k == "bool" && sig.Params().Len() == 3) {
			if k == "string" {
				return "string"
			}
			return k
		}
		if s, ok := types.Unalias(pt).Underlying().(*types.Slice); ok {
			if b, ok := types.Unalias(s.Elem()).Underlying().(*types.Basic); ok && b.Kind() == types.Byte {
				return "raw"
			}
		}
	}
	return ""
}

// checkBraces: every MarshalJSON of a tagged struct returns nil or a buffer that was closed after being opened.
func checkBraces(w *World, c *Check) {
	isBraceWrite := func(in ssa.Instruction, ch byte) bool {
		call, ok := in.(*ssa.Call)
		if !ok {
			return false
		}
		cal := call.Common().StaticCallee()
		if cal == nil {
			return false
		}
		switch cal.Name() {
		case "JSONWrite", "Write", "WriteByte", "WriteRune":
		default:
			return false
		}
		for _, a := range call.Common().Args[1:] {
			var vals []ssa.Value
			if elems, ok := variadicElems(a); ok {
				vals = elems
			} else {
				vals = []ssa.Value{a}
			}
			for _, v := range vals {
				if k, ok := v.(*ssa.Const); ok && k.Value != nil && k.Value.Kind() == constant.Int {
					if x, _ := constant.Int64Val(k.Value); x == int64(ch) {
						return true
					}
				}
				if sl, ok := v.(*ssa.Slice); ok {
					if al, ok := sl.X.(*ssa.Alloc); ok {
						if refs := al.Referrers(); refs != nil {
							for _, r := range *refs {
								if ia, ok := r.(*ssa.IndexAddr); ok && ia.Referrers() != nil {
									for _, rr := range *ia.Referrers() {
										if st, ok := rr.(*ssa.Store); ok {
											if k, ok := st.Val.(*ssa.Const); ok && k.Value != nil && k.Value.Kind() == constant.Int {
												if x, _ := constant.Int64Val(k.Value); x == int64(ch) {
													return true
												}
											}
										}
									}
								}
							}
						}
					}
				}
			}
		}
		return false
	}
	for _, s := range w.TaggedStructs() {
		m := w.Method(s.Name, "MarshalJSON")
		if m == nil {
			continue
		}
		var opens, closes []ssa.Instruction
		for _, b := range m.Blocks {
			for _, in := range b.Instrs {
				if isBraceWrite(in, '{') {
					opens = append(opens, in)
				}
				if isBraceWrite(in, '}') {
					closes = append(closes, in)
				}
			}
		}
		if len(opens) == 0 && len(closes) == 0 {
			continue // delegates entirely (not on the pinned tree)
		}
		bad := ""
		for _, rb := range returnBlocks(m) {
			ret := rb.Instrs[len(rb.Instrs)-1].(*ssa.Return)
			if len(ret.Results) == 0 || isNilConst(ret.Results[0]) {
				continue
			}
			// a non-nil result: some closer must come before it on every path: a closer in the same block before the
			// return, or in a block that dominates the return block
			okClose := false
			for _, cl := range closes {
				if cl.Block() == rb || cl.Block().Dominates(rb) {
					okClose = true
				}
			}
			okOpen := false
			for _, op := range opens {
				if op.Block() == rb || op.Block().Dominates(rb) {
					okOpen = true
				}
			}
			if !okClose || !okOpen {
				bad = fmt.Sprintf("%s.MarshalJSON can return a buffer (at %s) that was not both opened with '{' and closed with '}' on that path", s.Name, w.InstrPos(ret))
			}
		}
		if bad != "" {
			c.bad("C02.brace", s.Name, w.FuncPos(m), bad)
		} else {
			c.ok("C02.brace", s.Name, w.FuncPos(m), "every non-nil result is opened and closed")
		}
	}
}

// checkMapTermDecider (C02.term): the writer that turns a term into its language-map form (name + "Map") decides so by
// the number of entries of the value it writes — len(nl) / nl.Count() compared with a constant — and by nothing
// derived (a count of the entries that have a text, a flag). The value's own encoder chooses between the plain string
// and the object by len(n) (C02.grammar:term-kind proves the string form implies len(n) == 1); if the term is chosen by
// a different quantity the two disagree on some values: {"en":"hello"},{"fr":""} is written as "content":{"en":"hello"},
// an object under the plain term.
func checkMapTermDecider(w *World, c *Check) {
	n := 0
	for _, f := range w.Funcs {
		for _, b := range f.Blocks {
			for _, in := range b.Instrs {
				bo, ok := in.(*ssa.BinOp)
				if !ok || bo.Op != token.ADD {
					continue
				}
				if s, isC := constString(bo.Y); !isC || s != "Map" {
					continue
				}
				// writers only (the reader builds the same term to look it up): a function that is handed an output buffer
				isWriter := false
				for _, p := range f.Params {
					if isByteBufPtr(p.Type()) {
						isWriter = true
					}
				}
				if !isWriter {
					continue
				}
				n++
				key := funcName(f) + ":map-term"
				// the slice parameters of f (the value being written)
				isValueLen := func(v ssa.Value) bool {
					for i := 0; i < 6; i++ {
						switch x := v.(type) {
						case *ssa.Convert:
							v = x.X
							continue
						case *ssa.Call:
							if inner, isLen := lenOperand(x); isLen {
								v = inner
								// len(nl) or len(*spill)
								for j := 0; j < 3; j++ {
									if ld, isLd := v.(*ssa.UnOp); isLd && ld.Op == token.MUL {
										if al, isAl := ld.X.(*ssa.Alloc); isAl {
											if st := storesTo(al); len(st) == 1 {
												v = st[0].Val
												continue
											}
										}
									}
									break
								}
								_, isParam := v.(*ssa.Parameter)
								return isParam
							}
							if cal := x.Common().StaticCallee(); cal != nil {
								if _, isGetter := lenGetterFn(cal); isGetter || smallIntFn(cal) {
									// nl.Count(): the receiver is the (address of the spilled) parameter
									a := x.Common().Args[0]
									if al, isAl := a.(*ssa.Alloc); isAl {
										if st := storesTo(al); len(st) == 1 {
											a = st[0].Val
										}
									}
									if ld, isLd := a.(*ssa.UnOp); isLd && ld.Op == token.MUL {
										if al, isAl := ld.X.(*ssa.Alloc); isAl {
											if st := storesTo(al); len(st) == 1 {
												a = st[0].Val
											}
										}
									}
									_, isParam := a.(*ssa.Parameter)
									return isParam
								}
							}
							return false
						}
						break
					}
					return false
				}
				decided := false
				other := ""
				for _, g := range rawGuards(b) {
					cmp, ok := g.cond.(*ssa.BinOp)
					if !ok {
						continue
					}
					switch cmp.Op {
					case token.GTR, token.GEQ, token.LSS, token.LEQ, token.NEQ, token.EQL:
					default:
						continue
					}
					var v ssa.Value
					if _, isC := cmp.Y.(*ssa.Const); isC {
						v = cmp.X
					} else if _, isC := cmp.X.(*ssa.Const); isC {
						v = cmp.Y
					} else {
						continue
					}
					if isValueLen(v) {
						decided = true
					} else if isIntegerType(v.Type()) {
						other = shortVal(v)
					}
				}
				switch {
				case decided:
					c.ok("C02.term", key, w.InstrPos(bo), "the language-map term is chosen by the number of entries of the value")
				case other != "":
					c.bad("C02.term", key, w.InstrPos(bo), fmt.Sprintf("%s chooses the language-map term by %s, not by the number of entries of the value it writes: the value's own encoder chooses between a plain string and an object by its length, so for some values (entries without a text) the plain term gets an object or the Map term a string", funcName(f), other))
				default:
					c.bad("C02.term", key, w.InstrPos(bo), funcName(f)+" appends \"Map\" to a term under a condition that is not a comparison of the value's number of entries (undecided)")
				}
			}
		}
	}
	c.stat("map_term_writers", n)
}
