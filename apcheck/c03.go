package main

import (
	"fmt"
	"go/token"
	"go/types"
	"sort"
	"strings"

	"golang.org/x/tools/go/ssa"
)

func init() { register("C03", checkC03) }

type gobTable struct {
	s     *StructInfo
	wroot *ssa.Function
	rroot *ssa.Function
	wclos []*ssa.Function
	rclos []*ssa.Function
	wByF  map[int][]*site
	rByF  map[int][]*site
	wAll  []*site
}

func (t *tables) gobTableFor(s *StructInfo) *gobTable {
	gt := &gobTable{s: s}
	gt.wroot = t.w.Method(s.Name, "GobEncode")
	gt.rroot = t.w.Method(s.Name, "GobDecode")
	if gt.wroot != nil {
		gt.wclos = t.codecClosure(gt.wroot, s.Named, "enc")
		gt.wAll = t.sitesIn(gt.wclos, t.gobW)
		gt.wByF, _ = fieldSites(gt.wAll, s)
	}
	if gt.rroot != nil {
		gt.rclos = t.codecClosure(gt.rroot, s.Named, "dec")
		gt.rByF, _ = fieldSites(t.sitesIn(gt.rclos, t.gobR), s)
	}
	return gt
}

func checkC03(w *World, c *Check, tier string) {
	c.Exhaustive = true
	c.Explanation = "Decides that the two hand-written gob tables agree for every (type, field) of the 14 vocabulary structs and 3 tagged sub-structs: the gob writer (every update of the map[string][]byte property map with a constant key whose value derives, on the SSA form, from that field) and the gob reader (every store into that field — or decode through its address — whose value derives from a comma-ok lookup of a constant key in the property map). Obligations per field: written (W-cover), read (R-cover), writer and reader use exactly the same key (RW, case-sensitive), no key is shared by two fields (dup), no sign-sensitive or inverted emptiness guard (guard), the encode/decode helpers of a field are a matching pair (pair: item/items forms, a type's own GobEncode/GobDecode, int64/uint/float64/bool by the type handed to gob), every type has GobEncode/GobDecode and MarshalBinary/UnmarshalBinary that delegate to them (M), and (flag) the 'has data' boolean the encoders keep beside the property map is true — or the delegated helper's own flag — on every path from every map update to every later read of the flag (phis and captured named results followed), so that no entry is thrown away because it was the only one. The dispatch of type names to these codecs is decided by C07. NOT decided: value equality after a real round trip; the internals of encoding/gob. ADDED: (invent) gob readers fill a property from the stored bytes only; (fresh) registry rows and constructors set nothing but the type and hand out memory of their own; (flag)/(recognise) see DESIGN 8.4. (every-exit) in a gob reader the look-up of each key lies on every path to a successful return, and a reader stores no non-zero constant into a property."
	c.RuleText = "obligation = (struct type, field) x rule over all jsonld-tagged fields of all tagged structs; exhaustive"
	c.Trusted = []string{"go/types, go/ssa", "apcheck prov.go/tables.go", "encoding/gob transmits a value of a basic kind to a pointer of the same kind"}
	t, err := buildTables(w)
	if err != nil {
		c.bad("C03.M", "anchor", "-", err.Error())
		return
	}
	c.floor("C03.W-cover", 300)
	c.floor("C03.R-cover", 300)
	c.floor("C03.RW", 300)
	c.floor("C03.flag", 20)
	c.floor("C03.fresh", 15)
	checkRegistryFresh(w, c, "C03.fresh")
	c.floor("C03.invent", 5)
	checkGobNothingInvented(w, c, t, "C03.invent")
	checkGobNoDelete(w, c, "C03.RW")
	checkGobReadersEveryExit(w, c, t, "C03.R-cover")
	checkFlagDiscipline(w, c, "C03.flag", nil)
	checkGobObjectRecognition(w, c)
	for _, s := range w.TaggedStructs() {
		gt := t.gobTableFor(s)
		missing := []string{}
		need := []string{"GobEncode", "GobDecode"}
		if isItemStruct(w, s.Named) || w.Method(s.Name, "MarshalBinary") != nil || w.Method(s.Name, "UnmarshalBinary") != nil {
			need = append(need, "MarshalBinary", "UnmarshalBinary")
		}
		for _, mn := range need {
			if w.Method(s.Name, mn) == nil {
				missing = append(missing, mn)
			}
		}
		if len(missing) > 0 {
			c.bad("C03.M", s.Name, "-", fmt.Sprintf("%s lacks %v", s.Name, missing))
		} else {
			mb, ub := w.Method(s.Name, "MarshalBinary"), w.Method(s.Name, "UnmarshalBinary")
			if mb != nil && (!callsFn(mb, gt.wroot) || !callsFn(ub, gt.rroot)) {
				c.bad("C03.M", s.Name, w.FuncPos(mb), s.Name+".MarshalBinary/UnmarshalBinary do not delegate to GobEncode/GobDecode")
			} else {
				c.ok("C03.M", s.Name, w.FuncPos(gt.wroot), fmt.Sprintf("writer closure %d functions, reader closure %d", len(gt.wclos), len(gt.rclos)))
			}
		}
		if gt.wroot == nil || gt.rroot == nil {
			continue
		}
		// all fields uncovered => the codec is a stub: one construct
		nTagged, nW, nR := 0, 0, 0
		for _, f := range s.Fields {
			if f.Term != "" {
				nTagged++
				if len(gt.wByF[f.Index]) > 0 {
					nW++
				}
				if len(gt.rByF[f.Index]) > 0 {
					nR++
				}
			}
		}
		stubW, stubR := nW == 0 && nTagged >= 3, nR == 0 && nTagged >= 3
		if stubW {
			c.bad("C03.W-cover", s.Name+"/all-fields", w.FuncPos(gt.wroot), fmt.Sprintf("%s.GobEncode writes none of the %d properties (stub): the value is dropped by the gob codec", s.Name, nTagged))
		}
		if stubR {
			c.bad("C03.R-cover", s.Name+"/all-fields", w.FuncPos(gt.rroot), fmt.Sprintf("(*%s).GobDecode reads none of the %d properties (stub)", s.Name, nTagged))
		}
		grouped := map[int]bool{}
		groupedR := map[int]bool{}
		if !stubW {
			grouped = groupUncoveredViews(w, c, "C03.W-cover", s, gt.wByF, w.FuncPos(gt.wroot), "written by "+s.Name+".GobEncode")
		}
		if !stubR {
			groupedR = groupUncoveredViews(w, c, "C03.R-cover", s, gt.rByF, w.FuncPos(gt.rroot), "read by (*"+s.Name+").GobDecode")
		}
		keyOwner := map[string]string{}
		for _, f := range s.Fields {
			if f.Term == "" {
				continue
			}
			key := s.Name + "." + f.Name
			ws, rs := gt.wByF[f.Index], gt.rByF[f.Index]
			var wkeys, rkeys []string
			for _, st := range ws {
				wkeys = append(wkeys, st.names...)
			}
			for _, st := range rs {
				rkeys = append(rkeys, st.names...)
			}
			wkeys, rkeys = uniq(wkeys), uniq(rkeys)
			if !stubW && !grouped[f.Index] {
				if len(ws) == 0 {
					c.bad("C03.W-cover", key, w.FuncPos(gt.wroot), fmt.Sprintf("%s is never put into the gob property map by %s.GobEncode", key, s.Name))
				} else {
					c.ok("C03.W-cover", key, w.InstrPos(ws[0].instr), fmt.Sprintf("key(s) %v in %s", wkeys, funcName(ws[0].fn)))
				}
			}
			if !stubR && !groupedR[f.Index] {
				if len(rs) == 0 {
					c.bad("C03.R-cover", key, w.FuncPos(gt.rroot), fmt.Sprintf("%s is never restored from the gob property map by (*%s).GobDecode", key, s.Name))
				} else {
					c.ok("C03.R-cover", key, w.InstrPos(rs[0].instr), fmt.Sprintf("key(s) %v in %s", rkeys, funcName(rs[0].fn)))
				}
			}
			if len(ws) > 0 && len(rs) > 0 {
				if !setEq(setOf(wkeys), setOf(rkeys)) || len(wkeys) != 1 {
					c.bad("C03.RW", key, w.InstrPos(rs[0].instr), fmt.Sprintf("%s is written under gob key(s) %v but read from %v", key, wkeys, rkeys))
				} else {
					c.ok("C03.RW", key, w.InstrPos(ws[0].instr), "key "+wkeys[0])
				}
			}
			for _, k := range wkeys {
				if prev, dup := keyOwner[k]; dup && prev != f.Name {
					c.bad("C03.dup", s.Name+":"+k, w.InstrPos(ws[0].instr), fmt.Sprintf("gob key %q carries both %s.%s and %s.%s", k, s.Name, prev, s.Name, f.Name))
				}
				keyOwner[k] = f.Name
			}
			// guards
			if len(ws) > 0 {
				gbad := ""
				for _, st := range ws {
					for _, g := range st.guards {
						if !guardOnField(g, s, f.Index) {
							if other := guardOnOtherField(g, s, f.Index); other != "" && g.side != sideNeutral {
								gbad = fmt.Sprintf("key %q is stored only when another property (%s) is set/unset (%s): the property is dropped whenever that other one is absent", st.names, other, g.desc)
							}
							continue
						}
						if g.side == sideUnset {
							gbad = fmt.Sprintf("inverted guard: key %q is written only when %s says the field is unset", st.names, g.desc)
						} else if g.signOnly {
							gbad = fmt.Sprintf("sign-sensitive emptiness guard %s on %s (type %s): negative values are never stored", g.desc, key, typeName(f.Type))
						} else if miss := partialGuard(g, s, f.Index); miss != "" {
							gbad = fmt.Sprintf("partial guard: key %q is stored only when %s holds, which ignores the sub-field(s) %s of %s: a value with only those set is dropped", st.names, g.desc, miss, key)
						}
					}
				}
				if gbad != "" {
					c.bad("C03.guard", key, w.InstrPos(ws[0].instr), gbad)
				} else {
					c.ok("C03.guard", key, w.InstrPos(ws[0].instr), "no sign-sensitive or inverted guard")
				}
			}
			// pair
			if len(ws) > 0 && len(rs) > 0 {
				wk := map[string]bool{}
				rk := map[string]bool{}
				for _, st := range ws {
					wk[gobWriteKind(w, t, st)] = true
				}
				for _, st := range rs {
					rk[gobReadKind(w, t, st)] = true
				}
				okPair := true
				for a := range wk {
					for b := range rk {
						// an IRI-typed field handed to the item encoder is stored as its raw bytes, which is IRI's own gob form
						if n := namedOf(f.Type); n != nil && n.Obj().Name() == "IRI" && a == "item" && b == "self:IRI" {
							continue
						}
						if !gobKindsCompatible(a, b) {
							okPair = false
						}
					}
				}
				if okPair {
					c.ok("C03.pair", key, w.InstrPos(ws[0].instr), fmt.Sprintf("%v ↔ %v", sortedKeys(wk), sortedKeys(rk)))
				} else {
					c.bad("C03.pair", key, w.InstrPos(rs[0].instr), fmt.Sprintf("%s is encoded as %v but decoded as %v: the two forms are not each other's inverse", key, sortedKeys(wk), sortedKeys(rk)))
				}
			}
		}
	}
	for _, st := range t.nameProblems {
		if st.kind == siteGobWrite {
			c.bad("C03.RW", "non-constant-key:"+funcName(st.fn), w.InstrPos(st.instr), "a gob property is stored under a key that is not a compile-time constant")
		}
	}
}

func callsFn(f, g *ssa.Function) bool {
	if f == nil || g == nil {
		return false
	}
	for _, b := range f.Blocks {
		for _, in := range b.Instrs {
			if call, ok := in.(ssa.CallInstruction); ok && call.Common().StaticCallee() == g {
				return true
			}
		}
	}
	return false
}

// gobHelperKind classifies an encode/decode helper by what it hands to encoding/gob.
func gobArgKind(f *ssa.Function, method string) string {
	if f == nil {
		return ""
	}
	for _, b := range f.Blocks {
		for _, in := range b.Instrs {
			call, ok := in.(ssa.CallInstruction)
			if !ok {
				continue
			}
			cal := call.Common().StaticCallee()
			if cal == nil || cal.Name() != method || cal.Object() == nil || cal.Object().Pkg() == nil || cal.Object().Pkg().Path() != "encoding/gob" {
				continue
			}
			args := call.Common().Args
			if len(args) < 2 {
				continue
			}
			v := args[1]
			if mi, ok := v.(*ssa.MakeInterface); ok {
				t := mi.X.Type()
				if method == "Decode" {
					t = derefType(t)
				}
				return "gob:" + basicKindName(t)
			}
		}
	}
	return ""
}

func basicKindName(t types.Type) string {
	switch u := types.Unalias(t).Underlying().(type) {
	case *types.Basic:
		return u.Name()
	case *types.Slice:
		return "[]" + basicKindName(u.Elem())
	case *types.Map:
		return "map"
	case *types.Struct:
		return "struct"
	}
	return typeName(t)
}

func gobWriteKind(w *World, t *tables, st *site) string {
	if mu, ok := st.instr.(*ssa.MapUpdate); ok {
		return gobValueKind(w, t, mu.Value, true)
	}
	// a call of a helper that stores under a key parameter: the value the helper's map update stores
	return gobValueKind(w, t, st.valArg, true)
}

func gobValueKind(w *World, t *tables, v ssa.Value, enc bool) string {
	switch x := v.(type) {
	case *ssa.Extract:
		return gobValueKind(w, t, x.Tuple, enc)
	case *ssa.ChangeInterface:
		return gobValueKind(w, t, x.X, enc)
	case *ssa.ChangeType:
		return gobValueKind(w, t, x.X, enc)
	case *ssa.MakeInterface:
		return gobValueKind(w, t, x.X, enc)
	case *ssa.TypeAssert:
		return gobValueKind(w, t, x.X, enc)
	case *ssa.Convert:
		return "raw"
	case *ssa.Call:
		cal := x.Common().StaticCallee()
		if cal == nil {
			if x.Common().IsInvoke() {
				return "self:" + x.Common().Method.Name()
			}
			return "?"
		}
		return gobFuncKind(w, t, cal, enc)
	case *ssa.Parameter:
		// the parameter of a literal table row's setter: what the ranged call hands over
		kind := ""
		for _, ra := range rowSetterArgs(x) {
			k := gobValueKind(w, t, ra.arg, enc)
			if kind != "" && k != kind {
				return "?"
			}
			kind = k
		}
		if kind != "" {
			return kind
		}
	}
	return "?"
}

func gobFuncKind(w *World, t *tables, cal *ssa.Function, enc bool) string {
	if recv := cal.Signature.Recv(); recv != nil {
		if n := namedOf(recv.Type()); n != nil {
			return "self:" + n.Obj().Name()
		}
		return "self:" + typeName(recv.Type())
	}
	if enc {
		ps := cal.Signature.Params()
		for i := 0; i < ps.Len(); i++ {
			pt := ps.At(i).Type()
			if w.itemLikeIface(pt) != nil {
				return "item"
			}
			if sl, ok := types.Unalias(pt).Underlying().(*types.Slice); ok && w.itemLikeIface(sl.Elem()) != nil {
				return "items"
			}
		}
		if k := gobArgKind(cal, "Encode"); k != "" {
			return k
		}
		return "fn:" + cal.Name()
	}
	res := cal.Signature.Results()
	for i := 0; i < res.Len(); i++ {
		rt := res.At(i).Type()
		if w.itemLikeIface(rt) != nil {
			return "item"
		}
		if sl, ok := types.Unalias(rt).Underlying().(*types.Slice); ok && w.itemLikeIface(sl.Elem()) != nil {
			return "items"
		}
		// a helper that returns X after calling (*X).GobDecode
		if n := namedOf(rt); n != nil && n.Obj().Pkg() == w.Types {
			for _, b := range cal.Blocks {
				for _, in := range b.Instrs {
					if call, ok := in.(ssa.CallInstruction); ok {
						if g := call.Common().StaticCallee(); g != nil && g.Name() == "GobDecode" && g.Signature.Recv() != nil && namedOf(g.Signature.Recv().Type()) == n {
							return "self:" + n.Obj().Name()
						}
					}
				}
			}
		}
	}
	if k := gobArgKind(cal, "Decode"); k != "" {
		return k
	}
	return "fn:" + cal.Name()
}

func gobReadKind(w *World, t *tables, st *site) string {
	switch x := st.instr.(type) {
	case *ssa.Store:
		return gobValueKind(w, t, x.Val, false)
	case *ssa.Call:
		if cal := x.Common().StaticCallee(); cal != nil {
			return gobFuncKind(w, t, cal, false)
		}
		if x.Common().IsInvoke() {
			return "self:" + x.Common().Method.Name()
		}
	}
	return "?"
}

func gobKindsCompatible(a, b string) bool {
	if a == b {
		return true
	}
	itemish := func(s string) bool { return s == "item" || s == "items" }
	if itemish(a) && itemish(b) {
		return true
	}
	// integers of the same signedness travel as the same gob kind (time.Duration is an int64)
	norm := func(s string) string {
		s = strings.TrimPrefix(s, "gob:")
		switch s {
		case "int64", "int", "int32":
			return "int"
		case "uint", "uint64", "uint32":
			return "uint"
		}
		return s
	}
	if strings.HasPrefix(a, "gob:") && strings.HasPrefix(b, "gob:") {
		return norm(a) == norm(b)
	}
	return false
}

var _ = sort.Strings

// checkGobObjectRecognition (C03.recognise): the item decoder first tries lists and IRI lists, then a property map; the
// bytes are an object exactly when they decode as a property map that holds something. The decision whether to build
// an object from the map (the call of the type registry hook) must therefore not hinge on the presence of PARTICULAR
// keys: embedded objects may carry neither "type" nor "id" (a tag with only a name, an attachment with only a url) and
// are then taken for an IRI made of the raw gob bytes.
func checkGobObjectRecognition(w *World, c *Check) {
	d := w.Func("gobDecodeItem")
	if d == nil {
		c.bad("C03.recognise", "anchor", "-", "gobDecodeItem not found")
		return
	}
	var fns []*ssa.Function
	fns = append(fns, d)
	for _, call := range callsIn(d) {
		if g := call.Common().StaticCallee(); g != nil && w.InPkg(g) && g.Blocks != nil {
			fns = append(fns, g)
		}
	}
	n := 0
	for _, f := range fns {
		for _, tc := range callsThroughGlobalIn(w, f, "ItemTyperFunc") {
			n++
			var keyed []string
			for _, g := range rawGuards(tc.Block()) {
				if k := presenceOfKey(g.cond, 0, map[ssa.Value]bool{}); k != "" {
					keyed = append(keyed, k)
				}
			}
			key := funcName(f) + ":typer-call"
			if len(keyed) > 0 {
				sort.Strings(keyed)
				c.bad("C03.recognise", key, w.InstrPos(tc), fmt.Sprintf("whether the decoded property map is turned into an object depends on the presence of the key(s) %v: an embedded object that has neither (only a name, a url, a summary …) is not recognised and comes back as an IRI holding the raw gob bytes", uniq(keyed)))
			} else {
				c.ok("C03.recognise", key, w.InstrPos(tc), "the registry is consulted for every property map that decoded; no particular key is required")
			}
		}
	}
	if n == 0 {
		c.bad("C03.recognise", "typer-call", w.FuncPos(d), "gobDecodeItem no longer obtains the value to fill from ItemTyperFunc (undecided)")
	}
}

// presenceOfKey: cond derives (through phis and negations) from the ok result of a comma-ok lookup of a constant key
// in a gob property map: returns the key.
func presenceOfKey(v ssa.Value, depth int, seen map[ssa.Value]bool) string {
	if v == nil || depth > 8 || seen[v] {
		return ""
	}
	seen[v] = true
	switch x := v.(type) {
	case *ssa.Extract:
		if lk, ok := x.Tuple.(*ssa.Lookup); ok && lk.CommaOk && x.Index == 1 && isGobMap(lk.X.Type()) {
			if k, ok := constString(lk.Index); ok {
				return fmt.Sprintf("%q", k)
			}
			return "<computed key>"
		}
	case *ssa.Phi:
		var ks []string
		for _, e := range x.Edges {
			if k := presenceOfKey(e, depth+1, seen); k != "" {
				ks = append(ks, k)
			}
		}
		// a || b || c lowered to a phi: the constant-true edges stand for the tests made in the predecessor blocks
		for _, dj := range disjuncts(x, 0) {
			if dj != ssa.Value(x) {
				if k := presenceOfKey(dj, depth+1, seen); k != "" {
					ks = append(ks, k)
				}
			}
		}
		if len(ks) > 0 {
			sort.Strings(ks)
			return strings.Join(uniq(ks), "/")
		}
	case *ssa.UnOp:
		if x.Op == token.NOT {
			return presenceOfKey(x.X, depth+1, seen)
		}
		if x.Op == token.MUL {
			if al, ok := x.X.(*ssa.Alloc); ok {
				for _, st := range storesTo(al) {
					if k := presenceOfKey(st.Val, depth+1, seen); k != "" {
						return k
					}
				}
			}
		}
	case *ssa.BinOp:
		if k := presenceOfKey(x.X, depth+1, seen); k != "" {
			return k
		}
		return presenceOfKey(x.Y, depth+1, seen)
	}
	return ""
}

// checkGobNothingInvented (C03.invent): the gob readers fill a property only from the bytes stored under its key — never
// from another property of the value being built (a total derived from the number of decoded items, a default copied
// from a sibling). Such a value was not stored: whenever the writer leaves the key out (an unset total), the value read
// back differs from the one that was written.
func checkGobNothingInvented(w *World, c *Check, t *tables, rule string) {
	n := 0
	for _, f := range w.Funcs {
		root := f
		for root.Parent() != nil {
			root = root.Parent()
		}
		takesMap := false
		for _, p := range root.Params {
			if isGobMap(p.Type()) {
				takesMap = true
			}
		}
		if !takesMap {
			continue
		}
		// readers only: the function (or its closures) looks keys up in the map
		reads := false
		for _, g := range append([]*ssa.Function{root}, allAnon(root)...) {
			for _, b := range g.Blocks {
				for _, in := range b.Instrs {
					if lk, ok := in.(*ssa.Lookup); ok && isGobMap(lk.X.Type()) {
						reads = true
					}
				}
			}
		}
		if !reads {
			continue
		}
		cnt := map[string]int{}
		for _, b := range f.Blocks {
			for _, in := range b.Instrs {
				st, ok := in.(*ssa.Store)
				if !ok {
					continue
				}
				fa, ok := st.Addr.(*ssa.FieldAddr)
				if !ok {
					continue
				}
				fp, ok := t.pr.structPath(fa, 0)
				if !ok || len(fp.Names) == 0 || fp.RootType == nil || w.StructInfoOf(fp.RootType.Obj().Name()) == nil {
					continue
				}
				n++
				key := funcName(f) + ":" + fp.String()
				cnt[key]++
				if cnt[key] > 1 {
					key = fmt.Sprintf("%s#%d", key, cnt[key])
				}
				other := ""
				for _, r := range t.pr.prov(st.Val).list() {
					if len(r.Names) > 0 && r.RootType != nil && w.StructInfoOf(r.RootType.Obj().Name()) != nil && r.String() != fp.String() {
						other = r.String()
					}
				}
				if k, isConst := unwrap(st.Val).(*ssa.Const); isConst && k.Value != nil && !isZeroConst(k.Value) {
					c.bad(rule, key, w.InstrPos(st), fmt.Sprintf("%s fills %s with the constant %s, not from the stored bytes: a value stored without that property (an untyped Link) reads back with one it never had — and a writer that relies on the default no longer stores what the reader puts back", funcName(f), fp.String(), k.Value.ExactString()))
				} else if other != "" {
					c.bad(rule, key, w.InstrPos(st), fmt.Sprintf("%s fills %s from %s of the value being built, not from the stored bytes: a value stored without that property reads back with one it never had", funcName(f), fp.String(), other))
				} else {
					c.ok(rule, key, w.InstrPos(st), "filled from the stored bytes")
				}
			}
		}
	}
	c.stat("gob_reader_field_stores", n)
}

// checkGobNoDelete (C03.RW:no-delete): the gob writers only ADD entries to the property map. An entry removed again
// after it was written ("updated equals published, no need to store it twice") is a property that is not stored, and
// nothing on the reading side puts it back.
func checkGobNoDelete(w *World, c *Check, rule string) {
	n := 0
	for _, f := range w.Funcs {
		k := 0
		for _, call := range callsIn(f) {
			bi, ok := call.Common().Value.(*ssa.Builtin)
			if !ok || bi.Name() != "delete" || len(call.Common().Args) < 1 || !isGobMap(call.Common().Args[0].Type()) {
				continue
			}
			n++
			k++
			c.bad(rule, fmt.Sprintf("no-delete:%s#%d", funcName(f), k), w.InstrPos(call), fmt.Sprintf("%s deletes an entry from the gob property map: the property it held is not stored, and a value written with it reads back without it", funcName(f)))
		}
	}
	if n == 0 {
		c.ok(rule, "no-delete", "-", "no function removes an entry from a gob property map")
	}
}

// checkGobReadersEveryExit: inside a gob reader, the look-up of each property's key lies on every path to a successful
// return, except the paths taken for a nil or empty argument. An early `return nil` that decides from something
// coarser — "a map with an id and at most two entries is a bare reference" — skips the properties behind it for the
// stored values that take it.
func checkGobReadersEveryExit(w *World, c *Check, t *tables, rule string) {
	var fns []*ssa.Function
	for f := range t.gobR {
		fns = append(fns, f)
	}
	sort.Slice(fns, func(i, j int) bool { return funcName(fns[i]) < funcName(fns[j]) })
	n := 0
	for _, f := range fns {
		if f.Blocks == nil {
			continue
		}
		lh := loopHeaders(f)
		done := map[*ssa.BasicBlock]bool{}
		for _, st := range t.gobR[f] {
			// the comma-ok look-up this read is guarded by
			var test *ssa.BasicBlock
			for _, g := range rawGuards(st.instr.Block()) {
				if ex, isEx := g.cond.(*ssa.Extract); isEx && ex.Index == 1 && g.onTrue {
					if lk, isLk := ex.Tuple.(*ssa.Lookup); isLk && lk.CommaOk {
						test = lk.Block()
					}
				}
			}
			if test == nil || done[test] || len(lh[test]) > 0 || len(st.names) == 0 {
				continue
			}
			done[test] = true
			n++
			seenB := map[*ssa.BasicBlock]bool{}
			work := []*ssa.BasicBlock{f.Blocks[0]}
			var escaped *ssa.BasicBlock
			for len(work) > 0 && escaped == nil {
				b := work[len(work)-1]
				work = work[:len(work)-1]
				if seenB[b] || b == test {
					continue
				}
				seenB[b] = true
				if len(b.Instrs) == 0 {
					continue
				}
				last := b.Instrs[len(b.Instrs)-1]
				if ret, isRet := last.(*ssa.Return); isRet {
					if len(ret.Results) == 0 || isNilConst(ret.Results[len(ret.Results)-1]) {
						escaped = b
					}
					continue
				}
				if iff, ok := last.(*ssa.If); ok {
					skip := -1
					for _, p := range f.Params {
						if side, ok := nilSideOf(iff.Cond, p); ok {
							skip = side
						}
					}
					if bo, isB := iff.Cond.(*ssa.BinOp); isB {
						op, l, r := bo.Op, bo.X, bo.Y
						if _, isLen := lenOperand(r); isLen {
							l, r = r, l
							op = flipOp(op)
						}
						if inner, isLen := lenOperand(l); isLen {
							if _, isP := inner.(*ssa.Parameter); isP {
								if k, isC := constInt(r); isC {
									switch {
									case (op == token.EQL || op == token.LEQ) && k == 0, op == token.LSS && k == 1:
										skip = 0 // the argument is empty on the true side
									case (op == token.NEQ || op == token.GTR) && k == 0, op == token.GEQ && k == 1:
										skip = 1
									}
								}
							}
						}
					}
					if skip >= 0 {
						work = append(work, b.Succs[1-skip])
						continue
					}
				}
				work = append(work, b.Succs...)
			}
			key := "every-exit:" + funcName(f) + ":" + st.names[0]
			if escaped != nil {
				c.bad(rule, key, w.InstrPos(escaped.Instrs[len(escaped.Instrs)-1]), fmt.Sprintf("%s can return successfully for a non-empty property map without looking up %q (the look-up at %s): the stored values that take that path come back without the property", funcName(f), st.names[0], w.InstrPos(st.instr)))
			} else {
				c.ok(rule, key, w.InstrPos(st.instr), "the look-up lies on every path to a successful return")
			}
		}
	}
	c.stat("gob_reader_lookups_on_every_exit", n)
}
