package main

import (
	"bufio"
	"bytes"
	"fmt"
	"go/constant"
	"go/token"
	"go/types"
	"os"
	"os/exec"
	"path/filepath"
	"regexp"
	"sort"
	"strconv"
	"strings"

	"golang.org/x/tools/go/ssa"
)

func init() { register("C04", checkC04) }

type bceSite struct {
	file string
	line int
	col  int
	kind string
}

var bceRE = regexp.MustCompile(`^(?:\./)?([^:]+\.go):(\d+):(\d+): Found (IsInBounds|IsSliceInBounds)`)

// compilerUnprovenBounds asks the Go compiler's prove pass (a static analysis; nothing is run) which bounds
// checks of the package it could not eliminate. -l disables inlining so every report is at its own source position.
func compilerUnprovenBounds(dir string, goarch string) ([]bceSite, error) {
	cmd := exec.Command("go", "build", "-gcflags=-l -d=ssa/check_bce/debug=1", ".")
	cmd.Dir = dir
	cmd.Env = append(os.Environ(), "GOFLAGS=-mod=mod", "GOPROXY=off", "GOSUMDB=off", "GOTOOLCHAIN=local", "GOWORK=off")
	if goarch != "" {
		cmd.Env = append(cmd.Env, "GOARCH="+goarch)
	}
	var out bytes.Buffer
	cmd.Stdout = &out
	cmd.Stderr = &out
	err := cmd.Run()
	var sites []bceSite
	sc := bufio.NewScanner(&out)
	sawHeader := false
	for sc.Scan() {
		line := sc.Text()
		if strings.HasPrefix(line, "#") {
			sawHeader = true
			continue
		}
		m := bceRE.FindStringSubmatch(line)
		if m == nil {
			if err != nil {
				return nil, fmt.Errorf("go build failed: %s", line)
			}
			continue
		}
		l, _ := strconv.Atoi(m[2])
		cn, _ := strconv.Atoi(m[3])
		sites = append(sites, bceSite{file: filepath.Base(m[1]), line: l, col: cn, kind: m[4]})
	}
	if err != nil && len(sites) == 0 {
		return nil, fmt.Errorf("go build: %v", err)
	}
	_ = sawHeader
	return sites, nil
}

func decodeEntries(w *World) []*ssa.Function {
	var out []*ssa.Function
	for _, f := range w.Funcs {
		if f.Parent() != nil || f.Synthetic != "" || f.Origin() != nil {
			continue
		}
		switch f.Name() {
		case "UnmarshalJSON", "UnmarshalText", "UnmarshalBinary", "GobDecode":
			hasBytes := false
			for _, p := range f.Params {
				if s, ok := types.Unalias(p.Type()).Underlying().(*types.Slice); ok {
					if b, ok := types.Unalias(s.Elem()).Underlying().(*types.Basic); ok && b.Kind() == types.Byte {
						hasBytes = true
					}
				}
			}
			if hasBytes {
				out = append(out, f)
			}
		}
	}
	sort.Slice(out, func(i, j int) bool { return funcName(out[i]) < funcName(out[j]) })
	return out
}

// ---- a small symbolic bounds prover over SSA ----

// rel describes an integer value as  c  or  len(base)+c  (base == nil for a plain constant), or unknown.
type rel struct {
	known bool
	base  ssa.Value // nil: constant
	off   int64
}

type bounds struct {
	lo, hi rel // lo <= v <= hi ; lo.base is always nil (constant lower bound) when known
}

type bprover struct {
	w    *World
	memo map[ssa.Value]bounds
	busy map[ssa.Value]bool
	at   *ssa.BasicBlock // block of the site being proven (for dominating length-equality guards)
	inEq bool
}

// lenGetterReceiver: call is a package function of one pointer argument whose every return is the constant 0 or
// (a conversion of) len(*param): returns the pointer argument.
func lenGetterReceiver(w *World, call *ssa.Call) (ssa.Value, bool) {
	cal := call.Common().StaticCallee()
	if cal == nil || !w.InPkg(cal) || cal.Blocks == nil || len(cal.Params) != 1 || len(call.Common().Args) != 1 {
		return nil, false
	}
	if _, isPtr := types.Unalias(cal.Params[0].Type()).Underlying().(*types.Pointer); !isPtr {
		return nil, false
	}
	n := 0
	for _, rb := range returnBlocks(cal) {
		ret := rb.Instrs[len(rb.Instrs)-1].(*ssa.Return)
		if len(ret.Results) != 1 {
			return nil, false
		}
		v := ret.Results[0]
		if k, ok := v.(*ssa.Const); ok && k.Value != nil && k.Int64() == 0 {
			continue
		}
		if cv, ok := v.(*ssa.Convert); ok {
			v = cv.X
		}
		inner, isLen := lenOperand(v)
		if !isLen {
			return nil, false
		}
		ld, ok := inner.(*ssa.UnOp)
		if !ok || ld.Op != token.MUL || ld.X != ssa.Value(cal.Params[0]) {
			return nil, false
		}
		n++
	}
	if n == 0 {
		return nil, false
	}
	return call.Common().Args[0], true
}

// copyOf: v is append(<empty slice>, x...): a fresh copy whose length is len(x); returns x.
func copyOf(v ssa.Value) (ssa.Value, bool) {
	call, ok := v.(*ssa.Call)
	if !ok {
		return nil, false
	}
	bi, ok := call.Common().Value.(*ssa.Builtin)
	if !ok || bi.Name() != "append" || len(call.Common().Args) != 2 {
		return nil, false
	}
	base := call.Common().Args[0]
	empty := false
	switch b := base.(type) {
	case *ssa.Const:
		empty = b.Value == nil
	case *ssa.Slice:
		if al, ok := b.X.(*ssa.Alloc); ok {
			if arr, ok := derefType(al.Type()).Underlying().(*types.Array); ok && arr.Len() == 0 {
				empty = true
			}
		}
	case *ssa.MakeSlice:
		if k, ok := b.Len.(*ssa.Const); ok && k.Value != nil && k.Int64() == 0 {
			empty = true
		}
	}
	if !empty {
		return nil, false
	}
	return call.Common().Args[1], true
}

// lenEqGuard: on every path to bp.at, len(a) == len(b) was established by a dominating test.
func (bp *bprover) lenEqGuard(a, b ssa.Value) bool {
	if bp.at == nil || bp.inEq {
		return false
	}
	bp.inEq = true
	defer func() { bp.inEq = false }()
	for _, g := range rawGuards(bp.at) {
		bo, ok := g.cond.(*ssa.BinOp)
		if !ok {
			continue
		}
		eqHolds := (bo.Op == token.EQL && g.onTrue) || (bo.Op == token.NEQ && !g.onTrue)
		if !eqHolds {
			continue
		}
		x, okx := lenOperand(bo.X)
		y, oky := lenOperand(bo.Y)
		if !okx || !oky {
			continue
		}
		if (bp.sameLen(a, x) && bp.sameLen(b, y)) || (bp.sameLen(a, y) && bp.sameLen(b, x)) {
			return true
		}
	}
	return false
}

// sameLen: are len(a) and len(b) provably equal? (same SSA value, or two loads of one address with nothing in
// between that could change it, or a slice made with that length)
// resolveLocal: a load of a local variable that is assigned exactly once stands for the assigned value.
func resolveLocal(v ssa.Value) ssa.Value {
	for d := 0; d < 4; d++ {
		ld, ok := v.(*ssa.UnOp)
		if !ok || ld.Op != token.MUL {
			return v
		}
		al, ok := ld.X.(*ssa.Alloc)
		if !ok {
			return v
		}
		sts := storesTo(al)
		if len(sts) != 1 || !sts[0].Block().Dominates(ld.Block()) {
			return v
		}
		v = stripConv(sts[0].Val)
	}
	return v
}

func (bp *bprover) sameLen(a, b ssa.Value) bool {
	a, b = resolveLocal(stripConv(a)), resolveLocal(stripConv(b))
	if a == b {
		return true
	}
	if ms, ok := a.(*ssa.MakeSlice); ok {
		if inner, isLen := lenOperand(ms.Len); isLen && bp.sameLen(inner, b) {
			return true
		}
	}
	if ms, ok := b.(*ssa.MakeSlice); ok {
		if inner, isLen := lenOperand(ms.Len); isLen && bp.sameLen(inner, a) {
			return true
		}
	}
	if x, ok := copyOf(a); ok && bp.sameLen(x, b) {
		return true
	}
	if x, ok := copyOf(b); ok && bp.sameLen(a, x) {
		return true
	}
	// a package helper that hands back a list as long as the one it was given (sortedCopy(values))
	if x, ok := bp.lenPreservedArg(a); ok && bp.sameLen(x, b) {
		return true
	}
	if x, ok := bp.lenPreservedArg(b); ok && bp.sameLen(a, x) {
		return true
	}
	la, ok1 := a.(*ssa.UnOp)
	lb, ok2 := b.(*ssa.UnOp)
	if ok1 && ok2 && la.Op == token.MUL && lb.Op == token.MUL && la.X == lb.X {
		if noWritesBetween(la, lb) || noWritesBetween(lb, la) {
			return true
		}
	}
	return bp.lenEqGuard(a, b)
}

func stripConv(v ssa.Value) ssa.Value {
	for {
		switch x := v.(type) {
		case *ssa.ChangeType:
			v = x.X
		case *ssa.Convert:
			if _, isSl := types.Unalias(x.Type()).Underlying().(*types.Slice); isSl {
				if _, isSl2 := types.Unalias(x.X.Type()).Underlying().(*types.Slice); isSl2 {
					v = x.X
					continue
				}
			}
			return v
		default:
			return v
		}
	}
}

// noWritesBetween: from is executed before to, and no instruction in between can write memory (store, map update,
// or a call other than len/cap/make-like builtins and calls whose arguments hold no pointers).
func noWritesBetween(from, to ssa.Instruction) bool {
	fb, tb := from.Block(), to.Block()
	if fb != tb && !fb.Dominates(tb) {
		return false
	}
	pure := func(in ssa.Instruction) bool {
		switch x := in.(type) {
		case *ssa.Store:
			// initialising a fresh local cannot change what a parameter points to
			_, local := x.Addr.(*ssa.Alloc)
			return local
		case *ssa.MapUpdate, *ssa.Send, *ssa.Go, *ssa.Defer:
			return false
		case *ssa.Call:
			if bi, ok := x.Common().Value.(*ssa.Builtin); ok {
				switch bi.Name() {
				case "len", "cap":
					return true
				}
			}
			return false
		}
		return true
	}
	if fb == tb {
		started := false
		for _, in := range fb.Instrs {
			if in == from {
				started = true
				continue
			}
			if in == to {
				return started
			}
			if started && !pure(in) {
				return false
			}
		}
		return false
	}
	// different blocks: only allow the straight-line case from's block -> ... -> to's block with pure instructions on
	// every block that lies between in the dominator chain and has a single path (conservative)
	for _, in := range afterInstr(fb, from) {
		if !pure(in) {
			return false
		}
	}
	for _, in := range beforeInstr(tb, to) {
		if !pure(in) {
			return false
		}
	}
	// blocks strictly between: every block reachable from fb that reaches tb
	for _, b := range fb.Parent().Blocks {
		if b == fb || b == tb {
			continue
		}
		if reaches(fb, b) && reaches(b, tb) {
			for _, in := range b.Instrs {
				if !pure(in) {
					return false
				}
			}
		}
	}
	return true
}

func afterInstr(b *ssa.BasicBlock, in ssa.Instruction) []ssa.Instruction {
	for i, x := range b.Instrs {
		if x == in {
			return b.Instrs[i+1:]
		}
	}
	return nil
}

func beforeInstr(b *ssa.BasicBlock, in ssa.Instruction) []ssa.Instruction {
	for i, x := range b.Instrs {
		if x == in {
			return b.Instrs[:i]
		}
	}
	return nil
}

func constInt(v ssa.Value) (int64, bool) {
	k, ok := v.(*ssa.Const)
	if !ok || k.Value == nil {
		return 0, false
	}
	if b, ok := k.Type().Underlying().(*types.Basic); !ok || b.Info()&types.IsInteger == 0 {
		return 0, false
	}
	return k.Int64(), true
}

// guardsAt: the branch conditions known to hold when control is in block at; when edgeTo is set, control is
// additionally known to leave at towards edgeTo (so at's own terminating test is known too).
type gctx struct {
	at     *ssa.BasicBlock
	edgeTo *ssa.BasicBlock
}

func (g gctx) guards() []condGuard {
	out := rawGuards(g.at)
	if g.edgeTo != nil && len(g.at.Instrs) > 0 {
		if ifi, ok := g.at.Instrs[len(g.at.Instrs)-1].(*ssa.If); ok && len(g.at.Succs) == 2 && g.at.Succs[0] != g.at.Succs[1] {
			cond := ifi.Cond
			pol := g.at.Succs[0] == g.edgeTo
			for {
				u, ok := cond.(*ssa.UnOp)
				if !ok || u.Op != token.NOT {
					break
				}
				cond = u.X
				pol = !pol
			}
			out = append(out, condGuard{cond: cond, onTrue: pol, block: g.at})
		}
	}
	return out
}

// lowerBound: a constant c with v >= c at the point of use `at` (block), or ok=false.
func (bp *bprover) lowerBound(v ssa.Value, at *ssa.BasicBlock, d int) (int64, bool) {
	return bp.lowerBoundG(v, gctx{at: at}, d)
}

func (bp *bprover) lowerBoundG(v ssa.Value, gc gctx, d int) (int64, bool) {
	at := gc.at
	if d > 12 {
		return 0, false
	}
	if c, ok := constInt(v); ok {
		return c, true
	}
	best, have := int64(0), false
	if b, ok := types.Unalias(v.Type()).Underlying().(*types.Basic); ok && b.Info()&types.IsUnsigned != 0 {
		best, have = 0, true // an unsigned index is never negative
	}
	upd := func(c int64) {
		if !have || c > best {
			best, have = c, true
		}
	}
	switch x := v.(type) {
	case *ssa.Call:
		if _, isLen := lenOperand(x); isLen {
			upd(0)
		}
		if cal := x.Common().StaticCallee(); cal != nil && cal.Object() != nil && cal.Object().Pkg() != nil {
			p := cal.Object().Pkg().Path()
			if (p == "strings" || p == "bytes") && strings.HasPrefix(cal.Name(), "Index") || strings.HasPrefix(cal.Name(), "LastIndex") {
				upd(-1)
			}
		}
	case *ssa.BinOp:
		if c, ok := constInt(x.Y); ok {
			if lb, ok := bp.lowerBound(x.X, at, d+1); ok {
				switch x.Op {
				case token.ADD:
					upd(lb + c)
				case token.SUB:
					upd(lb - c)
				}
			}
			// len(s) - len(after) - c with (_, after, found) := strings.Cut(s, sep) and found known true here:
			// len(s) = len(before) + len(sep) + len(after), so the value is len(before) + len(sep) - c
			if inner, isB := x.X.(*ssa.BinOp); isB && x.Op == token.SUB && inner.Op == token.SUB {
				if sOp, isLen := lenOperand(inner.X); isLen {
					if aOp, isLen2 := lenOperand(inner.Y); isLen2 {
						if ex, isEx := aOp.(*ssa.Extract); isEx && ex.Index == 1 {
							if call, isCall := ex.Tuple.(*ssa.Call); isCall {
								if cal := call.Common().StaticCallee(); cal != nil && cal.Object() != nil && cal.Object().Pkg() != nil && (cal.Object().Pkg().Path() == "strings" || cal.Object().Pkg().Path() == "bytes") && cal.Name() == "Cut" && len(call.Common().Args) == 2 && bp.sameLen(call.Common().Args[0], sOp) {
									if sep, isC := call.Common().Args[1].(*ssa.Const); isC && sep.Value != nil && sep.Value.Kind() == constant.String {
										found := false
										for _, g := range gc.guards() {
											if ge, isE := g.cond.(*ssa.Extract); isE && ge.Tuple == ex.Tuple && ge.Index == 2 && g.onTrue {
												found = true
											}
											if un, isU := g.cond.(*ssa.UnOp); isU && un.Op == token.NOT && !g.onTrue {
												if ge, isE := un.X.(*ssa.Extract); isE && ge.Tuple == ex.Tuple && ge.Index == 2 {
													found = true
												}
											}
										}
										if found {
											upd(int64(len(constant.StringVal(sep.Value))) - c)
										}
									}
								}
							}
						}
					}
				}
			}
		}
	case *ssa.Phi:
		if x.Comment == "rangeindex" {
			upd(-1)
			break
		}
		all := true
		minv := int64(0)
		first := true
		for i, e := range x.Edges {
			if e == ssa.Value(x) {
				continue
			}
			// induction: an edge that carries the phi itself plus a non-negative constant cannot lower the bound the
			// other edges establish
			if b2, isB := e.(*ssa.BinOp); isB && b2.X == ssa.Value(x) {
				if cst, isC := constInt(b2.Y); isC && ((b2.Op == token.ADD && cst >= 0) || (b2.Op == token.SUB && cst <= 0)) {
					continue
				}
			}
			lb, ok := bp.lowerBoundG(e, gctx{at: x.Block().Preds[i], edgeTo: x.Block()}, d+1)
			if !ok {
				all = false
				break
			}
			if first || lb < minv {
				minv, first = lb, false
			}
		}
		if all && !first {
			upd(minv)
		}
	case *ssa.Convert:
		if lb, ok := bp.lowerBound(x.X, at, d+1); ok {
			upd(lb)
		}
	}
	// refinement by dominating guards: v > c, v >= c, !(v <= c), !(v < c)
	for _, g := range gc.guards() {
		bo, ok := g.cond.(*ssa.BinOp)
		if !ok {
			continue
		}
		op, l, r := bo.Op, bo.X, bo.Y
		if l != v && r == v {
			l, r = r, l
			op = flipOp(op)
		}
		if l != v {
			continue
		}
		c, ok := constInt(r)
		if !ok {
			continue
		}
		if !g.onTrue {
			switch op {
			case token.LSS:
				op = token.GEQ
			case token.LEQ:
				op = token.GTR
			case token.GTR:
				op = token.LEQ
			case token.GEQ:
				op = token.LSS
			case token.EQL:
				op = token.NEQ
			case token.NEQ:
				op = token.EQL
			}
		}
		switch op {
		case token.GTR:
			upd(c + 1)
		case token.GEQ:
			upd(c)
		case token.EQL:
			upd(c)
		case token.NEQ:
			// v != -1 with v >= -1 gives v >= 0
			if have && best == c {
				upd(c + 1)
			}
		}
	}
	return best, have
}

// upperRel: v <= len(base)+off at block `at`, for the given base; ok=false if not provable.
func (bp *bprover) upperRel(v ssa.Value, base ssa.Value, at *ssa.BasicBlock, d int) (int64, bool) {
	return bp.upperRelG(v, base, gctx{at: at}, d)
}

func (bp *bprover) upperRelG(v ssa.Value, base ssa.Value, gc gctx, d int) (int64, bool) {
	at := gc.at
	if d > 12 {
		return 0, false
	}
	best, have := int64(0), false
	upd := func(off int64) {
		if !have || off < best {
			best, have = off, true
		}
	}
	if cst, ok := constInt(v); ok {
		// c <= len(base)+c always (lengths are non-negative); c <= len(base) when a guard shows len(base) >= c
		if cst <= 0 {
			upd(cst)
		} else if bp.lenAtLeast(base, at) >= cst {
			upd(0)
		}
	}
	switch x := v.(type) {
	case *ssa.Call:
		if inner, isLen := lenOperand(x); isLen && bp.sameLen(inner, base) {
			upd(0)
		}
		// a length getter of the package (Count): every return is 0 or len(*receiver)
		if p, ok := lenGetterReceiver(bp.w, x); ok {
			if ld, isLoad := resolveLocal(stripConv(base)).(*ssa.UnOp); isLoad && ld.Op == token.MUL && ld.X == p {
				upd(0)
			}
		}
		if cal := x.Common().StaticCallee(); cal != nil && cal.Object() != nil && cal.Object().Pkg() != nil {
			p := cal.Object().Pkg().Path()
			if (p == "strings" || p == "bytes") && (strings.HasPrefix(cal.Name(), "Index") || strings.HasPrefix(cal.Name(), "LastIndex")) && len(x.Common().Args) > 0 && bp.sameLen(x.Common().Args[0], base) {
				upd(-1)
			}
		}
	case *ssa.BinOp:
		if c, ok := constInt(x.Y); ok {
			if ub, ok := bp.upperRel(x.X, base, at, d+1); ok {
				switch x.Op {
				case token.ADD:
					upd(ub + c)
				case token.SUB:
					upd(ub - c)
				}
			}
		} else if x.Op == token.SUB {
			// X - Y with Y >= lb: at most the bound of X minus lb
			if lbY, okY := bp.lowerBound(x.Y, at, d+1); okY {
				if ub, ok := bp.upperRel(x.X, base, at, d+1); ok {
					upd(ub - lbY)
				}
			}
		}
	case *ssa.Phi:
		all := true
		maxv := int64(0)
		first := true
		for i, e := range x.Edges {
			if e == ssa.Value(x) {
				continue
			}
			if x.Comment == "rangeindex" {
				all = false
				break
			}
			ub, ok := bp.upperRelG(e, base, gctx{at: x.Block().Preds[i], edgeTo: x.Block()}, d+1)
			if !ok {
				all = false
				break
			}
			if first || ub > maxv {
				maxv, first = ub, false
			}
		}
		if all && !first {
			upd(maxv)
		}
	case *ssa.Convert:
		if ub, ok := bp.upperRel(x.X, base, at, d+1); ok {
			upd(ub)
		}
	}
	// guards: v < len(base'), v <= len(base')-1, v < n where n <= len …
	for _, g := range gc.guards() {
		bo, ok := g.cond.(*ssa.BinOp)
		if !ok {
			continue
		}
		op, l, r := bo.Op, bo.X, bo.Y
		if l != v && r == v {
			l, r = r, l
			op = flipOp(op)
		}
		if l != v {
			continue
		}
		if !g.onTrue {
			switch op {
			case token.LSS:
				op = token.GEQ
			case token.LEQ:
				op = token.GTR
			case token.GTR:
				op = token.LEQ
			case token.GEQ:
				op = token.LSS
			default:
				continue
			}
		}
		// r as len(base)+k
		var roff int64
		rok := false
		if inner, isLen := lenOperand(r); isLen && bp.sameLen(inner, base) {
			roff, rok = 0, true
		} else if rb, ok := r.(*ssa.BinOp); ok {
			if c, okc := constInt(rb.Y); okc {
				if inner, isLen := lenOperand(rb.X); isLen && bp.sameLen(inner, base) {
					switch rb.Op {
					case token.ADD:
						roff, rok = c, true
					case token.SUB:
						roff, rok = -c, true
					}
				}
			}
		} else if ub, ok := bp.upperRel(r, base, at, d+1); ok && d < 6 {
			roff, rok = ub, true
		}
		if !rok {
			continue
		}
		switch op {
		case token.LSS:
			upd(roff - 1)
		case token.LEQ:
			upd(roff)
		}
	}
	return best, have
}

// lenAtLeast: a constant c with len(base) >= c at block at (from guards len(base) > k, len(base) != 0, …).
func (bp *bprover) lenAtLeast(base ssa.Value, at *ssa.BasicBlock) int64 {
	best := int64(0)
	for _, g := range rawGuards(at) {
		bo, ok := g.cond.(*ssa.BinOp)
		if !ok {
			continue
		}
		op, l, r := bo.Op, bo.X, bo.Y
		if _, isLen := lenOperand(l); !isLen {
			l, r = r, l
			op = flipOp(op)
		}
		inner, isLen := lenOperand(l)
		if !isLen || !bp.sameLen(inner, base) {
			continue
		}
		c, ok := constInt(r)
		if !ok {
			continue
		}
		if !g.onTrue {
			switch op {
			case token.LSS:
				op = token.GEQ
			case token.LEQ:
				op = token.GTR
			case token.GTR:
				op = token.LEQ
			case token.GEQ:
				op = token.LSS
			case token.EQL:
				op = token.NEQ
			case token.NEQ:
				op = token.EQL
			}
		}
		switch op {
		case token.GTR:
			if c+1 > best {
				best = c + 1
			}
		case token.GEQ:
			if c > best {
				best = c
			}
		case token.NEQ:
			if c == 0 && best < 1 {
				best = 1
			}
		case token.EQL:
			if c > best {
				best = c
			}
		}
	}
	return best
}

// proveSite tries to discharge one index/slice instruction.
func (bp *bprover) proveSite(in ssa.Instruction) (bool, string) {
	at := in.Block()
	bp.at = at
	switch x := in.(type) {
	case *ssa.IndexAddr:
		return bp.proveIndex(x.Index, x.X, at)
	case *ssa.Index:
		return bp.proveIndex(x.Index, x.X, at)
	case *ssa.Slice:
		base := x.X
		for _, b := range []ssa.Value{x.Low, x.High} {
			if b == nil {
				continue
			}
			lb, okl := bp.lowerBound(b, at, 0)
			if !okl || lb < 0 {
				// a bound of the form len(base)-k is non-negative when len(base) >= k
				if ub, oku := bp.upperRel(b, base, at, 0); oku && isLenMinus(b) {
					if bp.lenAtLeast(base, at) >= -lenMinusOff(b) {
						_ = ub
						continue
					}
				}
				return false, fmt.Sprintf("cannot show %s >= 0", shortVal(b))
			}
			ub, oku := bp.upperRel(b, base, at, 0)
			if !oku || ub > 0 {
				return false, fmt.Sprintf("cannot show %s <= len(%s)", shortVal(b), shortVal(base))
			}
		}
		// low <= high when both given: len-k style
		if x.Low != nil && x.High != nil {
			lo, ok1 := constInt(x.Low)
			if ok1 && isLenMinus(x.High) {
				if bp.lenAtLeast(base, at) >= lo-lenMinusOff(x.High) {
					return true, "low <= high by the length guard"
				}
				return false, fmt.Sprintf("cannot show %d <= %s", lo, shortVal(x.High))
			}
		}
		return true, "0 <= bounds <= len"
	}
	return false, "unsupported instruction"
}

func isLenMinus(v ssa.Value) bool {
	if _, ok := lenOperand(v); ok {
		return true
	}
	if bo, ok := v.(*ssa.BinOp); ok && bo.Op == token.SUB {
		if _, ok := lenOperand(bo.X); ok {
			_, okc := constInt(bo.Y)
			return okc
		}
	}
	return false
}

func lenMinusOff(v ssa.Value) int64 {
	if bo, ok := v.(*ssa.BinOp); ok && bo.Op == token.SUB {
		c, _ := constInt(bo.Y)
		return -c
	}
	return 0
}

func (bp *bprover) proveIndex(idx, base ssa.Value, at *ssa.BasicBlock) (bool, string) {
	// constant index against a known minimum length
	if c, ok := constInt(idx); ok && c >= 0 {
		if bp.lenAtLeast(base, at) > c {
			return true, fmt.Sprintf("len >= %d by guard", c+1)
		}
		if arr, ok := derefType(base.Type()).Underlying().(*types.Array); ok && arr.Len() > c {
			return true, "constant index into array"
		}
		return false, fmt.Sprintf("no guard shows len(%s) > %d", shortVal(base), c)
	}
	lb, okl := bp.lowerBound(idx, at, 0)
	if !okl || lb < 0 {
		if isLenMinus(idx) && bp.lenAtLeast(base, at) >= -lenMinusOff(idx) {
			okl, lb = true, 0
		} else {
			return false, fmt.Sprintf("cannot show %s >= 0", shortVal(idx))
		}
	}
	ub, oku := bp.upperRel(idx, base, at, 0)
	if !oku || ub > -1 {
		return false, fmt.Sprintf("cannot show %s < len(%s)", shortVal(idx), shortVal(base))
	}
	return true, "0 <= index < len"
}

// ---- the check ----

func checkC04(w *World, c *Check, tier string) {
	c.Exhaustive = true
	c.Explanation = "Decides structural clauses of decoder totality over the decode closure D (everything reachable in the package from the ~75 UnmarshalJSON/UnmarshalText/UnmarshalBinary/GobDecode entry points, found by signature — this includes the de-duplicating Append and the equality it uses): (bounds) every index and slice expression in D is in bounds — the Go compiler's own prove pass is asked which bounds checks of the package it could not eliminate, and each such site inside D must be discharged by the checker's symbolic range rules on SSA (range index against the ranged slice or a slice made with its length; results of strings/bytes Index* refined by the dominating comparisons; len(x)-k under a length guard; constant index under a length guard), otherwise it is a finding; (panic) D contains no explicit panic, no single-result type assertion, no integer division by a non-constant; (loop) every loop in D is a range loop or a counted loop whose induction variable moves by a constant step towards a bound; (rec) every cycle of the call graph among functions that carry the input (fastjson value, byte slice, gob property map) contains a descent step to a strictly smaller sub-value, so depth is bounded by fastjson's nesting limit and by input length; (alloc) every make in D is sized by a constant or by the length of an existing value, never by a number decoded from the input. (once) no JSON loader hands the same document value to a descending loader more than once on any path — longest path over the CFG, closures and delegated loaders included — otherwise decoding time doubles per nesting level; (nilfield) every dereference in D of a value loaded from a pointer-to-struct field is preceded on all paths by a store of a fresh value or a not-nil test of that field. NOT decided: panics inside dependencies (fastjson, encoding/gob), nil dereference of pointers other than struct-field pointers and items (C20), quadratic time of de-duplication, and the follow-up-operations clause beyond what C20 (nil-likes) and C12 cover. ADDED: (errnil) where a (pointer, error) call's error is discarded in D, every use of the pointer allows for nil. (once) no loader hands one document value to a descending loader twice on a path. (follow) the encoder/formatter closure holds no explicit panic or single-result assertion."
	c.RuleText = "obligations: every compiler-unproven bounds check inside D; every panic/assert/division, loop, recursive cycle and make in D; exhaustive over D"
	c.Trusted = []string{"the Go compiler's prove pass (bounds-check elimination) for the sites it reports as proven", "go/ssa", "apcheck c04.go range rules", "fastjson limits nesting depth (MaxDepth)"}
	c.floor("C04.bounds", 3)
	c.floor("C04.loop", 10)
	c.floor("C04.rec", 2)
	c.floor("C04.swap", 1)
	checkSwapRecursion(w, c)
	checkLoadOnce(w, c)
	entries := decodeEntries(w)
	c.stat("decode_entry_points", len(entries))
	if len(entries) < 20 {
		c.bad("C04.panic", "entries", "-", fmt.Sprintf("only %d decode entry points found", len(entries)))
	}
	D := w.Reach(entries, nil)
	inD := map[*ssa.Function]bool{}
	for _, f := range D {
		inD[f] = true
	}
	c.stat("decode_closure_functions", len(D))

	// ---- bounds ----
	sites, err := compilerUnprovenBounds(w.Dir, w.Arch)
	if err != nil {
		c.bad("C04.bounds", "compiler", "-", "cannot obtain the compiler's bounds-check report: "+err.Error())
	} else {
		c.stat("compiler_unproven_bounds_in_package", len(sites))
		// index instructions by position
		type posKey struct {
			file string
			line int
			col  int
		}
		byPos := map[posKey][]ssa.Instruction{}
		nIndexInD := 0
		for _, f := range w.Funcs {
			for _, b := range f.Blocks {
				for _, in := range b.Instrs {
					switch in.(type) {
					case *ssa.IndexAddr, *ssa.Index, *ssa.Slice:
						if inD[f] {
							nIndexInD++
						}
						p := w.Fset.Position(in.Pos())
						k := posKey{filepath.Base(p.Filename), p.Line, p.Column}
						byPos[k] = append(byPos[k], in)
					}
				}
			}
		}
		c.stat("index_and_slice_instructions_in_D", nIndexInD)
		bp := &bprover{w: w, memo: map[ssa.Value]bounds{}, busy: map[ssa.Value]bool{}}
		nInD := 0
		perFn := map[string]int{}
		for _, s := range sites {
			ins := byPos[posKey{s.file, s.line, s.col}]
			if len(ins) == 0 {
				// not an index/slice expression of the package's own source functions (e.g. synthetic)
				continue
			}
			for _, in := range ins {
				f := in.Parent()
				if !inD[f] {
					continue
				}
				nInD++
				perFn[funcName(f)]++
				key := fmt.Sprintf("%s:%s#%d", funcName(f), strings.TrimPrefix(s.kind, "Is"), perFn[funcName(f)])
				ok, why := bp.proveSite(in)
				if ok {
					c.ok("C04.bounds", key, w.InstrPos(in), "compiler-unproven, discharged: "+why)
				} else {
					c.bad("C04.bounds", key, w.InstrPos(in), fmt.Sprintf("%s: %s may be out of range (%s): a short or empty input reaching this expression panics", funcName(f), in.String(), why))
				}
			}
		}
		c.stat("compiler_unproven_bounds_in_D", nInD)
		c.ok("C04.bounds", "proved-by-compiler", "-", fmt.Sprintf("%d index/slice instructions in D, %d not proven by the compiler's prove pass and examined here", nIndexInD, nInD))
	}

	// ---- panic ----
	npanic := 0
	for _, f := range D {
		cnt := 0
		for _, b := range f.Blocks {
			for _, in := range b.Instrs {
				switch x := in.(type) {
				case *ssa.Panic:
					cnt++
					c.bad("C04.panic", fmt.Sprintf("%s:panic#%d", funcName(f), cnt), w.InstrPos(in), funcName(f)+" (reachable from a decoder) panics explicitly")
				case *ssa.TypeAssert:
					if !x.CommaOk {
						cnt++
						c.bad("C04.panic", fmt.Sprintf("%s:assert#%d", funcName(f), cnt), w.InstrPos(in), fmt.Sprintf("%s (reachable from a decoder) uses the single-result type assertion .(%s), which panics on a mismatch", funcName(f), typeName(x.AssertedType)))
					}
				case *ssa.BinOp:
					if (x.Op == token.QUO || x.Op == token.REM) && isIntegerType(x.Type()) {
						if _, isConst := x.Y.(*ssa.Const); !isConst {
							cnt++
							c.bad("C04.panic", fmt.Sprintf("%s:div#%d", funcName(f), cnt), w.InstrPos(in), funcName(f)+" divides by a value that may be zero")
						}
					}
				case *ssa.SliceToArrayPointer:
					cnt++
					c.bad("C04.panic", fmt.Sprintf("%s:slice-to-array#%d", funcName(f), cnt), w.InstrPos(in), "slice to array conversion panics on short slices")
				}
			}
		}
		npanic += cnt
	}
	checkNilFields(w, c, D)
	checkDiscardedErrorPointers(w, c, D)
	checkFollowUpPanics(w, c, inD)
	c.ok("C04.panic", "scan", "-", fmt.Sprintf("%d functions scanned for explicit panics, single-result assertions, integer division, slice-to-array conversion; %d found", len(D), npanic))

	// ---- loops ----
	nloops := 0
	for _, f := range D {
		lh := loopHeaders(f)
		headers := map[*ssa.BasicBlock]bool{}
		for _, hs := range lh {
			for h := range hs {
				headers[h] = true
			}
		}
		i := 0
		for _, b := range f.Blocks {
			if !headers[b] {
				continue
			}
			i++
			nloops++
			key := fmt.Sprintf("%s:loop#%d", funcName(f), i)
			if ok, why := boundedLoop(b, lh); ok {
				c.ok("C04.loop", key, w.InstrPos(b.Instrs[0]), why)
			} else {
				c.bad("C04.loop", key, w.FuncPos(f), fmt.Sprintf("%s (reachable from a decoder) has a loop that is neither a range loop nor a counted loop towards an invariant bound: %s", funcName(f), why))
			}
		}
	}
	c.stat("loops_in_D", nloops)

	// ---- recursion ----
	checkDescent(w, c, D, inD)

	// ---- alloc ----
	nalloc := 0
	for _, f := range D {
		cnt := 0
		for _, b := range f.Blocks {
			for _, in := range b.Instrs {
				var sizes []ssa.Value
				switch x := in.(type) {
				case *ssa.MakeSlice:
					sizes = []ssa.Value{x.Len, x.Cap}
				case *ssa.MakeMap:
					if x.Reserve != nil {
						sizes = []ssa.Value{x.Reserve}
					}
				case *ssa.MakeChan:
					sizes = []ssa.Value{x.Size}
				default:
					continue
				}
				nalloc++
				cnt++
				bad := ""
				for _, s := range sizes {
					if s == nil {
						continue
					}
					if _, isConst := s.(*ssa.Const); isConst {
						continue
					}
					if sizeFromLen(s, 0) {
						continue
					}
					bad = shortVal(s)
				}
				key := fmt.Sprintf("%s:make#%d", funcName(f), cnt)
				if bad != "" {
					c.bad("C04.alloc", key, w.InstrPos(in), fmt.Sprintf("%s allocates %s elements, a size that is not the length of an existing value: a number taken from the input can force an arbitrarily large allocation", funcName(f), bad))
				} else {
					c.ok("C04.alloc", key, w.InstrPos(in), "sized by a constant or an existing length")
				}
			}
		}
	}
	c.stat("makes_in_D", nalloc)
}

func isIntegerType(t types.Type) bool {
	b, ok := types.Unalias(t).Underlying().(*types.Basic)
	return ok && b.Info()&types.IsInteger != 0
}

func sizeFromLen(v ssa.Value, d int) bool {
	if d > 6 {
		return false
	}
	if _, ok := lenOperand(v); ok {
		return true
	}
	switch x := v.(type) {
	case *ssa.Const:
		return true
	case *ssa.BinOp:
		return sizeFromLen(x.X, d+1) && sizeFromLen(x.Y, d+1)
	case *ssa.Convert:
		return sizeFromLen(x.X, d+1)
	case *ssa.Phi:
		for _, e := range x.Edges {
			if !sizeFromLen(e, d+1) {
				return false
			}
		}
		return true
	}
	return false
}

// boundedLoop: the loop headed by h terminates by construction.
func boundedLoop(h *ssa.BasicBlock, lh map[*ssa.BasicBlock]map[*ssa.BasicBlock]bool) (bool, string) {
	ok, why := boundedLoopAt(h, h, lh)
	if ok {
		return true, why
	}
	// the counted exit test may be a later conjunct of the loop condition (for i := 0; flag && i < n; i++): any test
	// inside the loop that every round passes (it dominates every source of a back edge) and that leaves the loop on
	// one side bounds it
	for _, e := range h.Parent().Blocks {
		if e == h || !lh[e][h] {
			continue
		}
		ifi, isIf := e.Instrs[len(e.Instrs)-1].(*ssa.If)
		if !isIf {
			continue
		}
		leaves := false
		for _, sc := range ifi.Block().Succs {
			if !lh[sc][h] {
				leaves = true
			}
		}
		if !leaves {
			continue
		}
		everyRound := true
		for _, p := range h.Preds {
			if lh[p][h] && p != e && !e.Dominates(p) {
				everyRound = false
			}
		}
		if !everyRound {
			continue
		}
		if ok2, why2 := boundedLoopAt(h, e, lh); ok2 {
			return true, why2 + " (tested in a later conjunct of the loop condition)"
		}
	}
	return false, why
}

// boundedLoopAt judges the exit test at the end of block e for the loop with header h.
func boundedLoopAt(h, e *ssa.BasicBlock, lh map[*ssa.BasicBlock]map[*ssa.BasicBlock]bool) (bool, string) {
	ifi, ok := e.Instrs[len(e.Instrs)-1].(*ssa.If)
	if !ok {
		// the exit test may sit in a later block of the loop (for { … if c { break } }): look for a range-style header
		return false, "the loop header does not end in an exit test"
	}
	// range over map/string/chan: ok flag of Next
	if ex, ok := ifi.Cond.(*ssa.Extract); ok {
		if _, isNext := ex.Tuple.(*ssa.Next); isNext && ex.Index == 0 {
			return true, "range over a map/string (iterator exhausts)"
		}
	}
	bo, ok := ifi.Cond.(*ssa.BinOp)
	if !ok {
		return false, "exit test is not a comparison"
	}
	switch bo.Op {
	case token.LSS, token.LEQ, token.GTR, token.GEQ, token.NEQ:
	default:
		return false, "exit test is not an ordering comparison"
	}
	inLoop := func(b *ssa.BasicBlock) bool { return lh[b][h] }
	// one side: induction variable (phi in the header, or phi+const), other side: loop-invariant
	isInduction := func(v ssa.Value) (bool, string) {
		step := v
		if b2, ok := v.(*ssa.BinOp); ok && (b2.Op == token.ADD || b2.Op == token.SUB) {
			if _, isC := constInt(b2.Y); isC {
				step = b2.X
			}
		}
		phi, ok := step.(*ssa.Phi)
		if !ok || phi.Block() != h {
			return false, ""
		}
		// every in-loop edge of the phi must be phi (+|-) const with a single, non-zero sign
		sign := 0
		for i, e := range phi.Edges {
			if !inLoop(h.Preds[i]) {
				continue
			}
			b3, ok := e.(*ssa.BinOp)
			if !ok || (b3.Op != token.ADD && b3.Op != token.SUB) {
				// the rotated form: the incremented value is computed in the header itself
				if e == v {
					continue
				}
				return false, "induction variable is updated irregularly"
			}
			cst, okc := constInt(b3.Y)
			if !okc || cst == 0 {
				return false, "induction step is not a non-zero constant"
			}
			base := b3.X
			if base != ssa.Value(phi) {
				// i++ twice in the body etc.: the value must still be derived from the phi by constant steps
				if inner, ok := base.(*ssa.Phi); !ok || !derivedByConstSteps(inner, phi, 0) {
					return false, "induction variable is modified by more than a constant step per iteration"
				}
			}
			s := 1
			if (b3.Op == token.ADD) != (cst > 0) {
				s = -1
			}
			if sign != 0 && sign != s {
				return false, "induction variable moves in both directions"
			}
			sign = s
		}
		return true, "counted"
	}
	var invariant func(v ssa.Value) bool
	invariant = func(v ssa.Value) bool {
		switch x := v.(type) {
		case *ssa.Const, *ssa.Parameter, *ssa.FreeVar:
			return true
		case *ssa.Call:
			// len/cap of a loop-invariant value, re-evaluated in the header of `for i := 0; i < len(x); i++`
			if bi, ok := x.Common().Value.(*ssa.Builtin); ok && (bi.Name() == "len" || bi.Name() == "cap") && len(x.Common().Args) == 1 {
				if invariant(x.Common().Args[0]) {
					return true
				}
			}
		case *ssa.UnOp:
			// a load of a captured variable that this function does not assign inside the loop
			if fv, ok := x.X.(*ssa.FreeVar); ok && x.Op == token.MUL {
				stored := false
				for _, r := range *fv.Referrers() {
					if st, isSt := r.(*ssa.Store); isSt && st.Addr == ssa.Value(fv) && inLoop(st.Block()) {
						stored = true
					}
				}
				if !stored {
					return true
				}
			}
			// a load of a local variable that is not assigned inside the loop
			if x.Op == token.MUL && inLoop(x.Block()) {
				if al, ok := x.X.(*ssa.Alloc); ok && !inLoop(al.Block()) {
					stored := false
					for _, st := range storesTo(al) {
						if inLoop(st.Block()) {
							stored = true
						}
					}
					// the address must not escape into a call made inside the loop either
					if refs := al.Referrers(); refs != nil {
						for _, r := range *refs {
							if call, ok := r.(ssa.CallInstruction); ok && inLoop(call.Block()) {
								stored = true
							}
							if _, ok := r.(*ssa.MakeClosure); ok {
								stored = true
							}
						}
					}
					if !stored {
						return true
					}
				}
			}
		case *ssa.Convert:
			return invariant(x.X)
		case *ssa.ChangeType:
			return invariant(x.X)
		}
		if in, ok := v.(ssa.Instruction); ok {
			return !inLoop(in.Block())
		}
		return false
	}
	if okI, _ := isInduction(bo.X); okI && invariant(bo.Y) {
		return true, "counted loop towards a loop-invariant bound"
	}
	if okI, _ := isInduction(bo.Y); okI && invariant(bo.X) {
		return true, "counted loop towards a loop-invariant bound"
	}
	if okI, why := isInduction(bo.X); !okI && why != "" {
		return false, why
	}
	if !invariant(bo.Y) && !invariant(bo.X) {
		return false, "the bound of the exit test changes inside the loop"
	}
	return false, "no induction variable with a constant step found in the exit test"
}

func derivedByConstSteps(v *ssa.Phi, root *ssa.Phi, d int) bool {
	if d > 6 {
		return false
	}
	for _, e := range v.Edges {
		if e == ssa.Value(root) {
			continue
		}
		b, ok := e.(*ssa.BinOp)
		if !ok {
			return false
		}
		if _, okc := constInt(b.Y); !okc {
			return false
		}
		if b.X != ssa.Value(root) {
			if p, ok := b.X.(*ssa.Phi); !ok || !derivedByConstSteps(p, root, d+1) {
				return false
			}
		}
	}
	return true
}

// ---- recursion descends in the input ----

func carriesInput(f *ssa.Function) bool {
	for _, p := range f.Params {
		if isInputType(p.Type()) {
			return true
		}
	}
	for _, fv := range f.FreeVars {
		if isInputType(derefType(fv.Type())) || isInputType(fv.Type()) {
			return true
		}
	}
	return false
}

func isInputType(t types.Type) bool {
	if isFastjsonValuePtr(t) || isGobMap(t) {
		return true
	}
	if s, ok := types.Unalias(t).Underlying().(*types.Slice); ok {
		if b, ok := types.Unalias(s.Elem()).Underlying().(*types.Basic); ok && b.Kind() == types.Byte {
			return true
		}
	}
	return false
}

// isDescentArg: the argument is a strictly smaller part of the caller's input: a fastjson sub-value, an element of a
// decoded [][]byte, a value of the decoded property map, a callback parameter of fastjson's Visit.
func isDescentArg(w *World, pr *prover, v ssa.Value, d int) bool {
	if v == nil || d > 10 {
		return false
	}
	switch x := v.(type) {
	case *ssa.Call:
		cal := x.Common().StaticCallee()
		if cal != nil && isFastjsonMethod(cal) {
			switch cal.Name() {
			case "Get", "GetArray", "GetObject", "Object", "Array":
				return true
			}
		}
	case *ssa.Extract:
		// raw, ok := mm[key]  /  range over a decoded list
		switch t := x.Tuple.(type) {
		case *ssa.Lookup:
			return isGobMap(t.X.Type())
		case *ssa.Next:
			return true
		case *ssa.Call:
			return isDescentArg(w, pr, t, d+1)
		}
	case *ssa.Lookup:
		return isGobMap(x.X.Type())
	case *ssa.UnOp:
		if x.Op == token.MUL {
			if ia, ok := x.X.(*ssa.IndexAddr); ok {
				_ = ia
				return true // element of a slice (array of sub-values / decoded [][]byte)
			}
			if al, ok := x.X.(*ssa.Alloc); ok {
				for _, st := range storesTo(al) {
					if isDescentArg(w, pr, st.Val, d+1) {
						return true
					}
				}
			}
		}
	case *ssa.Index:
		return true
	case *ssa.Phi:
		for _, e := range x.Edges {
			if !isDescentArg(w, pr, e, d+1) {
				return false
			}
		}
		return len(x.Edges) > 0
	case *ssa.Parameter:
		// parameter of a closure handed to fastjson's Visit: the visited member
		if f := x.Parent(); f.Parent() != nil && isFastjsonValuePtr(x.Type()) {
			return true
		}
	case *ssa.Convert:
		return isDescentArg(w, pr, x.X, d+1)
	}
	return false
}

func checkDescent(w *World, c *Check, D []*ssa.Function, inD map[*ssa.Function]bool) {
	pr := newProver(w)
	// edges among input-carrying functions of D; an edge is "flat" when the input handed on is not a descent
	type edge = decEdge
	nodes := map[*ssa.Function]bool{}
	for _, f := range D {
		if carriesInput(f) {
			nodes[f] = true
		}
	}
	adj := map[*ssa.Function][]edge{}
	for f := range nodes {
		for _, b := range f.Blocks {
			for _, in := range b.Instrs {
				switch x := in.(type) {
				case *ssa.MakeClosure:
					g := x.Fn.(*ssa.Function)
					if nodes[g] {
						// a closure sees the same input — unless the input reaches it only through its own parameters
						// (a decode step kept in a table row and called as row.decode(mm[row.key])) and every such
						// call hands it a strictly smaller part
						flat := true
						capturesInput := false
						for _, bnd := range x.Bindings {
							t := bnd.Type()
							if pt, isPtr := types.Unalias(t).Underlying().(*types.Pointer); isPtr {
								t = pt.Elem()
							}
							if isInputType(t) {
								capturesInput = true
							}
						}
						if !capturesInput {
							nIn, nDescArgs := 0, 0
							for _, p := range g.Params {
								if !isInputType(p.Type()) {
									continue
								}
								for _, ra := range rowSetterArgs(p) {
									nIn++
									if isDescentArg(w, pr, ra.arg, 0) {
										nDescArgs++
									}
								}
							}
							if nIn > 0 && nIn == nDescArgs {
								flat = false
							}
						}
						adj[f] = append(adj[f], edge{g, flat, in})
					}
				case *ssa.Call:
					var targets []*ssa.Function
					if cal := x.Common().StaticCallee(); cal != nil {
						targets = []*ssa.Function{cal}
					} else if x.Common().IsInvoke() {
						targets = w.implementers(x.Common().Method)
					}
					for _, g := range targets {
						if !nodes[g] {
							continue
						}
						flat := false
						any := false
						args := allArgs(x)
						for i, a := range args {
							if i < len(g.Params) && isInputType(g.Params[i].Type()) {
								any = true
								if !isDescentArg(w, pr, a, 0) {
									flat = true
								}
							}
						}
						if !any {
							flat = true
						}
						adj[f] = append(adj[f], edge{g, flat, in})
					}
				}
			}
		}
		// functions passed as values (callbacks to On* helpers) are reached from the helper: model by edge f -> closure above
	}
	// is there a cycle made only of flat edges?
	color := map[*ssa.Function]int{}
	var stack []*ssa.Function
	var cyc []string
	var dfs func(f *ssa.Function) bool
	dfs = func(f *ssa.Function) bool {
		color[f] = 1
		stack = append(stack, f)
		for _, e := range adj[f] {
			if !e.flat {
				continue
			}
			if color[e.to] == 1 {
				for i := len(stack) - 1; i >= 0; i-- {
					cyc = append([]string{funcName(stack[i])}, cyc...)
					if stack[i] == e.to {
						break
					}
				}
				return true
			}
			if color[e.to] == 0 && dfs(e.to) {
				return true
			}
		}
		stack = stack[:len(stack)-1]
		color[f] = 2
		return false
	}
	var fs []*ssa.Function
	for f := range nodes {
		fs = append(fs, f)
	}
	sort.Slice(fs, func(i, j int) bool { return funcName(fs[i]) < funcName(fs[j]) })
	found := false
	for _, f := range fs {
		if color[f] == 0 && dfs(f) {
			found = true
			break
		}
	}
	nEdges, nDesc := 0, 0
	for _, es := range adj {
		for _, e := range es {
			nEdges++
			if !e.flat {
				nDesc++
			}
		}
	}
	c.stat("input_carrying_functions", len(nodes))
	c.stat("input_call_edges", nEdges)
	c.stat("descent_edges", nDesc)
	if found {
		c.bad("C04.rec", "flat-cycle:"+strings.Join(cyc, "→"), "-", fmt.Sprintf("the decoders can recurse without descending into a smaller part of the input: %s — nesting depth is not bounded by the input", strings.Join(cyc, " → ")))
	} else {
		c.ok("C04.rec", "no-flat-cycle", "-", fmt.Sprintf("%d input-carrying functions, %d call edges of which %d descend; every cycle contains a descent", len(nodes), nEdges, nDesc))
	}
	// the recursion that exists must indeed be recursive through descent edges (positive control: JSON and gob nesting)
	rec := 0
	for f, es := range adj {
		for _, e := range es {
			if !e.flat && reachesFn(adj2(adj), e.to, f) {
				rec++
			}
		}
	}
	c.control(rec > 0, "no recursive descent edge found at all: the nested-item decoders are no longer recognised")
	// (once:elements) a recursive descent is made at most once per element of a decoded list: two passes over the same
	// list that both decode each member ("validate first, then fill") double the work at every nesting level, so a
	// kilobyte of nested one-element lists takes exponential time
	{
		a2 := adj2(adj)
		type dcall struct {
			site *ssa.Call
			coll ssa.Value
		}
		nGroups := 0
		var fl []*ssa.Function
		for f := range adj {
			fl = append(fl, f)
		}
		sort.Slice(fl, func(i, j int) bool { return funcName(fl[i]) < funcName(fl[j]) })
		for _, f := range fl {
			var calls []dcall
			for _, e := range adj[f] {
				call, isCall := e.site.(*ssa.Call)
				if e.flat || !isCall || !reachesFn(a2, e.to, f) {
					continue
				}
				for i, a := range allArgs(call) {
					if i >= len(e.to.Params) || !isInputType(e.to.Params[i].Type()) {
						continue
					}
					if coll := elementSource(a); coll != nil {
						calls = append(calls, dcall{call, coll})
					}
				}
			}
			if len(calls) < 2 {
				continue
			}
			lh := loopHeaders(f)
			inner := func(b *ssa.BasicBlock) *ssa.BasicBlock {
				var h *ssa.BasicBlock
				for cand := range lh[b] {
					if h == nil || len(loopBody(lh, cand)) < len(loopBody(lh, h)) {
						h = cand
					}
				}
				return h
			}
			for i := 0; i < len(calls); i++ {
				for j := i + 1; j < len(calls); j++ {
					x, y := calls[i], calls[j]
					if x.site == y.site || x.coll != y.coll {
						continue
					}
					hx, hy := inner(x.site.Block()), inner(y.site.Block())
					twice := false
					switch {
					case hx != nil && hy != nil && hx != hy:
						// two different loops over the same list, one after the other
						twice = reaches(hx, hy) || reaches(hy, hx)
					case hx == hy && hx != nil:
						// the same round of the same loop reaches both calls
						twice = reachesWithin(x.site.Block(), y.site.Block(), hx) || reachesWithin(y.site.Block(), x.site.Block(), hx)
					}
					nGroups++
					key := fmt.Sprintf("%s:elements-of-%s", funcName(f), shortVal(x.coll))
					if twice {
						c.bad("C04.once", key, w.InstrPos(y.site), fmt.Sprintf("%s decodes the members of one list twice (%s at %s and at %s): nested lists double the work at every level, a small deeply nested stream takes exponential time", funcName(f), funcName(y.site.Common().StaticCallee()), w.InstrPos(x.site), w.InstrPos(y.site)))
					} else {
						c.ok("C04.once", key, w.InstrPos(y.site), "alternative decodings of the members, not both on one path")
					}
				}
			}
		}
		c.stat("element_descent_pairs", nGroups)
	}
	c.ok("C04.rec", "descent-edges-on-cycles", "-", fmt.Sprintf("%d descent edges lie on cycles (nested items)", rec))
}

type decEdge struct {
	to   *ssa.Function
	flat bool
	site ssa.Instruction
}

func adj2(m map[*ssa.Function][]decEdge) map[*ssa.Function][]decEdge { return m }

func reachesFn(adj map[*ssa.Function][]decEdge, from, to *ssa.Function) bool {
	seen := map[*ssa.Function]bool{from: true}
	work := []*ssa.Function{from}
	for len(work) > 0 {
		f := work[len(work)-1]
		work = work[:len(work)-1]
		if f == to {
			return true
		}
		for _, e := range adj[f] {
			if e.to != nil && !seen[e.to] {
				seen[e.to] = true
				work = append(work, e.to)
			}
		}
	}
	return false
}

// checkLoadOnce (C04.once): decoding time stays proportional to the document only if every loader reads one JSON value
// at most once per call. A loader that hands the SAME value to the object loader twice (directly and through a
// delegated loader) does the whole work below it twice; since values nest through replies/likes/context…, the cost
// doubles at every nesting level and a small, deeply nested document takes exponential time.
// For each JSONLoad* function f the number of times each other loader g is reached with f's own document value on one
// path is computed (unconditional call sites and the single-shot On* callbacks add up, alternatives of a dispatch
// count as their maximum) and must not exceed one.
func checkLoadOnce(w *World, c *Check) {
	var loaders []*ssa.Function
	isLoader := map[*ssa.Function]bool{}
	for _, f := range w.Funcs {
		if f.Parent() == nil && strings.HasPrefix(f.Name(), "JSONLoad") && len(f.Params) >= 1 && isFastjsonValuePtr(f.Params[0].Type()) {
			loaders = append(loaders, f)
			isLoader[f] = true
		}
	}
	sort.Slice(loaders, func(i, j int) bool { return funcName(loaders[i]) < funcName(loaders[j]) })
	memo := map[*ssa.Function]map[*ssa.Function]int{}
	busy := map[*ssa.Function]bool{}
	var total func(f *ssa.Function) map[*ssa.Function]int
	total = func(f *ssa.Function) map[*ssa.Function]int {
		if m, ok := memo[f]; ok {
			return m
		}
		if busy[f] {
			return map[*ssa.Function]int{}
		}
		busy[f] = true
		defer delete(busy, f)
		sum := map[*ssa.Function]int{}
		val := f.Params[0]
		sameVal := func(v ssa.Value, fn *ssa.Function) bool {
			v = unwrap(v)
			if v == ssa.Value(val) {
				return true
			}
			if fv, ok := v.(*ssa.FreeVar); ok {
				// closures of f capture val directly or through the cell it was spilled to
				for g := fn; g != nil; g = g.Parent() {
					if g == f {
						return strings.Contains(fv.Name(), val.Name())
					}
				}
			}
			if ld, ok := v.(*ssa.UnOp); ok && ld.Op == token.MUL {
				if fv, ok := ld.X.(*ssa.FreeVar); ok {
					return fv.Name() == val.Name()
				}
				if al, ok := ld.X.(*ssa.Alloc); ok {
					for _, st := range storesTo(al) {
						if st.Val == ssa.Value(val) {
							return len(storesTo(al)) == 1
						}
					}
				}
			}
			return false
		}
		// longest path through the control-flow graph of f (back edges ignored: a loader call inside a loop counts
		// twice), a closure counting at the block that creates it
		var pathMax func(g *ssa.Function) map[*ssa.Function]int
		pathMax = func(g *ssa.Function) map[*ssa.Function]int {
			weight := map[*ssa.BasicBlock]map[*ssa.Function]int{}
			lh := loopHeaders(g)
			addW := func(b *ssa.BasicBlock, m map[*ssa.Function]int) {
				mult := 1
				if len(lh[b]) > 0 {
					mult = 2
				}
				if weight[b] == nil {
					weight[b] = map[*ssa.Function]int{}
				}
				for k, v := range m {
					weight[b][k] += v * mult
				}
			}
			for _, b := range g.Blocks {
				for _, in := range b.Instrs {
					switch in := in.(type) {
					case *ssa.MakeClosure:
						addW(b, pathMax(in.Fn.(*ssa.Function)))
					case ssa.CallInstruction:
						cal := in.Common().StaticCallee()
						if cal == nil || !isLoader[cal] || len(in.Common().Args) == 0 || !sameVal(in.Common().Args[0], g) {
							continue
						}
						contrib := map[*ssa.Function]int{cal: 1}
						for k, v := range total(cal) {
							contrib[k] += v
						}
						addW(b, contrib)
					}
				}
			}
			best := map[*ssa.BasicBlock]map[*ssa.Function]int{}
			var walk func(b *ssa.BasicBlock) map[*ssa.Function]int
			walk = func(b *ssa.BasicBlock) map[*ssa.Function]int {
				if m, ok := best[b]; ok {
					return m
				}
				best[b] = map[*ssa.Function]int{} // cut (only reached through a back edge)
				m := map[*ssa.Function]int{}
				for _, s := range b.Succs {
					if s.Dominates(b) {
						continue
					}
					for k, v := range walk(s) {
						if v > m[k] {
							m[k] = v
						}
					}
				}
				for k, v := range weight[b] {
					m[k] += v
				}
				best[b] = m
				return m
			}
			if len(g.Blocks) == 0 {
				return map[*ssa.Function]int{}
			}
			return walk(g.Blocks[0])
		}
		sum = pathMax(f)
		memo[f] = sum
		return sum
	}
	// only a loader that descends into nested values (reaches the item loader again) multiplies the work per level
	descends := map[*ssa.Function]bool{}
	if item := w.Func("JSONLoadItem"); item != nil {
		for _, g := range loaders {
			for _, r := range w.Reach([]*ssa.Function{g}, nil) {
				if r == item && g != item {
					descends[g] = true
				}
			}
		}
		descends[item] = true
	}
	for _, f := range loaders {
		t := total(f)
		bad := ""
		for _, g := range loaders {
			if t[g] > 1 && descends[g] {
				bad = fmt.Sprintf("%s hands its document value to %s %d times on one path (directly and/or through a delegated loader): everything below is decoded twice, and because values nest (replies, likes, context, …) the cost doubles with every level — a few kilobytes of nesting take exponential time", funcName(f), funcName(g), t[g])
			}
		}
		if bad != "" {
			c.bad("C04.once", funcName(f), w.FuncPos(f), bad)
		} else {
			c.ok("C04.once", funcName(f), w.FuncPos(f), "each delegated loader is reached at most once with this value")
		}
	}
	c.floor("C04.once", 10)
}

// checkNilFields (C04.nilfield): the decoders fill freshly made values, so a pointer-typed struct field (Actor.Endpoints)
// is nil when the decoder reaches it. Every place in the decode closure that dereferences the value loaded from such a
// field — a field access, a load or store through it, or a method call whose body touches the receiver without testing
// it — must be preceded, on every path, by a store of a non-nil value to that field or sit under a test that the
// field is not nil. Otherwise an input that merely mentions the property makes the decoder panic.
func checkNilFields(w *World, c *Check, D []*ssa.Function) {
	n := 0
	derefMemo := map[*ssa.Function]bool{}
	for _, f := range D {
		cnt := 0
		for _, b := range f.Blocks {
			for _, in := range b.Instrs {
				var ptr ssa.Value
				how := ""
				switch x := in.(type) {
				case *ssa.FieldAddr:
					ptr, how = x.X, "field access"
				case *ssa.UnOp:
					if x.Op == token.MUL {
						ptr, how = x.X, "load"
					}
				case *ssa.Store:
					ptr, how = x.Addr, "store"
				case ssa.CallInstruction:
					cal := x.Common().StaticCallee()
					if cal != nil && cal.Signature.Recv() != nil && len(x.Common().Args) > 0 && derefsParamUnguarded(cal, 0, derefMemo) {
						ptr, how = x.Common().Args[0], "call of "+funcName(cal)+", which uses its receiver without a nil test"
					}
				}
				if ptr == nil {
					continue
				}
				ld, ok := ptr.(*ssa.UnOp)
				if !ok || ld.Op != token.MUL {
					continue
				}
				fa, ok := ld.X.(*ssa.FieldAddr)
				if !ok {
					continue
				}
				pt, ok := ld.Type().Underlying().(*types.Pointer)
				if !ok {
					continue
				}
				if _, ok := pt.Elem().Underlying().(*types.Struct); !ok {
					continue
				}
				st := fa.X.Type().Underlying().(*types.Pointer).Elem().Underlying().(*types.Struct)
				cnt++
				n++
				key := fmt.Sprintf("%s:%s.%s#%d", funcName(f), typeName(fa.X.Type()), st.Field(fa.Field).Name(), cnt)
				if why, ok := fieldKnownNonNil(fa, ld, in); ok {
					c.ok("C04.nilfield", key, w.InstrPos(in), why)
				} else {
					c.bad("C04.nilfield", key, w.InstrPos(in), fmt.Sprintf("%s: %s through the pointer field %s, which nothing on this path has set or tested: a decoder starts from a fresh value where the field is nil, so an input carrying this property panics with a nil dereference", funcName(f), how, st.Field(fa.Field).Name()))
				}
			}
		}
	}
	c.stat("pointer_field_dereferences_in_D", n)
	c.ok("C04.nilfield", "scan", "-", fmt.Sprintf("%d functions of the decode closure scanned; %d dereferences of pointer-to-struct fields examined", len(D), n))
}

// derefsParamUnguarded: the function dereferences its idx-th parameter on some path that has not tested it against nil.
func derefsParamUnguarded(f *ssa.Function, idx int, memo map[*ssa.Function]bool) bool {
	if v, ok := memo[f]; ok {
		return v
	}
	memo[f] = false
	if len(f.Blocks) == 0 || idx >= len(f.Params) {
		return false
	}
	p := f.Params[idx]
	if _, ok := p.Type().Underlying().(*types.Pointer); !ok {
		return false
	}
	res := false
	for _, ref := range *p.Referrers() {
		deref := false
		switch x := ref.(type) {
		case *ssa.FieldAddr:
			deref = x.X == ssa.Value(p)
		case *ssa.UnOp:
			deref = x.Op == token.MUL && x.X == ssa.Value(p)
		case *ssa.Store:
			deref = x.Addr == ssa.Value(p)
		case ssa.CallInstruction:
			cal := x.Common().StaticCallee()
			if cal != nil && !x.Common().IsInvoke() {
				for i, a := range x.Common().Args {
					if a == ssa.Value(p) && derefsParamUnguarded(cal, i, memo) {
						deref = true
					}
				}
			}
		}
		if deref && !underNonNilTest(p, ref.Block()) {
			res = true
		}
	}
	memo[f] = res
	return res
}

// underNonNilTest: block b is only reached through the not-nil outcome of a comparison of v with nil.
func underNonNilTest(v ssa.Value, b *ssa.BasicBlock) bool {
	for d := b; d != nil; d = d.Idom() {
		id := d.Idom()
		if id == nil {
			break
		}
		iff, ok := id.Instrs[len(id.Instrs)-1].(*ssa.If)
		if !ok {
			continue
		}
		bo, ok := iff.Cond.(*ssa.BinOp)
		if !ok || (bo.Op != token.EQL && bo.Op != token.NEQ) {
			continue
		}
		var other ssa.Value
		if isNilConst(bo.Y) {
			other = bo.X
		} else if isNilConst(bo.X) {
			other = bo.Y
		} else {
			continue
		}
		if !sameFieldLoadOrValue(other, v) {
			continue
		}
		nonNilSucc := id.Succs[0]
		nilSucc := id.Succs[1]
		if bo.Op == token.EQL {
			nonNilSucc, nilSucc = nilSucc, nonNilSucc
		}
		if nonNilSucc.Dominates(b) && len(nonNilSucc.Preds) == 1 {
			return true
		}
		// "if v == nil { return }" form: the nil branch never reaches b
		if !reaches(nilSucc, b) {
			return true
		}
	}
	return false
}

// sameFieldLoadOrValue: a and b are the same SSA value, or loads of the same field of the same base value.
func sameFieldLoadOrValue(a, b ssa.Value) bool {
	if a == b {
		return true
	}
	la, ok1 := a.(*ssa.UnOp)
	lb, ok2 := b.(*ssa.UnOp)
	if !ok1 || !ok2 || la.Op != token.MUL || lb.Op != token.MUL {
		return false
	}
	fa, ok1 := la.X.(*ssa.FieldAddr)
	fb, ok2 := lb.X.(*ssa.FieldAddr)
	return ok1 && ok2 && fa.X == fb.X && fa.Field == fb.Field
}

// fieldKnownNonNil: the value ld loaded from field fa is non-nil at instruction at: it sits under a not-nil test of the
// same field, or every path to it passes a store of a fresh (non-nil) value into that field with no later store of
// anything else.
func fieldKnownNonNil(fa *ssa.FieldAddr, ld *ssa.UnOp, at ssa.Instruction) (string, bool) {
	if underNonNilTest(ld, at.Block()) {
		return "under a not-nil test of the field", true
	}
	f := at.Parent()
	// stores into the same field of the same base
	var sets []*ssa.Store
	for _, b := range f.Blocks {
		for _, in := range b.Instrs {
			st, ok := in.(*ssa.Store)
			if !ok {
				continue
			}
			sfa, ok := st.Addr.(*ssa.FieldAddr)
			if !ok || sfa.X != fa.X || sfa.Field != fa.Field {
				continue
			}
			if !freshNonNil(st.Val) {
				return "", false
			}
			sets = append(sets, st)
		}
	}
	// "if x.F == nil { x.F = new(T) }": the nil outcome of a test of the field leads to a store, and the test dominates
	for _, st := range sets {
		if st.Block() == ld.Block() && instrIndex(st) < instrIndex(ld) {
			return "set just before", true
		}
		if st.Block().Dominates(ld.Block()) && st.Block() != ld.Block() {
			return "set on every path", true
		}
		// guarded allocation
		id := st.Block().Idom()
		if id == nil || !id.Dominates(ld.Block()) {
			continue
		}
		iff, ok := id.Instrs[len(id.Instrs)-1].(*ssa.If)
		if !ok {
			continue
		}
		bo, ok := iff.Cond.(*ssa.BinOp)
		if !ok || (bo.Op != token.EQL && bo.Op != token.NEQ) {
			continue
		}
		var other ssa.Value
		if isNilConst(bo.Y) {
			other = bo.X
		} else if isNilConst(bo.X) {
			other = bo.Y
		}
		if other == nil || !sameFieldLoadOrValue(other, ld) {
			continue
		}
		nilSucc := id.Succs[0]
		if bo.Op == token.NEQ {
			nilSucc = id.Succs[1]
		}
		if nilSucc == st.Block() && len(st.Block().Preds) == 1 {
			return "allocated when found nil", true
		}
	}
	return "", false
}

func freshNonNil(v ssa.Value) bool {
	switch x := v.(type) {
	case *ssa.Alloc:
		return true
	case *ssa.Call:
		// constructors of the package return a new value
		if cal := x.Common().StaticCallee(); cal != nil {
			for _, b := range cal.Blocks {
				for _, in := range b.Instrs {
					if r, ok := in.(*ssa.Return); ok {
						for _, rv := range r.Results {
							if _, ok := rv.(*ssa.Alloc); !ok {
								return false
							}
						}
					}
				}
			}
			return len(cal.Blocks) > 0
		}
	}
	return false
}

// checkFollowUpPanics (C04.follow): "any value a decoder does return can then be … re-encoded in both codecs and
// formatted without panicking". The closure of the encoders and formatters (MarshalJSON, MarshalText, MarshalBinary,
// GobEncode, String, Format, found by name and signature) is scanned for the constructs that panic on a value the
// decoders can build: an explicit panic and a single-result type assertion (the decoders decide the Go type from the
// document's "type" member alone, so an *Object whose type says "IRI" is a value they return). Functions that are also
// part of the decode closure are already covered by C04.panic.
func checkFollowUpPanics(w *World, c *Check, inD map[*ssa.Function]bool) {
	var entries []*ssa.Function
	for _, f := range w.Funcs {
		if f.Parent() != nil || f.Synthetic != "" || f.Origin() != nil {
			continue
		}
		switch f.Name() {
		case "MarshalJSON", "MarshalText", "MarshalBinary", "GobEncode", "String", "Format", "GoString":
			entries = append(entries, f)
		}
	}
	E := w.Reach(entries, nil)
	n := 0
	for _, f := range E {
		if inD[f] {
			continue
		}
		cnt := 0
		for _, b := range f.Blocks {
			for _, in := range b.Instrs {
				switch x := in.(type) {
				case *ssa.Panic:
					cnt++
					c.bad("C04.follow", fmt.Sprintf("%s:panic#%d", funcName(f), cnt), w.InstrPos(in), funcName(f)+" (reachable from an encoder or formatter) panics explicitly")
				case *ssa.TypeAssert:
					if !x.CommaOk {
						cnt++
						c.bad("C04.follow", fmt.Sprintf("%s:assert#%d", funcName(f), cnt), w.InstrPos(in), fmt.Sprintf("%s (reachable from an encoder or formatter) uses the single-result type assertion .(%s): a decoded value whose Go type is not the one its type name suggests makes re-encoding panic", funcName(f), typeName(x.AssertedType)))
					}
				}
			}
		}
		n += cnt
	}
	c.stat("encode_format_closure_functions", len(E))
	c.ok("C04.follow", "scan", "-", fmt.Sprintf("%d encoder/formatter entry points, %d functions in their closure scanned for explicit panics and single-result assertions; %d found", len(entries), len(E), n))
}

// elementSource: a is an element of a slice (loaded through an index address, indexed, or the loop variable of a
// range): returns the slice value, with loads of the same local normalised to that local.
func elementSource(a ssa.Value) ssa.Value {
	a = unwrap(a)
	var coll ssa.Value
	switch x := a.(type) {
	case *ssa.UnOp:
		if x.Op != token.MUL {
			return nil
		}
		ia, ok := x.X.(*ssa.IndexAddr)
		if !ok {
			return nil
		}
		coll = ia.X
	case *ssa.Index:
		coll = x.X
	default:
		return nil
	}
	coll = unwrap(coll)
	if ld, ok := coll.(*ssa.UnOp); ok && ld.Op == token.MUL {
		return ld.X // the variable holding the list
	}
	return coll
}

// lenPreservedArg: v is a call of a package function every return of which is a slice made with the length of one and
// the same parameter (or a copy of it); returns the argument passed for that parameter.
func (bp *bprover) lenPreservedArg(v ssa.Value) (ssa.Value, bool) {
	call, ok := v.(*ssa.Call)
	if !ok {
		return nil, false
	}
	h := call.Common().StaticCallee()
	if h == nil || h.Blocks == nil || h.Pkg == nil || call.Parent() == nil || h.Pkg != call.Parent().Pkg || h.Signature.Results().Len() != 1 {
		return nil, false
	}
	which := -1
	for _, rb := range returnBlocks(h) {
		ret := rb.Instrs[len(rb.Instrs)-1].(*ssa.Return)
		if len(ret.Results) != 1 {
			return nil, false
		}
		found := -1
		for pi, p := range h.Params {
			if _, isSl := types.Unalias(p.Type()).Underlying().(*types.Slice); !isSl {
				continue
			}
			r := resolveLocal(stripConv(ret.Results[0]))
			if ms, isMs := r.(*ssa.MakeSlice); isMs {
				if inner, isLen := lenOperand(ms.Len); isLen && resolveLocal(stripConv(inner)) == ssa.Value(p) {
					found = pi
				}
			}
			if x, isCp := copyOf(r); isCp && resolveLocal(stripConv(x)) == ssa.Value(p) {
				found = pi
			}
		}
		if found < 0 || (which >= 0 && which != found) {
			return nil, false
		}
		which = found
	}
	if which < 0 || which >= len(call.Common().Args) {
		return nil, false
	}
	return call.Common().Args[which], true
}

// checkDiscardedErrorPointers (C04.errnil): a call that returns (pointer, error) says "the pointer is only good when the
// error is nil". Where the decode closure throws the error away and goes on with the pointer, every use of the pointer
// must allow for nil: a nil test dominates it, or it is handed to a package function that the abstract interpreter runs
// without a fault on a nil argument. `u, _ := url.ParseRequestURI(s); validURL(u)` is fine while validURL tests
// u != nil and a crash on the first string that is not a URL once it calls a method of u.
func checkDiscardedErrorPointers(w *World, c *Check, D []*ssa.Function) {
	n := 0
	for _, f := range D {
		k := 0
		for _, b := range f.Blocks {
			for _, in := range b.Instrs {
				call, ok := in.(*ssa.Call)
				if !ok || call.Referrers() == nil {
					continue
				}
				tup, ok := call.Type().(*types.Tuple)
				if !ok || tup.Len() != 2 || !isErrorType(tup.At(1).Type()) {
					continue
				}
				if _, isPtr := types.Unalias(tup.At(0).Type()).Underlying().(*types.Pointer); !isPtr {
					continue
				}
				var val *ssa.Extract
				errUsed := false
				for _, r := range *call.Referrers() {
					ex, isEx := r.(*ssa.Extract)
					if !isEx {
						continue
					}
					if ex.Index == 1 && ex.Referrers() != nil && len(*ex.Referrers()) > 0 {
						errUsed = true
					}
					if ex.Index == 0 {
						val = ex
					}
				}
				if errUsed || val == nil || val.Referrers() == nil || len(*val.Referrers()) == 0 {
					continue
				}
				n++
				k++
				key := fmt.Sprintf("%s:discarded-error#%d", funcName(f), k)
				bad := ""
				for _, r := range *val.Referrers() {
					ri, isInstr := r.(ssa.Instruction)
					if !isInstr {
						continue
					}
					// a dominating nil test of the pointer?
					tested := false
					for _, g := range rawGuards(ri.Block()) {
						if bo, isBin := g.cond.(*ssa.BinOp); isBin && (bo.X == ssa.Value(val) && isNilConst(bo.Y) || bo.Y == ssa.Value(val) && isNilConst(bo.X)) {
							if (bo.Op == token.NEQ && g.onTrue) || (bo.Op == token.EQL && !g.onTrue) {
								tested = true
							}
						}
					}
					if tested {
						continue
					}
					switch x := r.(type) {
					case *ssa.BinOp:
						// the nil test itself
					case *ssa.FieldAddr, *ssa.UnOp:
						bad = "dereferences it"
					case *ssa.Call:
						cal := x.Common().StaticCallee()
						switch {
						case cal == nil:
							bad = "hands it to a call that cannot be resolved"
						case cal.Signature.Recv() != nil && len(x.Common().Args) > 0 && x.Common().Args[0] == ssa.Value(val) && !w.InPkg(cal):
							// reviewed: the methods of fastjson's *Value and *Object start with a nil test of the receiver
							// (the parser's accessors are designed to be chained on missing members)
							if !strings.HasPrefix(extName(cal), "(*github.com/valyala/fastjson.") {
								bad = "calls its method " + cal.Name()
							}
						case w.InPkg(cal) && cal.Blocks != nil:
							args := make([]AV, len(x.Common().Args))
							for ai, a := range x.Common().Args {
								if a == ssa.Value(val) {
									args[ai] = avNilPtr(val.Type())
								} else {
									args[ai] = avTop
								}
							}
							ip := newInterp(w)
							ip.Call(cal, args, nil, Store{}, nil)
							if len(ip.faults) > 0 {
								bad = "hands it to " + funcName(cal) + ", which faults on a nil argument (" + strings.Join(ip.faultStrings(), "; ") + ")"
							} else if ip.aborted != "" {
								bad = "hands it to " + funcName(cal) + " (undecided: " + ip.aborted + ")"
							}
						}
					}
				}
				if bad != "" {
					c.bad("C04.errnil", key, w.InstrPos(call), fmt.Sprintf("%s discards the error of %s and %s: for the inputs on which the call fails the pointer is nil and the decoder panics", funcName(f), shortVal(call), bad))
				} else {
					c.ok("C04.errnil", key, w.InstrPos(call), "every use of the pointer allows for nil")
				}
			}
		}
	}
	c.ok("C04.errnil", "scan", "-", fmt.Sprintf("%d calls with a discarded error and a used pointer result in the decode closure", n))
}
