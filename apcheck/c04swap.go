package main

// C04.swap — termination of argument-swapping recursion.
//
// ItemsEqual(a, b) normalises the order of its operands by calling itself with the operands exchanged when a guard
// predicate g(a, b) says so. That recursion is bounded iff g is antisymmetric on the values that can reach it:
// g(a, b) and g(b, a) are never both true. The rule decides this without running anything:
//   1. the guard's SSA is evaluated symbolically into a decision tree over "atoms" — pure calls whose operands
//      derive from exactly one of the two parameters (IsIRI(#), ObjectTypes.Contains(#.GetType()), …);
//   2. every pair of leaves (g(a,b)=true, g(b,a)=true) is tested for consistency of the combined atom assignment;
//   3. a consistent pair is a finding only if each of the two per-item assignments is feasible for some dynamic kind
//      of item; feasibility is taken from the abstract interpreter's value of every atom on every kind (IRI, *Object,
//      *Link, ItemCollection, …; unknown atom values are feasible both ways).

import (
	"fmt"
	"go/constant"
	"go/token"
	"go/types"
	"sort"
	"strings"

	"golang.org/x/tools/go/ssa"
)

type swapSite struct {
	fn    *ssa.Function
	call  *ssa.Call
	guard *ssa.Call // g(params in order) whose true edge leads to the swap
}

// paramIndex resolves v to a parameter of f: the parameter itself, or a load of the local cell it was spilled to
// (parameters captured by closures live in an Alloc that is stored once, at entry).
func paramIndex(f *ssa.Function, v ssa.Value) int {
	for i, p := range f.Params {
		if v == ssa.Value(p) {
			return i
		}
	}
	if u, ok := v.(*ssa.UnOp); ok && u.Op == token.MUL {
		if al, ok := u.X.(*ssa.Alloc); ok {
			st := storesTo(al)
			if len(st) == 1 {
				if i := paramIndex(f, st[0].Val); i >= 0 && !closureWrites(f, al) {
					return i
				}
			}
		}
	}
	return -1
}

// closureWrites: some closure of f stores to the captured cell.
func closureWrites(f *ssa.Function, al *ssa.Alloc) bool {
	var rec func(g *ssa.Function) bool
	rec = func(g *ssa.Function) bool {
		for _, a := range g.AnonFuncs {
			for _, b := range a.Blocks {
				for _, in := range b.Instrs {
					if st, ok := in.(*ssa.Store); ok {
						if fv, ok := st.Addr.(*ssa.FreeVar); ok && fv.Name() == al.Comment {
							return true
						}
					}
				}
			}
			if rec(a) {
				return true
			}
		}
		return false
	}
	return rec(f)
}

// findSwapSites: direct self-calls whose arguments are a non-identity permutation of the parameters.
func findSwapSites(w *World) []swapSite {
	var out []swapSite
	for _, f := range w.Funcs {
		if len(f.Params) < 2 {
			continue
		}
		for _, b := range f.Blocks {
			for _, in := range b.Instrs {
				call, ok := in.(*ssa.Call)
				if !ok || call.Common().StaticCallee() != f || len(call.Common().Args) != len(f.Params) {
					continue
				}
				perm, ident := true, true
				used := map[int]bool{}
				for i, a := range call.Common().Args {
					pi := paramIndex(f, a)
					if pi < 0 || used[pi] {
						perm = false
					}
					used[pi] = true
					if pi != i {
						ident = false
					}
				}
				if !perm || ident {
					continue
				}
				s := swapSite{fn: f, call: call}
				// the guard: nearest dominating If whose condition is a call taking the parameters in order
				for d := b; d != nil; d = d.Idom() {
					id := d.Idom()
					if id == nil {
						break
					}
					ifi, ok := id.Instrs[len(id.Instrs)-1].(*ssa.If)
					if !ok {
						continue
					}
					if !(id.Succs[0] == d || id.Succs[0].Dominates(d)) || len(id.Succs[0].Preds) != 1 {
						continue
					}
					if g, ok := ifi.Cond.(*ssa.Call); ok && g.Common().StaticCallee() != nil && len(g.Common().Args) == len(f.Params) {
						same := true
						for i, a := range g.Common().Args {
							if paramIndex(f, a) != i {
								same = false
							}
						}
						if same {
							s.guard = g
							break
						}
					}
				}
				out = append(out, s)
			}
		}
	}
	sort.Slice(out, func(i, j int) bool { return funcName(out[i].fn) < funcName(out[j].fn) })
	return out
}

// ---- symbolic evaluation of the guard ----

type symVal struct {
	kind  int // 0 unknown, 1 concrete bool, 2 expression over one parameter, 3 constant/global (parameter-free)
	b     bool
	param int
	key   string
}

type atomKey struct {
	param int
	key   string
}

type swapLeaf struct {
	sigma  map[atomKey]bool
	result bool
}

type swapEval struct {
	w        *World
	g        *ssa.Function
	leaves   []swapLeaf
	undecide string
	atomSite map[atomKey][]*ssa.Call // instructions that compute the atom (for the interpreter's feasibility table)
	steps    int
}

func (e *swapEval) run() {
	e.atomSite = map[atomKey][]*ssa.Call{}
	e.walk(e.g.Blocks[0], nil, 0, map[ssa.Value]symVal{}, map[atomKey]bool{}, 0)
}

func cloneSigma(m map[atomKey]bool) map[atomKey]bool {
	n := make(map[atomKey]bool, len(m)+1)
	for k, v := range m {
		n[k] = v
	}
	return n
}

func cloneEnv(m map[ssa.Value]symVal) map[ssa.Value]symVal {
	n := make(map[ssa.Value]symVal, len(m)+4)
	for k, v := range m {
		n[k] = v
	}
	return n
}

func (e *swapEval) operand(env map[ssa.Value]symVal, v ssa.Value) symVal {
	if s, ok := env[v]; ok {
		return s
	}
	switch x := v.(type) {
	case *ssa.Parameter:
		for i, p := range e.g.Params {
			if p == x {
				return symVal{kind: 2, param: i, key: "#"}
			}
		}
	case *ssa.Const:
		if x.Value != nil && x.Value.Kind() == constant.Bool {
			return symVal{kind: 1, b: constant.BoolVal(x.Value)}
		}
		if x.Value == nil {
			return symVal{kind: 3, key: "nil"}
		}
		return symVal{kind: 3, key: x.Value.ExactString()}
	case *ssa.Global:
		return symVal{kind: 3, key: "&" + x.Name()}
	case *ssa.Function:
		return symVal{kind: 3, key: "func " + funcName(x)}
	}
	return symVal{}
}

// combine builds the expression key of an operation over operands that involve at most one parameter.
func combine(op string, ops []symVal) symVal {
	param := -1
	var keys []string
	for _, o := range ops {
		switch o.kind {
		case 2:
			if param >= 0 && param != o.param {
				return symVal{}
			}
			param = o.param
			keys = append(keys, o.key)
		case 3:
			keys = append(keys, o.key)
		case 1:
			keys = append(keys, fmt.Sprint(o.b))
		default:
			return symVal{}
		}
	}
	k := op + "(" + strings.Join(keys, ",") + ")"
	if param < 0 {
		return symVal{kind: 3, key: k}
	}
	return symVal{kind: 2, param: param, key: k}
}

func isBoolType(t types.Type) bool {
	b, ok := types.Unalias(t).Underlying().(*types.Basic)
	return ok && b.Kind() == types.Bool
}

func (e *swapEval) walk(b, prev *ssa.BasicBlock, from int, env map[ssa.Value]symVal, sigma map[atomKey]bool, depth int) {
	if e.undecide != "" {
		return
	}
	e.steps++
	if depth > 200 || e.steps > 20000 {
		e.undecide = "the guard loops or is too large to enumerate"
		return
	}
	for idx := from; idx < len(b.Instrs); idx++ {
		in := b.Instrs[idx]
		switch x := in.(type) {
		case *ssa.DebugRef:
		case *ssa.Phi:
			for i, p := range b.Preds {
				if p == prev {
					env[x] = e.operand(env, x.Edges[i])
				}
			}
		case *ssa.Call:
			cc := x.Common()
			name := ""
			var ops []symVal
			if cc.IsInvoke() {
				name = "." + cc.Method.Name()
				ops = append(ops, e.operand(env, cc.Value))
			} else if cal := cc.StaticCallee(); cal != nil {
				name = funcName(cal)
			} else if bi, ok := cc.Value.(*ssa.Builtin); ok {
				name = "builtin " + bi.Name()
			} else {
				e.undecide = "dynamic call in the guard at " + e.w.InstrPos(x)
				return
			}
			for _, a := range cc.Args {
				ops = append(ops, e.operand(env, a))
			}
			s := combine(name, ops)
			if s.kind == 0 {
				e.undecide = fmt.Sprintf("call %s at %s mixes both operands or an untracked value", name, e.w.InstrPos(x))
				return
			}
			if s.kind == 2 && isBoolType(x.Type()) {
				ak := atomKey{s.param, s.key}
				e.atomSite[ak] = appendUniqueCall(e.atomSite[ak], x)
				if v, ok := sigma[ak]; ok {
					env[x] = symVal{kind: 1, b: v}
				} else {
					// fork
					for _, v := range []bool{true, false} {
						env2, sig2 := cloneEnv(env), cloneSigma(sigma)
						sig2[ak] = v
						env2[x] = symVal{kind: 1, b: v}
						e.walk(b, prev, idx+1, env2, sig2, depth)
					}
					return
				}
			} else {
				env[x] = s
			}
		case *ssa.UnOp:
			o := e.operand(env, x.X)
			switch {
			case x.Op == token.NOT && o.kind == 1:
				env[x] = symVal{kind: 1, b: !o.b}
			case x.Op == token.MUL:
				if g, ok := x.X.(*ssa.Global); ok {
					env[x] = symVal{kind: 3, key: g.Name()}
				} else {
					env[x] = combine("*", []symVal{o})
				}
			default:
				env[x] = combine(x.Op.String(), []symVal{o})
			}
		case *ssa.BinOp:
			l, r := e.operand(env, x.X), e.operand(env, x.Y)
			if l.kind == 1 && r.kind == 1 && (x.Op == token.EQL || x.Op == token.NEQ) {
				env[x] = symVal{kind: 1, b: (l.b == r.b) == (x.Op == token.EQL)}
				break
			}
			s := combine(x.Op.String(), []symVal{l, r})
			if s.kind == 0 {
				e.undecide = fmt.Sprintf("comparison %s at %s relates both operands", x.Op, e.w.InstrPos(x))
				return
			}
			if s.kind == 2 && isBoolType(x.Type()) {
				ak := atomKey{s.param, s.key}
				if v, ok := sigma[ak]; ok {
					env[x] = symVal{kind: 1, b: v}
				} else {
					for _, v := range []bool{true, false} {
						env2, sig2 := cloneEnv(env), cloneSigma(sigma)
						sig2[ak] = v
						env2[x] = symVal{kind: 1, b: v}
						e.walk(b, prev, idx+1, env2, sig2, depth)
					}
					return
				}
			} else {
				env[x] = s
			}
		case *ssa.ChangeInterface:
			env[x] = e.operand(env, x.X)
		case *ssa.MakeInterface:
			env[x] = e.operand(env, x.X)
		case *ssa.ChangeType:
			env[x] = e.operand(env, x.X)
		case *ssa.Convert:
			env[x] = combine("conv "+x.Type().String(), []symVal{e.operand(env, x.X)})
		case *ssa.TypeAssert:
			o := e.operand(env, x.X)
			s := combine("assert "+x.AssertedType.String(), []symVal{o})
			if s.kind != 2 {
				e.undecide = "type assertion on an untracked value at " + e.w.InstrPos(x)
				return
			}
			env[x] = s
		case *ssa.Extract:
			o := e.operand(env, x.Tuple)
			s := combine(fmt.Sprintf("#%d", x.Index), []symVal{o})
			if s.kind == 2 && isBoolType(x.Type()) {
				ak := atomKey{s.param, s.key}
				if v, ok := sigma[ak]; ok {
					env[x] = symVal{kind: 1, b: v}
				} else {
					for _, v := range []bool{true, false} {
						env2, sig2 := cloneEnv(env), cloneSigma(sigma)
						sig2[ak] = v
						env2[x] = symVal{kind: 1, b: v}
						e.walk(b, prev, idx+1, env2, sig2, depth)
					}
					return
				}
			} else {
				env[x] = s
			}
		case *ssa.Field:
			env[x] = combine(fmt.Sprintf(".f%d", x.Field), []symVal{e.operand(env, x.X)})
		case *ssa.If:
			c := e.operand(env, x.Cond)
			if c.kind != 1 {
				e.undecide = "branch on a value that is not a decided atom at " + e.w.InstrPos(x)
				return
			}
			if c.b {
				e.walk(b.Succs[0], b, 0, env, sigma, depth+1)
			} else {
				e.walk(b.Succs[1], b, 0, env, sigma, depth+1)
			}
			return
		case *ssa.Jump:
			e.walk(b.Succs[0], b, 0, env, sigma, depth+1)
			return
		case *ssa.Return:
			if len(x.Results) != 1 {
				e.undecide = "guard does not return a single boolean"
				return
			}
			r := e.operand(env, x.Results[0])
			if r.kind != 1 {
				e.undecide = "guard returns a value that is not a decided atom at " + e.w.InstrPos(x)
				return
			}
			e.leaves = append(e.leaves, swapLeaf{sigma: cloneSigma(sigma), result: r.b})
			return
		default:
			e.undecide = fmt.Sprintf("unsupported instruction %T in the guard at %s", in, e.w.InstrPos(in))
			return
		}
	}
}

func appendUniqueCall(l []*ssa.Call, c *ssa.Call) []*ssa.Call {
	for _, x := range l {
		if x == c {
			return l
		}
	}
	return append(l, c)
}

// ---- feasibility of atom assignments per dynamic kind of item ----

type itemKind struct {
	label string
	av    AV
}

// nonNilItemKinds: one abstract value per dynamic type that can sit in an Item interface (non-nil).
func (w *World) nonNilItemKinds() []itemKind {
	itemT := w.itemIface()
	var out []itemKind
	if itemT == nil {
		return nil
	}
	for _, name := range w.Types.Scope().Names() {
		tn, ok := w.Types.Scope().Lookup(name).(*types.TypeName)
		if !ok || tn.IsAlias() {
			continue
		}
		t := tn.Type()
		if _, isIface := t.Underlying().(*types.Interface); isIface {
			continue
		}
		if types.Implements(t, itemT) {
			d := topOfType(t)
			d.T = t
			out = append(out, itemKind{name, AV{K: kIface, Nil: nilNo, Dyn: &d}})
		}
		pt := types.NewPointer(t)
		if types.Implements(pt, itemT) {
			out = append(out, itemKind{"*" + name, avIface(pt, avNonNilPtr(pt))})
		}
	}
	return out
}

func checkSwapRecursion(w *World, c *Check) {
	sites := findSwapSites(w)
	c.stat("swap_recursion_sites", len(sites))
	for _, s := range sites {
		key := funcName(s.fn)
		if s.guard == nil {
			c.bad("C04.swap", key, w.InstrPos(s.call), fmt.Sprintf("%s calls itself with its operands exchanged without a guard predicate over the same operands: the two orders call each other forever", key))
			continue
		}
		g := s.guard.Common().StaticCallee()
		if g == nil || g.Blocks == nil || len(g.Params) != 2 {
			c.bad("C04.swap", key, w.InstrPos(s.guard), "the swap guard is not a two-operand package function (undecided)")
			continue
		}
		ev := &swapEval{w: w, g: g}
		ev.run()
		if ev.undecide != "" {
			c.bad("C04.swap", key, w.FuncPos(g), fmt.Sprintf("cannot decide whether %s is antisymmetric: %s", funcName(g), ev.undecide))
			continue
		}
		// interpreter table: value of every atom on every kind
		kinds := w.nonNilItemKinds()
		type kv struct{ known, val bool }
		table := map[string]map[string]kv{} // kind label -> atom key -> value
		for _, k := range kinds {
			table[k.label] = map[string]kv{}
			for p := 0; p < 2; p++ {
				ip := newInterp(w)
				got := map[*ssa.Call]AV{}
				ip.onResult = func(site *ssa.Call, res AV) {
					if site.Parent() != g {
						return
					}
					if old, ok := got[site]; ok {
						got[site] = avJoin(old, res)
					} else {
						got[site] = res
					}
				}
				args := []AV{topOfType(g.Params[0].Type()), topOfType(g.Params[1].Type())}
				args[0].Nil, args[1].Nil = nilNo, nilNo
				args[p] = k.av
				ip.Call(g, args, nil, Store{}, nil)
				for ak, calls := range ev.atomSite {
					if ak.param != p {
						continue
					}
					for _, call := range calls {
						if r, ok := got[call]; ok {
							if b, isB := r.isConstBool(); isB {
								prev, seen := table[k.label][ak.key]
								if seen && prev.known && prev.val != b {
									table[k.label][ak.key] = kv{}
								} else if !seen {
									table[k.label][ak.key] = kv{true, b}
								}
							} else {
								table[k.label][ak.key] = kv{}
							}
						}
					}
				}
			}
		}
		feasibleKinds := func(assign map[string]bool) []string {
			var out []string
			for _, k := range kinds {
				ok := true
				for key, v := range assign {
					if e, has := table[k.label][key]; has && e.known && e.val != v {
						ok = false
					}
				}
				if ok {
					out = append(out, k.label)
				}
			}
			return out
		}
		nPairs := 0
		witness := ""
		for _, l1 := range ev.leaves {
			if !l1.result {
				continue
			}
			for _, l2 := range ev.leaves {
				if !l2.result {
					continue
				}
				nPairs++
				// l1 is g(a,b); l2 is g(b,a): its parameter 0 is b, parameter 1 is a
				a, b := map[string]bool{}, map[string]bool{}
				consistent := true
				put := func(m map[string]bool, k string, v bool) {
					if old, ok := m[k]; ok && old != v {
						consistent = false
					}
					m[k] = v
				}
				for ak, v := range l1.sigma {
					if ak.param == 0 {
						put(a, ak.key, v)
					} else {
						put(b, ak.key, v)
					}
				}
				for ak, v := range l2.sigma {
					if ak.param == 0 {
						put(b, ak.key, v)
					} else {
						put(a, ak.key, v)
					}
				}
				if !consistent {
					continue
				}
				ka, kb := feasibleKinds(a), feasibleKinds(b)
				if len(ka) > 0 && len(kb) > 0 && witness == "" {
					witness = fmt.Sprintf("%s(a, b) and %s(b, a) are both true when a is e.g. %s with %s and b is e.g. %s with %s", funcName(g), funcName(g), ka[0], fmtAssign(a), kb[0], fmtAssign(b))
				}
			}
		}
		c.stat("swap_guard_leaves", len(ev.leaves))
		c.stat("swap_guard_true_pairs", nPairs)
		c.stat("swap_item_kinds", len(kinds))
		if witness != "" {
			c.bad("C04.swap", key, w.InstrPos(s.call), fmt.Sprintf("%s exchanges its operands and calls itself whenever %s holds, but %s: the two orders call each other without bound (stack exhaustion on such a pair)", key, funcName(g), witness))
		} else {
			c.ok("C04.swap", key, w.InstrPos(s.call), fmt.Sprintf("guard %s is antisymmetric over %d dynamic kinds (%d decision leaves, %d true/true pairs all inconsistent or infeasible)", funcName(g), len(kinds), len(ev.leaves), nPairs))
		}
	}
}

func fmtAssign(m map[string]bool) string {
	var ks []string
	for k := range m {
		ks = append(ks, k)
	}
	sort.Strings(ks)
	var out []string
	for _, k := range ks {
		out = append(out, fmt.Sprintf("%s=%v", k, m[k]))
	}
	return "{" + strings.Join(out, " ") + "}"
}
