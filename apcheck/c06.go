package main

import (
	"fmt"
	"go/token"
	"go/types"
	"strings"

	"golang.org/x/tools/go/ssa"
)

func init() { register("C06", checkC06) }

// textFlow: "decoded text" typestate. Bytes obtained from fastjson's GetStringBytes/StringBytes are the text the
// document meant (JSON escapes already resolved). They must be stored as they are.
type textFlow struct {
	w        *World
	pr       *prover
	rewriter map[*ssa.Function]int // package functions that return a rewritten copy of parameter i
	reparser map[*ssa.Function]int // package functions that parse / strip their parameter i as JSON or quoted text
	memo     map[ssa.Value]bool
	busy     map[ssa.Value]bool
}

func isDecodedTextSource(call *ssa.Call) bool {
	cal := call.Common().StaticCallee()
	if cal == nil || !isFastjsonMethod(cal) {
		return false
	}
	switch cal.Name() {
	case "GetStringBytes", "StringBytes":
		return true
	}
	return false
}

// derivesFromDecoded: v is (a copy/conversion/phi of) decoded text.
func (tf *textFlow) derivesFromDecoded(v ssa.Value, d int) bool {
	if v == nil || d > 25 {
		return false
	}
	if r, ok := tf.memo[v]; ok {
		return r
	}
	if tf.busy[v] {
		return false
	}
	tf.busy[v] = true
	defer delete(tf.busy, v)
	r := false
	switch x := v.(type) {
	case *ssa.Call:
		if isDecodedTextSource(x) {
			r = true
			break
		}
		// package getters that hand decoded text on unchanged
		if cal := x.Common().StaticCallee(); cal != nil && tf.w.InPkg(cal) && isByteishResult(cal) {
			if _, isRw := tf.rewriter[cal]; !isRw {
				for _, rb := range returnBlocks(cal) {
					ret := rb.Instrs[len(rb.Instrs)-1].(*ssa.Return)
					for _, rv := range ret.Results {
						if tf.derivesFromDecoded(rv, d+1) {
							r = true
						}
					}
				}
			}
		}
	case *ssa.Extract:
		r = tf.derivesFromDecoded(x.Tuple, d+1)
	case *ssa.Convert:
		r = tf.derivesFromDecoded(x.X, d+1)
	case *ssa.ChangeType:
		r = tf.derivesFromDecoded(x.X, d+1)
	case *ssa.Slice:
		r = tf.derivesFromDecoded(x.X, d+1)
	case *ssa.Phi:
		for _, e := range x.Edges {
			if tf.derivesFromDecoded(e, d+1) {
				r = true
			}
		}
	case *ssa.UnOp:
		if x.Op == token.MUL {
			if al, ok := x.X.(*ssa.Alloc); ok {
				for _, st := range storesTo(al) {
					if tf.derivesFromDecoded(st.Val, d+1) {
						r = true
					}
				}
			}
		}
	case *ssa.MakeInterface:
		r = tf.derivesFromDecoded(x.X, d+1)
	}
	tf.memo[v] = r
	return r
}

func isByteishResult(f *ssa.Function) bool {
	res := f.Signature.Results()
	for i := 0; i < res.Len(); i++ {
		if isByteish(res.At(i).Type()) {
			return true
		}
	}
	return false
}

func isRewriteCallee(cal *ssa.Function) bool {
	if cal == nil || cal.Object() == nil || cal.Object().Pkg() == nil {
		return false
	}
	p := cal.Object().Pkg().Path()
	if p != "bytes" && p != "strings" {
		return false
	}
	n := cal.Name()
	return strings.HasPrefix(n, "Replace") || strings.HasPrefix(n, "Trim") || n == "Map" || n == "ToLower" || n == "ToUpper" || n == "Title" || n == "Fields"
}

// paramFlowsTo: does parameter i of f flow (through copies) into argument `arg`?
func paramIndexOfValue(f *ssa.Function, v ssa.Value, d int, seen map[ssa.Value]bool) int {
	if v == nil || d > 20 || seen[v] {
		return -1
	}
	seen[v] = true
	switch x := v.(type) {
	case *ssa.Parameter:
		for i, p := range f.Params {
			if p == x {
				return i
			}
		}
	case *ssa.Convert:
		return paramIndexOfValue(f, x.X, d+1, seen)
	case *ssa.ChangeType:
		return paramIndexOfValue(f, x.X, d+1, seen)
	case *ssa.Slice:
		return paramIndexOfValue(f, x.X, d+1, seen)
	case *ssa.Phi:
		for _, e := range x.Edges {
			if i := paramIndexOfValue(f, e, d+1, seen); i >= 0 {
				return i
			}
		}
	case *ssa.Call:
		// result of a rewrite of the parameter is still "from the parameter" for the purpose of finding rewriters
		if cal := x.Common().StaticCallee(); isRewriteCallee(cal) && len(x.Common().Args) > 0 {
			return paramIndexOfValue(f, x.Common().Args[0], d+1, seen)
		}
	case *ssa.UnOp:
		if al, ok := x.X.(*ssa.Alloc); ok && x.Op == token.MUL {
			for _, st := range storesTo(al) {
				if i := paramIndexOfValue(f, st.Val, d+1, seen); i >= 0 {
					return i
				}
			}
		}
	}
	return -1
}

func (tf *textFlow) discover() {
	// rewriters: return value passes through bytes/strings Replace*/Trim*/… applied to a parameter
	for _, f := range tf.w.Funcs {
		if f.Parent() != nil || !isByteishResult(f) {
			continue
		}
		for _, b := range f.Blocks {
			for _, in := range b.Instrs {
				call, ok := in.(*ssa.Call)
				if !ok || !isRewriteCallee(call.Common().StaticCallee()) || len(call.Common().Args) == 0 {
					continue
				}
				if i := paramIndexOfValue(f, call.Common().Args[0], 0, map[ssa.Value]bool{}); i >= 0 {
					// and the result is returned
					for _, rb := range returnBlocks(f) {
						ret := rb.Instrs[len(rb.Instrs)-1].(*ssa.Return)
						for _, rv := range ret.Results {
							if isByteish(rv.Type()) && paramIndexOfValue(f, rv, 0, map[ssa.Value]bool{}) == i {
								tf.rewriter[f] = i
							}
						}
					}
				}
			}
		}
	}
	// quote-stripping text unmarshalers: UnmarshalText/UnmarshalJSON methods that slice their input
	for _, f := range tf.w.Funcs {
		if f.Parent() != nil || f.Signature.Recv() == nil {
			continue
		}
		if f.Name() != "UnmarshalText" && f.Name() != "UnmarshalJSON" {
			continue
		}
		if _, done := tf.reparser[f]; done {
			continue
		}
		for _, b := range f.Blocks {
			for _, in := range b.Instrs {
				if sl, ok := in.(*ssa.Slice); ok && len(f.Params) > 1 && sl.X == ssa.Value(f.Params[1]) && (sl.Low != nil || sl.High != nil) {
					tf.reparser[f] = 1
				}
				if call, ok := in.(*ssa.Call); ok && isRewriteCallee(call.Common().StaticCallee()) {
					if paramIndexOfValue(f, call.Common().Args[0], 0, map[ssa.Value]bool{}) == 1 {
						tf.reparser[f] = 1
					}
				}
			}
		}
	}
	// reparsers: hand a parameter to a JSON parser, or are text/JSON unmarshal methods (which strip quotes)
	for iter := 0; iter < 4; iter++ {
		for _, f := range tf.w.Funcs {
			if f.Parent() != nil {
				continue
			}
			if _, done := tf.reparser[f]; done {
				continue
			}
			for _, b := range f.Blocks {
				for _, in := range b.Instrs {
					call, ok := in.(*ssa.Call)
					if !ok {
						continue
					}
					cal := call.Common().StaticCallee()
					if cal == nil {
						continue
					}
					argIdx := -1
					name := fullName(cal)
					switch {
					case strings.HasSuffix(name, "fastjson.Parser).ParseBytes") || strings.HasSuffix(name, "fastjson.Parser).Parse") || name == "github.com/valyala/fastjson.ParseBytes" || name == "github.com/valyala/fastjson.Parse":
						argIdx = len(call.Common().Args) - 1
					case name == "encoding/json.Unmarshal":
						argIdx = 0
					default:
						if pi, ok := tf.reparser[cal]; ok {
							argIdx = pi
						}
					}
					if argIdx < 0 || argIdx >= len(call.Common().Args) {
						continue
					}
					if i := paramIndexOfValue(f, call.Common().Args[argIdx], 0, map[ssa.Value]bool{}); i >= 0 {
						tf.reparser[f] = i
					}
				}
			}
		}
	}
}

func checkC06(w *World, c *Check, tier string) {
	c.Exhaustive = true
	c.Explanation = "Decides the structural necessary conditions for natural-language text to survive both codecs byte for byte: (redecode) text that the JSON parser has already decoded (the result of fastjson GetStringBytes/StringBytes) is never handed to a JSON parser or to a quote-stripping text/JSON unmarshal method again — otherwise a post whose whole text is 42, true, [1,2] or \"x\" changes or disappears; (rewrite-in) decoded text reaches the stored value without passing a function that rewrites bytes (a package function built on bytes/strings Replace*, Trim*, …) — otherwise 'C:\\new' acquires a line feed; (rewrite-out) the stored text reaches the escaper without passing such a function; (kv) the gob forms carry the language tag in the key slot and the text in the value slot on encode and read them back from the same slots; the key terms of the multi-language form are decided by C01/C05. NOT decided: equality for concrete strings, correctness of the escaper beyond its tables (C02)."
	c.RuleText = "one obligation per use of decoded text in the decoders (redecode, rewrite-in), per text write in the encoders (rewrite-out), per gob slot (kv); exhaustive over sources of decoded text"
	c.Trusted = []string{"go/ssa", "fastjson GetStringBytes/StringBytes return the decoded string value", "bytes/strings Replace*/Trim* are the only rewriting primitives the package uses (checked: any other callee on the path is reported)"}
	c.floor("C06.flow", 2)
	c.floor("C06.kv", 4)
	c.floor("C06.exact", 3)
	checkExactTextEquality(w, c, "C06.exact")
	checkListDecodeCount(w, c)
	checkEscaper(w, c, "C06.escaper")
	// gob encoders that put natural-language text into the property map: the "has data" flag must follow (see flagdisc.go)
	checkFlagDiscipline(w, c, "C06.flag", func(f *ssa.Function, evs []flagEvent) bool {
		for _, ev := range evs {
			mu, ok := ev.in.(*ssa.MapUpdate)
			if !ok {
				continue
			}
			v := mu.Value
			if e, ok := v.(*ssa.Extract); ok {
				v = e.Tuple
			}
			if call, ok := v.(*ssa.Call); ok && len(call.Call.Args) > 0 {
				switch typeName(call.Call.Args[0].Type()) {
				case "NaturalLanguageValues", "LangRefValue", "Content", "LangRef":
					return true
				}
			}
		}
		return false
	})
	c.floor("C06.flag", 3)
	pr := newProver(w)
	tf := &textFlow{w: w, pr: pr, rewriter: map[*ssa.Function]int{}, reparser: map[*ssa.Function]int{}, memo: map[ssa.Value]bool{}, busy: map[ssa.Value]bool{}}
	tf.discover()
	var rw, rp []string
	for f := range tf.rewriter {
		rw = append(rw, funcName(f))
	}
	for f := range tf.reparser {
		rp = append(rp, funcName(f))
	}
	c.stat("rewriting_functions", len(rw))
	c.stat("reparsing_functions", len(rp))
	c.note("byte-rewriting package functions: %v", uniq(rw))

	// ---- decode side: every call in the package whose argument is decoded text ----
	nuse := 0
	for _, f := range w.Funcs {
		cnt := map[string]int{}
		for _, b := range f.Blocks {
			for _, in := range b.Instrs {
				call, ok := in.(*ssa.Call)
				if !ok {
					continue
				}
				cal := call.Common().StaticCallee()
				if cal == nil {
					continue
				}
				for ai, a := range call.Common().Args {
					if !isByteish(a.Type()) || !tf.derivesFromDecoded(a, 0) {
						continue
					}
					nuse++
					base := funcName(f) + "→" + funcName(cal)
					cnt[base]++
					key := base
					if cnt[base] > 1 {
						key = fmt.Sprintf("%s#%d", base, cnt[base])
					}
					name := fullName(cal)
					switch {
					case tf.isReparse(cal, ai, name):
						c.bad("C06.redecode", key, w.InstrPos(call), fmt.Sprintf("%s hands text that the JSON parser has already decoded to %s, which parses/strips it again: a text that looks like JSON (42, true, [1,2]) or carries its own quotes is changed or lost", funcName(f), funcName(cal)))
					case tf.isRewrite(cal, ai):
						c.bad("C06.rewrite-in", key, w.InstrPos(call), fmt.Sprintf("%s passes decoded text through %s, which rewrites byte sequences (backslash-letter pairs, …): text such as C:\\new or a literal \\n is altered on decode", funcName(f), funcName(cal)))
					default:
						c.ok("C06.flow", key, w.InstrPos(call), "decoded text handed on unchanged")
					}
				}
			}
		}
	}
	c.stat("uses_of_decoded_text", nuse)

	// ---- encode side: what reaches the escaper ----
	esc := w.Func("stringBytes")
	if esc == nil {
		c.bad("C06.rewrite-out", "anchor:stringBytes", "-", "escaper not found")
	} else {
		n := 0
		for _, f := range w.Funcs {
			for _, call := range callsIn(f) {
				if call.Common().StaticCallee() != esc || len(call.Common().Args) < 2 {
					continue
				}
				n++
				key := fmt.Sprintf("%s→stringBytes#%d", funcName(f), n)
				if rwf := tf.rewrittenBy(call.Common().Args[1], 0, map[ssa.Value]bool{}); rwf != "" {
					c.bad("C06.rewrite-out", key, w.InstrPos(call), fmt.Sprintf("%s rewrites the stored text with %s before escaping it: text containing a backslash followed by a letter or quote is altered on encode", funcName(f), rwf))
				} else {
					c.ok("C06.rewrite-out", key, w.InstrPos(call), "stored text reaches the escaper unrewritten")
				}
			}
		}
	}

	// ---- kv ----
	checkKV(w, c, pr)
}

func (tf *textFlow) isReparse(cal *ssa.Function, argIdx int, name string) bool {
	if pi, ok := tf.reparser[cal]; ok && pi == argIdx {
		return true
	}
	if strings.HasSuffix(name, "fastjson.Parser).ParseBytes") || strings.HasSuffix(name, "fastjson.Parser).Parse") || name == "encoding/json.Unmarshal" && argIdx == 0 {
		return true
	}
	return false
}

func (tf *textFlow) isRewrite(cal *ssa.Function, argIdx int) bool {
	if pi, ok := tf.rewriter[cal]; ok && pi == argIdx {
		return true
	}
	return isRewriteCallee(cal) && argIdx == 0
}

// rewrittenBy: the name of a rewriting function in the backward slice of v (through locals and field copies), or "".
func (tf *textFlow) rewrittenBy(v ssa.Value, d int, seen map[ssa.Value]bool) string {
	if v == nil || d > 25 || seen[v] {
		return ""
	}
	seen[v] = true
	switch x := v.(type) {
	case *ssa.Call:
		cal := x.Common().StaticCallee()
		if cal != nil {
			if _, ok := tf.rewriter[cal]; ok {
				return funcName(cal)
			}
			if isRewriteCallee(cal) {
				return fullName(cal)
			}
		}
	case *ssa.Convert:
		return tf.rewrittenBy(x.X, d+1, seen)
	case *ssa.ChangeType:
		return tf.rewrittenBy(x.X, d+1, seen)
	case *ssa.Phi:
		for _, e := range x.Edges {
			if r := tf.rewrittenBy(e, d+1, seen); r != "" {
				return r
			}
		}
	case *ssa.Field:
		return tf.rewrittenBy(x.X, d+1, seen)
	case *ssa.UnOp:
		if x.Op != token.MUL {
			return ""
		}
		switch a := x.X.(type) {
		case *ssa.Alloc:
			for _, st := range storesTo(a) {
				if r := tf.rewrittenBy(st.Val, d+1, seen); r != "" {
					return r
				}
			}
			return tf.fieldStoresRewritten(a, d, seen)
		case *ssa.FieldAddr:
			if al, ok := a.X.(*ssa.Alloc); ok {
				// a field of a local struct copy (v := n[0]; v.Value = unescape(v.Value))
				if refs := al.Referrers(); refs != nil {
					for _, r := range *refs {
						if fa2, ok := r.(*ssa.FieldAddr); ok && fa2.Field == a.Field && fa2.Referrers() != nil {
							for _, rr := range *fa2.Referrers() {
								if st, ok := rr.(*ssa.Store); ok && st.Addr == fa2 {
									if r := tf.rewrittenBy(st.Val, d+1, seen); r != "" {
										return r
									}
								}
							}
						}
					}
				}
			}
		}
	}
	return ""
}

func (tf *textFlow) fieldStoresRewritten(al *ssa.Alloc, d int, seen map[ssa.Value]bool) string {
	if refs := al.Referrers(); refs != nil {
		for _, r := range *refs {
			if fa, ok := r.(*ssa.FieldAddr); ok && fa.Referrers() != nil {
				for _, rr := range *fa.Referrers() {
					if st, ok := rr.(*ssa.Store); ok && st.Addr == fa {
						if r := tf.rewrittenBy(st.Val, d+1, seen); r != "" {
							return r
						}
					}
				}
			}
		}
	}
	return ""
}

// checkKV: gob key/value slot pairing of the language-value types.
func checkKV(w *World, c *Check, pr *prover) {
	kvT := w.Named("kv")
	if kvT == nil {
		c.bad("C06.kv", "anchor:kv", "-", "the gob wire struct kv was not found")
		return
	}
	want := map[string]string{"K": "Ref", "V": "Value"}
	for _, tn := range []string{"LangRefValue", "NaturalLanguageValues"} {
		enc, dec := w.Method(tn, "GobEncode"), w.Method(tn, "GobDecode")
		if enc == nil || dec == nil {
			c.bad("C06.kv", tn, "-", "GobEncode/GobDecode missing")
			continue
		}
		// encode: stores into kv.K / kv.V derive from Ref / Value
		encOK := map[string]string{}
		for _, b := range enc.Blocks {
			for _, in := range b.Instrs {
				st, ok := in.(*ssa.Store)
				if !ok {
					continue
				}
				fa, ok := st.Addr.(*ssa.FieldAddr)
				if !ok || namedOf(fa.X.Type()) != kvT {
					continue
				}
				slot := fieldNameOf(fa.X.Type(), fa.Field)
				for _, r := range pr.prov(st.Val).list() {
					encOK[slot] = r.Names[len(r.Names)-1]
				}
			}
		}
		for slot, field := range want {
			key := tn + ".GobEncode:" + slot
			if encOK[slot] == field {
				c.ok("C06.kv", key, w.FuncPos(enc), slot+" ← "+field)
			} else {
				c.bad("C06.kv", key, w.FuncPos(enc), fmt.Sprintf("gob slot %s of %s is filled from %q, expected %s: tag and text are swapped or lost on a gob round trip", slot, tn, encOK[slot], field))
			}
		}
		// decode: Ref ← K, Value ← V
		decOK := map[string]string{}
		for _, b := range dec.Blocks {
			for _, in := range b.Instrs {
				srcSlot := func(v ssa.Value) string {
					var found string
					var walk func(v ssa.Value, d int)
					walk = func(v ssa.Value, d int) {
						if v == nil || d > 10 || found != "" {
							return
						}
						switch x := v.(type) {
						case *ssa.Field:
							if namedOf(x.X.Type()) == kvT {
								found = fieldNameOf(x.X.Type(), x.Field)
								return
							}
							walk(x.X, d+1)
						case *ssa.FieldAddr:
							if namedOf(x.X.Type()) == kvT {
								found = fieldNameOf(x.X.Type(), x.Field)
								return
							}
						case *ssa.UnOp:
							walk(x.X, d+1)
						case *ssa.Convert:
							walk(x.X, d+1)
						case *ssa.ChangeType:
							walk(x.X, d+1)
						}
					}
					walk(v, 0)
					return found
				}
				if st, ok := in.(*ssa.Store); ok {
					if fa, ok := st.Addr.(*ssa.FieldAddr); ok {
						fname := fieldNameOf(fa.X.Type(), fa.Field)
						if fname == "Ref" || fname == "Value" {
							if s := srcSlot(st.Val); s != "" {
								decOK[fname] = s
							}
						}
					}
					// composite literal LangRefValue{Ref:…, Value:…} built in a local then appended
				}
				// the pair handed to a package method that builds the entry from its parameters (n.Append(ref, text)): the
				// callee's stores into Ref / Value are fed by its parameters, which stand for this call's arguments
				if call, ok := in.(*ssa.Call); ok {
					if cal := call.Common().StaticCallee(); cal != nil && w.InPkg(cal) && cal.Blocks != nil && cal != dec {
						for _, cb := range cal.Blocks {
							for _, cin := range cb.Instrs {
								st, ok := cin.(*ssa.Store)
								if !ok {
									continue
								}
								fa, ok := st.Addr.(*ssa.FieldAddr)
								if !ok {
									continue
								}
								fname := fieldNameOf(fa.X.Type(), fa.Field)
								if fname != "Ref" && fname != "Value" {
									continue
								}
								v := st.Val
								for {
									if cv, ok := v.(*ssa.Convert); ok {
										v = cv.X
										continue
									}
									if ct, ok := v.(*ssa.ChangeType); ok {
										v = ct.X
										continue
									}
									break
								}
								for pi, p := range cal.Params {
									if v == ssa.Value(p) && pi < len(call.Common().Args) {
										if s := srcSlot(call.Common().Args[pi]); s != "" {
											decOK[fname] = s
										}
									}
								}
								// the whole pair is handed over and taken apart in the helper
								takesPair := false
								for _, a := range call.Common().Args {
									if namedOf(a.Type()) == kvT {
										takesPair = true
									}
								}
								if takesPair {
									if s := srcSlot(st.Val); s != "" {
										decOK[fname] = s
									}
								}
							}
						}
					}
				}
			}
		}
		for slot, field := range want {
			key := tn + ".GobDecode:" + field
			if decOK[field] == slot {
				c.ok("C06.kv", key, w.FuncPos(dec), field+" ← "+slot)
			} else {
				c.bad("C06.kv", key, w.FuncPos(dec), fmt.Sprintf("%s.%s is restored from gob slot %q, expected %s", tn, field, decOK[field], slot))
			}
		}
	}
	_ = types.Typ
}

// checkListDecodeCount (C06.count): the gob decoder of a language-value list restores one entry per stored entry. The
// loop over the decoded pairs must append unconditionally — the builtin append on the receiver, or a callee whose
// every path appends and that never overwrites an element. Going through a "set" style helper (overwrite the entry
// with the same tag, append otherwise) collapses a list that holds two values for one tag (a JSON array of plain
// strings decodes to exactly that), so the value read back differs from the value stored.
func checkListDecodeCount(w *World, c *Check) {
	alwaysAppends := func(f *ssa.Function) bool {
		if f == nil || f.Blocks == nil {
			return false
		}
		var appendBlocks []*ssa.BasicBlock
		for _, b := range f.Blocks {
			for _, in := range b.Instrs {
				switch x := in.(type) {
				case *ssa.Store:
					if ia, isElem := x.Addr.(*ssa.IndexAddr); isElem {
						if _, local := ia.X.(*ssa.Alloc); local {
							continue // the temporary array of a variadic call / composite literal
						}
						return false // overwrites an element
					}
				case *ssa.Call:
					if bi, ok := x.Common().Value.(*ssa.Builtin); ok && bi.Name() == "append" {
						appendBlocks = append(appendBlocks, b)
					}
				}
			}
		}
		if len(appendBlocks) == 0 {
			return false
		}
		for _, rb := range returnBlocks(f) {
			ok := false
			for _, ab := range appendBlocks {
				if ab == rb || ab.Dominates(rb) {
					ok = true
				}
			}
			if !ok {
				return false
			}
		}
		return true
	}
	for _, tn := range []string{"NaturalLanguageValues"} {
		dec := w.Method(tn, "GobDecode")
		if dec == nil {
			continue
		}
		loops := loopHeaders(dec)
		found, bad := false, ""
		for _, b := range dec.Blocks {
			if len(loops[b]) == 0 {
				continue
			}
			for _, in := range b.Instrs {
				call, ok := in.(*ssa.Call)
				if !ok {
					continue
				}
				if bi, ok := call.Common().Value.(*ssa.Builtin); ok && bi.Name() == "append" {
					// unconditional within the loop body: no guard other than the loop condition itself
					cond := false
					for _, g := range rawGuards(b) {
						if loops[g.block] != nil && len(loops[g.block]) > 0 && !g.block.Dominates(b) {
							continue
						}
						if hs := loops[b]; hs[g.block] {
							continue // the loop's own continuation test
						}
						if len(loops[g.block]) > 0 {
							cond = true
						}
					}
					if cond {
						bad = "appends a decoded entry only under a condition (at " + w.InstrPos(call) + ")"
					} else {
						found = true
					}
					continue
				}
				cal := call.Common().StaticCallee()
				if cal == nil || !w.InPkg(cal) || cal.Signature.Recv() == nil || namedOf(cal.Signature.Recv().Type()) == nil || namedOf(cal.Signature.Recv().Type()).Obj().Name() != tn {
					continue
				}
				if alwaysAppends(cal) {
					found = true
				} else {
					bad = fmt.Sprintf("stores a decoded entry through %s (at %s), which can overwrite an existing entry instead of appending", funcName(cal), w.InstrPos(call))
				}
			}
		}
		key := tn + ".GobDecode:one-entry-per-stored-entry"
		switch {
		case bad != "":
			c.bad("C06.count", key, w.FuncPos(dec), "(*"+tn+").GobDecode "+bad+": a list with two values under one language tag (or two untagged values) comes back shorter than it was stored")
		case found:
			c.ok("C06.count", key, w.FuncPos(dec), "every decoded pair is appended")
		default:
			c.bad("C06.count", key, w.FuncPos(dec), "no append of decoded entries found in the decode loop (undecided)")
		}
	}
}
