package main

import (
	"fmt"
	"go/constant"
	"go/token"
	"go/types"
	"os"
	"sort"
	"strings"

	"golang.org/x/tools/go/ssa"
)

func init() { register("C07", checkC07) }

type vocab struct {
	lists   map[string][]string // list variable -> values
	all     map[string]bool     // N: Types ∪ GenericTypes ∪ {""}
	family  map[string]string   // name -> family list that contains it ("" for generic/empty)
	colls   map[string]bool
	listPos map[string]token.Pos
}

var familyLists = []string{"ObjectTypes", "ActorTypes", "ActivityTypes", "IntransitiveActivityTypes", "LinkTypes"}

func loadVocab(w *World, c *Check) *vocab {
	v := &vocab{lists: map[string][]string{}, all: map[string]bool{}, family: map[string]string{}, colls: map[string]bool{}, listPos: map[string]token.Pos{}}
	for _, ln := range append([]string{"Types", "GenericTypes", "CollectionTypes"}, familyLists...) {
		vals, pos, ok := w.ListVar(ln)
		v.listPos[ln] = pos
		if !ok {
			c.bad("C07.partition", "list:"+ln, w.Pos(pos), "package-level list "+ln+" is missing or is not a composite literal of constants (undecided)")
			continue
		}
		v.lists[ln] = vals
	}
	return v
}

func checkC07(w *World, c *Check, tier string) {
	c.Level = "proof"
	c.Exhaustive = true
	c.Explanation = "Exhaustive static enumeration of the finite space the property names: for every vocabulary type name (members of Types and GenericTypes, and the empty name) and each of the four hand-written dispatchers (registry GetItemByType, JSON JSONLoadItem, gob gobEncodeItem, gob gobDecodeItem) the abstract interpreter is run with the switch tag fixed to that name and hooks at their initial values; the codec leaf reached (JSONLoad<K>, K.GobEncode, unmap<K>Properties; composite-literal type for the registry) must be exactly one and must be the codec of the registry's Go type for that name. The membership lists must partition Types; the package predicates IsObject/IsLink and the type's own IsObject/IsLink/IsCollection methods (when constant) must agree with the family list holding the name; the family's To* helper must accept the registry's type without error; the extension hook JSONItemUnmarshal may only be reached for names outside the vocabulary, which with hooks unset yield (nil, error). Not decided: that decoded values carry the id/properties written (C01/C03 decide the per-field tables), behaviour under arbitrary user hooks."
	c.RuleText = "obligations: |N| x 4 dispatchers + list partition + per-name family/predicate/acceptor agreement + hook reachability; exhaustive"
	c.Trusted = []string{"go/types, go/ssa (x/tools v0.29.0)", "apcheck abstract interpreter (absint.go)"}
	c.Assumptions = []string{"hooks unset configuration = the initialisers in the package source (ItemTyperFunc=GetItemByType, JSONItemUnmarshal=nil, IsNotEmpty=NotEmpty)"}
	v := loadVocab(w, c)
	c.floor("C07.table", 200)
	c.floor("C07.partition", 5)
	c.floor("C07.family", 50)
	c.floor("C07.accessor", 84)
	c.floor("C07.fresh", 15)
	checkRegistryFresh(w, c, "C07.fresh")
	checkAccessors(w, c, "C07.accessor", []string{"GetType", "GetID", "GetLink", "IsObject", "IsLink", "IsCollection"})

	// ---- C07.partition ----
	types_, okT := v.lists["Types"]
	if okT {
		tset := setOf(types_)
		union := map[string]bool{}
		owner := map[string]string{}
		for _, fl := range familyLists {
			for _, n := range v.lists[fl] {
				if prev, dup := owner[n]; dup && prev != fl {
					c.bad("C07.partition", "disjoint:"+n, w.Pos(v.listPos[fl]), fmt.Sprintf("type name %q is a member of both %s and %s", n, prev, fl))
				}
				owner[n] = fl
				union[n] = true
			}
		}
		cnames := map[string]bool{}
		for _, n := range v.lists["CollectionTypes"] {
			if w.StructInfoOf(n) != nil { // the four collection object types (not the pseudo-type of plain item lists)
				cnames[n] = true
				union[n] = true
				if prev, dup := owner[n]; dup {
					c.bad("C07.partition", "disjoint:"+n, w.Pos(v.listPos["CollectionTypes"]), fmt.Sprintf("collection type name %q is also a member of %s", n, prev))
				}
				owner[n] = "CollectionTypes"
			}
		}
		v.colls = cnames
		if d := setDiff(tset, union); len(d) > 0 {
			c.bad("C07.partition", "Types⊆families", w.Pos(v.listPos["Types"]), fmt.Sprintf("names in Types that no family list places: %v", d))
		} else {
			c.ok("C07.partition", "Types⊆families", w.Pos(v.listPos["Types"]), fmt.Sprintf("%d names", len(tset)))
		}
		if d := setDiff(union, tset); len(d) > 0 {
			c.bad("C07.partition", "families⊆Types", w.Pos(v.listPos["Types"]), fmt.Sprintf("names in a family list but missing from Types: %v", d))
		} else {
			c.ok("C07.partition", "families⊆Types", w.Pos(v.listPos["Types"]), fmt.Sprintf("%d names", len(union)))
		}
		for _, fl := range familyLists {
			c.ok("C07.partition", "list:"+fl, w.Pos(v.listPos[fl]), fmt.Sprintf("%d constant members", len(v.lists[fl])))
		}
		// every constant of the vocabulary type is placed (or is a pseudo/generic type)
		consts := w.ConstsOfType("ActivityVocabularyType")
		generic := setOf(v.lists["GenericTypes"])
		pseudo := map[string]bool{}
		for _, n := range v.lists["CollectionTypes"] {
			if !cnames[n] {
				pseudo[n] = true
			}
		}
		// pseudo type names: what the non-struct Item implementations (IRI, IRIs, ItemCollection) report as their type
		for _, tn := range w.Types.Scope().Names() {
			n := w.Named(tn)
			if n == nil {
				continue
			}
			if _, isStruct := n.Underlying().(*types.Struct); isStruct {
				continue
			}
			if it := w.itemIface(); it == nil || !types.Implements(n, it) {
				continue
			}
			if m := w.Method(tn, "GetType"); m != nil {
				ip := newInterp(w)
				r, _, _ := ip.Call(m, []AV{avTop}, nil, Store{}, nil)
				if r.K == kConst && r.C.Kind() == constant.String {
					pseudo[constant.StringVal(r.C)] = true
				}
			}
		}
		for _, cn := range sortedKeys(consts) {
			val := consts[cn]
			if tset[val] || generic[val] || pseudo[val] {
				continue
			}
			c.bad("C07.partition", "const:"+cn, "-", fmt.Sprintf("constant %s=%q is in neither Types nor GenericTypes", cn, val))
		}
		for n := range tset {
			v.all[n] = true
			v.family[n] = owner[n]
		}
		for n := range generic {
			v.all[n] = true
		}
		v.all[""] = true
	}
	if len(v.all) < 10 {
		return
	}
	names := sortedKeys(v.all)
	c.stat("names", len(names))

	reg := w.Func("GetItemByType")
	jsonD := w.Func("JSONLoadItem")
	gobE := w.Func("gobEncodeItem")
	gobD := w.Func("gobDecodeItem")
	for n, f := range map[string]*ssa.Function{"GetItemByType": reg, "JSONLoadItem": jsonD, "gobEncodeItem": gobE, "gobDecodeItem": gobD} {
		if f == nil {
			c.bad("C07.table", "anchor:"+n, "-", "dispatcher "+n+" not found")
		}
	}
	if reg == nil || jsonD == nil || gobE == nil || gobD == nil {
		return
	}
	avtT := w.Named("ActivityVocabularyType")
	mkName := func(n string) AV { return AV{K: kConst, C: constant.MakeString(n), T: avtT} }

	// registry
	regType := map[string]*types.Named{}
	regAV := map[string]AV{}
	for _, n := range names {
		ip := newInterp(w)
		res, _, _ := ip.Call(reg, []AV{mkName(n)}, nil, Store{}, nil)
		k, item := registryResult(res)
		label := fmt.Sprintf("registry:%q", n)
		if k == nil || ip.aborted != "" || len(ip.faults) > 0 {
			c.bad("C07.table", label, w.FuncPos(reg), fmt.Sprintf("GetItemByType(%q) does not evaluate to a single concrete Go type: %s %s", n, res, ip.aborted))
			continue
		}
		regType[n] = k
		regAV[n] = item
		c.ok("C07.table", label, w.FuncPos(reg), "creates *"+k.Obj().Name())
	}

	jsonTag := dispatchTag(jsonD)
	gobETag := dispatchTag(gobE)
	gobDTag := dispatchTag(gobD)
	for n, tg := range map[string]ssa.Value{"JSONLoadItem": jsonTag, "gobEncodeItem": gobETag, "gobDecodeItem": gobDTag} {
		if tg == nil {
			c.bad("C07.table", "tag:"+n, "-", "cannot identify the dispatch tag (value compared against >= 10 type-name constants) in "+n)
		}
	}
	if jsonTag == nil || gobETag == nil || gobDTag == nil {
		return
	}
	hookCalls := callsThroughGlobal(w, "JSONItemUnmarshal")
	typerCallsD := callsThroughGlobalIn(w, gobD, "ItemTyperFunc")
	c.stat("hook_call_sites_JSONItemUnmarshal", len(hookCalls))
	for _, hc := range hookCalls {
		// … or in the function that holds the dispatch switch, when JSONLoadItem hands the dispatch to a helper
		if hc.Parent() != jsonD && hc.Parent() != tagFn(jsonTag) {
			c.bad("C07.hooks", "who-calls:"+funcName(hc.Parent()), w.InstrPos(hc), "JSONItemUnmarshal is invoked outside JSONLoadItem")
		}
	}

	valT := jsonD.Params[0].Type()
	for _, n := range names {
		k := regType[n]
		if k == nil {
			continue
		}
		// JSON
		{
			ip := newInterp(w)
			if os.Getenv("APCHECK_PROFILE") != "" {
				ip.profile = map[string]int{}
			}
			forceTag(ip, jsonTag, mkName(n))
			leaves := observeLeaves(w, ip, jsonD, tagFn(jsonTag))
			res, _, _ := ip.Call(jsonD, []AV{avNonNilPtr(valT)}, nil, Store{}, nil)
			judgeLeaf(w, c, "json", n, k, leaves, ip, jsonD)
			for _, hc := range hookCalls {
				if ip.execInstr[hc] {
					c.bad("C07.hooks", fmt.Sprintf("vocabulary-name-reaches-hook:%q", n), w.InstrPos(hc), "the extension hook JSONItemUnmarshal is reachable for a vocabulary type name")
				}
			}
			_ = res
		}
		// JSON with the extension hook installed: the outcome for a vocabulary name must not change
		if hg := w.Global("JSONItemUnmarshal"); hg != nil {
			ip := newInterp(w)
			ip.globals[hg] = AV{K: kExtFn, Tag: "JSONItemUnmarshal"}
			forceTag(ip, jsonTag, mkName(n))
			leaves := observeLeaves(w, ip, jsonD, tagFn(jsonTag))
			hookHit := false
			ip.onExtCall = func(site ssa.Instruction, tag string, args []AV) {
				if tag == "JSONItemUnmarshal" {
					hookHit = true
				}
			}
			ip.Call(jsonD, []AV{avNonNilPtr(valT)}, nil, Store{}, nil)
			key := fmt.Sprintf("hook-installed:%q", n)
			ks := map[*types.Named]bool{}
			for _, l := range *leaves {
				ks[l.k] = true
			}
			switch {
			case ip.aborted != "":
				c.bad("C07.hooks", key, w.FuncPos(jsonD), "undecided: "+ip.aborted)
			case hookHit:
				c.bad("C07.hooks", key, w.FuncPos(jsonD), fmt.Sprintf("with JSONItemUnmarshal installed, a document of vocabulary type %q can be handed to the hook instead of (or in addition to) its vocabulary loader", n))
			case len(ks) != 1 || !ks[k]:
				c.bad("C07.hooks", key, w.FuncPos(jsonD), fmt.Sprintf("with JSONItemUnmarshal installed, type %q no longer reaches exactly the loader of *%s (reaches %v)", n, k.Obj().Name(), leafNames(*leaves)))
			default:
				c.ok("C07.hooks", key, w.FuncPos(jsonD), "same loader, hook not reached")
			}
		}
		// gob encode
		{
			ip := newInterp(w)
			forceTag(ip, gobETag, mkName(n))
			leaves := observeLeaves(w, ip, gobE, tagFn(gobETag))
			ip.Call(gobE, []AV{regAV[n]}, nil, Store{}, nil)
			judgeLeaf(w, c, "gob-encode", n, k, leaves, ip, gobE)
		}
		// gob decode
		{
			ip := newInterp(w)
			forceTag(ip, gobDTag, mkName(n))
			for _, tc := range typerCallsD {
				ip.overrides[tc] = AV{K: kTuple, Tup: []AV{regAV[n], {K: kIface, Nil: nilYes}}}
			}
			leaves := observeLeaves(w, ip, gobD, tagFn(gobDTag))
			ip.Call(gobD, []AV{topOfType(gobD.Params[0].Type())}, nil, Store{}, nil)
			judgeLeaf(w, c, "gob-decode", n, k, leaves, ip, gobD)
		}
	}
	if len(typerCallsD) == 0 {
		c.bad("C07.table", "gob-decode:typer", w.FuncPos(gobD), "gobDecodeItem no longer obtains its value from ItemTyperFunc (cannot tie the decoded type to the registry)")
	}

	// unknown names with hooks unset: (nil, error) or nil — never a value
	for _, unk := range []string{"Unknown-Type-Name", "object", "NOTE"} {
		if v.all[unk] {
			continue
		}
		ip := newInterp(w)
		forceTag(ip, jsonTag, mkName(unk))
		leaves := observeLeaves(w, ip, jsonD, tagFn(jsonTag))
		res, _, returned := ip.Call(jsonD, []AV{avNonNilPtr(valT)}, nil, Store{}, nil)
		key := fmt.Sprintf("unknown-name:%q", unk)
		switch {
		case len(*leaves) > 0:
			c.bad("C07.hooks", key, w.FuncPos(jsonD), fmt.Sprintf("a name outside the vocabulary is decoded by a vocabulary loader: %v", leafNames(*leaves)))
		case !returned || res.K != kTuple || len(res.Tup) != 2 || !res.Tup[0].nilIface():
			c.bad("C07.hooks", key, w.FuncPos(jsonD), fmt.Sprintf("with hooks unset, JSONLoadItem on an unknown type name evaluates to %s, not (nil, …)", res))
		default:
			c.ok("C07.hooks", key, w.FuncPos(jsonD), "yields no value: "+res.String())
		}
	}
	c.floor("C07.hooks", 2)

	// ---- C07.family ----
	checkFamilies(w, c, v, names, regType, regAV)
	checkViewForms(w, c)
}

// checkViewForms (C07.forms): the typed-view helpers (func(Item) (*T, error) for a vocabulary struct T) accept a vocabulary struct in its value form exactly when they accept it in its pointer form. The encoders
// pass values (receivers are value receivers), the decoders and the registry pass pointers: a helper that lost one form
// of one type refuses that type on one side of a codec only — the gob encoder then writes a page without id, type or
// items while JSON and decoding still work.
func checkViewForms(w *World, c *Check) {
	item := w.itemIface()
	n := 0
	for _, f := range w.Funcs {
		if f.Parent() != nil || f.Signature.Recv() != nil || len(f.Params) != 1 || f.Signature.Results().Len() != 2 || f.Synthetic != "" || f.TypeParams().Len() > 0 {
			continue
		}
		if pi, ok := types.Unalias(f.Params[0].Type()).Underlying().(*types.Interface); !ok || item == nil || !types.Identical(pi, item) && !types.Implements(f.Params[0].Type(), item) {
			continue
		}
		rp, ok := types.Unalias(f.Signature.Results().At(0).Type()).(*types.Pointer)
		if !ok || !isErrorType(f.Signature.Results().At(1).Type()) {
			continue
		}
		rn := namedOf(rp.Elem())
		if rn == nil || rn.Obj().Pkg() != w.Types {
			continue
		}
		if _, isStruct := rn.Underlying().(*types.Struct); !isStruct {
			continue // list views (ToItemCollection, ToIRIs) hand out a pointer into the value and cannot serve copies
		}
		listed := map[string]types.Type{}
		// the helper itself and the package helpers it hands its operand to (copyToCollection(it) for the value forms)
		units := []*ssa.Function{f}
		for _, call := range callsIn(f) {
			h := call.Common().StaticCallee()
			if h == nil || !w.InPkg(h) || h.Blocks == nil || h == f || h.TypeParams().Len() > 0 || len(h.TypeArgs()) > 0 {
				continue
			}
			for _, a := range call.Common().Args {
				if a == ssa.Value(f.Params[0]) {
					units = append(units, h)
				}
			}
		}
		for _, u := range units {
			for _, b := range u.Blocks {
				for _, in := range b.Instrs {
					if ta, ok := in.(*ssa.TypeAssert); ok {
						if u != f {
							if _, onParam := ta.X.(*ssa.Parameter); !onParam {
								continue
							}
						}
						listed[types.TypeString(ta.AssertedType, func(p *types.Package) string { return "" })] = ta.AssertedType
					}
				}
			}
		}
		if len(listed) < 2 {
			continue
		}
		var miss []string
		for name, t := range listed {
			if p, isPtr := types.Unalias(t).(*types.Pointer); isPtr {
				if _, isStruct := p.Elem().Underlying().(*types.Struct); isStruct && listed[name[1:]] == nil {
					miss = append(miss, name[1:])
				}
			} else if _, isStruct := t.Underlying().(*types.Struct); isStruct && listed["*"+name] == nil {
				miss = append(miss, "*"+name)
			}
		}
		sort.Strings(miss)
		n++
		if len(miss) > 0 {
			c.bad("C07.forms", funcName(f), w.FuncPos(f), fmt.Sprintf("%s accepts one form of %v but not the other: encoders hand values, decoders and the registry hand pointers, so the type is refused on one side of a codec only (its properties are then silently not written or not read)", funcName(f), miss))
		} else {
			c.ok("C07.forms", funcName(f), w.FuncPos(f), fmt.Sprintf("%d types accepted, value and pointer forms together", len(listed)))
		}
	}
	c.stat("typed_view_helpers", n)
	c.floor("C07.forms", 10)
}

func registryResult(res AV) (*types.Named, AV) {
	if res.K != kTuple || len(res.Tup) != 2 {
		return nil, avTop
	}
	it := res.Tup[0]
	if it.K != kIface || it.Nil != nilNo || it.Dyn == nil || it.Dyn.T == nil {
		return nil, avTop
	}
	p, ok := types.Unalias(it.Dyn.T).(*types.Pointer)
	if !ok {
		return nil, avTop
	}
	n, ok := types.Unalias(p.Elem()).(*types.Named)
	if !ok {
		return nil, avTop
	}
	if e := res.Tup[1]; !e.nilIface() {
		return nil, avTop
	}
	// the registry always hands out a fresh, non-nil value
	return n, avIface(it.Dyn.T, avNonNilPtr(it.Dyn.T))
}

// dispatchTag finds the SSA value that fn compares (==) against at least ten distinct string constants.
// dispatchTag: the value a dispatcher compares against >= 10 type-name constants; looked for in the dispatcher itself
// and, failing that, in the functions it calls directly (the switch moved into a helper), nearest first.
func dispatchTag(fn *ssa.Function) ssa.Value {
	if v := dispatchTagIn(fn); v != nil {
		return v
	}
	seen := map[*ssa.Function]bool{fn: true}
	level := []*ssa.Function{fn}
	for depth := 0; depth < 2; depth++ {
		var next []*ssa.Function
		for _, f := range level {
			for _, call := range callsIn(f) {
				g := call.Common().StaticCallee()
				if g == nil || seen[g] || g.Blocks == nil || g.Pkg != fn.Pkg {
					continue
				}
				seen[g] = true
				next = append(next, g)
			}
		}
		sort.Slice(next, func(i, j int) bool { return funcName(next[i]) < funcName(next[j]) })
		var found ssa.Value
		for _, g := range next {
			if v := dispatchTagIn(g); v != nil {
				if found != nil {
					return nil // ambiguous
				}
				found = v
			}
		}
		if found != nil {
			return found
		}
		level = next
	}
	return nil
}

func dispatchTagIn(fn *ssa.Function) ssa.Value {
	cnt := map[ssa.Value]map[string]bool{}
	for _, b := range fn.Blocks {
		for _, in := range b.Instrs {
			bo, ok := in.(*ssa.BinOp)
			if !ok || bo.Op != token.EQL {
				continue
			}
			var other ssa.Value
			var s string
			if cs, ok := constString(bo.Y); ok {
				other, s = bo.X, cs
			} else if cs, ok := constString(bo.X); ok {
				other, s = bo.Y, cs
			} else {
				continue
			}
			if cnt[other] == nil {
				cnt[other] = map[string]bool{}
			}
			cnt[other][s] = true
		}
	}
	var best ssa.Value
	for v, m := range cnt {
		if len(m) >= 10 && (best == nil || len(m) > len(cnt[best])) {
			best = v
		}
	}
	return best
}

func callsThroughGlobal(w *World, global string) []*ssa.Call {
	var out []*ssa.Call
	for _, f := range w.Funcs {
		out = append(out, callsThroughGlobalIn(w, f, global)...)
	}
	return out
}

func callsThroughGlobalIn(w *World, f *ssa.Function, global string) []*ssa.Call {
	g := w.Global(global)
	if g == nil {
		return nil
	}
	var out []*ssa.Call
	for _, b := range f.Blocks {
		for _, in := range b.Instrs {
			call, ok := in.(*ssa.Call)
			if !ok || call.Common().IsInvoke() {
				continue
			}
			if ld, ok := call.Common().Value.(*ssa.UnOp); ok && ld.Op == token.MUL && ld.X == g {
				out = append(out, call)
			}
		}
	}
	return out
}

type leafCall struct {
	fn *ssa.Function
	k  *types.Named
}

// isWireLeaf: a codec leaf is a package function that is handed the wire form (fastjson value or the gob
// property map) together with a pointer to a vocabulary struct, or a GobEncode method of such a struct.
func wireLeafType(w *World, fn *ssa.Function) *types.Named {
	sig := fn.Signature
	if recv := sig.Recv(); recv != nil {
		if fn.Name() == "GobEncode" {
			if n := namedOf(recv.Type()); n != nil && isItemStruct(w, n) {
				return n
			}
		}
		return nil
	}
	wire := false
	var k *types.Named
	for i := 0; i < sig.Params().Len(); i++ {
		t := sig.Params().At(i).Type()
		ts := t.String()
		if strings.HasSuffix(ts, "fastjson.Value") || ts == "map[string][]byte" {
			wire = true
			continue
		}
		if p, ok := types.Unalias(t).(*types.Pointer); ok {
			if n, ok := types.Unalias(p.Elem()).(*types.Named); ok && isItemStruct(w, n) {
				k = n
			}
		}
	}
	if wire && k != nil {
		return k
	}
	return nil
}

func isItemStruct(w *World, n *types.Named) bool {
	for _, s := range w.itemStructs() {
		if s == n {
			return true
		}
	}
	return false
}

// observeLeaves installs observers: wire leaves called from the dispatcher or one of its closures are
// recorded and not descended into.
func observeLeaves(w *World, ip *Interp, d *ssa.Function, helpers ...*ssa.Function) *[]leafCall {
	var leaves []leafCall
	// the emptiness check applied to the finished value (IsNotEmpty hook, initially NotEmpty) plays no part in
	// choosing the codec and is not descended into
	var notEmpty *ssa.Function
	if g := w.Global("IsNotEmpty"); g != nil {
		if a, ok := ip.globals[g]; ok {
			notEmpty = a.Fn
		}
	}
	ip.stopAt = func(fn *ssa.Function) bool {
		return fn != d && (wireLeafType(w, fn) != nil || (notEmpty != nil && fn == notEmpty))
	}
	ip.onCall = func(ev callEvent) {
		if ev.Caller != d && ev.Caller.Parent() != d {
			// the switch may live in a helper the dispatcher calls (the function holding the dispatch tag)
			inHelper := false
			for _, h := range helpers {
				if h != nil && (ev.Caller == h || ev.Caller.Parent() == h) {
					inHelper = true
				}
			}
			if !inHelper {
				return
			}
		}
		if ev.Callee == d {
			return
		}
		if k := wireLeafType(w, ev.Callee); k != nil {
			leaves = append(leaves, leafCall{ev.Callee, k})
		}
	}
	return &leaves
}

func leafNames(ls []leafCall) []string {
	m := map[string]bool{}
	for _, l := range ls {
		m[funcName(l.fn)] = true
	}
	return sortedKeys(m)
}

func judgeLeaf(w *World, c *Check, disp, n string, k *types.Named, leaves *[]leafCall, ip *Interp, d *ssa.Function) {
	label := fmt.Sprintf("%s:%q", disp, n)
	if ip.aborted != "" {
		c.bad("C07.table", label, w.FuncPos(d), "undecided: "+ip.aborted)
		if ip.profile != nil {
			ip.dumpProfile()
		}
		return
	}
	ks := map[*types.Named]bool{}
	for _, l := range *leaves {
		ks[l.k] = true
	}
	switch {
	case len(ks) == 0:
		extra := ""
		if len(ip.faults) > 0 {
			extra = " (" + strings.Join(ip.faultStrings(), "; ") + ")"
		}
		c.bad("C07.table", label, w.FuncPos(d), fmt.Sprintf("no codec is reached for type name %q in %s: a value of this type is silently not encoded/decoded as *%s%s", n, funcName(d), k.Obj().Name(), extra))
	case len(ks) > 1:
		c.bad("C07.table", label, w.FuncPos(d), fmt.Sprintf("type name %q reaches several codecs %v", n, leafNames(*leaves)))
	default:
		for got := range ks {
			if got != k {
				c.bad("C07.table", label, w.FuncPos(d), fmt.Sprintf("type name %q is handled by %v (Go type %s) but the registry creates *%s", n, leafNames(*leaves), got.Obj().Name(), k.Obj().Name()))
			} else {
				c.ok("C07.table", label, w.FuncPos(d), fmt.Sprintf("%v on *%s", leafNames(*leaves), k.Obj().Name()))
			}
		}
	}
}

func checkFamilies(w *World, c *Check, v *vocab, names []string, regType map[string]*types.Named, regAV map[string]AV) {
	evalBool := func(fn *ssa.Function, args ...AV) (AV, *Interp) {
		ip := newInterp(w)
		res, _, _ := ip.Call(fn, args, nil, Store{}, nil)
		return res, ip
	}
	// NotEmpty and the kind-level tests it delegates to: package functions func(*T) bool on a vocabulary struct that are
	// called from the closures NotEmpty hands to the typed-view helpers
	notEmptyFn := w.Func("NotEmpty")
	kindTests := map[*ssa.Function]bool{}
	if notEmptyFn != nil {
		kindTests = notEmptyKindTests(w, notEmptyFn)
	}
	isObjectFn, isLinkFn := w.Func("IsObject"), w.Func("IsLink")
	if isObjectFn == nil || isLinkFn == nil {
		c.bad("C07.family", "anchor:IsObject/IsLink", "-", "package predicates IsObject/IsLink not found")
		return
	}
	acceptors := func(n string, k *types.Named) []string {
		acc := []string{"To" + k.Obj().Name()}
		switch fam := v.family[n]; {
		case fam == "LinkTypes":
			acc = append(acc, "ToLink")
		case fam == "ActorTypes":
			acc = append(acc, "ToActor", "ToObject")
		case fam == "ActivityTypes":
			acc = append(acc, "ToActivity", "ToIntransitiveActivity", "ToObject")
		case fam == "IntransitiveActivityTypes":
			acc = append(acc, "ToIntransitiveActivity", "ToObject")
		case fam == "CollectionTypes":
			acc = append(acc, "ToCollection", "ToObject")
			if strings.HasSuffix(n, "Page") {
				acc = append(acc, "ToCollectionPage")
			}
			if strings.HasPrefix(n, "Ordered") {
				acc = append(acc, "ToOrderedCollection")
			}
		case fam == "ObjectTypes":
			acc = append(acc, "ToObject")
		default: // generic / empty: only the type's own helper
		}
		sort.Strings(acc)
		return acc
	}
	for _, n := range names {
		k := regType[n]
		if k == nil {
			continue
		}
		item := regAV[n]
		fam := v.family[n]
		isLinkFam := fam == "LinkTypes" || (fam == "" && k.Obj().Name() == "Link")
		// package predicates
		ro, _ := evalBool(isObjectFn, item)
		rl, _ := evalBool(isLinkFn, item)
		bo, oko := ro.isConstBool()
		bl, okl := rl.isConstBool()
		label := fmt.Sprintf("predicates:%q", n)
		switch {
		case !oko || !okl:
			c.bad("C07.family", label, w.FuncPos(isObjectFn), fmt.Sprintf("IsObject/IsLink on *%s evaluate to %s/%s (not decidable from the type)", k.Obj().Name(), ro, rl))
		case bo == isLinkFam || bl != isLinkFam:
			c.bad("C07.family", label, w.FuncPos(isObjectFn), fmt.Sprintf("name %q is placed in %s but IsObject(*%s)=%v, IsLink(*%s)=%v", n, famName(fam), k.Obj().Name(), bo, k.Obj().Name(), bl))
		default:
			c.ok("C07.family", label, w.FuncPos(isObjectFn), fmt.Sprintf("IsObject=%v IsLink=%v for *%s (%s)", bo, bl, k.Obj().Name(), famName(fam)))
		}
		// the type's own constant answers
		wantColl := fam == "CollectionTypes"
		for _, mn := range []string{"IsObject", "IsLink", "IsCollection"} {
			m := w.Method(k.Obj().Name(), mn)
			if m == nil {
				c.bad("C07.family", fmt.Sprintf("method:%s.%s", k.Obj().Name(), mn), "-", "method missing")
				continue
			}
			recv := item.Dyn
			var arg AV
			if _, isPtr := m.Signature.Recv().Type().(*types.Pointer); isPtr {
				arg = *recv
			} else {
				arg = avTop
			}
			r, _ := evalBool(m, arg)
			b, isConst := r.isConstBool()
			if !isConst {
				continue // depends on the value's own type field (Link): not a constant answer
			}
			want := map[string]bool{"IsObject": !isLinkFam, "IsLink": isLinkFam, "IsCollection": wantColl}[mn]
			key := fmt.Sprintf("method:%s.%s:%q", k.Obj().Name(), mn, n)
			if b != want {
				c.bad("C07.family", key, w.FuncPos(m), fmt.Sprintf("%s.%s() is constantly %v but name %q is placed in %s", k.Obj().Name(), mn, b, n, famName(fam)))
			} else {
				c.ok("C07.family", key, w.FuncPos(m), fmt.Sprintf("constant %v", b))
			}
		}
		// the emptiness filter of the item loader: JSONLoadItem drops what NotEmpty refuses. Whatever a value's own
		// kind-level test (the package predicates NotEmpty hands its typed view to) says is final: with those forced to
		// true, NotEmpty of the registry's value for this name — whose GetType() is the name — must be true. A branch
		// that judges one Go family by something else ("a collection is non-empty when it has members") makes the loader
		// discard every document of that family that the test would have kept: a page or collection without inline items
		// decodes to nothing although it carries id, type, totalItems, first …
		if notEmptyFn != nil {
			ip := newInterp(w)
			forced := 0
			ip.postCall = func(callee *ssa.Function, args []AV, res AV) AV {
				if callee.Name() == "GetType" && len(args) == 1 {
					return AV{K: kConst, C: constant.MakeString(n), T: w.Named("ActivityVocabularyType")}
				}
				if kindTests[callee] {
					forced++
					return avBool(true)
				}
				// a Link answers IsLink from its Type field; for a name of the link family that is true
				if callee.Name() == "IsLink" && isLinkFam && callee.Signature.Recv() != nil {
					return avBool(true)
				}
				return res
			}
			res, _, _ := ip.Call(notEmptyFn, []AV{item}, nil, Store{}, nil)
			key := fmt.Sprintf("not-empty:%q", n)
			b, isConst := res.isConstBool()
			switch {
			case ip.aborted != "":
				c.bad("C07.family", key, w.FuncPos(notEmptyFn), "undecided: "+ip.aborted)
			case isConst && b && forced > 0:
				c.ok("C07.family", key, w.FuncPos(notEmptyFn), "decided by the value's own kind-level test")
			default:
				c.bad("C07.family", key, w.FuncPos(notEmptyFn), fmt.Sprintf("NotEmpty(*%s) for name %q evaluates to %s although the kind-level emptiness test of the value says non-empty (%d such tests reached): the item loader drops documents of this type on the word of another criterion (e.g. a collection without inline members) — they decode to nothing, at top level and in every item position", k.Obj().Name(), n, res, forced))
			}
		}
		// acceptors
		for _, an := range acceptors(n, k) {
			fn := w.Func(an)
			key := fmt.Sprintf("accepts:%s:%q", an, n)
			if fn == nil {
				c.bad("C07.family", key, "-", "helper "+an+" not found")
				continue
			}
			res, ip := evalBool(fn, item)
			okAcc := res.K == kTuple && len(res.Tup) == 2 && res.Tup[1].nilIface() && res.Tup[0].K == kPtr && res.Tup[0].Nil == nilNo && len(ip.faults) == 0
			if okAcc {
				c.ok("C07.family", key, w.FuncPos(fn), fmt.Sprintf("%s(*%s) = %s", an, k.Obj().Name(), res))
			} else {
				c.bad("C07.family", key, w.FuncPos(fn), fmt.Sprintf("%s does not accept the registry's *%s for name %q: evaluates to %s %v", an, k.Obj().Name(), n, res, ip.faultStrings()))
			}
		}
	}
}

func famName(f string) string {
	if f == "" {
		return "no family list (generic/empty name)"
	}
	return f
}

// tagFn: the function in which the dispatch tag is computed.
func tagFn(tag ssa.Value) *ssa.Function {
	if in, ok := tag.(ssa.Instruction); ok {
		return in.Parent()
	}
	if p, ok := tag.(*ssa.Parameter); ok {
		return p.Parent()
	}
	return nil
}

// forceTag fixes the dispatch tag to a name. When the tag is a parameter of a helper the dispatcher hands the work to
// (jsonLoadItemOfType(typ, val, i)), the value the dispatcher passes for it is fixed as well: it is the same name that
// the dispatcher gives to the type registry.
func forceTag(ip *Interp, tag ssa.Value, name AV) {
	ip.overrides[tag] = name
	p, ok := tag.(*ssa.Parameter)
	if !ok {
		return
	}
	h := p.Parent()
	idx := -1
	for i, q := range h.Params {
		if q == p {
			idx = i
		}
	}
	if idx < 0 {
		return
	}
	for _, f := range ip.w.Funcs {
		for _, call := range callsIn(f) {
			if call.Common().StaticCallee() != h || idx >= len(call.Common().Args) {
				continue
			}
			if a := call.Common().Args[idx]; a != nil {
				if _, isConst := a.(*ssa.Const); !isConst {
					ip.overrides[a] = name
				}
			}
		}
	}
}
