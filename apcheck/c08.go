package main

import (
	"fmt"
	"go/token"
	"go/types"
	"strings"

	"golang.org/x/tools/go/ssa"
)

func init() { register("C08", checkC08) }

var gcArches = []string{"amd64", "386", "arm", "arm64", "mips", "mipsle", "mips64", "mips64le", "ppc64", "ppc64le", "riscv64", "s390x", "wasm", "loong64"}

// renamable field/term pairs the property statement allows across a view ("the members of an ordered
// collection appear as the items of its unordered view and vice versa").
var c08Renames = map[[2]string]bool{
	{"Items", "OrderedItems"}: true, {"OrderedItems", "Items"}: true,
	{"items", "orderedItems"}: true, {"orderedItems", "items"}: true,
}

type castSite struct {
	fn       *ssa.Function
	instr    *ssa.Convert
	src, dst types.Type // pointee types
	valForm  bool       // the source pointer is the address of a local copy (value form of the type switch)
}

func findCastSites(w *World, c *Check) []castSite {
	var sites []castSite
	for _, f := range w.Funcs {
		for _, b := range f.Blocks {
			for _, in := range b.Instrs {
				switch v := in.(type) {
				case *ssa.Convert:
					rt := types.Unalias(v.Type())
					xt := types.Unalias(v.X.Type())
					rPtr, rIsPtr := rt.Underlying().(*types.Pointer)
					rUnsafe := isUnsafePointer(rt)
					xUnsafe := isUnsafePointer(xt)
					switch {
					case xUnsafe && rIsPtr && !rUnsafe:
						// an uninstantiated generic body is judged through its instantiations (the source type is a type parameter)
						if f.TypeParams().Len() > 0 && len(f.TypeArgs()) == 0 {
							continue
						}
						srcs, why := unsafeSources(w, v.X, 0, map[ssa.Value]bool{})
						if why != "" || len(srcs) == 0 {
							if why == "" {
								why = "no typed pointer found"
							}
							c.bad("C08.only", funcName(f)+":opaque-unsafe-source", w.InstrPos(v),
								fmt.Sprintf("conversion to %s from an unsafe.Pointer whose origin cannot be traced to typed pointers (%s): undecidable reinterpretation", typeName(rt), why))
							continue
						}
						for _, src := range srcs {
							sp, ok := types.Unalias(src.Type()).Underlying().(*types.Pointer)
							if !ok {
								c.bad("C08.only", funcName(f)+":non-pointer-unsafe-source", w.InstrPos(v),
									fmt.Sprintf("unsafe.Pointer built from %s, not from a typed pointer", typeName(src.Type())))
								continue
							}
							_, isAlloc := src.(*ssa.Alloc)
							sites = append(sites, castSite{fn: f, instr: v, src: sp.Elem(), dst: rPtr.Elem(), valForm: isAlloc})
						}
					case xUnsafe && !rUnsafe:
						c.bad("C08.only", funcName(f)+":unsafe-to-"+typeName(rt), w.InstrPos(v), "unsafe.Pointer converted to a non-pointer type (uintptr arithmetic is outside the property's allowed mechanism)")
					case rUnsafe && !xUnsafe:
						if _, isPtr := xt.Underlying().(*types.Pointer); !isPtr {
							c.bad("C08.only", funcName(f)+":"+typeName(xt)+"-to-unsafe", w.InstrPos(v), "unsafe.Pointer built from a non-pointer value")
						}
					}
				case ssa.CallInstruction:
					if bi, ok := v.Common().Value.(*ssa.Builtin); ok {
						switch bi.Name() {
						case "Add", "Slice", "SliceData", "String", "StringData":
							// unsafe builtins share names with nothing else in the universe except via package unsafe
							if bi.Object() != nil && bi.Object().Pkg() != nil && bi.Object().Pkg().Path() == "unsafe" {
								c.bad("C08.only", funcName(f)+":unsafe."+bi.Name(), w.InstrPos(in), "use of unsafe."+bi.Name())
							}
						}
					}
				}
			}
		}
	}
	return sites
}

func isUnsafePointer(t types.Type) bool {
	b, ok := types.Unalias(t).Underlying().(*types.Basic)
	return ok && b.Kind() == types.UnsafePointer
}

func checkC08(w *World, c *Check, tier string) {
	c.Level = "other"
	c.Exhaustive = true
	c.Explanation = "Decides, for every pointer reinterpretation through unsafe.Pointer in the package (found on the SSA form, by type), that the destination struct is no larger than the source and is a field-by-field layout prefix of it (offset, type, jsonld term, name — Items/OrderedItems being the one renaming the statement allows) on every gc architecture, and that package unsafe is used for nothing else. This is the whole static obligation of the property: a narrowing prefix-compatible pointer conversion aliases the original (writes visible), reads shared fields identically and cannot reach outside the value. Not decided: behaviour of the reflect.ConvertibleTo fallback beyond its use of identical underlying types. (on) an On* helper reports success only after it has handed the operand to its callback, or for a nil operand."
	c.RuleText = "one obligation per cast site per rule (narrow, prefix) evaluated on all gc architectures; exhaustive over sites"
	c.Trusted = []string{"go/types type checker and types.SizesFor(gc, arch)", "go/ssa builder (x/tools v0.29.0)", "apcheck c08.go"}
	checkReflectFallback(w, c)
	checkViewAliases(w, c)
	checkViewsOfCopies(w, c)
	sites := findCastSites(w, c)
	c.stat("cast_sites", len(sites))
	c.stat("architectures", len(gcArches))
	c.floor("C08.narrow", 10)
	c.floor("C08.assert", 20)
	c.floor("C08.root", 60)
	checkViewRoots(w, c)
	checkOnHelpersReport(w, c)
	checkAssertionsTested(w, c, "C08.assert", w.Funcs)
	c.floor("C08.prefix", 10)
	seen := map[string]int{}
	for _, s := range sites {
		form := "ptr"
		srcName := "*" + typeName(s.src)
		if s.valForm {
			form = "val"
			srcName = typeName(s.src)
		}
		_ = form
		construct := fmt.Sprintf("%s:%s→*%s", funcName(s.fn), srcName, typeName(s.dst))
		seen[construct]++
		if seen[construct] > 1 {
			construct = fmt.Sprintf("%s#%d", construct, seen[construct])
		}
		pos := w.InstrPos(s.instr)
		sst, ok1 := types.Unalias(s.src).Underlying().(*types.Struct)
		dst, ok2 := types.Unalias(s.dst).Underlying().(*types.Struct)
		if !ok1 || !ok2 {
			c.bad("C08.narrow", construct, pos, "reinterpretation between non-struct types")
			continue
		}
		var narrowFail, prefixFail []string
		for _, arch := range gcArches {
			sz := types.SizesFor("gc", arch)
			if sz == nil {
				c.bad("C08.narrow", construct, pos, "no size model for "+arch)
				continue
			}
			ss, ds := sz.Sizeof(s.src), sz.Sizeof(s.dst)
			if ds > ss {
				narrowFail = append(narrowFail, fmt.Sprintf("%s: %d > %d bytes", arch, ds, ss))
			}
			if msg := prefixCompat(sz, sst, dst); msg != "" {
				prefixFail = append(prefixFail, arch+": "+msg)
			}
		}
		if len(narrowFail) > 0 {
			c.bad("C08.narrow", construct, pos, fmt.Sprintf("widening reinterpretation: the view *%s is larger than the viewed %s, so it exposes memory outside the value (%s)", typeName(s.dst), typeName(s.src), strings.Join(narrowFail[:min(3, len(narrowFail))], "; ")))
		} else {
			c.ok("C08.narrow", construct, pos, fmt.Sprintf("sizeof(%s) <= sizeof(%s) on %d architectures", typeName(s.dst), typeName(s.src), len(gcArches)))
		}
		if len(prefixFail) > 0 {
			c.bad("C08.prefix", construct, pos, "view is not a layout prefix of the source: "+strings.Join(prefixFail[:min(2, len(prefixFail))], "; "))
		} else {
			n := dst.NumFields()
			if sst.NumFields() < n {
				n = sst.NumFields()
			}
			c.ok("C08.prefix", construct, pos, fmt.Sprintf("%d shared fields agree in offset, type, term and name", n))
		}
	}
}

// prefixCompat compares the first min(n) fields of src and dst. It returns "" when the common prefix is
// identical in offset, type, term and (up to the allowed renaming) name, and dst has no more fields than src
// shares — extra dst fields are reported by the narrow rule, here only the common part is compared.
func prefixCompat(sz types.Sizes, src, dst *types.Struct) string {
	n := dst.NumFields()
	if src.NumFields() < n {
		n = src.NumFields()
	}
	sf := make([]*types.Var, src.NumFields())
	for i := range sf {
		sf[i] = src.Field(i)
	}
	df := make([]*types.Var, dst.NumFields())
	for i := range df {
		df[i] = dst.Field(i)
	}
	so, do := sz.Offsetsof(sf), sz.Offsetsof(df)
	for i := 0; i < n; i++ {
		a, b := src.Field(i), dst.Field(i)
		if so[i] != do[i] {
			return fmt.Sprintf("field #%d %s/%s at offsets %d/%d", i, a.Name(), b.Name(), so[i], do[i])
		}
		if !types.Identical(a.Type(), b.Type()) && !types.Identical(a.Type().Underlying(), b.Type().Underlying()) {
			return fmt.Sprintf("field #%d %s has type %s in the source but %s is %s in the view", i, a.Name(), typeName(a.Type()), b.Name(), typeName(b.Type()))
		}
		// an interface value carries a method table that is specific to the (interface type, dynamic type) pair: a value
		// stored through a view whose field has another named interface type — even one with the same method set — is
		// read back with a foreign table, and type assertions / == on the field then deny the dynamic type it has
		if _, isIface := types.Unalias(a.Type()).Underlying().(*types.Interface); isIface && !types.Identical(a.Type(), b.Type()) {
			return fmt.Sprintf("field #%d %s is the interface type %s in the source but %s in the view: a value written through one and read through the other keeps the other interface's method table, so `x.%s.(T)` and `x.%s == v` fail although the dynamic type is T (not field-faithful)", i, a.Name(), typeName(a.Type()), typeName(b.Type()), a.Name(), a.Name())
		}
		if a.Name() != b.Name() && !c08Renames[[2]string{a.Name(), b.Name()}] {
			return fmt.Sprintf("field #%d is %s in the source but %s in the view (same offset, different property)", i, a.Name(), b.Name())
		}
		ta, _, _, _ := parseTag(src.Tag(i))
		tb, _, _, _ := parseTag(dst.Tag(i))
		if ta != tb && !c08Renames[[2]string{ta, tb}] {
			return fmt.Sprintf("field #%d %s carries term %q in the source but %q in the view", i, a.Name(), ta, tb)
		}
	}
	return ""
}

// checkReflectFallback (C08.reflect): the reflection fallback of the To* helpers (types declared outside the package
// with a vocabulary struct as underlying type) must convert the POINTER it was given — reflect.Value.Convert to *T and
// a type assertion to *T — so that the view aliases the original. Dereferencing first and returning the address of
// the converted copy reads the same but loses every write made through the view.
func checkReflectFallback(w *World, c *Check) {
	n := 0
	for _, f := range w.Funcs {
		o := f
		if f.Origin() != nil {
			o = f.Origin()
		}
		if o.Name() != "reflectItemToType" || f.Blocks == nil {
			continue
		}
		n++
		bad := ""
		for _, rb := range returnBlocks(f) {
			ret := rb.Instrs[len(rb.Instrs)-1].(*ssa.Return)
			if len(ret.Results) != 2 || isNilConst(ret.Results[0]) {
				continue
			}
			v := ret.Results[0]
			if _, isAlloc := v.(*ssa.Alloc); isAlloc {
				bad = fmt.Sprintf("returns the address of a local copy (at %s): the view no longer aliases the value it was made from, writes through it are lost", w.InstrPos(ret))
				continue
			}
			ex, ok := v.(*ssa.Extract)
			if !ok {
				bad = fmt.Sprintf("returns %s (at %s), not the pointer obtained by converting the given pointer", shortVal(v), w.InstrPos(ret))
				continue
			}
			ta, ok := ex.Tuple.(*ssa.TypeAssert)
			if !ok {
				bad = "the returned pointer is not the result of a type assertion on the converted value"
				continue
			}
			if _, isPtr := types.Unalias(ta.AssertedType).Underlying().(*types.Pointer); !isPtr {
				bad = "the converted value is asserted to a non-pointer type: a copy is made"
			}
		}
		for _, call := range callsIn(f) {
			if cal := call.Common().StaticCallee(); cal != nil && cal.Object() != nil && cal.Object().Pkg() != nil && cal.Object().Pkg().Path() == "reflect" {
				if cal.Name() == "Indirect" || cal.Name() == "Elem" {
					bad = fmt.Sprintf("dereferences the given value with reflect.%s before converting (at %s): the conversion then yields a copy of the struct, not a view of it", cal.Name(), w.InstrPos(call))
				}
			}
		}
		key := funcName(f)
		if bad != "" {
			c.bad("C08.reflect", key, w.FuncPos(f), "the reflection fallback "+bad)
		} else {
			c.ok("C08.reflect", key, w.FuncPos(f), "converts and returns the pointer it was given")
		}
	}
	if n == 0 {
		c.ok("C08.reflect", "none", "-", "no reflection fallback in the package")
	}
}

// unsafeSources traces an unsafe.Pointer value back to the typed pointers it was made from: directly, through a phi or a
// single-assignment local, or — for an unexported helper that takes the unsafe.Pointer as a parameter — through every
// call of that helper in the package.
func unsafeSources(w *World, v ssa.Value, d int, seen map[ssa.Value]bool) ([]ssa.Value, string) {
	if d > 8 {
		return nil, "too deep"
	}
	if seen[v] {
		return nil, ""
	}
	seen[v] = true
	switch x := v.(type) {
	case *ssa.Convert:
		if isUnsafePointer(x.Type()) && !isUnsafePointer(x.X.Type()) {
			return []ssa.Value{x.X}, ""
		}
		return unsafeSources(w, x.X, d+1, seen)
	case *ssa.ChangeType:
		return unsafeSources(w, x.X, d+1, seen)
	case *ssa.Phi:
		var out []ssa.Value
		for _, e := range x.Edges {
			if k, ok := e.(*ssa.Const); ok && k.Value == nil {
				continue // the zero unsafe.Pointer of `var p unsafe.Pointer`
			}
			s, why := unsafeSources(w, e, d+1, seen)
			if why != "" {
				return nil, why
			}
			out = append(out, s...)
		}
		return out, ""
	case *ssa.UnOp:
		if al, ok := x.X.(*ssa.Alloc); ok {
			var out []ssa.Value
			for _, st := range storesTo(al) {
				s, why := unsafeSources(w, st.Val, d+1, seen)
				if why != "" {
					return nil, why
				}
				out = append(out, s...)
			}
			return out, ""
		}
		return nil, "loaded from memory"
	case *ssa.Parameter:
		fn := x.Parent()
		if fn == nil || (fn.Object() != nil && fn.Object().Exported() && fn.Parent() == nil) {
			return nil, "parameter of an exported function"
		}
		idx := -1
		for i, p := range fn.Params {
			if p == x {
				idx = i
			}
		}
		var out []ssa.Value
		ncalls := 0
		for _, g := range w.Funcs {
			for _, call := range callsIn(g) {
				cal := call.Common().StaticCallee()
				if cal == nil {
					continue
				}
				if cal != fn && cal.Origin() != fn && fn.Origin() != cal {
					continue
				}
				if idx >= len(call.Common().Args) {
					continue
				}
				ncalls++
				s, why := unsafeSources(w, call.Common().Args[idx], d+1, seen)
				if why != "" {
					return nil, why
				}
				out = append(out, s...)
			}
		}
		if ncalls == 0 {
			return nil, "helper is never called"
		}
		return out, ""
	}
	return nil, fmt.Sprintf("%T", v)
}

// checkViewAliases (C08.alias): in every typed-view helper (func(Item) (*T, error), T a vocabulary struct), the pointer
// returned for a POINTER case of the type switch is derived from that very pointer — reinterpreted, passed on as a
// pointer, or pointing at one of its fields — never from a dereferenced copy. "Writes through a pointer view reach the
// original" holds exactly then; a helper that takes the struct by value (fine for the value cases, which view a copy
// anyway) silently detaches the pointer case when it is reused for it.
func checkViewAliases(w *World, c *Check) {
	item := w.itemIface()
	n := 0
	for _, f := range w.Funcs {
		if f.Parent() != nil || f.Signature.Recv() != nil || len(f.Params) != 1 || f.Signature.Results().Len() != 2 || f.Synthetic != "" || f.TypeParams().Len() > 0 || f.Blocks == nil {
			continue
		}
		if _, ok := types.Unalias(f.Params[0].Type()).Underlying().(*types.Interface); !ok || item == nil || !types.Implements(f.Params[0].Type(), item) {
			continue
		}
		rp, ok := types.Unalias(f.Signature.Results().At(0).Type()).(*types.Pointer)
		if !ok || !isErrorType(f.Signature.Results().At(1).Type()) {
			continue
		}
		rn := namedOf(rp.Elem())
		if rn == nil || rn.Obj().Pkg() != w.Types {
			continue
		}
		// (also the list views — ToItemCollection hands out the address of the list field of a collection struct: an arm
		// that returns a detached list for some values, e.g. an empty page, loses every Append made through the view)
		// pointer cases: comma-ok assertions of the parameter to *S
		type pcase struct {
			ptr ssa.Value
			blk *ssa.BasicBlock // entered when the assertion holds
			typ types.Type
		}
		var cases []pcase
		for _, b := range f.Blocks {
			for _, in := range b.Instrs {
				ta, ok := in.(*ssa.TypeAssert)
				if !ok || !ta.CommaOk {
					continue
				}
				pt, isPtr := types.Unalias(ta.AssertedType).(*types.Pointer)
				if !isPtr {
					continue
				}
				if _, isStruct := pt.Elem().Underlying().(*types.Struct); !isStruct {
					continue
				}
				var ptr, okv ssa.Value
				for _, r := range *ta.Referrers() {
					if ex, isEx := r.(*ssa.Extract); isEx {
						if ex.Index == 0 {
							ptr = ex
						} else {
							okv = ex
						}
					}
				}
				if ptr == nil || okv == nil {
					continue
				}
				for _, r := range *okv.Referrers() {
					if iff, isIf := r.(*ssa.If); isIf && len(iff.Block().Succs[0].Preds) == 1 {
						cases = append(cases, pcase{ptr, iff.Block().Succs[0], ta.AssertedType})
					}
				}
			}
		}
		if len(cases) == 0 {
			continue
		}
		n++
		for _, pc := range cases {
			key := funcName(f) + ":" + typeName(pc.typ)
			bad := ""
			nret := 0
			for _, rb := range returnBlocks(f) {
				if rb != pc.blk && !pc.blk.Dominates(rb) {
					continue
				}
				ret := rb.Instrs[len(rb.Instrs)-1].(*ssa.Return)
				if len(ret.Results) != 2 || isNilConst(ret.Results[0]) {
					continue
				}
				nret++
				if why := notDerivedFromPointer(ret.Results[0], pc.ptr, 0, map[ssa.Value]bool{}); why != "" {
					bad = fmt.Sprintf("for a %s the helper returns a pointer that does not alias it (%s, at %s): reads through the view look right, but every write through it — the On* callbacks, property copy, Append — lands in a copy and is lost", typeName(pc.typ), why, w.InstrPos(ret))
				}
			}
			if bad != "" {
				c.bad("C08.alias", key, w.FuncPos(f), bad)
			} else {
				c.ok("C08.alias", key, w.FuncPos(f), fmt.Sprintf("%d return(s) alias the given pointer", nret))
			}
		}
	}
	c.stat("typed_view_helpers_with_pointer_cases", n)
	c.floor("C08.alias", 20)
}

// notDerivedFromPointer: "" when v is the pointer p itself, a reinterpretation of it, the address of one of its fields,
// or the result of a package function that returns a pointer derived from the parameter p is passed as; otherwise why not.
func notDerivedFromPointer(v, p ssa.Value, depth int, seen map[ssa.Value]bool) string {
	if v == p || isNilConst(v) {
		return ""
	}
	if depth > 10 || seen[v] {
		return "cannot trace the returned pointer back to the given one"
	}
	seen[v] = true
	switch x := v.(type) {
	case *ssa.Convert:
		return notDerivedFromPointer(x.X, p, depth+1, seen)
	case *ssa.ChangeType:
		return notDerivedFromPointer(x.X, p, depth+1, seen)
	case *ssa.FieldAddr:
		return notDerivedFromPointer(x.X, p, depth+1, seen)
	case *ssa.Phi:
		for _, e := range x.Edges {
			if why := notDerivedFromPointer(e, p, depth+1, seen); why != "" {
				return why
			}
		}
		return ""
	case *ssa.Extract:
		return notDerivedFromPointer(x.Tuple, p, depth+1, seen)
	case *ssa.Alloc:
		return "it is the address of a local copy"
	case *ssa.Call:
		g := x.Common().StaticCallee()
		if g == nil || g.Blocks == nil {
			return "it comes from a call that is not followed"
		}
		// which parameter receives the pointer (as a pointer)?
		idx := -1
		for i, a := range x.Common().Args {
			if notDerivedFromPointer(a, p, depth+1, map[ssa.Value]bool{}) == "" && !isNilConst(a) {
				if _, isPtr := types.Unalias(a.Type()).Underlying().(*types.Pointer); isPtr {
					idx = i
				} else if _, isIface := types.Unalias(a.Type()).Underlying().(*types.Interface); isIface {
					idx = i
				} else if bt, isBasic := types.Unalias(a.Type()).Underlying().(*types.Basic); isBasic && bt.Kind() == types.UnsafePointer {
					idx = i
				}
			}
		}
		if idx < 0 || idx >= len(g.Params) {
			return fmt.Sprintf("%s is handed a copy of the value, not the pointer", funcName(g))
		}
		for _, rb := range returnBlocks(g) {
			ret := rb.Instrs[len(rb.Instrs)-1].(*ssa.Return)
			if len(ret.Results) == 0 || isNilConst(ret.Results[0]) {
				continue
			}
			if why := notDerivedFromPointer(ret.Results[0], g.Params[idx], depth+1, seen); why != "" {
				return "through " + funcName(g) + ": " + why
			}
		}
		return ""
	case *ssa.MakeInterface:
		return notDerivedFromPointer(x.X, p, depth+1, seen)
	case *ssa.TypeAssert:
		return notDerivedFromPointer(x.X, p, depth+1, seen)
	case *ssa.UnOp:
		if x.Op == token.MUL {
			return "it is made from a dereferenced copy of the value"
		}
	}
	return "it is " + shortVal(v) + ", which is not derived from the given pointer"
}

// checkViewsOfCopies (C08.viewcopy): a callback that WRITES through the typed view it is handed (the decoders'
// `OnObject(x, func(o *Object) error { return unmapObjectProperties(mm, o) })`) must be given a view of the value
// itself. When the item handed to the On* helper is a struct VALUE obtained by dereferencing a pointer
// (`OnIntransitiveActivity(*q, …)`), the helper's value case views a private copy: every property the callback decodes
// is lost, silently. Read-only callbacks (the encoders, which hold values) are not concerned; which callbacks write is
// taken from the write-effect summaries of C12.
func checkViewsOfCopies(w *World, c *Check) {
	eff := computeEffects(w)
	n, nw := 0, 0
	perFn := map[string]int{}
	for _, f := range w.Funcs {
		for _, call := range callsIn(f) {
			h := call.Common().StaticCallee()
			if h == nil || !w.InPkg(h) || len(call.Common().Args) != 2 || h.Signature.Params().Len() != 2 {
				continue
			}
			cbT, ok := types.Unalias(h.Signature.Params().At(1).Type()).Underlying().(*types.Signature)
			if !ok || cbT.Params().Len() != 1 {
				continue
			}
			if _, isPtr := types.Unalias(cbT.Params().At(0).Type()).Underlying().(*types.Pointer); !isPtr {
				continue
			}
			if _, isIface := types.Unalias(h.Signature.Params().At(0).Type()).Underlying().(*types.Interface); !isIface {
				continue
			}
			n++
			// does the callback write through its parameter?
			var g *ssa.Function
			switch x := unwrap(call.Common().Args[1]).(type) {
			case *ssa.MakeClosure:
				g = x.Fn.(*ssa.Function)
			case *ssa.Function:
				g = x
			}
			if g == nil {
				continue
			}
			sum := eff.sum[g]
			if sum == nil || sum.writes&paramBit(0) == 0 {
				continue
			}
			nw++
			perFn[funcName(f)]++
			key := fmt.Sprintf("%s:%s#%d", funcName(f), h.Name(), perFn[funcName(f)])
			// the item: a struct value loaded through a pointer?
			mi, isMI := call.Common().Args[0].(*ssa.MakeInterface)
			copied := false
			if isMI {
				if _, isStruct := types.Unalias(mi.X.Type()).Underlying().(*types.Struct); isStruct {
					if ld, isLd := mi.X.(*ssa.UnOp); isLd && ld.Op == token.MUL {
						if _, fromPtr := types.Unalias(ld.X.Type()).Underlying().(*types.Pointer); fromPtr {
							if _, isAlloc := ld.X.(*ssa.Alloc); !isAlloc {
								copied = true
							} else if al := ld.X.(*ssa.Alloc); len(storesTo(al)) == 1 {
								// a spilled value parameter/receiver is the value itself; a local holding *p is a copy
								if inner, ok2 := storesTo(al)[0].Val.(*ssa.UnOp); ok2 && inner.Op == token.MUL {
									copied = true
								}
							}
						}
					}
				}
			}
			if copied {
				c.bad("C08.viewcopy", key, w.InstrPos(call), fmt.Sprintf("%s hands %s a struct value obtained by dereferencing a pointer, and the callback writes through the view it gets: the helper views a private copy, so everything the callback sets is lost (the pointer itself must be handed over)", funcName(f), h.Name()))
			} else {
				c.ok("C08.viewcopy", key, w.InstrPos(call), "the writing callback views the value itself")
			}
		}
	}
	c.stat("view_helper_calls", n)
	c.stat("view_helper_calls_with_writing_callback", nw)
	c.floor("C08.viewcopy", 30)
}

// checkViewRoots (C08.root): what a typed-view helper hands back is the operand itself — the asserted pointer, or the
// address of the helper's own copy of the asserted value — reinterpreted; directly, through a package helper that
// returns (a reinterpretation of) what it was given, or through another view helper. A freshly allocated value filled
// from the operand by some copy routine is not a view: it holds whatever that routine happens to copy (the merge
// helpers skip current, likes and shares), and both codecs write and read through these views.
func checkViewRoots(w *World, c *Check) {
	item := w.itemIface()
	pr := newProver(w)
	n := 0
	isViewHelper := func(f *ssa.Function) bool {
		if f == nil || f.Signature.Results().Len() != 2 || !isErrorType(f.Signature.Results().At(1).Type()) {
			return false
		}
		_, isPtr := types.Unalias(f.Signature.Results().At(0).Type()).(*types.Pointer)
		return isPtr && (strings.HasPrefix(f.Name(), "To") || strings.HasPrefix(f.Name(), "reflectItemToType"))
	}
	var rootOK func(v ssa.Value, d int) string
	rootOK = func(v ssa.Value, d int) string {
		if v == nil || d > 8 {
			return "a value that cannot be traced"
		}
		v = unwrap(v)
		switch x := v.(type) {
		case *ssa.Const:
			return ""
		case *ssa.Parameter, *ssa.FreeVar:
			return ""
		case *ssa.Extract:
			if _, isTA := x.Tuple.(*ssa.TypeAssert); isTA {
				return ""
			}
			return rootOK(x.Tuple, d+1)
		case *ssa.TypeAssert:
			return ""
		case *ssa.Phi:
			for _, e := range x.Edges {
				if why := rootOK(e, d+1); why != "" {
					return why
				}
			}
			return ""
		case *ssa.Alloc:
			// the helper's copy of the asserted value (or of its own parameter): something is stored into it as a whole
			for _, st := range storesTo(x) {
				switch unwrap(st.Val).(type) {
				case *ssa.Extract, *ssa.TypeAssert, *ssa.Parameter, *ssa.UnOp:
					return ""
				}
			}
			return "a freshly allocated " + typeName(derefType(x.Type())) + " that is not the operand"
		case *ssa.FieldAddr:
			return rootOK(x.X, d+1)
		case *ssa.IndexAddr:
			return rootOK(x.X, d+1)
		case *ssa.UnOp:
			return rootOK(x.X, d+1)
		case *ssa.MakeInterface:
			return rootOK(x.X, d+1)
		case *ssa.Call:
			cal := x.Common().StaticCallee()
			if cal == nil {
				return ""
			}
			if !w.InPkg(cal) {
				return "" // reflect conversions: judged by C08.reflect
			}
			if isViewHelper(cal) {
				return ""
			}
			sum := symReturns(pr, cal, 0, map[*ssa.Function]bool{})
			allParam := len(sum) > 0
			for _, sv := range sum {
				if sv.kind != "param" {
					allParam = false
				}
			}
			if allParam {
				for _, sv := range sum {
					if sv.param < len(x.Common().Args) {
						if why := rootOK(x.Common().Args[sv.param], d+1); why != "" {
							return why + " (handed to " + funcName(cal) + ")"
						}
					}
				}
				return ""
			}
			// a helper that hands back one of its parameters (a merge routine returning its target), or reinterprets the
			// address of its own parameter
			for _, rb := range returnBlocks(cal) {
				ret := rb.Instrs[len(rb.Instrs)-1].(*ssa.Return)
				if len(ret.Results) == 0 {
					continue
				}
				r0 := unwrap(ret.Results[0])
				if prm, isParam := r0.(*ssa.Parameter); isParam {
					for pi, q := range cal.Params {
						if q == prm && pi < len(x.Common().Args) {
							if why := rootOK(x.Common().Args[pi], d+1); why != "" {
								return why + " (handed to " + funcName(cal) + ", which fills it)"
							}
						}
					}
					continue
				}
				if why := rootOK(r0, d+1); why != "" {
					return why + " (in " + funcName(cal) + ")"
				}
			}
			return ""
		}
		return ""
	}
	for _, f := range w.Funcs {
		if f.Parent() != nil || f.Signature.Recv() != nil || len(f.Params) != 1 || f.Signature.Results().Len() != 2 || f.Synthetic != "" || f.TypeParams().Len() > 0 || f.Blocks == nil {
			continue
		}
		if _, ok := types.Unalias(f.Params[0].Type()).Underlying().(*types.Interface); !ok || item == nil || !types.Implements(f.Params[0].Type(), item) {
			continue
		}
		rp, ok := types.Unalias(f.Signature.Results().At(0).Type()).(*types.Pointer)
		if !ok || !isErrorType(f.Signature.Results().At(1).Type()) {
			continue
		}
		if rn := namedOf(rp.Elem()); rn == nil || rn.Obj().Pkg() != w.Types {
			continue
		}
		if _, isStruct := rp.Elem().Underlying().(*types.Struct); !isStruct {
			continue
		}
		k := 0
		for _, rb := range returnBlocks(f) {
			ret := rb.Instrs[len(rb.Instrs)-1].(*ssa.Return)
			if len(ret.Results) != 2 || isNilConst(ret.Results[0]) {
				continue
			}
			k++
			n++
			key := fmt.Sprintf("%s:return#%d", funcName(f), k)
			if why := rootOK(ret.Results[0], 0); why != "" {
				c.bad("C08.root", key, w.InstrPos(ret), fmt.Sprintf("%s hands back %s: not a view of the value it was given but a partial copy of it, so whatever the copy routine leaves out is missing for everything that reads or writes through the view (both codecs do)", funcName(f), why))
			} else {
				c.ok("C08.root", key, w.InstrPos(ret), "the operand itself, reinterpreted")
			}
		}
	}
	c.stat("view_returns", n)
}

// checkOnHelpersReport (C08.on): a typed-view helper On*(it, fn) reports success without an error only after it has
// handed the view to fn — or for a nil operand. A `return nil` taken for some non-nil operands ("the type name is not
// one of the actor types: nothing to do") silently skips fn: the gob encoder, which is written as such callbacks, then
// writes nothing for a generic Actor and reports no error.
func checkOnHelpersReport(w *World, c *Check) {
	item := w.itemIface()
	n := 0
	for _, f := range w.Funcs {
		if f.Parent() != nil || f.Signature.Recv() != nil || !strings.HasPrefix(f.Name(), "On") || len(f.Params) != 2 || f.Signature.Results().Len() != 1 || f.Blocks == nil || !w.InPkg(f) {
			continue
		}
		if !isErrorType(f.Signature.Results().At(0).Type()) || item == nil {
			continue
		}
		if _, isIface := types.Unalias(f.Params[0].Type()).Underlying().(*types.Interface); !isIface {
			continue
		}
		if _, isFn := types.Unalias(f.Params[1].Type()).Underlying().(*types.Signature); !isFn {
			continue
		}
		n++
		// blocks that call fn (directly or by handing it on to another package function)
		calls := map[*ssa.BasicBlock]bool{}
		for _, call := range callsIn(f) {
			if call.Common().Value == ssa.Value(f.Params[1]) {
				calls[call.Block()] = true
			}
			for _, a := range call.Common().Args {
				if unwrap(a) == ssa.Value(f.Params[1]) {
					calls[call.Block()] = true
				}
				if mc, isMC := unwrap(a).(*ssa.MakeClosure); isMC {
					for _, bnd := range mc.Bindings {
						if bnd == ssa.Value(f.Params[1]) {
							calls[call.Block()] = true
						}
						if al, isAl := bnd.(*ssa.Alloc); isAl {
							for _, st := range storesTo(al) {
								if st.Val == ssa.Value(f.Params[1]) {
									calls[call.Block()] = true
								}
							}
						}
					}
				}
			}
		}
		// a callback made for every member of a list inside a loop: leaving that loop (an empty list included) has
		// passed the callback for all there was
		lhOn := loopHeaders(f)
		for b := range calls {
			for h := range lhOn[b] {
				calls[h] = true
			}
		}
		var offending ssa.Instruction
		seenB := map[*ssa.BasicBlock]bool{}
		work := []*ssa.BasicBlock{f.Blocks[0]}
		for len(work) > 0 && offending == nil {
			b := work[len(work)-1]
			work = work[:len(work)-1]
			if seenB[b] || calls[b] {
				continue
			}
			seenB[b] = true
			last := b.Instrs[len(b.Instrs)-1]
			if ret, isRet := last.(*ssa.Return); isRet {
				if len(ret.Results) == 1 && isNilConst(ret.Results[0]) {
					offending = ret
				}
				continue
			}
			if iff, isIf := last.(*ssa.If); isIf {
				skip := -1
				for _, p := range f.Params {
					if side, ok := nilSideOf(iff.Cond, p); ok {
						skip = side
					}
				}
				if skip >= 0 {
					work = append(work, b.Succs[1-skip])
					continue
				}
			}
			work = append(work, b.Succs...)
		}
		if offending != nil {
			c.bad("C08.on", funcName(f), w.InstrPos(offending), fmt.Sprintf("%s can report success for a non-nil operand without having handed it to its callback: the callers (encoders and decoders written as such callbacks) then do nothing for that operand and report no error", funcName(f)))
		} else {
			c.ok("C08.on", funcName(f), w.FuncPos(f), "success is reported only after the callback, or for a nil operand")
		}
	}
	c.stat("on_helpers", n)
	c.floor("C08.on", 10)
}
