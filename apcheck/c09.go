package main

import (
	"fmt"
	"go/constant"
	"go/token"
	"go/types"
	"sort"
	"strings"

	"golang.org/x/tools/go/ssa"
)

func init() {
	register("C09", checkC09)
	register("C19", checkC19)
}

// comparedFields: fields f such that some comparison in fns has one operand derived (only) from a.f and the
// other (only) from b.f, for two different struct roots a and b.
func comparedFields(w *World, pr *prover, fns []*ssa.Function) map[string]string {
	out := map[string]string{}
	var note func(ops []ssa.Value, how string, pos ssa.Instruction)
	note = func(ops []ssa.Value, how string, pos ssa.Instruction) {
		if len(ops) < 2 {
			return
		}
		// the two operands are the two columns of a row of a local literal table of pairs, walked by a loop
		// (props := [...][2]Item{{o.A, w.A}, {o.B, w.B}}; for _, p := range props { ItemsEqual(p[0], p[1]) }): one
		// comparison per row
		if rows, ok := pairTableRows(ops[0], ops[1]); ok {
			for _, r := range rows {
				note([]ssa.Value{r[0], r[1]}, how+" (table row)", pos)
			}
			return
		}
		type side struct {
			root ssa.Value
			name string
			ok   bool
		}
		var sides []side
		for _, o := range ops[:2] {
			refs := pr.prov(o).list()
			s := side{ok: len(refs) > 0}
			for _, r := range refs {
				if len(r.Names) == 0 {
					s.ok = false
					break
				}
				if s.name == "" {
					s.name, s.root = r.Names[0], r.Root
				} else if s.name != r.Names[0] || s.root != r.Root {
					s.ok = false
				}
			}
			sides = append(sides, s)
		}
		if sides[0].ok && sides[1].ok && sides[0].name == sides[1].name && sides[0].root != sides[1].root {
			out[sides[0].name] = how
		}
	}
	for _, f := range fns {
		for _, b := range f.Blocks {
			for _, in := range b.Instrs {
				switch x := in.(type) {
				case *ssa.BinOp:
					if x.Op == token.EQL || x.Op == token.NEQ {
						note([]ssa.Value{x.X, x.Y}, x.Op.String(), in)
					}
				case *ssa.Call:
					args := allArgs(x)
					name := ""
					if cal := x.Common().StaticCallee(); cal != nil {
						name = cal.Name()
					} else if x.Common().IsInvoke() {
						name = x.Common().Method.Name()
					}
					switch name {
					case "ItemsEqual", "Equals", "Equal", "EqualFold":
						note(args, name, in)
					default:
						// a small package helper that compares its first two parameters (propertyDiffers(ours, theirs))
						if cal := x.Common().StaticCallee(); cal != nil && w.InPkg(cal) && comparesFirstTwoParams(cal) {
							note(args, name+"→compare", in)
						}
					}
				}
			}
		}
	}
	return out
}

func checkC09(w *World, c *Check, tier string) {
	c.Exhaustive = true
	c.Explanation = "Decides the structural clauses of item equality: (cover) in the closure of Object.Equals every property of the object core other than media type and source is compared between the two operands (the same field of both, meeting in one comparison), and likewise actor/target/result/origin/instrument in IntransitiveActivity.Equals and object in Activity.Equals; (idtype) by abstract interpretation, forcing the id equivalence test or the case-insensitive type test to 'different' makes Object.Equals constantly false, and forcing Object.Equals to false makes every other Equals of an object type constantly false; (dispatch) ItemsEqual on two non-nil values of the same concrete type is never the constant false for any vocabulary type (a constantly-false dispatch makes ItemsEqual(x, x) false for the whole type), and with nil-like operands it is the constant 'both nil'; (setloop) a list equality written as nested loops does not return false from inside the inner loop on a single element mismatch (which would demand all pairs equal, so a list with two different entries is unequal to itself). (pair) every comparison inside an Equals method relates the same property of both operands; (forms) type predicates list value and pointer forms together; (member) list equality looks members up by themselves. Termination of the operand swap is decided by C04.swap. NOT decided: reflexivity/symmetry as laws over all values beyond these structural conditions."
	c.RuleText = "obligations: 29 object-core fields + 6 activity fields (cover), id/type forcing x Equals methods (idtype), 14 concrete types (dispatch), loops (setloop)"
	c.Trusted = []string{"go/ssa", "apcheck prov.go, abstract interpreter"}
	c.floor("C09.cover", 30)
	c.floor("C09.dispatch", 14)
	c.floor("C09.idtype", 4)
	c.floor("C09.accessor", 42)
	c.floor("C09.exact", 3)
	checkExactTextEquality(w, c, "C09.exact")
	checkAccessors(w, c, "C09.accessor", []string{"GetType", "GetID", "GetLink"})
	pr := newProver(w)
	objEq := w.Method("Object", "Equals")
	itemsEqual := w.Func("ItemsEqual")
	if objEq == nil || itemsEqual == nil {
		c.bad("C09.cover", "anchor", "-", "Object.Equals / ItemsEqual not found")
		return
	}
	stopEq := func(f *ssa.Function) bool {
		return f == itemsEqual || (f.Name() == "Equals" && f != objEq && f.Signature.Recv() != nil)
	}
	// ---- cover ----
	obj := w.StructInfoOf("Object")
	cmp := comparedFields(w, pr, w.Reach([]*ssa.Function{objEq}, stopEq))
	for _, f := range obj.Fields {
		switch f.Name {
		case "ID", "Type", "MediaType", "Source":
			continue
		}
		if how, ok := cmp[f.Name]; ok {
			c.ok("C09.cover", "Object."+f.Name, w.FuncPos(objEq), "compared with "+how)
		} else {
			c.bad("C09.cover", "Object."+f.Name, w.FuncPos(objEq), fmt.Sprintf("Object.Equals never compares %s of the two operands: changing only %q leaves a copy equal to the original", f.Name, f.Term))
		}
	}
	for _, spec := range []struct {
		typ    string
		fields []string
	}{{"IntransitiveActivity", []string{"Actor", "Target", "Result", "Origin", "Instrument"}}, {"Activity", []string{"Object"}}} {
		m := w.Method(spec.typ, "Equals")
		if m == nil {
			c.bad("C09.cover", spec.typ+".Equals", "-", "method not found")
			continue
		}
		stop := func(f *ssa.Function) bool {
			return f == itemsEqual || (f.Name() == "Equals" && f != m && f.Signature.Recv() != nil)
		}
		cm := comparedFields(w, pr, w.Reach([]*ssa.Function{m}, stop))
		for _, fn := range spec.fields {
			if how, ok := cm[fn]; ok {
				c.ok("C09.cover", spec.typ+"."+fn, w.FuncPos(m), "compared with "+how)
			} else {
				c.bad("C09.cover", spec.typ+"."+fn, w.FuncPos(m), fmt.Sprintf("%s.Equals never compares %s of the two operands", spec.typ, fn))
			}
		}
	}

	c.floor("C09.complete", 5)
	checkEqualsComplete(w, c, pr)

	// ---- idtype ----
	objPtr := types.NewPointer(obj.Named)
	nonNilObj := avIface(objPtr, avNonNilPtr(objPtr))
	var idCalls, typeCalls []*ssa.Call
	for _, call := range callsIn(objEq) {
		cal := call.Common().StaticCallee()
		if cal == nil {
			continue
		}
		if cal.Name() == "Equals" && namedOf(cal.Signature.Recv().Type()) == w.Named("IRI") {
			if fp, ok := pr.fieldOf(call.Common().Args[0]); ok && len(fp.Names) == 1 && fp.Names[0] == "ID" {
				idCalls = append(idCalls, call)
			}
		}
		if cal.Name() == "EqualFold" {
			for _, a := range call.Common().Args {
				for _, r := range pr.prov(a).list() {
					if len(r.Names) == 1 && r.Names[0] == "Type" {
						typeCalls = append(typeCalls, call)
					}
				}
			}
		}
	}
	force := func(label string, calls []*ssa.Call) {
		if len(calls) == 0 {
			c.bad("C09.idtype", label, w.FuncPos(objEq), "Object.Equals no longer performs this test ("+label+")")
			return
		}
		ip := newInterp(w)
		for _, call := range calls {
			ip.overrides[call] = avBool(false)
		}
		res, _, _ := ip.Call(objEq, []AV{avTop, nonNilObj}, nil, Store{}, nil)
		if b, ok := res.isConstBool(); ok && !b {
			c.ok("C09.idtype", label, w.InstrPos(calls[0]), "a failing test makes Object.Equals constantly false")
		} else {
			c.bad("C09.idtype", label, w.InstrPos(calls[0]), fmt.Sprintf("with the %s test failing, Object.Equals still evaluates to %s: objects whose ids/types differ can compare equal", label, res))
		}
	}
	force("id-differs", idCalls)
	force("type-differs", typeCalls)
	// every other Equals of an object type is false when Object.Equals is false
	for _, s := range w.itemStructs() {
		name := s.Obj().Name()
		m := w.Method(name, "Equals")
		if m == nil || m == objEq {
			continue
		}
		pt := types.NewPointer(s)
		ip := newInterp(w)
		ip.postCall = func(callee *ssa.Function, args []AV, res AV) AV {
			if callee == objEq {
				return avBool(false)
			}
			return res
		}
		// comparisons of nested values are opaque here: only the propagation of the object-core verdict matters
		ip.stopAt = func(f *ssa.Function) bool {
			return f == objEq || f == itemsEqual || (f.Name() == "Equals" && f.Signature.Recv() != nil && !isItemStruct(w, namedOf(f.Signature.Recv().Type())))
		}
		res, _, _ := ip.Call(m, []AV{avTop, avIface(pt, avNonNilPtr(pt))}, nil, Store{}, nil)
		if b, ok := res.isConstBool(); ok && !b && ip.aborted == "" {
			c.ok("C09.idtype", name+".Equals⇒Object.Equals", w.FuncPos(m), "false whenever the object cores differ")
		} else {
			c.bad("C09.idtype", name+".Equals⇒Object.Equals", w.FuncPos(m), fmt.Sprintf("%s.Equals evaluates to %s although Object.Equals is false: ids/types/core properties may differ between equal %ss %s", name, res, name, ip.aborted))
		}
	}

	// ---- dispatch ----
	var kinds []struct {
		label string
		av    AV
	}
	// every dynamic type that can sit in an Item: pointers to and values of the vocabulary structs, IRI, the two list
	// types and their pointers
	for _, k := range w.nonNilItemKinds() {
		kinds = append(kinds, struct {
			label string
			av    AV
		}{k.label, k.av})
	}
	isListRecv := func(f *ssa.Function) bool {
		if f.Signature.Recv() == nil {
			return false
		}
		n := namedOf(f.Signature.Recv().Type())
		return n != nil && (n.Obj().Name() == "ItemCollection" || n.Obj().Name() == "IRIs")
	}
	for _, k := range kinds {
		ip := newInterp(w)
		// the type-specific comparisons themselves are opaque: the question is whether one is dispatched at all; the
		// list comparison is followed up to its per-member lookups (a type filter in front of them can make a list
		// unequal to itself)
		ip.stopAt = func(f *ssa.Function) bool {
			if f.Name() == "Contains" {
				return true
			}
			return f.Name() == "Equals" && f.Signature.Recv() != nil && !isListRecv(f)
		}
		res, _, _ := ip.Call(itemsEqual, []AV{k.av, k.av}, nil, Store{}, nil)
		b, isConst := res.isConstBool()
		switch {
		case ip.aborted != "":
			c.bad("C09.dispatch", k.label, w.FuncPos(itemsEqual), "undecided: "+ip.aborted)
		case len(ip.faults) > 0:
			c.bad("C09.dispatch", k.label, w.FuncPos(itemsEqual), "ItemsEqual faults on two non-nil "+k.label+": "+strings.Join(ip.faultStrings(), "; "))
		case isConst && !b:
			c.bad("C09.dispatch", k.label, w.FuncPos(itemsEqual), fmt.Sprintf("ItemsEqual is constantly false on two non-nil %s values: no comparison is dispatched for this type, so ItemsEqual(x, x) is false for every %s", k.label, k.label))
		default:
			c.ok("C09.dispatch", k.label, w.FuncPos(itemsEqual), "result "+res.String())
		}
	}

	// ---- nilptr: a nil pointer of ANY pointer type that can sit in an Item (not only the vocabulary structs of C20:
	// also *IRI, *IRIs, *ItemCollection) is compared without a fault, on either side ----
	{
		itemT := w.itemIface()
		var nilKinds []struct {
			label string
			av    AV
		}
		for _, name := range w.Types.Scope().Names() {
			tn, ok := w.Types.Scope().Lookup(name).(*types.TypeName)
			if !ok || tn.IsAlias() {
				continue
			}
			if _, isIface := tn.Type().Underlying().(*types.Interface); isIface {
				continue
			}
			pt := types.NewPointer(tn.Type())
			if itemT != nil && types.Implements(pt, itemT) {
				nilKinds = append(nilKinds, struct {
					label string
					av    AV
				}{"typed-nil(*" + name + ")", avIface(pt, avNilPtr(pt))})
			}
		}
		objPtr := types.NewPointer(w.Named("Object"))
		others := []struct {
			label string
			av    AV
		}{{"nil", AV{K: kIface, Nil: nilYes}}, {"object", avIface(objPtr, avNonNilPtr(objPtr))}}
		for _, nk := range nilKinds {
			bad := ""
			for _, o := range others {
				for _, order := range [][2]AV{{nk.av, o.av}, {o.av, nk.av}} {
					ip := newInterp(w)
					ip.stopAt = func(f *ssa.Function) bool { return f.Name() == "Equals" && f.Signature.Recv() != nil }
					ip.Call(itemsEqual, []AV{order[0], order[1]}, nil, Store{}, nil)
					if len(ip.faults) > 0 && bad == "" {
						bad = fmt.Sprintf("ItemsEqual with %s against %s can fault: %s", nk.label, o.label, strings.Join(ip.faultStrings(), "; "))
					}
					if ip.aborted != "" && bad == "" {
						bad = "undecided: " + ip.aborted
					}
				}
			}
			if bad != "" {
				c.bad("C09.nilptr", nk.label, w.FuncPos(itemsEqual), bad)
			} else {
				c.ok("C09.nilptr", nk.label, w.FuncPos(itemsEqual), "no fault against nil and against an object, in both orders")
			}
		}
	}

	// ---- nopanic: comparing two interface values with == panics at run time when their dynamic type is not
	// comparable; item lists (ItemCollection, IRIs) and the value forms of the vocabulary structs (which hold slices)
	// are such types, so no two item-like interface values may be compared with == / != anywhere in the package ----
	ncmp := 0
	for _, f := range w.Funcs {
		cnt := 0
		for _, b := range f.Blocks {
			for _, in := range b.Instrs {
				bo, ok := in.(*ssa.BinOp)
				if !ok || (bo.Op != token.EQL && bo.Op != token.NEQ) {
					continue
				}
				if w.itemLikeIface(bo.X.Type()) == nil || w.itemLikeIface(bo.Y.Type()) == nil {
					continue
				}
				if isNilConst(bo.X) || isNilConst(bo.Y) {
					continue
				}
				ncmp++
				cnt++
				c.bad("C09.nopanic", fmt.Sprintf("%s:iface-compare#%d", funcName(f), cnt), w.InstrPos(bo), fmt.Sprintf("%s compares two items with %s on the interface values: when both hold an item list or a value-form struct the comparison panics (uncomparable type), so equality/Contains on such values crashes", funcName(f), bo.Op))
			}
		}
	}
	c.ok("C09.nopanic", "scan", "-", fmt.Sprintf("%d interface-to-interface comparisons of items in the package", ncmp))

	// ---- dispatch by Go type: a transitive activity is compared as an activity whatever its type NAME says. The
	// generic name "Activity" (what {"type":"Activity"} decodes to) and the empty name are in none of the type tables, so
	// a dispatch on the name alone compares such values as plain objects: a copy with another actor or object stays equal ----
	if actEq := w.Method("Activity", "Equals"); actEq != nil {
		pa := types.NewPointer(w.Named("Activity"))
		for _, tv := range []string{"Create", "Activity", ""} {
			ip := newInterp(w)
			reached := false
			ip.onCall = func(ev callEvent) {
				if ev.Callee == actEq {
					reached = true
				}
			}
			ip.postCall = func(callee *ssa.Function, args []AV, res AV) AV {
				if callee.Name() == "GetType" && len(args) == 1 {
					return AV{K: kConst, C: constant.MakeString(tv), T: w.Named("ActivityVocabularyType")}
				}
				return res
			}
			ip.stopAt = func(f *ssa.Function) bool {
				return f.Name() == "Equals" && f.Signature.Recv() != nil
			}
			av := avIface(pa, avNonNilPtr(pa))
			ip.Call(itemsEqual, []AV{av, av}, nil, Store{}, nil)
			key := fmt.Sprintf("activity-by-go-type:%q", tv)
			switch {
			case ip.aborted != "":
				c.bad("C09.dispatch", key, w.FuncPos(itemsEqual), "undecided: "+ip.aborted)
			case !reached:
				c.bad("C09.dispatch", key, w.FuncPos(itemsEqual), fmt.Sprintf("for two *Activity values whose type name is %q ItemsEqual never reaches Activity.Equals: they are compared as plain objects, so a copy that differs only in actor, object, target, result, origin or instrument compares equal", tv))
			default:
				c.ok("C09.dispatch", key, w.FuncPos(itemsEqual), "Activity.Equals is reached")
			}
		}
	}

	// ---- verdict sources: ItemsEqual says "equal" only on the word of a comparison it dispatches to (an Equals method,
	// the id comparison, the link comparison) or because both operands are nil-like. A constant true returned under any
	// other condition — "this Tombstone replaces that object" — makes values of different types, or with different
	// properties, equal ----
	{
		nT := 0
		for _, rb := range returnBlocks(itemsEqual) {
			ret := rb.Instrs[len(rb.Instrs)-1].(*ssa.Return)
			if len(ret.Results) != 1 {
				continue
			}
			for _, leaf := range phiLeaves(ret.Results[0]) {
				k, isC := leaf.(*ssa.Const)
				if !isC || k.Value == nil || k.Value.Kind() != constant.Bool || !constant.BoolVal(k.Value) {
					continue
				}
				nT++
				// allowed only under nil-ness tests of the operands
				okNil := true
				blocks := []*ssa.BasicBlock{rb}
				if phi, isPhi := ret.Results[0].(*ssa.Phi); isPhi {
					blocks = nil
					for ei, e := range phi.Edges {
						if e == leaf {
							blocks = append(blocks, phi.Block().Preds[ei])
						}
					}
				}
				for _, b := range blocks {
					for _, g := range rawGuards(b) {
						call, isCall := g.cond.(*ssa.Call)
						if !isCall || !(calleeNamed(call, "IsNil") || calleeNamed(call, "IsNotNil")) {
							okNil = false
						}
					}
					if br, isIf := b.Instrs[len(b.Instrs)-1].(*ssa.If); isIf {
						if call, isCall := br.Cond.(*ssa.Call); !isCall || !calleeNamed(call, "IsNil") {
							okNil = false
						}
					}
				}
				key := fmt.Sprintf("ItemsEqual:constant-true#%d", nT)
				if okNil {
					c.ok("C09.dispatch", key, w.InstrPos(ret), "only for two nil-like operands")
				} else {
					c.bad("C09.dispatch", key, w.InstrPos(ret), "ItemsEqual returns the constant true under a condition that is not the nil-ness of its operands: the verdict 'equal' must come from a comparison of ids / properties, otherwise items of different types or with different properties compare equal")
				}
			}
		}
	}

	// ---- setloop ----
	checkSetLoops(w, c, "C09.setloop", []string{"NaturalLanguageValues", "ItemCollection", "IRIs"})

	// ---- member: a list equality looks its members up by themselves, not by a projection of them ----
	// w.Contains(it.GetLink()) compares the member's IRI with the other list's members: an embedded object without an id
	// has the empty IRI, which equals nothing, so a list holding one is unequal to itself (and a nil member has no IRI)
	for _, tn := range []string{"ItemCollection", "IRIs"} {
		m := w.Method(tn, "Equals")
		if m == nil {
			continue
		}
		bad, n := "", 0
		for _, f := range append([]*ssa.Function{m}, allAnon(m)...) {
			lh := loopHeaders(f)
			for _, call := range callsIn(f) {
				name := ""
				if cal := call.Common().StaticCallee(); cal != nil {
					name = cal.Name()
				} else if call.Common().IsInvoke() {
					name = call.Common().Method.Name()
				}
				if (name != "Contains" && name != "ItemsEqual") || len(lh[call.Block()]) == 0 {
					continue
				}
				n++
				for _, a := range allArgs(call) {
					if inner, ok := unwrap(a).(*ssa.Call); ok {
						in := ""
						if inner.Common().IsInvoke() {
							in = inner.Common().Method.Name()
						} else if cal := inner.Common().StaticCallee(); cal != nil {
							in = cal.Name()
						}
						if in == "GetLink" || in == "GetID" {
							bad = fmt.Sprintf("%s.Equals looks a member up by its %s() (at %s) instead of by the member itself: a member without an id has the empty IRI, which matches nothing, so a list that holds an id-less embedded object is not equal to itself", tn, in, w.InstrPos(call))
						}
					}
				}
			}
		}
		if bad != "" {
			c.bad("C09.member", tn+".Equals", w.FuncPos(m), bad)
		} else if n > 0 {
			c.ok("C09.member", tn+".Equals", w.FuncPos(m), "members are looked up by themselves")
		}
	}

	// ---- flat: an Equals method never hands its own two operands back to the dispatcher ----
	// ItemsEqual(x, y) dispatches to x.Equals(y) (after possibly exchanging the operands); an Equals that answers by calling
	// ItemsEqual on the very same two values closes a cycle in which nothing gets smaller: the comparison never returns
	nflat := 0
	for _, f := range w.Funcs {
		root := f
		for root.Parent() != nil {
			root = root.Parent()
		}
		if root.Name() != "Equals" || root.Signature.Recv() == nil || len(root.Params) < 2 {
			continue
		}
		isOperand := func(v ssa.Value) bool {
			v = unwrap(v)
			for _, p := range root.Params {
				if v == ssa.Value(p) {
					return true
				}
			}
			if fv, ok := v.(*ssa.FreeVar); ok {
				if b, ok := pr.fvMap[fv]; ok {
					for _, p := range root.Params {
						if unwrap(b) == ssa.Value(p) {
							return true
						}
						if al, ok := b.(*ssa.Alloc); ok {
							for _, st := range storesTo(al) {
								if st.Val == ssa.Value(p) {
									return true
								}
							}
						}
					}
				}
			}
			if ld, ok := v.(*ssa.UnOp); ok && ld.Op == token.MUL {
				if al, ok := ld.X.(*ssa.Alloc); ok {
					for _, st := range storesTo(al) {
						for _, p := range root.Params {
							if st.Val == ssa.Value(p) {
								return true
							}
						}
					}
				}
				if fv, ok := ld.X.(*ssa.FreeVar); ok {
					if b, ok := pr.fvMap[fv]; ok {
						if al, ok := b.(*ssa.Alloc); ok {
							for _, st := range storesTo(al) {
								for _, p := range root.Params {
									if st.Val == ssa.Value(p) {
										return true
									}
								}
							}
						}
					}
				}
			}
			return false
		}
		for _, call := range callsIn(f) {
			if call.Common().StaticCallee() != itemsEqual || len(call.Common().Args) != 2 {
				continue
			}
			nflat++
			if isOperand(call.Common().Args[0]) && isOperand(call.Common().Args[1]) {
				c.bad("C09.flat", funcName(root), w.InstrPos(call), fmt.Sprintf("%s answers by calling ItemsEqual on its own two operands (at %s): ItemsEqual dispatches back to Equals, nothing gets smaller, and for operands that make the dispatcher choose this method again the comparison recurses until the stack is exhausted", funcName(root), w.InstrPos(call)))
			}
		}
	}
	c.ok("C09.flat", "scan", "-", fmt.Sprintf("%d ItemsEqual calls inside Equals methods, none on the method's own two operands", nflat))

	// ---- contains: membership of an argument is decided by comparing it with the members, whatever the argument is ----
	if ct := w.Method("ItemCollection", "Contains"); ct != nil && len(ct.Params) == 2 {
		bad := ""
		for _, rb := range returnBlocks(ct) {
			ret := rb.Instrs[len(rb.Instrs)-1].(*ssa.Return)
			if len(ret.Results) != 1 {
				continue
			}
			k, ok := ret.Results[0].(*ssa.Const)
			if !ok || k.Value == nil || k.Value.String() != "false" {
				continue
			}
			for _, g := range rawGuards(rb) {
				if call, ok := g.cond.(*ssa.Call); ok && g.onTrue {
					for _, a := range allArgs(call) {
						if unwrap(a) == ssa.Value(ct.Params[1]) {
							name := "a predicate"
							if cal := call.Common().StaticCallee(); cal != nil {
								name = cal.Name()
							}
							bad = fmt.Sprintf("ItemCollection.Contains answers false as soon as %s holds for the argument (at %s), without looking at the members: a nil-like member can never be found, so a list that holds one is not equal to itself", name, w.InstrPos(ret))
						}
					}
				}
			}
		}
		// the same refusal written as part of a disjunction (len(i) == 0 || IsNil(r)): an If on a predicate of the argument
		// whose true edge goes straight to a block that returns false
		returnsFalse := func(b *ssa.BasicBlock) bool {
			for hops := 0; hops < 3 && b != nil; hops++ {
				if ret, ok := b.Instrs[len(b.Instrs)-1].(*ssa.Return); ok {
					if len(ret.Results) == 1 {
						if k, ok := ret.Results[0].(*ssa.Const); ok && k.Value != nil && k.Value.String() == "false" {
							return true
						}
					}
					return false
				}
				if _, ok := b.Instrs[len(b.Instrs)-1].(*ssa.Jump); ok && len(b.Instrs) == 1 {
					b = b.Succs[0]
					continue
				}
				return false
			}
			return false
		}
		for _, b := range ct.Blocks {
			ifi, ok := b.Instrs[len(b.Instrs)-1].(*ssa.If)
			if !ok {
				continue
			}
			call, ok := ifi.Cond.(*ssa.Call)
			if !ok {
				continue
			}
			for _, a := range allArgs(call) {
				if unwrap(a) == ssa.Value(ct.Params[1]) && returnsFalse(b.Succs[0]) {
					name := "a predicate"
					if cal := call.Common().StaticCallee(); cal != nil {
						name = cal.Name()
					}
					bad = fmt.Sprintf("ItemCollection.Contains answers false as soon as %s holds for the argument (at %s), without looking at the members: a nil-like member can never be found, so a list that holds one is not equal to itself", name, w.InstrPos(ifi))
				}
			}
		}
		if bad != "" {
			c.bad("C09.member", "ItemCollection.Contains", w.FuncPos(ct), bad)
		} else {
			c.ok("C09.member", "ItemCollection.Contains", w.FuncPos(ct), "no early refusal that depends on the argument alone")
		}
	}

	// ---- pair: a comparison inside an equality relates the SAME property of the two operands ----
	var eqFns []*ssa.Function
	for _, f := range w.Funcs {
		if f.Parent() == nil && (f.Name() == "Equals" && f.Signature.Recv() != nil || f.Name() == "linksEqual") {
			eqFns = append(eqFns, f)
			eqFns = append(eqFns, allAnon(f)...)
		}
	}
	npair := 0
	for _, mp := range mispairedComparisons(w, pr, eqFns, &npair) {
		c.bad("C09.pair", mp.key, mp.pos, mp.msg)
	}
	c.stat("paired_field_comparisons", npair)
	if npair < 40 {
		c.bad("C09.pair", "floor", "-", fmt.Sprintf("only %d field-to-field comparisons recognised in the Equals methods", npair))
	} else {
		c.ok("C09.pair", "all", "-", fmt.Sprintf("%d comparisons in the Equals methods each relate one property of both operands", npair))
	}

	// ---- nilprop: a method is called on a property value only after IsNil has excluded the nil-likes ----
	// (`x != nil` does not exclude a typed nil pointer stored in the interface: GetLink() on it dereferences nil)
	{
		nInv := 0
		for _, f := range eqFns {
			cnt := 0
			for _, b := range f.Blocks {
				for _, in := range b.Instrs {
					call, ok := in.(*ssa.Call)
					if !ok || !call.Common().IsInvoke() {
						continue
					}
					recv := call.Common().Value
					ld, isLd := unwrap(recv).(*ssa.UnOp)
					if !isLd || ld.Op != token.MUL {
						continue
					}
					fa, isFA := ld.X.(*ssa.FieldAddr)
					if !isFA {
						continue
					}
					nInv++
					cnt++
					key := fmt.Sprintf("%s:%s.%s()#%d", funcName(f), fieldNameOf(fa.X.Type(), fa.Field), call.Common().Method.Name(), cnt)
					if isNilGuardedStrict(recv, b) {
						c.ok("C09.nilprop", key, w.InstrPos(call), "under an IsNil test of the property")
					} else {
						c.bad("C09.nilprop", key, w.InstrPos(call), fmt.Sprintf("%s calls %s() on the property %s without IsNil having excluded a nil-like value (a `!= nil` test lets a typed nil pointer through): comparing an object whose %s holds a typed nil panics", funcName(f), call.Common().Method.Name(), fieldNameOf(fa.X.Type(), fa.Field), fieldNameOf(fa.X.Type(), fa.Field)))
					}
				}
			}
		}
		c.stat("method_calls_on_properties_in_equals", nInv)
	}

	// ---- forms: a type predicate lists the value form of a vocabulary struct iff it lists the pointer form ----
	for _, pn := range []string{"IsObject", "IsLink", "IsItemCollection", "IsIRI", "IsIRIs"} {
		pf := w.Func(pn)
		if pf == nil {
			continue
		}
		listed := map[string]bool{}
		for _, b := range pf.Blocks {
			for _, in := range b.Instrs {
				if ta, ok := in.(*ssa.TypeAssert); ok {
					listed[types.TypeString(ta.AssertedType, func(p *types.Package) string { return "" })] = true
				}
			}
		}
		if len(listed) == 0 {
			continue
		}
		var miss []string
		for t := range listed {
			if strings.HasPrefix(t, "*") {
				if !listed[t[1:]] {
					miss = append(miss, t[1:])
				}
			} else if !listed["*"+t] {
				if _, isIface := w.Types.Scope().Lookup(t).(*types.TypeName); isIface {
					if tn, _ := w.Types.Scope().Lookup(t).(*types.TypeName); tn != nil {
						if _, ok := tn.Type().Underlying().(*types.Interface); ok {
							continue
						}
					}
				}
				miss = append(miss, "*"+t)
			}
		}
		sort.Strings(miss)
		if len(miss) > 0 {
			c.bad("C09.forms", pn, w.FuncPos(pf), fmt.Sprintf("%s lists one form of %v but not the other: the value and the pointer form of the same item are classified differently, so ItemsEqual(x, x) is false (and Contains/Append misbehave) for the form that is left out", pn, miss))
		} else {
			c.ok("C09.forms", pn, w.FuncPos(pf), fmt.Sprintf("%d types listed, value and pointer forms together", len(listed)))
		}
	}
}

type mispair struct{ key, pos, msg string }

// mispairedComparisons: comparisons whose two operands are single fields of two different roots but not the same field.
func mispairedComparisons(w *World, pr *prover, fns []*ssa.Function, nok *int) []mispair {
	var out []mispair
	seen := map[string]int{}
	judge := func(f *ssa.Function, ops []ssa.Value, how string, pos ssa.Instruction) {
		if len(ops) < 2 {
			return
		}
		type side struct {
			root ssa.Value
			path string
			ok   bool
		}
		var sides []side
		for _, o := range ops[:2] {
			refs := pr.prov(o).list()
			s := side{ok: len(refs) == 1}
			if s.ok {
				r := refs[0]
				if len(r.Names) == 0 {
					s.ok = false
				} else {
					s.root, s.path = r.Root, strings.Join(r.Names, ".")
				}
			}
			sides = append(sides, s)
		}
		if !sides[0].ok || !sides[1].ok || sides[0].root == sides[1].root {
			return
		}
		if sides[0].path == sides[1].path {
			*nok++
			return
		}
		key := fmt.Sprintf("%s:%s~%s", funcName(f), sides[0].path, sides[1].path)
		seen[key]++
		out = append(out, mispair{key, w.InstrPos(pos), fmt.Sprintf("%s compares %s of one operand with %s of the other (%s): a value whose %s and %s differ is not equal to itself, and two different values can compare equal", funcName(f), sides[0].path, sides[1].path, how, sides[0].path, sides[1].path)})
	}
	for _, f := range fns {
		for _, b := range f.Blocks {
			for _, in := range b.Instrs {
				switch x := in.(type) {
				case *ssa.BinOp:
					if x.Op == token.EQL || x.Op == token.NEQ {
						judge(f, []ssa.Value{x.X, x.Y}, x.Op.String(), in)
					}
				case *ssa.Call:
					name := ""
					if cal := x.Common().StaticCallee(); cal != nil {
						name = cal.Name()
					} else if x.Common().IsInvoke() {
						name = x.Common().Method.Name()
					}
					switch name {
					case "ItemsEqual", "Equals", "Equal", "EqualFold":
						judge(f, allArgs(x), name, in)
					default:
						if cal := x.Common().StaticCallee(); cal != nil && w.InPkg(cal) && comparesFirstTwoParams(cal) {
							judge(f, allArgs(x), name+"→compare", in)
						}
					}
				}
			}
		}
	}
	return out
}

// checkSetLoops: Equals methods of list types written with nested loops must not answer "false" from inside the
// inner loop (that is the ∀∀ shape: every pair must match).
func checkSetLoops(w *World, c *Check, rule string, typesWithEquals []string) {
	for _, tn := range typesWithEquals {
		m := w.Method(tn, "Equals")
		if m == nil {
			continue
		}
		fns := append([]*ssa.Function{m}, allAnon(m)...)
		bad := ""
		nested := false
		for _, f := range fns {
			lh := loopHeaders(f)
			for _, rb := range returnBlocks(f) {
				ret := rb.Instrs[len(rb.Instrs)-1].(*ssa.Return)
				if len(ret.Results) != 1 {
					continue
				}
				k, ok := ret.Results[0].(*ssa.Const)
				if !ok || k.Value == nil || k.Value.String() != "false" {
					continue
				}
				// depth of the innermost loop block that decides this return
				depth := 0
				for d := rb.Idom(); d != nil; d = d.Idom() {
					if n := len(lh[d]); n > 0 {
						depth = n
						break
					}
				}
				if depth >= 2 {
					bad = fmt.Sprintf("%s.Equals returns false from inside its inner loop (at %s): it demands that every pair of entries matches, so a list with two different entries is not equal to itself", tn, w.InstrPos(ret))
				}
			}
			for _, b := range f.Blocks {
				if len(lh[b]) >= 2 {
					nested = true
				}
			}
		}
		if bad != "" {
			c.bad(rule, tn+".Equals", w.FuncPos(m), bad)
		} else {
			c.ok(rule, tn+".Equals", w.FuncPos(m), fmt.Sprintf("no all-pairs loop shape (nested loops: %v)", nested))
		}
	}
}

// ---------------- C19 ----------------

func checkC19(w *World, c *Check, tier string) {
	c.Exhaustive = true
	c.Explanation = "Decides the structural clauses of the language-value containers: (eq) LangRefValue.Equals compares both the tag and the text of the two operands and is true only when both match; NaturalLanguageValues.Equals decides through it and does not have the all-pairs loop shape (returning false from the inner loop on one mismatch, which makes any list with two different entries unequal to itself); (get) Get returns an entry's text only under the test 'entry tag == requested tag', scanning from the front, and nil otherwise; (set) Set overwrites in place only under that same test and appends only on the not-found side, so the list grows by at most one and other entries are untouched; (count/first) Count is the length of the receiver and First returns the element at the front. NOT decided: operation histories, equality 'exactly when same pairs' for lists with repeated tags."
	c.RuleText = "obligations per accessor of the container; exhaustive over Get/Set/Count/First/Equals"
	c.Trusted = []string{"go/ssa", "apcheck prov.go"}
	c.floor("C19.eq", 3)
	c.floor("C19.exact", 3)
	checkExactTextEquality(w, c, "C19.exact")
	c.floor("C19.set", 2)
	pr := newProver(w)
	lrvEq := w.Method("LangRefValue", "Equals")
	nlvEq := w.Method("NaturalLanguageValues", "Equals")
	if lrvEq == nil || nlvEq == nil {
		c.bad("C19.eq", "anchor", "-", "Equals methods not found")
		return
	}
	cmp := comparedFields(w, pr, []*ssa.Function{lrvEq})
	for _, f := range []string{"Ref", "Value"} {
		if how, ok := cmp[f]; ok {
			c.ok("C19.eq", "LangRefValue."+f, w.FuncPos(lrvEq), "compared with "+how)
		} else {
			c.bad("C19.eq", "LangRefValue."+f, w.FuncPos(lrvEq), "LangRefValue.Equals does not compare "+f+" of the two operands")
		}
	}
	// conjunction: forcing either comparison false makes the result false (abstract interpretation)
	{
		var refCmp *ssa.BinOp
		var valCall *ssa.Call
		for _, b := range lrvEq.Blocks {
			for _, in := range b.Instrs {
				if bo, ok := in.(*ssa.BinOp); ok && (bo.Op == token.EQL || bo.Op == token.NEQ) && isStringish(bo.X.Type()) {
					refCmp = bo
				}
				if call, ok := in.(*ssa.Call); ok && (calleeNamed(call, "Equals") || calleeNamed(call, "Equal") || calleeNamed(call, "EqualFold")) {
					valCall = call
				}
			}
		}
		for label, ov := range map[string]ssa.Value{"tag-differs": refCmp, "text-differs": valCall} {
			if ov == nil || (label == "tag-differs" && refCmp == nil) || (label == "text-differs" && valCall == nil) {
				c.bad("C19.eq", "conjunction:"+label, w.FuncPos(lrvEq), "comparison not found")
				continue
			}
			ip := newInterp(w)
			differs := false
			if bo, isBo := ov.(*ssa.BinOp); isBo && bo.Op == token.NEQ {
				differs = true // `a != b` is true when the two differ
			}
			ip.overrides[ov] = avBool(differs)
			res, _, _ := ip.Call(lrvEq, []AV{avTop, avTop}, nil, Store{}, nil)
			if b, ok := res.isConstBool(); ok && !b {
				c.ok("C19.eq", "conjunction:"+label, w.FuncPos(lrvEq), "false when this comparison fails")
			} else {
				c.bad("C19.eq", "conjunction:"+label, w.FuncPos(lrvEq), fmt.Sprintf("LangRefValue.Equals evaluates to %s although the %s", res, label))
			}
		}
	}
	reachesLrv := false
	for _, f := range w.Reach([]*ssa.Function{nlvEq}, nil) {
		if f == lrvEq {
			reachesLrv = true
		}
	}
	if reachesLrv {
		c.ok("C19.eq", "NaturalLanguageValues.Equals→LangRefValue.Equals", w.FuncPos(nlvEq), "decides through the entry equality")
	} else {
		c.bad("C19.eq", "NaturalLanguageValues.Equals→LangRefValue.Equals", w.FuncPos(nlvEq), "list equality does not use the entry equality")
	}
	checkSetLoops(w, c, "C19.eq", []string{"NaturalLanguageValues"})
	// (full-scan) "equal exactly when they hold the same pairs", in any order: every entry of one list is looked up among
	// ALL entries of the other. An inner scan that resumes where the previous look-up stopped compares positions, not
	// sets: [en:x, -:y] and [-:y, en:x] become unequal.
	{
		lh := loopHeaders(nlvEq)
		bad := ""
		nInner := 0
		for _, h := range nlvEq.Blocks {
			// an inner loop header: it lies inside another loop
			outer := false
			for hh := range lh[h] {
				if hh != h {
					outer = true
				}
			}
			if !outer || !lh[h][h] {
				continue
			}
			nInner++
			for _, in := range h.Instrs {
				phi, ok := in.(*ssa.Phi)
				if !ok {
					break
				}
				isFlag := isBoolType(phi.Type())
				if !isIntegerType(phi.Type()) && !isFlag {
					continue
				}
				for i, e := range phi.Edges {
					p := h.Preds[i]
					if lh[p][h] {
						continue // the back edge
					}
					if _, isConst := e.(*ssa.Const); isConst {
						continue
					}
					// entered from the outer loop with a value that the outer loop carries along
					if ep, isPhi := e.(*ssa.Phi); isPhi {
						for hh := range lh[ep.Block()] {
							if hh != h && ep.Block() == hh {
								if isFlag {
									bad = fmt.Sprintf("the found flag of the inner scan (%s) is not reset for each entry: once one entry has been found, every later entry counts as found without being looked up", shortVal(e))
								} else {
									bad = fmt.Sprintf("the inner scan at %s starts from a position carried over from the previous look-up (%s), not from the first entry", w.Pos(phi.Pos()), shortVal(e))
								}
							}
						}
					}
				}
			}
		}
		// the flag read after the inner scan: on the way out of an exhausted inner loop it must be the constant false,
		// not a value the outer loop carries from the previous entry
		for _, b := range nlvEq.Blocks {
			for _, in := range b.Instrs {
				phi, ok := in.(*ssa.Phi)
				if !ok {
					break
				}
				if !isBoolType(phi.Type()) {
					continue
				}
				for i, e := range phi.Edges {
					p := b.Preds[i]
					// p is the header of a loop nested in another loop, and b lies outside that inner loop
					if !lh[p][p] || lh[b][p] {
						continue
					}
					nested := false
					for hh := range lh[p] {
						if hh != p {
							nested = true
						}
					}
					if !nested {
						continue
					}
					if ep, isPhi := e.(*ssa.Phi); isPhi && lh[ep.Block()][ep.Block()] && ep.Block() != p {
						bad = fmt.Sprintf("the found flag (%s) is not reset for each entry: when the inner scan finds nothing it keeps the value left by the previous entry, so once one entry has matched every later entry counts as found", shortVal(e))
					}
				}
			}
		}
		if bad != "" {
			c.bad("C19.eq", "NaturalLanguageValues.Equals:full-scan", w.FuncPos(nlvEq), "list equality does not look every entry up among all entries of the other list: "+bad)
		} else {
			c.ok("C19.eq", "NaturalLanguageValues.Equals:full-scan", w.FuncPos(nlvEq), fmt.Sprintf("%d inner scan(s), each over the whole list", nInner))
		}
	}

	// ---- get ----
	get := w.Method("NaturalLanguageValues", "Get")
	set := w.Method("NaturalLanguageValues", "Set")
	count := w.Method("NaturalLanguageValues", "Count")
	first := w.Method("NaturalLanguageValues", "First")
	// refTestHolds: the branch condition cond, taken with truth value onTrue, establishes 'entry tag == requested tag'
	var isRefTest func(cond ssa.Value, fn *ssa.Function) bool
	refTestHolds := func(g condGuard, fn *ssa.Function) bool {
		bo, ok := g.cond.(*ssa.BinOp)
		if !ok {
			return false
		}
		switch bo.Op {
		case token.EQL:
			return g.onTrue && isRefTest(g.cond, fn)
		case token.NEQ:
			eq := *bo
			eq.Op = token.EQL
			return !g.onTrue && isRefTest(&eq, fn)
		}
		return false
	}
	isRefTest = func(cond ssa.Value, fn *ssa.Function) bool {
		bo, ok := cond.(*ssa.BinOp)
		if !ok || bo.Op != token.EQL {
			return false
		}
		var sawField, sawParam bool
		for _, side := range []ssa.Value{bo.X, bo.Y} {
			s := unwrap(side)
			for _, p := range fn.Params[1:] {
				if s == ssa.Value(p) {
					sawParam = true
				}
			}
			if fp, ok := pr.fieldOf(s); ok && fp.Names[len(fp.Names)-1] == "Ref" {
				sawField = true
			}
			if f, ok := s.(*ssa.Field); ok && fieldNameOf(f.X.Type(), f.Field) == "Ref" {
				sawField = true
			}
		}
		return sawField && sawParam
	}
	if get != nil {
		// every text that can be returned is the Value of an element read where 'entry tag == requested tag' holds, the
		// search is left right there (first match), and every other way out returns nil
		loops := loopHeaders(get)
		bad := ""
		nValue := 0
		var judge func(v ssa.Value, d int, seen map[ssa.Value]bool)
		judge = func(v ssa.Value, d int, seen map[ssa.Value]bool) {
			if d > 8 || seen[v] || bad != "" {
				return
			}
			seen[v] = true
			switch x := unwrap(v).(type) {
			case *ssa.Const:
				if x.Value != nil {
					bad = "Get can return a constant text"
				}
			case *ssa.Phi:
				for _, e := range x.Edges {
					judge(e, d+1, seen)
				}
			default:
				// a load of (an element's) Value
				isValue := false
				var at *ssa.BasicBlock
				if fp, ok := pr.fieldOf(unwrap(v)); ok && len(fp.Names) > 0 && fp.Names[len(fp.Names)-1] == "Value" {
					isValue = true
				}
				if f, ok := unwrap(v).(*ssa.Field); ok && fieldNameOf(f.X.Type(), f.Field) == "Value" {
					isValue = true
				}
				if in, ok := unwrap(v).(ssa.Instruction); ok {
					at = in.Block()
				}
				if !isValue || at == nil {
					bad = "Get can return " + shortVal(v) + ", which is not the text of an entry"
					return
				}
				nValue++
				under := false
				for _, g := range rawGuards(at) {
					if refTestHolds(g, get) {
						under = true
					}
				}
				if !under {
					// the position of the match was kept and the text is read after the search (at := -1; … at = i; break;
					// return n[at].Value): every position the index can hold was assigned where the tag test holds, the
					// search was left right there, and the sentinel is excluded by a test of the index before the read
					if phi := capturedIndexOf(unwrap(v)); phi != nil {
						okAll, sawIdx, needGuard := true, false, false
						for i, e := range phi.Edges {
							if _, isConst := e.(*ssa.Const); isConst {
								needGuard = true
								continue
							}
							pred := phi.Block().Preds[i]
							u := false
							for _, g := range rawGuards(pred) {
								if refTestHolds(g, get) {
									u = true
								}
							}
							if !u {
								okAll = false
							}
							for h := range loops[pred] {
								if reachesWithin(pred, h, nil) {
									bad = "Get keeps searching after a matching entry: it returns the text of the LAST entry with the tag, not the first"
									return
								}
							}
							sawIdx = true
						}
						if needGuard {
							guarded := false
							for _, g := range rawGuards(at) {
								if bo, ok := g.cond.(*ssa.BinOp); ok && (bo.X == ssa.Value(phi) || bo.Y == ssa.Value(phi)) {
									guarded = true
								}
							}
							okAll = okAll && guarded
						}
						under = okAll && sawIdx
					}
				}
				if !under {
					bad = "Get can return the text of an entry that was not tested for 'entry tag == requested tag'"
					return
				}
				// first match: from here the search loop is not re-entered
				for h := range loops[at] {
					if reachesWithin(at, h, nil) {
						bad = "Get keeps searching after a matching entry: it returns the text of the LAST entry with the tag, not the first"
					}
				}
			}
		}
		for _, rb := range returnBlocks(get) {
			ret := rb.Instrs[len(rb.Instrs)-1].(*ssa.Return)
			if len(ret.Results) == 1 && !isNilConst(ret.Results[0]) {
				judge(ret.Results[0], 0, map[ssa.Value]bool{})
			}
		}
		if bad == "" && nValue == 0 {
			bad = "Get never returns the text of an entry"
		}
		if bad == "" {
			c.ok("C19.get", "Get", w.FuncPos(get), "returns an entry's text only under tag == requested tag (first match), nil otherwise")
		} else {
			c.bad("C19.get", "Get", w.FuncPos(get), bad)
		}
	} else {
		c.bad("C19.get", "Get", "-", "method not found")
	}
	// ---- set ----
	// Set(tag, v) must make Get(tag) — the FIRST entry with the tag — return v, keep everything else, and grow the list by
	// at most one. Decided on the shape of the search:
	//   in-place  every element store is under the test 'entry tag == requested tag';
	//   first     either every matching entry is overwritten (no way out of the search after a store), or the search
	//             leaves after a store and then it must run forward from index 0 (so the entry it stops at is the first);
	//   append    the appending call is reached only when nothing was overwritten: either no path leads from a store to
	//             it, or it sits on the false side of a flag that is a phi of constants (the found-flag idiom);
	//             and it is reachable when nothing matched.
	if set != nil {
		var appendCalls []*ssa.Call
		scanStores := func(fn *ssa.Function) (storeOK, storeSeen bool, storeBlocks []*ssa.BasicBlock) {
			storeOK = true
			for _, b := range fn.Blocks {
				for _, in := range b.Instrs {
					x, isStore := in.(*ssa.Store)
					if !isStore {
						continue
					}
					ia, isIdx := x.Addr.(*ssa.IndexAddr)
					if fa, isFA := x.Addr.(*ssa.FieldAddr); isFA && !isIdx {
						// a field of an entry: list[k].Value = v
						ia, isIdx = fa.X.(*ssa.IndexAddr)
					}
					if isIdx {
						if _, local := ia.X.(*ssa.Alloc); local {
							continue // the temporary array of a variadic call
						}
						storeSeen = true
						storeBlocks = append(storeBlocks, b)
						under := false
						for _, g := range rawGuards(b) {
							if refTestHolds(g, fn) {
								under = true
							}
						}
						if !under {
							storeOK = false
						}
					}
				}
			}
			return
		}
		for _, b := range set.Blocks {
			for _, in := range b.Instrs {
				if x, ok := in.(*ssa.Call); ok {
					if calleeNamed(x, "Append") || calleeNamed(x, "Add") {
						appendCalls = append(appendCalls, x)
					}
					if bi, ok := x.Common().Value.(*ssa.Builtin); ok && bi.Name() == "append" {
						appendCalls = append(appendCalls, x)
					}
				}
			}
		}
		searchFn := set
		var helperCall *ssa.Call
		storeOK, storeSeen, storeBlocks := scanStores(set)
		if !storeSeen {
			// the search-and-overwrite may have been moved into a helper that is handed the list and the tag and reports
			// whether it overwrote anything: the in-place and first-entry rules then apply to the helper, the append
			// rule to Set with the helper's result as the found flag
			for _, call := range callsIn(set) {
				h := call.Common().StaticCallee()
				if h == nil || !w.InPkg(h) || h.Blocks == nil || len(h.Params) < 2 || calleeNamed(call, "Append") || calleeNamed(call, "Add") {
					continue
				}
				takesList := false
				for _, a := range call.Common().Args {
					if a == ssa.Value(set.Params[0]) {
						takesList = true
					}
					if ld, isLd := unwrap(a).(*ssa.UnOp); isLd && ld.Op == token.MUL && ld.X == ssa.Value(set.Params[0]) {
						takesList = true
					}
				}
				if !takesList {
					continue
				}
				if ok2, seen2, blocks2 := scanStores(h); seen2 {
					searchFn, helperCall = h, call
					storeOK, storeSeen, storeBlocks = ok2, seen2, blocks2
					break
				}
			}
		}
		switch {
		case !storeSeen || !storeOK:
			c.bad("C19.set", "Set:in-place", w.FuncPos(set), "Set does not overwrite an entry only under the test 'entry tag == requested tag'")
		default:
			c.ok("C19.set", "Set:in-place", w.FuncPos(set), "overwrites only the entry whose tag matches")
		}
		// the search loop and its direction
		loops := loopHeaders(searchFn)
		firstBad := ""
		for _, sb := range storeBlocks {
			var header *ssa.BasicBlock
			// the store may sit in an exit branch of the loop (store; return): take the loop of the nearest dominator
			// that is inside one
			for d := sb; d != nil && header == nil; d = d.Idom() {
				for h := range loops[d] {
					header = h
				}
			}
			if header == nil {
				firstBad = "the overwriting store is not inside a search loop"
				continue
			}
			// does control leave the loop after the store without passing the header again?
			leaves := false
			seen := map[*ssa.BasicBlock]bool{sb: true}
			work := []*ssa.BasicBlock{sb}
			for len(work) > 0 {
				x := work[len(work)-1]
				work = work[:len(work)-1]
				for _, nx := range x.Succs {
					if nx == header || seen[nx] {
						continue
					}
					if !loops[nx][header] {
						leaves = true
						continue
					}
					seen[nx] = true
					work = append(work, nx)
				}
				if len(x.Succs) == 0 {
					leaves = true
				}
			}
			if !leaves {
				continue // every match is overwritten, the first one included
			}
			// early exit: the scan must be ascending from 0 (range loops are; counted loops need init 0 / -1 and step +1)
			forward := false
			for _, in := range header.Instrs {
				phi, ok := in.(*ssa.Phi)
				if !ok {
					break
				}
				if b, isB := types.Unalias(phi.Type()).Underlying().(*types.Basic); !isB || b.Info()&types.IsInteger == 0 {
					continue
				}
				initOK, stepOK := false, false
				for ei, e := range phi.Edges {
					if loops[header.Preds[ei]][header] {
						if bo, ok := e.(*ssa.BinOp); ok && bo.Op == token.ADD && bo.X == ssa.Value(phi) {
							if k, ok := bo.Y.(*ssa.Const); ok && k.Value != nil && k.Int64() == 1 {
								stepOK = true
							}
						}
					} else if k, ok := e.(*ssa.Const); ok && k.Value != nil && (k.Int64() == 0 || k.Int64() == -1) {
						initOK = true
					}
				}
				if initOK && stepOK {
					forward = true
				}
			}
			if !forward {
				firstBad = "the search stops at the entry it overwrites but does not run forward from the first entry: with a repeated tag a later entry is rewritten while Get still returns the first"
			}
		}
		if storeSeen {
			if firstBad != "" {
				c.bad("C19.set", "Set:first-entry", w.FuncPos(set), firstBad)
			} else {
				c.ok("C19.set", "Set:first-entry", w.FuncPos(set), "the first entry with the tag is among those overwritten")
			}
		}
		appendBad := ""
		if len(appendCalls) == 0 {
			appendBad = "Set never appends: a tag that is not present cannot be set"
		}
		if helperCall != nil {
			// from Set's point of view the overwriting happens where the helper is called
			storeBlocks = []*ssa.BasicBlock{helperCall.Block()}
		}
		for _, ac := range appendCalls {
			ab := ac.Block()
			flagGuard := false
			for _, g := range rawGuards(ab) {
				if helperCall != nil && unwrap(g.cond) == ssa.Value(helperCall) && !g.onTrue && returnsConstFlag(searchFn) {
					flagGuard = true
				}
				if phi, ok := g.cond.(*ssa.Phi); ok && !g.onTrue {
					allConst := true
					for _, e := range phi.Edges {
						if _, isC := e.(*ssa.Const); !isC {
							if _, isPhi := e.(*ssa.Phi); !isPhi {
								allConst = false
							}
						}
					}
					if allConst {
						flagGuard = true
					}
				}
				// a counter of replacements: `if replaced > 0 { return }` / `if replaced == 0 { append }` where the counter
				// is incremented only where an entry was overwritten
				if bo, ok := g.cond.(*ssa.BinOp); ok {
					phi, isPhi := bo.X.(*ssa.Phi)
					k, isK := bo.Y.(*ssa.Const)
					if isPhi && isK && k.Value != nil {
						kv := k.Int64()
						zeroSide := false // does this guard put the append on the 'counter is zero' side?
						switch {
						case bo.Op == token.GTR && kv == 0, bo.Op == token.NEQ && kv == 0, bo.Op == token.GEQ && kv == 1:
							zeroSide = !g.onTrue
						case bo.Op == token.EQL && kv == 0, bo.Op == token.LEQ && kv == 0, bo.Op == token.LSS && kv == 1:
							zeroSide = g.onTrue
						}
						if zeroSide && counterOfStores(phi, storeBlocks, 0, map[*ssa.Phi]bool{}) {
							flagGuard = true
						}
					}
				}
			}
			// the decision to append must come from the TAGS (a scan that found no entry with the tag), not from the text
			// a lookup returned: Get(tag) is nil for a missing tag, but also for a present tag whose text is nil
			for _, g := range rawGuards(ab) {
				if textBasedCondition(g.cond, 0) {
					appendBad = "Set decides whether to append by the text a lookup returned (nil/empty), not by whether an entry with the tag exists: a tag that is present with a nil text is appended a second time, the list grows and Get keeps returning the first entry"
				}
			}
			afterStore := false
			for _, sb := range storeBlocks {
				if reaches(sb, ab) {
					afterStore = true
				}
			}
			if afterStore && !flagGuard {
				appendBad = "Set can append after having overwritten an entry (the appending call is reachable from the store and not behind a found flag): the list grows although the tag is present"
			}
			// reachable when nothing matched: a path from entry that avoids every store block
			avoid := map[*ssa.BasicBlock]bool{}
			for _, sb := range storeBlocks {
				if helperCall == nil {
					avoid[sb] = true
				}
			}
			seen := map[*ssa.BasicBlock]bool{set.Blocks[0]: true}
			work := []*ssa.BasicBlock{set.Blocks[0]}
			found := set.Blocks[0] == ab
			for len(work) > 0 && !found {
				x := work[len(work)-1]
				work = work[:len(work)-1]
				for _, nx := range x.Succs {
					if avoid[nx] || seen[nx] {
						continue
					}
					if nx == ab {
						found = true
					}
					seen[nx] = true
					work = append(work, nx)
				}
			}
			if !found {
				appendBad = "the appending call cannot be reached when no entry matched: a tag that is not present is never added"
			}
		}
		if appendBad != "" {
			c.bad("C19.set", "Set:append-when-missing", w.FuncPos(set), appendBad)
		} else {
			c.ok("C19.set", "Set:append-when-missing", w.FuncPos(set), "appends only when no entry matched")
		}
		// tag as given: the entry Append (and through it Set) adds carries the tag it was handed, not a rewriting of it
		// ("accept POSIX spelling: _ becomes -"): Get with the tag that was Set would find nothing, and every further Set
		// of that tag appends again
		if app := w.Method("NaturalLanguageValues", "Append"); app != nil && app.Blocks != nil {
			how := ""
			var pos ssa.Instruction
			refIdx := -1
			if lrv := w.Named("LangRefValue"); lrv != nil {
				if st, ok := lrv.Underlying().(*types.Struct); ok {
					for i := 0; i < st.NumFields(); i++ {
						if st.Field(i).Name() == "Ref" {
							refIdx = i
						}
					}
				}
			}
			var entryRefs func(v ssa.Value, d int) []ssa.Value
			entryRefs = func(v ssa.Value, d int) []ssa.Value {
				if v == nil || d > 4 || refIdx < 0 {
					return nil
				}
				var out []ssa.Value
				switch x := unwrap(v).(type) {
				case *ssa.UnOp:
					if al, ok := x.X.(*ssa.Alloc); ok && x.Op == token.MUL && al.Referrers() != nil {
						for _, r := range *al.Referrers() {
							if fa, isFA := r.(*ssa.FieldAddr); isFA && fa.Field == refIdx && fa.Referrers() != nil {
								for _, rr := range *fa.Referrers() {
									if st, isSt := rr.(*ssa.Store); isSt && st.Addr == ssa.Value(fa) {
										out = append(out, st.Val)
									}
								}
							}
						}
						for _, st := range storesTo(al) {
							out = append(out, entryRefs(st.Val, d+1)...)
						}
					}
				case *ssa.Call:
					if cal := x.Common().StaticCallee(); cal != nil && w.InPkg(cal) && cal.Blocks != nil {
						for _, rb := range returnBlocks(cal) {
							ret := rb.Instrs[len(rb.Instrs)-1].(*ssa.Return)
							for _, r := range ret.Results {
								out = append(out, entryRefs(r, d+1)...)
							}
						}
					}
				}
				return out
			}
			for _, fn := range w.Reach([]*ssa.Function{app}, func(f *ssa.Function) bool { return f.Name() == "Equals" }) {
				for _, call := range callsIn(fn) {
					var elems []ssa.Value
					if bi, isB := call.Common().Value.(*ssa.Builtin); isB && bi.Name() == "append" && len(call.Common().Args) == 2 {
						elems, _ = variadicElems(call.Common().Args[1])
					} else if calleeNamed(call, "Add") && len(call.Common().Args) >= 2 {
						elems = call.Common().Args[1:]
					}
					for _, e := range elems {
						for _, rv := range entryRefs(e, 0) {
							if h := textRewrittenBy(w, rv); h != "" && how == "" {
								how, pos = h, call
							}
						}
					}
				}
			}
			if how != "" {
				c.bad("C19.set", "Append:tag-as-given", w.InstrPos(pos), fmt.Sprintf("the entry Append adds carries a rewriting of the tag it was given (%s), not the tag itself: after Set(tag, v) on a tag the rewriting changes, Get(tag) finds nothing and every further Set appends another entry", how))
			} else {
				c.ok("C19.set", "Append:tag-as-given", w.FuncPos(app), "the appended entry carries the tag as given")
			}
		}
		// frame: Set, and every package function it hands its receiver to, changes the list only by overwriting an entry
		// in place or by growing it by one entry at the end: the list header is never re-sliced, shrunk or spliced, and
		// no entry is copied over another (a clean-up of "leftover" duplicates moves the last entry into the hole: the
		// order changes and Get of another tag returns a different text)
		{
			frameBad := ""
			var framePos ssa.Instruction
			seenFn := map[*ssa.Function]bool{}
			var visit func(fn *ssa.Function, recv ssa.Value, d int)
			visit = func(fn *ssa.Function, recv ssa.Value, d int) {
				if fn == nil || fn.Blocks == nil || seenFn[fn] || d > 3 {
					return
				}
				seenFn[fn] = true
				isListLoad := func(v ssa.Value) bool {
					ld, ok := unwrap(v).(*ssa.UnOp)
					return ok && ld.Op == token.MUL && ld.X == recv
				}
				for _, b := range fn.Blocks {
					for _, in := range b.Instrs {
						switch x := in.(type) {
						case *ssa.Store:
							if x.Addr == recv {
								okGrow := false
								if call, isCall := unwrap(x.Val).(*ssa.Call); isCall {
									if bi, isB := call.Common().Value.(*ssa.Builtin); isB && bi.Name() == "append" && len(call.Common().Args) == 2 && isListLoad(call.Common().Args[0]) {
										if elems, okE := variadicElems(call.Common().Args[1]); okE && len(elems) == 1 {
											okGrow = true
										}
									}
								}
								if !okGrow && frameBad == "" {
									frameBad = fmt.Sprintf("%s assigns the list something other than itself grown by one entry (%s): entries are removed or re-ordered by a call of Set", funcName(fn), shortVal(x.Val))
									framePos = x
								}
							}
							if ia, isIdx := x.Addr.(*ssa.IndexAddr); isIdx && isListLoad(ia.X) {
								// a whole entry copied from another entry of the same list
								if ld, isLd := unwrap(x.Val).(*ssa.UnOp); isLd && ld.Op == token.MUL {
									if ia2, isIdx2 := ld.X.(*ssa.IndexAddr); isIdx2 && isListLoad(ia2.X) && frameBad == "" {
										frameBad = fmt.Sprintf("%s copies one entry of the list over another: the order of the entries changes under Set", funcName(fn))
										framePos = x
									}
								}
							}
						case *ssa.Call:
							cal := x.Common().StaticCallee()
							if cal == nil || !w.InPkg(cal) {
								continue
							}
							for ai, a := range x.Common().Args {
								if a == recv && ai < len(cal.Params) {
									visit(cal, cal.Params[ai], d+1)
								}
							}
						}
					}
				}
			}
			visit(set, set.Params[0], 0)
			if frameBad != "" {
				c.bad("C19.set", "Set:frame", w.InstrPos(framePos), frameBad)
			} else {
				c.ok("C19.set", "Set:frame", w.FuncPos(set), fmt.Sprintf("in the %d functions that receive Set's list it is only overwritten in place or grown by one entry", len(seenFn)))
			}
		}
	} else {
		c.bad("C19.set", "Set", "-", "method not found")
	}
	// ---- count / first ----
	if count != nil {
		// every value Count can return is len(receiver) (through a phi / local copy), or the constant 0
		okCount := false
		badCount := false
		var judgeC func(v ssa.Value, d int)
		judgeC = func(v ssa.Value, d int) {
			if d > 6 {
				badCount = true
				return
			}
			v = unwrap(v)
			if cv, ok := v.(*ssa.Convert); ok {
				v = unwrap(cv.X)
			}
			if k, ok := v.(*ssa.Const); ok {
				if k.Value == nil || k.Int64() != 0 {
					badCount = true
				}
				return
			}
			if phi, ok := v.(*ssa.Phi); ok {
				for _, e := range phi.Edges {
					judgeC(e, d+1)
				}
				return
			}
			if inner, isLen := lenOperand(v); isLen && derivesFromRoot(inner, count.Params[0], 0) {
				okCount = true
				return
			}
			badCount = true
		}
		for _, rb := range returnBlocks(count) {
			ret := rb.Instrs[len(rb.Instrs)-1].(*ssa.Return)
			if len(ret.Results) == 1 {
				judgeC(ret.Results[0], 0)
			}
		}
		okCount = okCount && !badCount
		if okCount {
			c.ok("C19.count", "Count", w.FuncPos(count), "len of the receiver")
		} else {
			c.bad("C19.count", "Count", w.FuncPos(count), "Count is not the length of the receiver")
		}
	}
	if first != nil {
		// First: returns the element reached on the first iteration / index 0
		ip := newInterp(w)
		lrv := w.Named("LangRefValue")
		marker := AV{K: kPtr, T: types.NewPointer(lrv), Nil: nilNo} // unused; structural check below
		_ = marker
		_ = ip
		okFirst := false
		for _, rb := range returnBlocks(first) {
			ret := rb.Instrs[len(rb.Instrs)-1].(*ssa.Return)
			if len(ret.Results) == 1 && derivesFromRoot(ret.Results[0], first.Params[0], 0) {
				// must not be inside a loop that has already advanced: the return block is entered from the loop header on the first iteration
				lh := loopHeaders(first)
				if len(lh[rb]) == 0 {
					okFirst = true
				}
			}
		}
		if okFirst {
			c.ok("C19.first", "First", w.FuncPos(first), "returns an element of the receiver without iterating further")
		} else {
			c.bad("C19.first", "First", w.FuncPos(first), "First does not return the front element of the receiver")
		}
	}
	_ = sort.Strings
}

var cmpParamsMemo = map[*ssa.Function]bool{}

// comparesFirstTwoParams: f's body relates its first parameter to its second in a comparison (==, !=, ItemsEqual,
// Equals, Equal, EqualFold), directly on the parameters.
func comparesFirstTwoParams(f *ssa.Function) bool {
	if r, ok := cmpParamsMemo[f]; ok {
		return r
	}
	cmpParamsMemo[f] = false
	if f.Blocks == nil || len(f.Params) < 2 {
		return false
	}
	isP := func(v ssa.Value, i int) bool {
		v = unwrap(v)
		// ours.GetLink() / theirs.GetID(): a getter called on the parameter stands for the parameter
		for d := 0; d < 3; d++ {
			if call, ok := v.(*ssa.Call); ok && call.Common().IsInvoke() && len(call.Common().Args) == 0 {
				v = unwrap(call.Common().Value)
				continue
			}
			break
		}
		return v == ssa.Value(f.Params[i])
	}
	res := false
	for _, b := range f.Blocks {
		for _, in := range b.Instrs {
			var a, c ssa.Value
			switch x := in.(type) {
			case *ssa.BinOp:
				if x.Op == token.EQL || x.Op == token.NEQ {
					a, c = x.X, x.Y
				}
			case *ssa.Call:
				name := ""
				if cal := x.Common().StaticCallee(); cal != nil {
					name = cal.Name()
				} else if x.Common().IsInvoke() {
					name = x.Common().Method.Name()
				}
				switch name {
				case "ItemsEqual", "Equals", "Equal", "EqualFold":
					if args := allArgs(x); len(args) >= 2 {
						a, c = args[0], args[1]
					}
				}
			}
			if a != nil && c != nil && ((isP(a, 0) && isP(c, 1)) || (isP(a, 1) && isP(c, 0))) {
				res = true
			}
		}
	}
	cmpParamsMemo[f] = res
	return res
}

// counterOfStores: phi is a counter that starts at 0 and is incremented (by a positive constant) only in blocks where an
// entry was overwritten (a store block or one it dominates).
func counterOfStores(phi *ssa.Phi, storeBlocks []*ssa.BasicBlock, d int, seen map[*ssa.Phi]bool) bool {
	if d > 4 || seen[phi] {
		return true
	}
	seen[phi] = true
	incs := 0
	for _, e := range phi.Edges {
		switch x := e.(type) {
		case *ssa.Const:
			if x.Value == nil || x.Int64() != 0 {
				return false
			}
		case *ssa.Phi:
			if !counterOfStores(x, storeBlocks, d+1, seen) {
				return false
			}
		case *ssa.BinOp:
			k, ok := x.Y.(*ssa.Const)
			if x.Op != token.ADD || !ok || k.Value == nil || k.Int64() <= 0 {
				return false
			}
			if p, ok := x.X.(*ssa.Phi); !ok || !(p == phi || seen[p] || counterOfStores(p, storeBlocks, d+1, seen)) {
				return false
			}
			inStore := false
			for _, sb := range storeBlocks {
				if sb == x.Block() || sb.Dominates(x.Block()) {
					inStore = true
				}
			}
			if !inStore {
				return false
			}
			incs++
		default:
			return false
		}
	}
	return true
}

// textBasedCondition: the condition tests a byte-slice value (a text) that a call returned or that was loaded from a
// struct field, for nil or emptiness.
func textBasedCondition(v ssa.Value, d int) bool {
	if d > 5 || v == nil {
		return false
	}
	isText := func(x ssa.Value) bool {
		if !isByteSlice(x.Type()) {
			return false
		}
		switch y := x.(type) {
		case *ssa.Call:
			_, isBuiltin := y.Common().Value.(*ssa.Builtin)
			return !isBuiltin
		case *ssa.UnOp:
			_, isFA := y.X.(*ssa.FieldAddr)
			return y.Op == token.MUL && isFA
		case *ssa.Field:
			return true
		case *ssa.Extract:
			return true
		}
		return false
	}
	switch x := v.(type) {
	case *ssa.UnOp:
		return textBasedCondition(x.X, d+1)
	case *ssa.BinOp:
		for _, o := range []ssa.Value{x.X, x.Y} {
			if isText(o) {
				return true
			}
			if inner, isLen := lenOperand(o); isLen && isText(inner) {
				return true
			}
		}
		return false
	case *ssa.Phi:
		for _, e := range x.Edges {
			if textBasedCondition(e, d+1) {
				return true
			}
		}
	}
	return false
}

// isNilGuardedStrict: block b is only reached on the false side of IsNil(v) (alone or in a disjunction) for the same
// property v (same field of the same base).
func isNilGuardedStrict(v ssa.Value, b *ssa.BasicBlock) bool {
	same := func(a ssa.Value) bool {
		a, vv := unwrap(a), unwrap(v)
		if a == vv {
			return true
		}
		la, ok1 := a.(*ssa.UnOp)
		lv, ok2 := vv.(*ssa.UnOp)
		if !ok1 || !ok2 || la.Op != token.MUL || lv.Op != token.MUL {
			return false
		}
		fa, ok1 := la.X.(*ssa.FieldAddr)
		fv, ok2 := lv.X.(*ssa.FieldAddr)
		return ok1 && ok2 && fa.X == fv.X && fa.Field == fv.Field
	}
	for d := b; d != nil; d = d.Idom() {
		id := d.Idom()
		if id == nil {
			break
		}
		iff, ok := id.Instrs[len(id.Instrs)-1].(*ssa.If)
		if !ok {
			continue
		}
		side := -1
		for si, s := range id.Succs {
			if len(s.Preds) == 1 && (s == b || s.Dominates(b)) {
				side = si
			}
		}
		if side < 0 {
			continue
		}
		cond := iff.Cond
		onTrue := side == 0
		if n, isNot := cond.(*ssa.UnOp); isNot && n.Op == token.NOT {
			cond, onTrue = n.X, !onTrue
		}
		if onTrue {
			continue
		}
		for _, dj := range disjuncts(cond, 0) {
			if call, isCall := dj.(*ssa.Call); isCall {
				if cal := call.Common().StaticCallee(); cal != nil && cal.Name() == "IsNil" && len(call.Common().Args) == 1 && same(call.Common().Args[0]) {
					return true
				}
			}
		}
	}
	return false
}

// pairTableRows: a and b are two different columns (constant indices) of one element of a local literal array of
// arrays, the element being the loop variable of a range over that array. Returns, per row, the values stored into
// those two columns.
func pairTableRows(a, b ssa.Value) ([][2]ssa.Value, bool) {
	col := func(v ssa.Value) (*ssa.Alloc, int64, bool) {
		ld, ok := unwrap(v).(*ssa.UnOp)
		if !ok || ld.Op != token.MUL {
			return nil, 0, false
		}
		ia, ok := ld.X.(*ssa.IndexAddr)
		if !ok {
			return nil, 0, false
		}
		k, ok := ia.Index.(*ssa.Const)
		if !ok || k.Value == nil {
			return nil, 0, false
		}
		al, ok := ia.X.(*ssa.Alloc)
		if !ok {
			return nil, 0, false
		}
		return al, k.Int64(), true
	}
	la, ka, ok1 := col(a)
	lb, kb, ok2 := col(b)
	if !ok1 || !ok2 || la != lb || ka == kb {
		return nil, false
	}
	sts := storesTo(la)
	if len(sts) != 1 {
		return nil, false
	}
	// the loop variable receives table[i]
	var table *ssa.Alloc
	switch x := sts[0].Val.(type) {
	case *ssa.Index:
		if ld, ok := x.X.(*ssa.UnOp); ok && ld.Op == token.MUL {
			table, _ = ld.X.(*ssa.Alloc)
		}
	case *ssa.UnOp:
		if ia, ok := x.X.(*ssa.IndexAddr); ok && x.Op == token.MUL {
			switch y := ia.X.(type) {
			case *ssa.Alloc:
				table = y
			case *ssa.Slice:
				table, _ = y.X.(*ssa.Alloc)
			}
		}
	}
	if table == nil {
		return nil, false
	}
	at, ok := types.Unalias(table.Type().(*types.Pointer).Elem()).Underlying().(*types.Array)
	if !ok {
		return nil, false
	}
	rows := make([][2]ssa.Value, at.Len())
	fill := func(j int64, rowAddr ssa.Value) {
		// stores into rowAddr[k]
		if rowAddr.Referrers() == nil {
			return
		}
		for _, r := range *rowAddr.Referrers() {
			ia, ok := r.(*ssa.IndexAddr)
			if !ok {
				continue
			}
			k, ok := ia.Index.(*ssa.Const)
			if !ok || k.Value == nil || ia.Referrers() == nil {
				continue
			}
			for _, rr := range *ia.Referrers() {
				if st, ok := rr.(*ssa.Store); ok && st.Addr == ssa.Value(ia) && j < int64(len(rows)) {
					if k.Int64() == ka {
						rows[j][0] = st.Val
					} else if k.Int64() == kb {
						rows[j][1] = st.Val
					}
				}
			}
		}
	}
	if table.Referrers() == nil {
		return nil, false
	}
	for _, r := range *table.Referrers() {
		ia, ok := r.(*ssa.IndexAddr)
		if !ok {
			continue
		}
		jc, ok := ia.Index.(*ssa.Const)
		if !ok || jc.Value == nil {
			continue
		}
		j := jc.Int64()
		fill(j, ia) // &table[j][k] = v
		if ia.Referrers() == nil {
			continue
		}
		for _, rr := range *ia.Referrers() {
			// *(&table[j]) = *rowLiteral
			if st, ok := rr.(*ssa.Store); ok && st.Addr == ssa.Value(ia) {
				if ld, ok := st.Val.(*ssa.UnOp); ok && ld.Op == token.MUL {
					if rl, ok := ld.X.(*ssa.Alloc); ok {
						fill(j, rl)
					}
				}
			}
		}
	}
	for _, r := range rows {
		if r[0] == nil || r[1] == nil {
			return nil, false
		}
	}
	return rows, len(rows) > 0
}

// capturedIndexOf: v is (a field of) list[idx] with idx a phi that is not a loop counter (a remembered position);
// returns that phi.
func capturedIndexOf(v ssa.Value) *ssa.Phi {
	var ia *ssa.IndexAddr
	switch x := v.(type) {
	case *ssa.UnOp:
		if x.Op != token.MUL {
			return nil
		}
		switch a := x.X.(type) {
		case *ssa.FieldAddr:
			ia, _ = a.X.(*ssa.IndexAddr)
		case *ssa.IndexAddr:
			ia = a
		}
	case *ssa.Field:
		if ld, ok := x.X.(*ssa.UnOp); ok && ld.Op == token.MUL {
			ia, _ = ld.X.(*ssa.IndexAddr)
		}
	}
	if ia == nil {
		return nil
	}
	phi, _ := ia.Index.(*ssa.Phi)
	if phi == nil {
		return nil
	}
	// a loop counter feeds itself (i = i + 1): a remembered position does not
	for _, e := range phi.Edges {
		if bo, ok := e.(*ssa.BinOp); ok && (bo.X == ssa.Value(phi) || bo.Y == ssa.Value(phi)) {
			return nil
		}
	}
	return phi
}

// returnsConstFlag: every value fn can return is a boolean constant (through phis): a found flag.
func returnsConstFlag(fn *ssa.Function) bool {
	n := 0
	for _, rb := range returnBlocks(fn) {
		ret := rb.Instrs[len(rb.Instrs)-1].(*ssa.Return)
		if len(ret.Results) != 1 {
			return false
		}
		for _, leaf := range phiLeaves(ret.Results[0]) {
			if k, ok := leaf.(*ssa.Const); !ok || k.Value == nil || k.Value.Kind() != constant.Bool {
				return false
			}
			n++
		}
	}
	return n > 0
}

// checkEqualsComplete (C09.complete): inside an Equals method (and the callback it hands to a typed-view helper) every
// way out that can leave the verdict "equal" has passed the comparison of every property the unit compares — the
// branch that tests whether the property is set, or the comparison itself. A shortcut that returns early ("same id and
// same updated instant: same revision, no need to walk the properties") leaves every property uncompared for the
// values that take it: a copy that differs in any one of them stays equal to the original, in both argument orders.
func checkEqualsComplete(w *World, c *Check, pr *prover) {
	n := 0
	type eqRoot struct {
		name string
		m    *ssa.Function
	}
	var roots []eqRoot
	for _, s := range w.itemStructs() {
		roots = append(roots, eqRoot{s.Obj().Name() + ".Equals", w.Method(s.Obj().Name(), "Equals")})
	}
	// the comparison of two links, which ItemsEqual dispatches to, is a plain function
	roots = append(roots, eqRoot{"linksEqual", w.Func("linksEqual")})
	for _, s := range roots {
		m := s.m
		if m == nil || m.Blocks == nil {
			continue
		}
		units := append([]*ssa.Function{m}, allAnon(m)...)
		for ui, u := range units {
			// property regions: branch blocks whose condition reads property P of a vocabulary struct
			regions := map[string]map[*ssa.BasicBlock]bool{}
			for _, b := range u.Blocks {
				br, ok := b.Instrs[len(b.Instrs)-1].(*ssa.If)
				if !ok {
					continue
				}
				for _, r := range pr.prov(br.Cond).list() {
					if len(r.Names) == 0 || r.RootType == nil || w.StructInfoOf(r.RootType.Obj().Name()) == nil {
						continue
					}
					p := r.Names[0]
					if p == "ID" || p == "Type" {
						continue
					}
					if regions[p] == nil {
						regions[p] = map[*ssa.BasicBlock]bool{}
					}
					regions[p][b] = true
				}
			}
			if len(regions) < 2 {
				continue
			}
			var props []string
			for p := range regions {
				props = append(props, p)
			}
			sort.Strings(props)
			nR := 0
			// blocks that settle the verdict "not equal": a store of the constant false into the verdict variable. Paths
			// through them are not paths to an "equal" verdict.
			isFalse := func(v ssa.Value) bool {
				k, ok := v.(*ssa.Const)
				return ok && k.Value != nil && k.Value.Kind() == constant.Bool && !constant.BoolVal(k.Value)
			}
			blocked := map[*ssa.BasicBlock]bool{}
			storesFalse := func(in ssa.Instruction) bool {
				if st, ok := in.(*ssa.Store); ok && isFalse(st.Val) {
					switch st.Addr.(type) {
					case *ssa.FreeVar, *ssa.Alloc:
						return true
					}
				}
				return false
			}
			for _, b := range u.Blocks {
				for _, in := range b.Instrs {
					if storesFalse(in) {
						blocked[b] = true
					}
					// … or a call of a local closure that does so on every path (mismatch := func() error { equal = false; return nil })
					if call, ok := in.(*ssa.Call); ok {
						if g := resolveClosureFn(pr, call.Common().Value, 0); g != nil && g.Blocks != nil {
							for _, gb := range g.Blocks {
								if !dominatesAllReturns(gb) {
									continue
								}
								for _, gin := range gb.Instrs {
									if storesFalse(gin) {
										blocked[b] = true
									}
								}
							}
						}
					}
				}
			}
			for _, rb := range returnBlocks(u) {
				ret := rb.Instrs[len(rb.Instrs)-1].(*ssa.Return)
				if len(ret.Results) == 1 {
					if phi, ok := ret.Results[0].(*ssa.Phi); ok && phi.Block() == rb {
						for ei, e := range phi.Edges {
							if isFalse(e) && len(rb.Preds[ei].Succs) == 1 {
								blocked[rb.Preds[ei]] = true
							}
						}
					}
				}
			}
			for _, rb := range returnBlocks(u) {
				ret := rb.Instrs[len(rb.Instrs)-1].(*ssa.Return)
				// a verdict of "not equal": the constant false, or a store of false into the captured verdict right here
				falseVerdict := blocked[rb]
				if len(ret.Results) == 1 {
					if k, ok := ret.Results[0].(*ssa.Const); ok && k.Value != nil && k.Value.Kind() == constant.Bool && !constant.BoolVal(k.Value) {
						falseVerdict = true
					}
				}
				for _, in := range rb.Instrs {
					if st, ok := in.(*ssa.Store); ok {
						if k, isC := st.Val.(*ssa.Const); isC && k.Value != nil && k.Value.Kind() == constant.Bool && !constant.BoolVal(k.Value) {
							if _, isFV := st.Addr.(*ssa.FreeVar); isFV {
								falseVerdict = true
							}
						}
					}
				}
				if falseVerdict {
					continue
				}
				nR++
				var missed []string
				for _, p := range props {
					if regions[p][rb] {
						continue
					}
					// path search that knows the outcome of a branch on a short-circuit phi for the edge it came in by
					// (agrees := A && B && …; if !agrees { result = false }: coming from "A is false" the store is taken)
					type at struct{ b, from *ssa.BasicBlock }
					seenB := map[at]bool{}
					work := []at{{u.Blocks[0], nil}}
					reached := false
					for len(work) > 0 && !reached {
						cur := work[len(work)-1]
						work = work[:len(work)-1]
						b := cur.b
						if seenB[cur] || regions[p][b] || blocked[b] {
							continue
						}
						seenB[cur] = true
						if b == rb {
							reached = true
							// return A && B && …: arriving by an edge on which the returned phi is the constant false is a
							// verdict of "not equal"
							if len(ret.Results) == 1 && cur.from != nil {
								if phi, isPhi := ret.Results[0].(*ssa.Phi); isPhi && phi.Block() == rb {
									for pi, pb := range rb.Preds {
										if pb == cur.from && pi < len(phi.Edges) && isFalse(phi.Edges[pi]) {
											reached = false
										}
									}
								}
							}
						}
						succs := b.Succs
						if br, isIf := b.Instrs[len(b.Instrs)-1].(*ssa.If); isIf && cur.from != nil && len(b.Succs) == 2 {
							cnd, neg := br.Cond, false
							for {
								un, isNot := cnd.(*ssa.UnOp)
								if !isNot || un.Op != token.NOT {
									break
								}
								cnd, neg = un.X, !neg
							}
							if phi, isPhi := cnd.(*ssa.Phi); isPhi && phi.Block() == b {
								for pi, pb := range b.Preds {
									if pb != cur.from || pi >= len(phi.Edges) {
										continue
									}
									if k, isC := phi.Edges[pi].(*ssa.Const); isC && k.Value != nil && k.Value.Kind() == constant.Bool {
										if constant.BoolVal(k.Value) != neg {
											succs = b.Succs[:1]
										} else {
											succs = b.Succs[1:]
										}
									}
								}
							}
						}
						// the nil side of a test of an operand is not a comparison of two values (if l == nil || w == nil { return l == w })
						if br, isIf := b.Instrs[len(b.Instrs)-1].(*ssa.If); isIf && len(b.Succs) == 2 && len(succs) == 2 {
							for _, prm := range u.Params {
								if side, isNilTest := nilSideOf(br.Cond, prm); isNilTest {
									succs = []*ssa.BasicBlock{b.Succs[1-side]}
								}
							}
						}
						for _, sc := range succs {
							work = append(work, at{sc, b})
						}
					}
					if reached {
						missed = append(missed, p)
					}
				}
				n++
				key := fmt.Sprintf("%s:unit#%d:return#%d", s.name, ui, nR)
				if len(missed) > 0 {
					c.bad("C09.complete", key, w.InstrPos(ret), fmt.Sprintf("%s can report 'equal' on a path that has compared none of %s: whatever decides to take that path (same id, same timestamp, a cached verdict) stands in for the properties, so a copy that differs in one of them still compares equal", funcName(u), strings.Join(missed, ", ")))
				} else {
					c.ok("C09.complete", key, w.InstrPos(ret), fmt.Sprintf("every path passes the comparison of all %d properties", len(props)))
				}
			}
		}
	}
	c.stat("equals_exits", n)
}

// resolveClosureFn: the function a called function value stands for when it is a closure made in this function or in an
// enclosing one (directly, through a local it was assigned to once, or through a captured such local).
func resolveClosureFn(pr *prover, v ssa.Value, d int) *ssa.Function {
	if v == nil || d > 5 {
		return nil
	}
	switch x := v.(type) {
	case *ssa.MakeClosure:
		f, _ := x.Fn.(*ssa.Function)
		return f
	case *ssa.Function:
		if x.Parent() != nil {
			return x
		}
	case *ssa.UnOp:
		if x.Op != token.MUL {
			return nil
		}
		switch a := x.X.(type) {
		case *ssa.Alloc:
			if sts := storesTo(a); len(sts) == 1 {
				return resolveClosureFn(pr, sts[0].Val, d+1)
			}
		case *ssa.FreeVar:
			if b, ok := pr.fvMap[a]; ok {
				if al, isAl := b.(*ssa.Alloc); isAl {
					if sts := storesTo(al); len(sts) == 1 {
						return resolveClosureFn(pr, sts[0].Val, d+1)
					}
				}
				return resolveClosureFn(pr, b, d+1)
			}
		}
	case *ssa.FreeVar:
		if b, ok := pr.fvMap[x]; ok {
			return resolveClosureFn(pr, b, d+1)
		}
	}
	return nil
}
