package main

import (
	"fmt"
	"go/constant"
	"go/token"
	"go/types"
	"strings"

	"golang.org/x/tools/go/ssa"
)

func init() {
	register("C10", checkC10)
	register("C11", checkC11)
}

// describeRecipientArg classifies one element of the variadic argument of ItemCollectionDeduplication.
func describeRecipientArg(pr *prover, recv ssa.Value, v ssa.Value) string {
	switch x := v.(type) {
	case *ssa.FieldAddr:
		if fp, ok := pr.structPath(x, 0); ok && len(fp.Idx) == 1 && fp.Root == pr.canonicalRoot(recv) {
			return "&" + fp.Names[0]
		}
		return "&?field"
	case *ssa.Alloc:
		stores := storesTo(x)
		if len(stores) == 1 {
			val := stores[0].Val
			// aud := r.Audience
			if fp, ok := pr.fieldOf(val); ok && len(fp.Idx) == 1 && fp.Root == pr.canonicalRoot(recv) {
				return "copy(" + fp.Names[0] + ")"
			}
			// &ItemCollection{r.Actor}
			if sl, ok := val.(*ssa.Slice); ok {
				if arr, ok := sl.X.(*ssa.Alloc); ok {
					var names []string
					// elements stored through the array (composite literal) or through the slice / the local holding it
					// (make followed by element assignments)
					bases := []ssa.Value{arr, sl}
					if refs := x.Referrers(); refs != nil {
						for _, r := range *refs {
							if ld, ok := r.(*ssa.UnOp); ok && ld.Op == token.MUL {
								bases = append(bases, ld)
							}
						}
					}
					for _, base := range bases {
						refs := base.Referrers()
						if refs == nil {
							continue
						}
						for _, r := range *refs {
							if ia, ok := r.(*ssa.IndexAddr); ok && ia.Referrers() != nil {
								for _, rr := range *ia.Referrers() {
									if st, ok := rr.(*ssa.Store); ok && st.Addr == ia {
										if fp, ok := pr.fieldOf(st.Val); ok && len(fp.Idx) == 1 && fp.Root == pr.canonicalRoot(recv) {
											names = append(names, fp.Names[0])
										} else {
											names = append(names, "?")
										}
									}
								}
							}
						}
					}
					return "[" + strings.Join(names, ",") + "]"
				}
			}
		}
		// actor := make(ItemCollection, 1); actor[0] = r.Actor; &actor
		if len(stores) == 1 {
			if mk, ok := stores[0].Val.(*ssa.MakeSlice); ok {
				var bases []ssa.Value
				bases = append(bases, mk)
				if refs := x.Referrers(); refs != nil {
					for _, r := range *refs {
						if ld, ok := r.(*ssa.UnOp); ok && ld.Op == token.MUL {
							bases = append(bases, ld)
						}
					}
				}
				var names []string
				for _, b := range bases {
					if b.Referrers() == nil {
						continue
					}
					for _, r := range *b.Referrers() {
						ia, ok := r.(*ssa.IndexAddr)
						if !ok || ia.Referrers() == nil {
							continue
						}
						for _, rr := range *ia.Referrers() {
							if st, ok := rr.(*ssa.Store); ok && st.Addr == ia {
								if fp, ok := pr.fieldOf(st.Val); ok && len(fp.Idx) == 1 && fp.Root == pr.canonicalRoot(recv) {
									names = append(names, fp.Names[0])
								} else {
									names = append(names, "?")
								}
							}
						}
					}
				}
				if k, ok := mk.Len.(*ssa.Const); ok && int(k.Int64()) == len(names) {
					return "[" + strings.Join(names, ",") + "]"
				}
			}
		}
		return "&?local"
	}
	return "?"
}

func checkC10(w *World, c *Check, tier string) {
	c.Exhaustive = true
	c.Explanation = "Decides the sibling-agreement clause of the property: each of the Recipients() methods of the addressable types (found by method set) makes exactly one call of ItemCollectionDeduplication whose variadic argument is, in this order, the addresses of the receiver's own To, CC, Bto, BCC lists, then — for IntransitiveActivity and Question only — a fresh list holding the receiver's Actor, then the address of a local copy of Audience; the call's result is what is returned. For Activity, the removal of a Block's object is guarded by the comparison with BlockType and by object != nil, reaches a function that reassigns all five addressing lists, and cannot run after the de-duplication. Swapping two lists, dropping one, passing a copy instead of the field's address (the in-place removal would be lost) or moving the Block removal changes the result for every addressing. NOT decided: the index arithmetic of the in-place removal for every duplicate pattern, IRI equivalence classes, the backing array shared by the audience copy."
	c.RuleText = "one obligation per Recipients() implementation (argument schema) + Block-path obligations; exhaustive over implementers of HasRecipients"
	c.Trusted = []string{"go/types method sets, go/ssa", "apcheck prov.go"}
	c.floor("C10.order", 12)
	c.floor("C10.block", 3)
	c.floor("C10.accessor", 56)
	checkAccessors(w, c, "C10.accessor", []string{"IsObject", "IsLink", "GetID", "GetLink"})
	pr := newProver(w)
	dedup := w.Func("ItemCollectionDeduplication")
	if dedup == nil {
		c.bad("C10.order", "anchor:ItemCollectionDeduplication", "-", "anchor not found")
		return
	}
	for _, s := range w.itemStructs() {
		name := s.Obj().Name()
		m := w.Method(name, "Recipients")
		if m == nil {
			if name == "Link" {
				continue // links are not addressable
			}
			c.bad("C10.order", name+".Recipients", "-", name+" has no Recipients method")
			continue
		}
		if _, isPtr := m.Signature.Recv().Type().(*types.Pointer); !isPtr {
			c.bad("C10.order", name+".Recipients", w.FuncPos(m), "Recipients has a value receiver: the de-duplication cannot be visible in the value's own lists")
			continue
		}
		var calls []*ssa.Call
		for _, call := range callsIn(m) {
			if call.Common().StaticCallee() == dedup {
				calls = append(calls, call)
			}
		}
		if len(calls) != 1 {
			c.bad("C10.order", name+".Recipients", w.FuncPos(m), fmt.Sprintf("expected exactly one call of ItemCollectionDeduplication, found %d", len(calls)))
			continue
		}
		call := calls[0]
		elems, ok := variadicElems(call.Common().Args[0])
		if !ok {
			c.bad("C10.order", name+".Recipients", w.InstrPos(call), "cannot resolve the list of recipient collections passed to ItemCollectionDeduplication")
			continue
		}
		var got []string
		for _, e := range elems {
			got = append(got, describeRecipientArg(pr, m.Params[0], e))
		}
		want := []string{"&To", "&CC", "&Bto", "&BCC"}
		if name == "IntransitiveActivity" || name == "Question" {
			want = append(want, "[Actor]")
		}
		want = append(want, "copy(Audience)")
		// the result must be returned
		returned := false
		for _, rb := range returnBlocks(m) {
			ret := rb.Instrs[len(rb.Instrs)-1].(*ssa.Return)
			if len(ret.Results) == 1 && ret.Results[0] == ssa.Value(call) {
				returned = true
			}
		}
		if strings.Join(got, " ") != strings.Join(want, " ") {
			c.bad("C10.order", name+".Recipients", w.InstrPos(call), fmt.Sprintf("recipient collections are passed as [%s], the documented scan order is [%s]", strings.Join(got, " "), strings.Join(want, " ")))
		} else if !returned {
			c.bad("C10.order", name+".Recipients", w.InstrPos(call), "the de-duplicated list is not what Recipients returns")
		} else {
			c.ok("C10.order", name+".Recipients", w.InstrPos(call), strings.Join(got, " "))
		}
	}

	checkSplice(w, c, pr, "C10.splice", dedup)

	// ---- Block ----
	act := w.Method("Activity", "Recipients")
	if act == nil {
		c.bad("C10.block", "anchor:Activity.Recipients", "-", "not found")
		return
	}
	actInfo := w.StructInfoOf("Activity")
	// find the removal call: a callee that stores into all five addressing lists of its *Activity parameter
	five := []string{"To", "Bto", "CC", "BCC", "Audience"}
	var rmCall *ssa.Call
	var dedupCall *ssa.Call
	for _, call := range callsIn(act) {
		cal := call.Common().StaticCallee()
		if cal == dedup {
			dedupCall = call
			continue
		}
		if cal == nil || !w.InPkg(cal) {
			continue
		}
		stored := map[string]bool{}
		for _, b := range cal.Blocks {
			for _, in := range b.Instrs {
				if st, ok := in.(*ssa.Store); ok {
					if fp, ok := pr.fieldOf(st.Addr); ok && len(fp.Idx) == 1 && fp.RootType == actInfo.Named {
						stored[fp.Names[0]] = true
					}
					// `for _, col := range [...]*ItemCollection{&a.To, …} { *col = … }`: a store through an element of a local
					// array of field addresses writes each of those fields
					for _, fa := range pointerArrayElems(st.Addr) {
						if fp, ok := pr.fieldOf(fa); ok && len(fp.Idx) == 1 && fp.RootType == actInfo.Named {
							stored[fp.Names[0]] = true
						}
					}
				}
			}
		}
		all := true
		for _, f := range five {
			if !stored[f] {
				all = false
			}
		}
		if all {
			rmCall = call
		}
	}
	if rmCall == nil {
		c.bad("C10.block", "removal-call", w.FuncPos(act), "Activity.Recipients no longer calls a function that removes items from all five addressing lists (to, bto, cc, bcc, audience)")
		return
	}
	c.ok("C10.block", "removal-call", w.InstrPos(rmCall), funcName(rmCall.Common().StaticCallee())+" reassigns To, Bto, CC, BCC, Audience")
	if dedupCall != nil {
		if reaches(dedupCall.Block(), rmCall.Block()) && dedupCall.Block() != rmCall.Block() || (dedupCall.Block() == rmCall.Block() && instrIndex(dedupCall) < instrIndex(rmCall)) {
			c.bad("C10.block", "removal-precedes-dedup", w.InstrPos(rmCall), "the Block object's removal can run after the de-duplication: the returned list may still name the blocked object")
		} else if !reaches(rmCall.Block(), dedupCall.Block()) {
			c.bad("C10.block", "removal-precedes-dedup", w.InstrPos(rmCall), "the removal is not followed by the de-duplication")
		} else {
			c.ok("C10.block", "removal-precedes-dedup", w.InstrPos(rmCall), "removal is before the de-duplication on every path that contains both")
		}
	}
	// the audience copy handed to the de-duplication must be taken after the removal, or the returned list is
	// computed from the unfiltered audience
	if dedupCall != nil {
		if elems, ok := variadicElems(dedupCall.Common().Args[0]); ok {
			for _, e := range elems {
				al, isAlloc := e.(*ssa.Alloc)
				if !isAlloc {
					continue
				}
				for _, st := range storesTo(al) {
					ld, isLoad := unwrap(st.Val).(*ssa.UnOp)
					if !isLoad {
						continue
					}
					if fp, ok := pr.fieldOf(ld); !ok || len(fp.Names) != 1 || fp.Names[0] != "Audience" {
						continue
					}
					before := (ld.Block() != rmCall.Block() && reaches(ld.Block(), rmCall.Block())) || (ld.Block() == rmCall.Block() && instrIndex(ld) < instrIndex(rmCall))
					if before {
						c.bad("C10.block", "audience-copy-after-removal", w.InstrPos(ld), "the copy of Audience that is de-duplicated is taken before the Block object's removal: the returned recipients are computed from the unfiltered audience")
					} else {
						c.ok("C10.block", "audience-copy-after-removal", w.InstrPos(ld), "the audience is copied after the removal")
					}
				}
			}
		}
	}
	// what is removed derives from a.Object, under the Block guard
	objDerived := false
	for _, a := range rmCall.Common().Args[1:] {
		for _, fp := range pr.provDeep(a).list() {
			if len(fp.Names) == 1 && fp.Names[0] == "Object" {
				objDerived = true
			}
		}
	}
	if objDerived {
		c.ok("C10.block", "removes-object", w.InstrPos(rmCall), "the removed items derive from the activity's object")
	} else {
		c.bad("C10.block", "removes-object", w.InstrPos(rmCall), "the items removed from the audience do not derive from the activity's object")
	}
	// guard: some store/append that feeds the removal list is guarded by type == BlockType
	blockGuard := false
	blockConst := w.ConstsOfType("ActivityVocabularyType")["BlockType"]
	for _, b := range act.Blocks {
		for _, in := range b.Instrs {
			bo, ok := in.(*ssa.BinOp)
			if !ok || (bo.Op != token.EQL && bo.Op != token.NEQ) {
				continue
			}
			for _, side := range []ssa.Value{bo.X, bo.Y} {
				if s, ok := constString(side); ok && s == blockConst && blockConst != "" {
					blockGuard = true
				}
			}
		}
	}
	if blockGuard {
		c.ok("C10.block", "block-guard", w.FuncPos(act), "the removal path is selected by a comparison with BlockType")
	} else {
		c.bad("C10.block", "block-guard", w.FuncPos(act), "Activity.Recipients no longer compares the activity type with BlockType")
	}
	checkBlockRemovalTest(w, c, rmCall.Common().StaticCallee())
}

// checkBlockRemovalTest: inside the functions that take the blocked items out of the addressing lists
//   - (removal-by-id) the test that selects an entry for removal is the id comparison — IRI.Equals between the ids/links
//     of the list entry and of the blocked item. "Addressed nowhere afterwards" is about identity: a structural equality
//     (ItemsEqual / an Equals method of the items) is stricter than identity, so the blocked actor survives wherever it is
//     embedded in a different form (a stub with only id and type, a copy with another name);
//   - (nil-entries) every method call on a list entry or on a blocked item is under a test that the value is not nil:
//     nil entries are to be left alone, and calling GetID on a nil interface faults.
func checkBlockRemovalTest(w *World, c *Check, root *ssa.Function) {
	if root == nil {
		return
	}
	iriEq := w.Method("IRI", "Equals")
	// the removal functions: what root calls directly or through its own helpers, not descending into the comparison
	// primitives themselves (IRI.Equals, ItemsEqual, IsNil and everything reached through an interface)
	var fns []*ssa.Function
	seenFn := map[*ssa.Function]bool{root: true}
	work := []*ssa.Function{root}
	for len(work) > 0 {
		f := work[0]
		work = work[1:]
		fns = append(fns, f)
		for _, g := range append([]*ssa.Function{f}, allAnon(f)...) {
			for _, call := range callsIn(g) {
				cal := call.Common().StaticCallee()
				if cal == nil || seenFn[cal] || !w.InPkg(cal) || cal.Blocks == nil || cal == iriEq || cal.Signature.Recv() != nil {
					continue
				}
				switch cal.Name() {
				case "ItemsEqual", "IsNil", "IsNotNil":
					continue
				}
				seenFn[cal] = true
				work = append(work, cal)
			}
		}
	}
	if len(fns) == 0 {
		c.bad("C10.block", "removal-by-id", w.FuncPos(root), "cannot find the function that walks an addressing list below "+funcName(root)+" (undecided)")
		return
	}
	idTests, structTests := 0, []string{}
	for _, f := range fns {
		for _, b := range f.Blocks {
			iff, ok := b.Instrs[len(b.Instrs)-1].(*ssa.If)
			if !ok {
				continue
			}
			for _, d := range disjuncts(iff.Cond, 0) {
				if n, isNot := d.(*ssa.UnOp); isNot && n.Op == token.NOT {
					d = n.X
				}
				call, isCall := d.(*ssa.Call)
				if !isCall {
					continue
				}
				cal := call.Common().StaticCallee()
				switch {
				case cal != nil && cal == iriEq:
					idTests++
				case cal != nil && cal.Name() == "ItemsEqual", cal != nil && cal.Name() == "Equals" && cal != iriEq,
					call.Common().IsInvoke() && call.Common().Method.Name() == "Equals":
					structTests = append(structTests, funcName(f)+" at "+w.InstrPos(call))
				}
			}
		}
	}
	switch {
	case len(structTests) > 0:
		c.bad("C10.block", "removal-by-id", w.FuncPos(fns[0]), fmt.Sprintf("the entry to remove is selected by a structural equality (%s), not by comparing ids: a blocked actor that is embedded in the addressing in another form than in the Block's object (a stub, a copy with different properties) is not recognised and stays addressed", strings.Join(structTests, ", ")))
	case idTests == 0:
		c.bad("C10.block", "removal-by-id", w.FuncPos(fns[0]), "no id comparison (IRI.Equals) selects the entries to remove")
	default:
		c.ok("C10.block", "removal-by-id", w.FuncPos(fns[0]), fmt.Sprintf("%d id comparison(s), no structural equality", idTests))
	}
	// nil entries
	var unguarded []string
	ninv := 0
	for _, f := range fns {
		for _, b := range f.Blocks {
			for _, in := range b.Instrs {
				call, ok := in.(*ssa.Call)
				if !ok || !call.Common().IsInvoke() {
					continue
				}
				recv := call.Common().Value
				if !isListElementOrVariadic(recv) {
					continue
				}
				ninv++
				if !guardedNotNilLike(recv, b) {
					unguarded = append(unguarded, fmt.Sprintf("%s.%s() at %s", shortVal(recv), call.Common().Method.Name(), w.InstrPos(call)))
				}
			}
		}
	}
	if len(unguarded) > 0 {
		c.bad("C10.block", "nil-entries", w.FuncPos(fns[0]), fmt.Sprintf("a method is called on a list entry / blocked item that no test has found non-nil (%s): a nil entry in to/cc/bto/bcc/audience of a Block activity makes Recipients() fault instead of leaving the entry alone", strings.Join(unguarded, ", ")))
	} else {
		c.ok("C10.block", "nil-entries", w.FuncPos(fns[0]), fmt.Sprintf("%d method calls on entries, each under a not-nil test", ninv))
	}
}

// disjuncts: the conditions c1, c2, … such that cond == c1 || c2 || … (go/ssa lowers || to a phi whose constant-true
// edges come from the blocks that tested the earlier operands).
func disjuncts(cond ssa.Value, depth int) []ssa.Value {
	phi, ok := cond.(*ssa.Phi)
	if !ok || depth > 6 {
		return []ssa.Value{cond}
	}
	var out []ssa.Value
	for i, e := range phi.Edges {
		p := phi.Block().Preds[i]
		if k, isConst := e.(*ssa.Const); isConst && k.Value != nil && k.Value.Kind() == constant.Bool {
			if constant.BoolVal(k.Value) {
				if iff, ok := p.Instrs[len(p.Instrs)-1].(*ssa.If); ok && p.Succs[0] == phi.Block() {
					out = append(out, disjuncts(iff.Cond, depth+1)...)
					continue
				}
				return []ssa.Value{cond}
			}
			continue
		}
		out = append(out, disjuncts(e, depth+1)...)
	}
	if len(out) == 0 {
		return []ssa.Value{cond}
	}
	return out
}

// isListElementOrVariadic: v is an element loaded from a slice (range variable) — entries of a list of items.
func isListElementOrVariadic(v ssa.Value) bool {
	v = unwrap(v)
	ld, ok := v.(*ssa.UnOp)
	if !ok || ld.Op != token.MUL {
		return false
	}
	_, isIA := ld.X.(*ssa.IndexAddr)
	return isIA
}

// guardedNotNilLike: block b is only reached when v was found not nil: the false side of IsNil(v) (alone or in a
// disjunction), the true side of v != nil, or the false side of v == nil.
func guardedNotNilLike(v ssa.Value, b *ssa.BasicBlock) bool {
	same := func(a ssa.Value) bool {
		a, vv := unwrap(a), unwrap(v)
		if a == vv {
			return true
		}
		la, ok1 := a.(*ssa.UnOp)
		lv, ok2 := vv.(*ssa.UnOp)
		return ok1 && ok2 && la.Op == token.MUL && lv.Op == token.MUL && la.X == lv.X
	}
	for d := b; d != nil; d = d.Idom() {
		id := d.Idom()
		if id == nil {
			break
		}
		iff, ok := id.Instrs[len(id.Instrs)-1].(*ssa.If)
		if !ok {
			continue
		}
		side := -1
		for si, s := range id.Succs {
			if len(s.Preds) == 1 && (s == b || s.Dominates(b)) {
				side = si
			}
		}
		if side < 0 {
			continue
		}
		cond := iff.Cond
		onTrue := side == 0
		if n, isNot := cond.(*ssa.UnOp); isNot && n.Op == token.NOT {
			cond, onTrue = n.X, !onTrue
		}
		if !onTrue {
			// every disjunct is false here
			for _, dj := range disjuncts(cond, 0) {
				if call, isCall := dj.(*ssa.Call); isCall {
					if cal := call.Common().StaticCallee(); cal != nil && cal.Name() == "IsNil" && len(call.Common().Args) == 1 && same(call.Common().Args[0]) {
						return true
					}
				}
				if bo, isBo := dj.(*ssa.BinOp); isBo && bo.Op == token.EQL && ((isNilConst(bo.Y) && same(bo.X)) || (isNilConst(bo.X) && same(bo.Y))) {
					return true
				}
			}
		} else if bo, isBo := cond.(*ssa.BinOp); isBo && bo.Op == token.NEQ && ((isNilConst(bo.Y) && same(bo.X)) || (isNilConst(bo.X) && same(bo.Y))) {
			return true
		}
	}
	return false
}

func instrIndex(in ssa.Instruction) int {
	for i, x := range in.Block().Instrs {
		if x == in {
			return i
		}
	}
	return -1
}

// provDeep: provenance that also follows values accumulated in local slices through append.
func (p *prover) provDeep(v ssa.Value) *provSet {
	r := newProv()
	seen := map[ssa.Value]bool{}
	var visit func(v ssa.Value, d int)
	visit = func(v ssa.Value, d int) {
		if v == nil || seen[v] || d > 20 {
			return
		}
		seen[v] = true
		r.merge(p.prov(v))
		switch x := v.(type) {
		case *ssa.Call:
			for _, a := range x.Common().Args {
				visit(a, d+1)
			}
		case *ssa.Phi:
			for _, e := range x.Edges {
				visit(e, d+1)
			}
		case *ssa.Slice:
			visit(x.X, d+1)
		case *ssa.Alloc:
			if refs := x.Referrers(); refs != nil {
				for _, rr := range *refs {
					switch y := rr.(type) {
					case *ssa.Store:
						if y.Addr == x {
							visit(y.Val, d+1)
						}
					case *ssa.IndexAddr:
						if y.Referrers() != nil {
							for _, r3 := range *y.Referrers() {
								if st, ok := r3.(*ssa.Store); ok && st.Addr == y {
									visit(st.Val, d+1)
								}
							}
						}
					}
				}
			}
		case *ssa.MakeInterface:
			visit(x.X, d+1)
		case *ssa.ChangeType:
			visit(x.X, d+1)
		case *ssa.ChangeInterface:
			visit(x.X, d+1)
		case *ssa.Convert:
			visit(x.X, d+1)
		case *ssa.UnOp:
			visit(x.X, d+1)
		}
	}
	visit(v, 0)
	return r
}

// ---------------- C11 ----------------

var c11Walk = []string{"Audience", "Attachment", "Icon", "Image", "Context", "Generator", "AttributedTo", "Preview", "Tag"}
var c11ActivityWalk = []string{"Object", "Actor", "Target"}

func checkC11(w *World, c *Check, tier string) {
	c.Exhaustive = true
	c.Explanation = "The recipient-stripping walk is the code's own shape, so most of the property is decided: (impl) a pointer to each of the 13 object struct types implements Clean/Recipients and item lists have Clean; (trunc) Object.Clean stores a statically zero-length list into both Bto and BCC and nothing else into them; (walk) Object.Clean hands each of audience, attachment, icon, image, context, generator, attributedTo, preview, tag — and Activity.Clean additionally object, actor, target — to CleanRecipients; (delegate) by abstract interpretation, Clean() on a non-nil value of every other type definitely reaches (*Object).Clean on a view of its own receiver, from a call that lies on every path; (recurse) CleanRecipients on a non-nil pointer of each type, and on a list holding one, reaches that type's Clean; (frame) the only fields of vocabulary structs written anywhere in the Clean closures are Bto and BCC (plus list element slots). NOT decided: values embedded by value (outside the statement), aliasing of list backing arrays."
	c.RuleText = "obligations: 13 types x {impl, delegate, recurse} + 2 truncations + 12 walked properties + write-frame of the closure; exhaustive"
	c.Trusted = []string{"go/types, go/ssa", "apcheck abstract interpreter, prov.go"}
	c.floor("C11.impl", 13)
	c.floor("C11.walk", 12)
	// CleanRecipients and the walk skip what is not an object: the kind predicates of the struct types are constants
	c.floor("C11.accessor", 28)
	checkAccessors(w, c, "C11.accessor", []string{"IsObject", "IsLink"})
	c.floor("C11.delegate", 12)
	c.floor("C11.recurse", 13)
	pr := newProver(w)
	hasRecip, _ := w.Types.Scope().Lookup("HasRecipients").(*types.TypeName)
	var hrIface *types.Interface
	if hasRecip != nil {
		hrIface, _ = hasRecip.Type().Underlying().(*types.Interface)
	}
	if hrIface == nil {
		c.bad("C11.impl", "anchor:HasRecipients", "-", "interface HasRecipients not found")
		return
	}
	objClean := w.Method("Object", "Clean")
	cleanRecipients := w.Func("CleanRecipients")
	if objClean == nil || cleanRecipients == nil {
		c.bad("C11.walk", "anchor", "-", "Object.Clean / CleanRecipients not found")
		return
	}
	var objTypes []*types.Named
	for _, s := range w.itemStructs() {
		if s.Obj().Name() == "Link" {
			continue
		}
		objTypes = append(objTypes, s)
		if types.Implements(types.NewPointer(s), hrIface) {
			c.ok("C11.impl", s.Obj().Name(), "-", "*"+s.Obj().Name()+" implements HasRecipients")
		} else {
			c.bad("C11.impl", s.Obj().Name(), "-", "*"+s.Obj().Name()+" does not implement HasRecipients (Clean/Recipients): CleanRecipients silently skips values of this type")
		}
	}
	if ic := w.Named("ItemCollection"); ic != nil && types.Implements(ic, hrIface) {
		c.ok("C11.impl", "ItemCollection", "-", "ItemCollection implements HasRecipients")
	} else {
		c.bad("C11.impl", "ItemCollection", "-", "ItemCollection does not implement HasRecipients: lists in walked properties are skipped")
	}

	// ---- trunc ----
	objInfo := w.StructInfoOf("Object")
	truncated := map[string]string{}
	for _, b := range objClean.Blocks {
		for _, in := range b.Instrs {
			st, ok := in.(*ssa.Store)
			if !ok {
				continue
			}
			fp, ok := pr.fieldOf(st.Addr)
			if !ok || len(fp.Idx) != 1 || fp.RootType != objInfo.Named {
				continue
			}
			f := fp.Names[0]
			if f != "Bto" && f != "BCC" {
				c.bad("C11.frame", "Object.Clean:writes:"+f, w.InstrPos(in), "Object.Clean writes "+f+", a property it must leave unchanged")
				continue
			}
			if isZeroLenSlice(st.Val) {
				if truncated[f] == "" {
					truncated[f] = "ok"
				}
			} else {
				truncated[f] = "non-empty value stored"
			}
		}
	}
	for _, f := range []string{"Bto", "BCC"} {
		switch truncated[f] {
		case "ok":
			c.ok("C11.trunc", "Object."+f, w.FuncPos(objClean), "set to a zero-length list")
		case "":
			c.bad("C11.trunc", "Object."+f, w.FuncPos(objClean), "Object.Clean does not empty "+f+": private recipients stay in what gets serialised")
		default:
			c.bad("C11.trunc", "Object."+f, w.FuncPos(objClean), "Object.Clean stores a possibly non-empty list into "+f)
		}
	}

	// ---- walk ----
	var walkedOf func(fn *ssa.Function, recv int, depth int) map[string]bool
	walkedOf = func(fn *ssa.Function, recv int, depth int) map[string]bool {
		got := map[string]bool{}
		if recv >= len(fn.Params) || depth > 3 {
			return got
		}
		for _, call := range callsIn(fn) {
			cal := call.Common().StaticCallee()
			if cal == nil || len(call.Common().Args) == 0 {
				continue
			}
			if cal == cleanRecipients && !dominatesAllReturns(call.Block()) {
				// for _, p := range [...]*Item{&x.A, &x.B} { CleanRecipients(*p) }: every listed property, on every trip
				if ld, isLoad := unwrap(call.Common().Args[0]).(*ssa.UnOp); isLoad && ld.Op == token.MUL {
					if elems, h, isLit := rangedLiteralElem(ld.X); isLit && everyIteration(call.Block(), h) && dominatesAllReturns(h) {
						for _, e := range elems {
							if fa, isFA := e.(*ssa.FieldAddr); isFA {
								if fp, ok := pr.structPath(fa, 0); ok && len(fp.Idx) == 1 && fp.Root == pr.canonicalRoot(fn.Params[recv]) {
									got[fp.Names[0]] = true
								}
							}
						}
					}
				}
				continue
			}
			if !dominatesAllReturns(call.Block()) {
				continue
			}
			if cal == cleanRecipients {
				if fp, ok := pr.fieldOf(call.Common().Args[0]); ok && len(fp.Idx) == 1 && fp.Root == pr.canonicalRoot(fn.Params[recv]) {
					got[fp.Names[0]] = true
				}
				continue
			}
			// a helper that is handed the receiver itself (cleanEmbeddedRecipients(o)) walks on its behalf
			if w.InPkg(cal) && cal != fn && cal.Blocks != nil {
				for ai, a := range call.Common().Args {
					if unwrap(a) == ssa.Value(fn.Params[recv]) && ai < len(cal.Params) {
						for f := range walkedOf(cal, ai, depth+1) {
							got[f] = true
						}
					}
				}
			}
		}
		return got
	}
	walked := func(fn *ssa.Function) map[string]bool { return walkedOf(fn, 0, 0) }
	ow := walked(objClean)
	for _, f := range c11Walk {
		if ow[f] {
			c.ok("C11.walk", "Object."+f, w.FuncPos(objClean), "passed to CleanRecipients on every path")
		} else {
			c.bad("C11.walk", "Object."+f, w.FuncPos(objClean), fmt.Sprintf("Object.Clean does not (unconditionally) clean the objects embedded in %s: their bto/bcc stay in the serialised value", f))
		}
	}
	actClean := w.Method("Activity", "Clean")
	if actClean == nil {
		c.bad("C11.walk", "anchor:Activity.Clean", "-", "not found")
	} else {
		aw := walked(actClean)
		for _, f := range c11ActivityWalk {
			if aw[f] {
				c.ok("C11.walk", "Activity."+f, w.FuncPos(actClean), "passed to CleanRecipients on every path")
			} else {
				c.bad("C11.walk", "Activity."+f, w.FuncPos(actClean), fmt.Sprintf("Activity.Clean does not (unconditionally) clean the activity's %s", f))
			}
		}
	}
	// the intransitive activities (IntransitiveActivity, Question) are activities too: they have no object, but their
	// actor and target are walked like an Activity's
	for _, tn := range []string{"IntransitiveActivity", "Question"} {
		m := w.Method(tn, "Clean")
		if m == nil {
			c.bad("C11.walk", "anchor:"+tn+".Clean", "-", "not found")
			continue
		}
		aw := walked(m)
		for _, f := range []string{"Actor", "Target"} {
			if aw[f] {
				c.ok("C11.walk", tn+"."+f, w.FuncPos(m), "passed to CleanRecipients on every path")
			} else {
				c.bad("C11.walk", tn+"."+f, w.FuncPos(m), fmt.Sprintf("%s.Clean does not (unconditionally) clean the activity's %s: an embedded %s keeps its bto/bcc", tn, f, strings.ToLower(f)))
			}
		}
	}

	// ---- delegate + recurse (abstract interpretation) ----
	objPtr := types.NewPointer(objInfo.Named)
	for _, s := range objTypes {
		name := s.Obj().Name()
		m := w.Method(name, "Clean")
		if m == nil {
			continue
		}
		pt := types.NewPointer(s)
		if m != objClean {
			reached, site, dip := reachesObjectClean(w, m, []AV{avNonNilPtr(pt)}, objClean, objPtr)
			switch {
			case !reached:
				c.bad("C11.delegate", name+".Clean", w.FuncPos(m), fmt.Sprintf("(*%s).Clean never reaches (*Object).Clean on its own value: bto/bcc of a %s are not stripped", name, name))
			case site == nil || !execDominatesReturns(dip, site):
				c.bad("C11.delegate", name+".Clean", w.FuncPos(m), fmt.Sprintf("(*%s).Clean reaches (*Object).Clean only on some paths", name))
			default:
				c.ok("C11.delegate", name+".Clean", w.InstrPos(site), "reaches (*Object).Clean on every path")
			}
		}
		// recurse: CleanRecipients(x) for x a non-nil *T, alone and as a list member, reaches (*T).Clean
		item := avIface(pt, avNonNilPtr(pt))
		icT := w.Named("ItemCollection")
		lst := avIface(icT, AV{K: kSlice, T: icT, Nil: nilNo, Elem: &item})
		for label, arg := range map[string]AV{"item": item, "list-member": lst} {
			ip := newInterp(w)
			hit := false
			ip.onCall = func(ev callEvent) {
				if ev.Callee == m && len(ev.Args) > 0 && ev.Args[0].K == kPtr && ev.Args[0].Nil == nilNo {
					hit = true
				}
			}
			ip.stopAt = func(fn *ssa.Function) bool { return fn == m }
			ip.Call(cleanRecipients, []AV{arg}, nil, Store{}, nil)
			key := fmt.Sprintf("%s:%s", name, label)
			if hit && ip.aborted == "" {
				c.ok("C11.recurse", key, w.FuncPos(cleanRecipients), "CleanRecipients reaches (*"+name+").Clean")
			} else {
				c.bad("C11.recurse", key, w.FuncPos(cleanRecipients), fmt.Sprintf("CleanRecipients on a non-nil *%s (%s) does not reach its Clean method %s", name, label, ip.aborted))
			}
		}
	}

	// ---- frame: fields of vocabulary structs written in the Clean closures ----
	var roots []*ssa.Function
	for _, s := range objTypes {
		if m := w.Method(s.Obj().Name(), "Clean"); m != nil {
			roots = append(roots, m)
		}
	}
	if m := w.Method("ItemCollection", "Clean"); m != nil {
		roots = append(roots, m)
	}
	roots = append(roots, cleanRecipients)
	nstores := 0
	for _, f := range w.Reach(roots, nil) {
		for _, b := range f.Blocks {
			for _, in := range b.Instrs {
				st, ok := in.(*ssa.Store)
				if !ok {
					continue
				}
				fp, ok := pr.fieldOf(st.Addr)
				if !ok || len(fp.Idx) == 0 || !isItemStruct(w, fp.RootType) {
					continue
				}
				nstores++
				if fp.Names[0] != "Bto" && fp.Names[0] != "BCC" {
					c.bad("C11.frame", funcName(f)+":writes:"+fp.String(), w.InstrPos(in), fmt.Sprintf("%s (reachable from Clean) writes %s: Clean must leave every property other than bto/bcc unchanged", funcName(f), fp.String()))
				}
			}
		}
	}
	c.stat("struct_field_stores_in_clean_closure", nstores)
	// (listwalk) the list's own Clean hands EVERY member to CleanRecipients: while it walks the list it does not
	// rearrange it — no copy() onto the list, and the only thing stored into a slot is what CleanRecipients returned
	// for that same slot. Shifting members down inside an index loop makes the loop skip the member that moved into
	// the current slot: its private recipients survive.
	if m := w.Method("ItemCollection", "Clean"); m != nil {
		bad := ""
		nslot := 0
		for _, b := range m.Blocks {
			for _, in := range b.Instrs {
				switch x := in.(type) {
				case *ssa.Call:
					if bi, ok := x.Common().Value.(*ssa.Builtin); ok && bi.Name() == "copy" {
						bad = fmt.Sprintf("members are shifted with copy() at %s while the list is being walked", w.InstrPos(x))
					}
				case *ssa.Store:
					ia, ok := x.Addr.(*ssa.IndexAddr)
					if !ok || !isItemListValue(w, ia.X) && !isItemCollectionType(w, ia.X.Type()) {
						continue
					}
					nslot++
					call, isCall := unwrap(x.Val).(*ssa.Call)
					okv := false
					if isCall && call.Common().StaticCallee() == cleanRecipients && len(call.Common().Args) == 1 {
						// the argument is the member of that same slot (the range element, or a load of list[idx])
						arg := unwrap(call.Common().Args[0])
						if ld, isLd := arg.(*ssa.UnOp); isLd && ld.Op == token.MUL {
							if ia2, isIA := ld.X.(*ssa.IndexAddr); isIA && ia2.Index == ia.Index {
								okv = true
							}
						}
					}
					if !okv {
						bad = fmt.Sprintf("a list slot is assigned something other than CleanRecipients of that same slot at %s", w.InstrPos(x))
					}
				}
			}
		}
		if bad != "" {
			c.bad("C11.listwalk", "ItemCollection.Clean", w.FuncPos(m), "ItemCollection.Clean rearranges the list it is walking: "+bad+" — the member that moves into the current slot is never visited and keeps its bto/bcc")
		} else {
			c.ok("C11.listwalk", "ItemCollection.Clean", w.FuncPos(m), fmt.Sprintf("%d slot assignment(s), each CleanRecipients of the same slot; the list is not rearranged", nslot))
		}
	}
	c.ok("C11.frame", "closure", "-", fmt.Sprintf("%d stores into vocabulary struct fields in the Clean closures, all to Bto/BCC", nstores))
}

func isZeroLenSlice(v ssa.Value) bool {
	switch x := v.(type) {
	case *ssa.Const:
		return x.Value == nil
	case *ssa.Slice:
		if h, ok := x.High.(*ssa.Const); ok && h.Value != nil && h.Int64() == 0 {
			return true
		}
	case *ssa.MakeSlice:
		if l, ok := x.Len.(*ssa.Const); ok && l.Value != nil && l.Int64() == 0 {
			return true
		}
	case *ssa.Call:
		// a small helper every return of which is a zero-length list (withoutMembers(col) { return col[:0] })
		if cal := x.Common().StaticCallee(); cal != nil && cal.Blocks != nil && len(cal.Blocks) < 8 {
			rbs := returnBlocks(cal)
			if len(rbs) == 0 {
				return false
			}
			for _, rb := range rbs {
				ret := rb.Instrs[len(rb.Instrs)-1].(*ssa.Return)
				if len(ret.Results) != 1 {
					return false
				}
				if _, again := ret.Results[0].(*ssa.Call); again || !isZeroLenSlice(ret.Results[0]) {
					return false
				}
			}
			return true
		}
	case *ssa.ChangeType:
		return isZeroLenSlice(x.X)
	}
	return false
}

// reachesObjectClean runs fn abstractly and reports whether (*Object).Clean is called with a non-nil *Object;
// site is the call instruction in fn itself (top frame) through which it is reached.
// execDominatesReturns: on the paths the abstract run found executable (for a non-nil receiver), every way from
// the entry of site's function to a return passes through site's block.
func execDominatesReturns(ip *Interp, site *ssa.Call) bool {
	fn := site.Parent()
	executed := func(b *ssa.BasicBlock) bool {
		for _, in := range b.Instrs {
			if ip.execInstr[in] {
				return true
			}
		}
		return false
	}
	entry := fn.Blocks[0]
	if entry == site.Block() {
		return true
	}
	seen := map[*ssa.BasicBlock]bool{entry: true}
	work := []*ssa.BasicBlock{entry}
	for len(work) > 0 {
		b := work[len(work)-1]
		work = work[:len(work)-1]
		if _, isRet := b.Instrs[len(b.Instrs)-1].(*ssa.Return); isRet && ip.execInstr[b.Instrs[len(b.Instrs)-1]] {
			return false
		}
		for _, s := range b.Succs {
			if s == site.Block() || seen[s] || !executed(s) || !ip.execEdge[[2]*ssa.BasicBlock{b, s}] {
				continue
			}
			seen[s] = true
			work = append(work, s)
		}
	}
	return true
}

func reachesObjectClean(w *World, fn *ssa.Function, args []AV, objClean *ssa.Function, objPtr types.Type) (bool, *ssa.Call, *Interp) {
	ip := newInterp(w)
	hit := false
	ip.onCall = func(ev callEvent) {
		if ev.Callee == objClean && len(ev.Args) > 0 && ev.Args[0].K == kPtr && ev.Args[0].Nil == nilNo {
			hit = true
		}
	}
	ip.stopAt = func(f *ssa.Function) bool { return f == objClean }
	ip.Call(fn, args, nil, Store{}, nil)
	if !hit || ip.aborted != "" {
		return false, nil, ip
	}
	// the top-level call through which it is reached: try each call of fn in isolation
	var site *ssa.Call
	for _, call := range callsIn(fn) {
		cal := call.Common().StaticCallee()
		if cal == nil {
			continue
		}
		reach := w.Reach([]*ssa.Function{cal}, nil)
		direct := cal == objClean
		for _, g := range reach {
			if g == objClean {
				direct = true
			}
		}
		// closures passed as arguments
		for _, a := range call.Common().Args {
			var cf *ssa.Function
			switch x := unwrap(a).(type) {
			case *ssa.MakeClosure:
				cf = x.Fn.(*ssa.Function)
			case *ssa.Function:
				cf = x
			}
			if cf != nil {
				for _, g := range w.Reach([]*ssa.Function{cf}, nil) {
					if g == objClean {
						direct = true
					}
				}
			}
		}
		if direct && (site == nil || dominatesAllReturns(call.Block())) {
			site = call
		}
	}
	return true, site, ip
}

// checkSplice: a function that deletes list members in place may only delete, never move: every assignment to
// the list is the order-preserving splice append(s[:i], s[i+1:]...) (or a plain re-slice), no element slot is
// overwritten, and — when several collected indices are deleted in one loop — they are processed in descending
// order (sort.Reverse before the loop), otherwise earlier deletions shift later indices.
func checkSplice(w *World, c *Check, pr *prover, rule string, f *ssa.Function) {
	name := funcName(f)
	n := 0
	isListPtr := func(v ssa.Value) bool {
		p, ok := types.Unalias(v.Type()).Underlying().(*types.Pointer)
		return ok && isItemCollectionType(w, p.Elem())
	}
	for _, b := range f.Blocks {
		for _, in := range b.Instrs {
			st, ok := in.(*ssa.Store)
			if !ok {
				continue
			}
			// overwrite of an element slot of an item list that is not freshly made in this function
			if ia, ok := st.Addr.(*ssa.IndexAddr); ok {
				if isItemCollectionType(w, ia.X.Type()) || isItemListValue(w, ia.X) {
					if ld, ok := unwrap(ia.X).(*ssa.UnOp); ok && isListPtr(ld.X) {
						n++
						c.bad(rule, name+":element-overwrite", w.InstrPos(st), fmt.Sprintf("%s overwrites an element slot of the caller's list: members may only be deleted, never moved (surviving entries must keep their relative order)", name))
					}
				}
				continue
			}
			if !isListPtr(st.Addr) {
				continue
			}
			if _, isParamOrLoad := st.Addr.(*ssa.Alloc); isParamOrLoad {
				continue // a local list variable
			}
			n++
			key := fmt.Sprintf("%s:list-assign#%d", name, n)
			if sl, isSl := unwrap(st.Val).(*ssa.Slice); isSl && isConstBound(sl.High) {
				// a cut at a fixed position ((*l)[:0]) is not the removal of the entries that were recorded: whatever else
				// sits in the list — nil entries, entries without an id, which the scan skips — goes with them
				c.bad(rule, key, w.InstrPos(st), fmt.Sprintf("%s cuts the caller's list at a constant position (%s) instead of removing the recorded entries one by one: entries the scan skipped (nil, id-less) are dropped as well", name, shortVal(st.Val)))
			} else if spliceShape(st.Val) {
				c.ok(rule, key, w.InstrPos(st), "order-preserving splice / re-slice")
			} else {
				c.bad(rule, key, w.InstrPos(st), fmt.Sprintf("%s assigns the caller's list something other than the order-preserving splice append(s[:i], s[i+1:]...) or a re-slice", name))
			}
		}
	}
	// an index is recorded for deletion at most once: when the record is made inside an inner loop (the scan over what
	// has been seen so far) with a value that does not change in that loop, the loop must be left right after —
	// otherwise an entry that matches two seen entries (IRI equivalence that ignores the scheme is not transitive on
	// arbitrary strings) is recorded twice, the entry after it is deleted as well, and when it is the last entry the
	// splice runs past the end of the list (panic in Recipients() on crafted addressing)
	{
		lh := loopHeaders(f)
		for _, b := range f.Blocks {
			for _, in := range b.Instrs {
				call, ok := in.(*ssa.Call)
				if !ok {
					continue
				}
				bi, isB := call.Common().Value.(*ssa.Builtin)
				if !isB || bi.Name() != "append" || len(call.Common().Args) != 2 {
					continue
				}
				sl, isSl := types.Unalias(call.Type()).Underlying().(*types.Slice)
				if !isSl {
					continue
				}
				if bt, isBt := sl.Elem().Underlying().(*types.Basic); !isBt || bt.Info()&types.IsInteger == 0 {
					continue
				}
				elems, okE := variadicElems(call.Common().Args[1])
				if !okE || len(elems) != 1 {
					continue
				}
				// innermost and next enclosing loop of the block
				var inner, outer *ssa.BasicBlock
				for h := range lh[b] {
					if inner == nil || len(loopBody(lh, h)) < len(loopBody(lh, inner)) {
						inner = h
					}
				}
				for h := range lh[b] {
					if h != inner && (outer == nil || len(loopBody(lh, h)) < len(loopBody(lh, outer))) {
						outer = h
					}
				}
				if inner == nil || outer == nil {
					continue
				}
				// the recorded value does not change inside the inner loop
				if vi, isInstr := elems[0].(ssa.Instruction); isInstr && lh[vi.Block()][inner] {
					continue
				}
				key := fmt.Sprintf("%s:record-once", name)
				again := false
				for _, sc := range b.Succs {
					if sc == inner || (lh[sc][inner] && reachesWithin(sc, inner, outer)) {
						again = true
					}
				}
				if again {
					c.bad(rule, key, w.InstrPos(call), fmt.Sprintf("%s records the position of an entry for deletion inside the scan over the entries seen so far and keeps scanning: an entry equivalent to two of them is recorded twice, so the entry after it is deleted too — and if it is the last one the deletion runs past the end of the list (Recipients() panics)", name))
				} else {
					c.ok(rule, key, w.InstrPos(call), "the scan stops after recording the position")
				}
			}
		}
	}
	// every decision about a member — recording its id as seen, or recording its position for deletion — is taken after
	// the scan over the ids seen so far: a shortcut that decides from something else ("this is the public collection and
	// I have met it already", a cached flag, a map keyed by the literal text) bypasses the equivalence the scan applies
	// (scheme- and case-insensitive), so a variant spelling met first makes the canonical one count as new
	if iriEq := w.Method("IRI", "Equals"); iriEq != nil {
		lh := loopHeaders(f)
		innermost := func(b *ssa.BasicBlock) *ssa.BasicBlock {
			var inner *ssa.BasicBlock
			for h := range lh[b] {
				if inner == nil || len(loopBody(lh, h)) < len(loopBody(lh, inner)) {
					inner = h
				}
			}
			return inner
		}
		var reachesEq func(g *ssa.Function, d int) bool
		reachesEq = func(g *ssa.Function, d int) bool {
			if g == nil || g.Blocks == nil || d > 2 {
				return false
			}
			for _, call := range callsIn(g) {
				cal := call.Common().StaticCallee()
				if cal == iriEq || (cal != nil && w.InPkg(cal) && cal != g && reachesEq(cal, d+1)) {
					return true
				}
			}
			return false
		}
		var scans []*ssa.BasicBlock
		for _, call := range callsIn(f) {
			cal := call.Common().StaticCallee()
			if cal == nil {
				continue
			}
			if cal == iriEq {
				if h := innermost(call.Block()); h != nil {
					scans = append(scans, h)
				}
				continue
			}
			if w.InPkg(cal) && cal != f {
				takesList := false
				for _, a := range call.Common().Args {
					if isItemListValue(w, a) {
						takesList = true
					}
				}
				if takesList && reachesEq(cal, 0) {
					scans = append(scans, call.Block())
				}
			}
		}
		nDec := 0
		for _, call := range callsIn(f) {
			bi, isB := call.Common().Value.(*ssa.Builtin)
			if !isB || bi.Name() != "append" || len(call.Common().Args) != 2 || len(scans) == 0 || innermost(call.Block()) == nil {
				continue
			}
			sl, isSl := types.Unalias(call.Type()).Underlying().(*types.Slice)
			if !isSl {
				continue
			}
			what := ""
			if bt, isBt := sl.Elem().Underlying().(*types.Basic); isBt && bt.Info()&types.IsInteger != 0 {
				what = "records a position for deletion"
			} else if isItemListValue(w, call) && !spliceShape(call) {
				if _, fromSlice := unwrap(call.Common().Args[0]).(*ssa.Slice); !fromSlice {
					what = "records an id as seen"
				}
			}
			if what == "" {
				continue
			}
			nDec++
			after := false
			for _, sc := range scans {
				if sc == call.Block() || sc.Dominates(call.Block()) {
					after = true
				}
			}
			key := fmt.Sprintf("%s:after-scan#%d", name, nDec)
			if after {
				c.ok(rule, key, w.InstrPos(call), what+" after the scan over the ids seen so far")
			} else {
				c.bad(rule, key, w.InstrPos(call), fmt.Sprintf("%s %s on a path that has not compared the entry with the ids seen so far: the equivalence the scan applies (scheme and host case are ignored) is bypassed, so an addressee met first in a variant spelling is returned — and kept in the lists — twice", name, what))
			}
		}
	}
	// an entry without an id names nobody: it is never compared with the ids seen so far (two different embedded
	// objects that both lack an id would otherwise count as the same addressee — the second is deleted from the
	// value's list, and the empty id is reported as a recipient)
	if iriEq := w.Method("IRI", "Equals"); iriEq != nil {
		nEq := 0
		for _, call := range callsIn(f) {
			if call.Common().StaticCallee() != iriEq || len(call.Common().Args) < 2 {
				continue
			}
			nEq++
			id := call.Common().Args[0]
			guarded := false
			for _, g := range rawGuards(call.Block()) {
				bo, ok := g.cond.(*ssa.BinOp)
				if !ok {
					continue
				}
				// len(id) > 0 / len(id) != 0 / len(id) == 0 (false side) / id != "" / id == "" (false side)
				var subj ssa.Value
				var kc *ssa.Const
				if k, isC := bo.Y.(*ssa.Const); isC {
					subj, kc = bo.X, k
				} else if k, isC := bo.X.(*ssa.Const); isC {
					subj, kc = bo.Y, k
				} else {
					continue
				}
				if inner, isLen := lenOperand(subj); isLen {
					subj = inner
				}
				if unwrap(subj) != unwrap(id) || kc.Value == nil {
					continue
				}
				zero := kc.Value.String() == "0" || kc.Value.String() == `""`
				if !zero {
					continue
				}
				switch bo.Op {
				case token.GTR, token.NEQ:
					guarded = guarded || g.onTrue
				case token.EQL, token.LEQ:
					guarded = guarded || !g.onTrue
				}
			}
			key := fmt.Sprintf("%s:id-less#%d", name, nEq)
			if guarded {
				c.ok(rule, key, w.InstrPos(call), "only non-empty ids are compared with the ids seen so far")
			} else {
				c.bad(rule, key, w.InstrPos(call), fmt.Sprintf("%s compares an entry's id with the ids seen so far without first excluding the empty id: two different embedded objects that lack an id count as one addressee — the second is deleted from the list (flattening and Recipients() lose it), and the empty id is returned as a recipient", name))
			}
		}
	}
	// descending order when deleting collected indices
	usesIndexList := false
	hasReverse := false
	for _, call := range callsIn(f) {
		if cal := call.Common().StaticCallee(); cal != nil && cal.Object() != nil && cal.Object().Pkg() != nil && cal.Object().Pkg().Path() == "sort" {
			usesIndexList = true
			if cal.Name() == "Reverse" {
				hasReverse = true
			}
		}
	}
	for _, b := range f.Blocks {
		for _, in := range b.Instrs {
			if ms, ok := in.(*ssa.MakeSlice); ok {
				if sl, ok := types.Unalias(ms.Type()).Underlying().(*types.Slice); ok {
					if bt, ok := sl.Elem().Underlying().(*types.Basic); ok && bt.Kind() == types.Int {
						usesIndexList = true
					}
				}
			}
		}
	}
	if usesIndexList {
		if hasReverse {
			c.ok(rule, name+":descending-indices", w.FuncPos(f), "collected indices are deleted in descending order (sort.Reverse)")
		} else {
			c.bad(rule, name+":descending-indices", w.FuncPos(f), name+" deletes several collected indices without processing them in descending order: each deletion shifts the later indices")
		}
	}
}

func isItemListValue(w *World, v ssa.Value) bool {
	sl, ok := types.Unalias(v.Type()).Underlying().(*types.Slice)
	return ok && w.itemLikeIface(sl.Elem()) != nil
}

// spliceShape: append(x[:i], x[i+1:]...) or x[:i] / x[i:] (re-slice) for one list x.
func spliceShape(v ssa.Value) bool {
	v = unwrap(v)
	switch x := v.(type) {
	case *ssa.Slice:
		return true
	case *ssa.Call:
		bi, ok := x.Common().Value.(*ssa.Builtin)
		if !ok || bi.Name() != "append" || len(x.Common().Args) != 2 {
			return false
		}
		a, okA := unwrap(x.Common().Args[0]).(*ssa.Slice)
		b, okB := unwrap(x.Common().Args[1]).(*ssa.Slice)
		if !okA || !okB || a.Low != nil || a.High == nil || b.High != nil || b.Low == nil {
			return false
		}
		// b.Low == a.High + 1
		bo, ok := b.Low.(*ssa.BinOp)
		if !ok || bo.Op != token.ADD {
			return false
		}
		one, ok := bo.Y.(*ssa.Const)
		if !ok || one.Value == nil || one.Int64() != 1 {
			return false
		}
		if bo.X != a.High {
			return false
		}
		return sameListValue(a.X, b.X)
	}
	return false
}

func sameListValue(a, b ssa.Value) bool {
	a, b = unwrap(a), unwrap(b)
	if a == b {
		return true
	}
	la, ok1 := a.(*ssa.UnOp)
	lb, ok2 := b.(*ssa.UnOp)
	return ok1 && ok2 && la.X == lb.X
}

// pointerArrayElems: addr is an element read from a local array (or slice literal) of pointers; returns the pointer
// values the array was filled with.
func pointerArrayElems(addr ssa.Value) []ssa.Value {
	var arr *ssa.Alloc
	switch x := addr.(type) {
	case *ssa.Index: // range over an array value: t = *arr; t[i]
		if ld, ok := x.X.(*ssa.UnOp); ok && ld.Op == token.MUL {
			arr, _ = ld.X.(*ssa.Alloc)
		}
	case *ssa.UnOp: // *(&arr[i]) or element of a slice of the array
		if x.Op == token.MUL {
			if ia, ok := x.X.(*ssa.IndexAddr); ok {
				switch b := ia.X.(type) {
				case *ssa.Alloc:
					arr = b
				case *ssa.Slice:
					arr, _ = b.X.(*ssa.Alloc)
				}
			}
		}
	}
	if arr == nil || arr.Referrers() == nil {
		return nil
	}
	if _, isArr := derefType(arr.Type()).Underlying().(*types.Array); !isArr {
		return nil
	}
	var out []ssa.Value
	for _, r := range *arr.Referrers() {
		ia, ok := r.(*ssa.IndexAddr)
		if !ok || ia.Referrers() == nil {
			continue
		}
		for _, rr := range *ia.Referrers() {
			if st, ok := rr.(*ssa.Store); ok && st.Addr == ssa.Value(ia) {
				out = append(out, st.Val)
			}
		}
	}
	return out
}

func isConstBound(v ssa.Value) bool {
	k, ok := v.(*ssa.Const)
	return ok && k.Value != nil
}
