package main

import (
	"fmt"
	"go/types"
	"sort"
	"strings"

	"golang.org/x/tools/go/ssa"
)

func init() { register("C12", checkC12) }

// readOnlyRoot: is f one of the operations the property calls read-only?
func readOnlyRoot(w *World, f *ssa.Function) (bool, string) {
	if f.Parent() != nil || f.Synthetic != "" || f.Origin() != nil {
		return false, ""
	}
	obj, _ := f.Object().(*types.Func)
	if obj == nil || !obj.Exported() {
		return false, ""
	}
	name := f.Name()
	if recv := f.Signature.Recv(); recv != nil {
		n := namedOf(recv.Type())
		if n == nil || !n.Obj().Exported() {
			return false, ""
		}
		switch name {
		case "MarshalJSON", "MarshalText", "MarshalBinary", "GobEncode":
			return true, "encode"
		case "Equals", "Contains", "ItemsMatch":
			return true, "compare"
		case "Format", "String":
			return true, "format"
		case "GetID", "GetLink", "GetType", "IsLink", "IsObject", "IsCollection", "IsValid", "Count", "Collection", "First", "Get", "Normalize", "IRIs", "URL", "Split", "IRI", "Of":
			return true, "inspect"
		}
		return false, ""
	}
	switch {
	case name == "MarshalJSON" || name == "GobEncode":
		return true, "encode"
	case name == "ItemsEqual" || name == "ItemOrderTimestamp":
		return true, "compare"
	case name == "IsNil" || name == "NotEmpty" || name == "DerefItem" || (strings.HasPrefix(name, "Is") && f.Signature.Params().Len() == 1):
		return true, "inspect"
	case strings.HasPrefix(name, "To") && isViewHelper(f):
		return true, "view"
	case strings.HasPrefix(name, "On") && isViewHelper(f):
		return true, "view"
	case strings.HasPrefix(name, "JSONWrite"):
		return true, "encode-helper"
	case name == "ValidCollectionIRI" || name == "ValidCollection" || name == "ValidActivityCollection" || name == "ValidObjectCollection" || name == "Split" || name == "IRIf":
		return true, "inspect"
	}
	return false, ""
}

func isDecodeEntry(f *ssa.Function) bool {
	if f.Parent() != nil || f.Synthetic != "" {
		return false
	}
	switch f.Name() {
	case "UnmarshalJSON", "UnmarshalText", "UnmarshalBinary", "GobDecode":
		return true
	}
	return false
}

// outParam: parameters that are the operation's designated output (a writer, a format state, an out-buffer).
func outParam(t types.Type) bool {
	if isByteBufPtr(t) {
		return true
	}
	if n := namedOf(t); n != nil && n.Obj().Pkg() != nil {
		full := n.Obj().Pkg().Path() + "." + n.Obj().Name()
		switch full {
		case "fmt.State", "io.Writer", "bytes.Buffer", "strings.Builder":
			return true
		}
	}
	if i, ok := types.Unalias(t).Underlying().(*types.Interface); ok {
		for k := 0; k < i.NumMethods(); k++ {
			if i.Method(k).Name() == "Write" {
				return true
			}
		}
	}
	return false
}

func checkC12(w *World, c *Check, tier string) {
	c.Exhaustive = true
	c.Explanation = "Decides purity by write-effect summaries computed bottom-up over the whole package (stores, map updates, append — which may write its first argument's spare capacity —, copy, calls mapped through actual arguments, interface calls resolved over the package's implementers, callbacks resolved where the actual is a closure): every read-only operation the property names (all MarshalJSON/MarshalText/MarshalBinary/GobEncode, Equals/Contains/ItemsMatch, Format/String, the getters and predicates, IsNil/NotEmpty/DerefItem, the To*/On* view helpers themselves, ItemsEqual, ItemOrderTimestamp; found by name family and signature) may write only memory it allocated itself or its designated output (an out-buffer, io.Writer or fmt.State parameter) — never memory reachable from its receiver or arguments, and never a package-level variable; decode entry points may write their receiver but no package-level variable either (each allocates its own parser). Functions that only read shared memory cannot race with each other, so race-freedom of concurrent read-only use follows. NOT decided: writes inside dependencies beyond the reviewed summary table (listed in the evidence), aliasing created by storing a parameter-derived pointer into a local through a callee. ADDED: a cell captured by a closure and assigned there from the closure's parameters (items = col.Collection() inside an On* callback) is treated as aliasing the enclosing function's arguments."
	c.RuleText = "one obligation per read-only root (write set must be empty) and per decode entry (no package-level write); exhaustive over the method families"
	c.Trusted = []string{"go/ssa", "apcheck effects.go", "the reviewed dependency summaries in extTable / extPurePrefixes"}
	c.floor("C12.pure", 150)
	c.floor("C12.global", 40)
	e := computeEffects(w)
	var unknown []string
	for k := range e.unknownExt {
		unknown = append(unknown, k)
	}
	sort.Strings(unknown)
	if len(unknown) > 0 {
		c.Assumptions = append(c.Assumptions, "dependencies without a reviewed summary are assumed to write through every pointer-like argument and to return memory aliasing them: "+strings.Join(unknown, ", "))
	}
	// positive controls: functions that certainly write through a parameter must be summarised so
	ctl := func(f *ssa.Function, idx int, what string) {
		if f == nil {
			return // anchors are checked by the properties that own them
		}
		c.control(e.sum[f] != nil && e.sum[f].writes&paramBit(idx) != 0, what)
	}
	ctl(w.Method("Object", "Clean"), 0, "(*Object).Clean writes its receiver")
	ctl(w.Func("JSONWrite"), 0, "JSONWrite writes its out-buffer")
	ctl(w.Method("ItemCollection", "Append"), 0, "(*ItemCollection).Append writes its receiver")
	ctl(w.Func("ItemCollectionDeduplication"), 0, "ItemCollectionDeduplication writes the lists it is given")
	ctl(w.Func("JSONLoadObject"), 1, "JSONLoadObject writes the object it loads")
	ctl(w.Method("Activity", "Clean"), 0, "(*Activity).Clean writes its receiver (through the OnObject callback)")
	ctl(w.Func("FlattenItemCollection"), 0, "FlattenItemCollection writes the elements of its argument")
	c.stat("functions_summarised", len(e.sum))
	c.stat("unreviewed_externals", len(unknown))
	nroots := 0
	for _, f := range w.Funcs {
		ok, fam := readOnlyRoot(w, f)
		if !ok {
			continue
		}
		nroots++
		s := e.sum[f]
		var bad rootSet
		for i := 0; i < maxParamBit; i++ {
			if s.writes&paramBit(i) == 0 {
				continue
			}
			if i < len(f.Params) && outParam(f.Params[i].Type()) {
				continue
			}
			bad |= paramBit(i)
		}
		bad |= s.writes & rootUnknown
		key := funcName(f)
		switch {
		case bad != 0:
			c.bad("C12.pure", key, w.FuncPos(f), fmt.Sprintf("read-only operation (%s) %s may write memory reachable from its arguments: %s", fam, key, strings.Join(e.describe(f, bad), "; ")))
		case len(s.globals) > 0:
			var gs []string
			for g := range s.globals {
				gs = append(gs, g+" ("+s.gwitness[g]+")")
			}
			sort.Strings(gs)
			c.bad("C12.pure", key, w.FuncPos(f), fmt.Sprintf("read-only operation (%s) %s writes package-level state: %s — concurrent use is a data race and results depend on call history", fam, key, strings.Join(gs, "; ")))
		default:
			c.ok("C12.pure", key, w.FuncPos(f), fam+": writes only fresh memory / its output parameter")
		}
	}
	c.stat("read_only_roots", nroots)
	ndec := 0
	for _, f := range w.Funcs {
		if !isDecodeEntry(f) {
			continue
		}
		ndec++
		s := e.sum[f]
		key := funcName(f)
		if len(s.globals) > 0 {
			var gs []string
			for g := range s.globals {
				gs = append(gs, g+" ("+s.gwitness[g]+")")
			}
			sort.Strings(gs)
			c.bad("C12.global", key, w.FuncPos(f), fmt.Sprintf("decode entry point %s writes package-level state: %s — decoding independent inputs concurrently races", key, strings.Join(gs, "; ")))
		} else {
			c.ok("C12.global", key, w.FuncPos(f), "no package-level write in its closure")
		}
	}
	for _, name := range []string{"UnmarshalJSON", "GobDecode"} {
		if f := w.Func(name); f != nil {
			ndec++
			s := e.sum[f]
			if len(s.globals) > 0 {
				c.bad("C12.global", name, w.FuncPos(f), fmt.Sprintf("%s writes package-level state %v", name, sortedKeys(s.globals)))
			} else {
				c.ok("C12.global", name, w.FuncPos(f), "no package-level write in its closure")
			}
		}
	}
	c.stat("decode_entries", ndec)
}
