package main

import (
	"fmt"
	"go/constant"
	"go/token"
	"go/types"
	"sort"
	"strings"

	"golang.org/x/tools/go/ssa"
)

func init() {
	register("C13", checkC13)
	register("C14", checkC14)
	register("C17", checkC17)
}

// listFieldOf returns a label for the item list a method works on: "self" for list types (ItemCollection,
// IRIs), or the name of the receiver's struct field of list type.
func listAccesses(w *World, pr *prover, m *ssa.Function) map[string]bool {
	out := map[string]bool{}
	recvT := m.Signature.Recv().Type()
	base := namedOf(recvT)
	if base != nil {
		if _, isSlice := base.Underlying().(*types.Slice); isSlice {
			out["self"] = true
			return out
		}
	}
	for _, b := range m.Blocks {
		for _, in := range b.Instrs {
			var fp FieldPath
			var ok bool
			var ft types.Type
			switch x := in.(type) {
			case *ssa.FieldAddr:
				fp, ok = pr.structPath(x, 0)
				ft = derefType(x.Type())
			case *ssa.Field:
				fp, ok = pr.structPath(x, 0)
				ft = x.Type()
			}
			if ok && len(fp.Idx) == 1 && fp.RootType == base && isItemCollectionType(w, ft) {
				out[fp.Names[0]] = true
			}
		}
	}
	return out
}

func checkC13(w *World, c *Check, tier string) {
	c.Exhaustive = true
	c.Explanation = "Decides the sibling-agreement clauses over the six container kinds (ItemCollection, IRIs, Collection, CollectionPage, OrderedCollection, OrderedCollectionPage; found by method set): (guard) in every Append the store that grows the list is reachable only on the not-contained side of a Contains test on that same list with the element being appended (or its link); (field) Append, Count, Collection and Contains of one type all work on one and the same list field, which is also what ToItemCollection hands out for that type; (eq) every Contains decides membership only through ItemsEqual (IRI lists: IRI.Equals) between a list element and the argument, returning true only under that test. An unguarded append, a Count reading another field or a Contains using a different equality breaks the set semantics for every history that appends a present item. NOT decided: operation histories themselves, Remove's in-place splice arithmetic, order preservation, backing-array aliasing."
	c.RuleText = "obligation = container type x {guard, field, eq}; exhaustive over types with an Append(...Item) method"
	c.Trusted = []string{"go/types method sets, go/ssa", "apcheck prov.go"}
	c.floor("C13.guard", 6)
	c.floor("C13.field", 6)
	c.floor("C13.eq", 6)
	c.floor("C13.accessor", 28)
	checkAccessors(w, c, "C13.accessor", []string{"GetType", "GetLink"})
	pr := newProver(w)
	itemsEqual := w.Func("ItemsEqual")
	iriEquals := w.Method("IRI", "Equals")
	// container types: named types of the package with an Append method taking ...Item
	var containers []string
	for _, name := range w.Types.Scope().Names() {
		if n := w.Named(name); n != nil && n.Obj().Name() == name {
			if m := w.Method(name, "Append"); m != nil && m.Signature.Variadic() && name != "NaturalLanguageValues" {
				if sl, ok := m.Signature.Params().At(m.Signature.Params().Len() - 1).Type().(*types.Slice); ok && w.itemLikeIface(sl.Elem()) != nil {
					containers = append(containers, name)
				}
			}
		}
	}
	sort.Strings(containers)
	c.stat("containers", len(containers))
	toIC := w.Func("ToItemCollection")
	// removal through the item-list view must only delete, never move (members keep first-insertion order)
	if rm := w.Method("ItemCollection", "Remove"); rm != nil {
		checkSplice(w, c, pr, "C13.splice", rm)
	} else {
		c.bad("C13.splice", "anchor:ItemCollection.Remove", "-", "not found")
	}
	for _, name := range containers {
		app := w.Method(name, "Append")
		contains := w.Method(name, "Contains")
		count := w.Method(name, "Count")
		coll := w.Method(name, "Collection")
		if contains == nil || count == nil || coll == nil {
			c.bad("C13.field", name, w.FuncPos(app), name+" lacks Contains/Count/Collection")
			continue
		}
		// ---- field agreement ----
		sets := map[string]map[string]bool{"Append": listAccesses(w, pr, app), "Contains": listAccesses(w, pr, contains), "Count": listAccesses(w, pr, count), "Collection": listAccesses(w, pr, coll)}
		// Append may reach the list through the Contains method of the list field (c.Items.Contains): fine
		union := map[string]bool{}
		for _, s := range sets {
			for k := range s {
				union[k] = true
			}
		}
		agree := len(union) == 1
		for _, s := range sets {
			if len(s) != 1 {
				agree = false
			}
		}
		desc := fmt.Sprintf("Append%v Contains%v Count%v Collection%v", sortedKeys(sets["Append"]), sortedKeys(sets["Contains"]), sortedKeys(sets["Count"]), sortedKeys(sets["Collection"]))
		if agree {
			c.ok("C13.field", name, w.FuncPos(app), desc)
		} else {
			c.bad("C13.field", name, w.FuncPos(app), "the accessors of "+name+" do not all work on one list field: "+desc)
		}
		// ToItemCollection arm
		if toIC != nil && !union["self"] && len(union) == 1 {
			want := sortedKeys(union)[0]
			found := false
			for _, b := range toIC.Blocks {
				for _, in := range b.Instrs {
					if fa, ok := in.(*ssa.FieldAddr); ok && namedOf(fa.X.Type()) == w.Named(name) {
						if fieldNameOf(fa.X.Type(), fa.Field) == want {
							found = true
						} else if isItemCollectionType(w, derefType(fa.Type())) {
							c.bad("C13.field", name+":ToItemCollection", w.InstrPos(fa), fmt.Sprintf("ToItemCollection hands out %s.%s but the collection's members live in %s", name, fieldNameOf(fa.X.Type(), fa.Field), want))
						}
					}
				}
			}
			if found {
				c.ok("C13.field", name+":ToItemCollection", w.FuncPos(toIC), "hands out "+want)
			} else {
				c.bad("C13.field", name+":ToItemCollection", w.FuncPos(toIC), "ToItemCollection has no arm handing out "+name+"."+want)
			}
		}
		// ---- guard ----
		checkAppendGuard(w, c, pr, name, app)
		// ---- eq ----
		checkContainsEq(w, c, pr, name, contains, itemsEqual, iriEquals)
	}
}

func checkAppendGuard(w *World, c *Check, pr *prover, name string, app *ssa.Function) {
	checkAppendGuardOn(w, c, pr, name, app, app.Params[0], 0)
	checkAppendNoShortcut(w, c, pr, name, app)
}

// checkAppendNoShortcut: apart from "there is nothing to append" (no arguments, nil receiver) Append decides item by item,
// inside its loop over the arguments (or by handing all of them on to another Append). A return taken before that loop
// on the word of some other predicate over the whole batch ("they all match something already here") drops items that
// the membership test would have added.
func checkAppendNoShortcut(w *World, c *Check, pr *prover, name string, app *ssa.Function) {
	if len(app.Params) < 2 {
		return
	}
	items := app.Params[len(app.Params)-1]
	lh := loopHeaders(app)
	// the loop over the arguments: a loop that reads elements of the variadic parameter
	var argLoop *ssa.BasicBlock
	for _, b := range app.Blocks {
		for _, in := range b.Instrs {
			if ia, ok := in.(*ssa.IndexAddr); ok && unwrap(ia.X) == ssa.Value(items) {
				for h := range lh[b] {
					if argLoop == nil || len(loopBody(lh, h)) > len(loopBody(lh, argLoop)) {
						argLoop = h
					}
				}
			}
		}
	}
	if argLoop == nil {
		return // delegates the whole batch
	}
	k := 0
	for _, rb := range returnBlocks(app) {
		if rb == argLoop || argLoop.Dominates(rb) {
			continue
		}
		for _, g := range rawGuards(rb) {
			trivial := false
			switch x := g.cond.(type) {
			case *ssa.BinOp:
				subj := x.X
				if _, isC := x.X.(*ssa.Const); isC {
					subj = x.Y
				}
				if inner, isLen := lenOperand(subj); isLen {
					subj = inner
				}
				s0 := unwrap(subj)
				if s0 == ssa.Value(items) || s0 == ssa.Value(app.Params[0]) {
					trivial = true
				}
			}
			// a predicate over the batch that is itself the membership test applied to every item (ItemsMatch: every item
			// is Contains-ed) decides nothing new
			if call, isCall := g.cond.(*ssa.Call); isCall && !trivial {
				if cal := call.Common().StaticCallee(); cal != nil && w.InPkg(cal) && cal.Blocks != nil {
					viaContains, other := false, false
					for _, cc := range callsIn(cal) {
						if calleeNamed(cc, "Contains") && len(loopHeaders(cal)[cc.Block()]) > 0 {
							viaContains = true
						} else if in := cc.Common().StaticCallee(); in != nil && (w.InPkg(in) || strings.HasPrefix(extName(in), "strings.") || strings.HasPrefix(extName(in), "bytes.")) {
							switch in.Name() {
							case "IsNil", "GetLink", "GetID", "len":
							default:
								other = true
							}
						}
					}
					if viaContains && !other {
						trivial = true
					}
				}
			}
			if trivial {
				continue
			}
			k++
			c.bad("C13.guard", fmt.Sprintf("%s.Append:shortcut#%d", name, k), w.InstrPos(rb.Instrs[len(rb.Instrs)-1]), fmt.Sprintf("%s.Append returns before its loop over the arguments under the condition %s: what decides is not the membership test applied item by item, so an item that is not contained can be dropped without being appended", name, shortVal(g.cond)))
		}
	}
	if k == 0 {
		c.ok("C13.guard", name+".Append:no-shortcut", w.FuncPos(app), "no return before the loop over the arguments except for an empty batch / nil receiver")
	}
}

// checkAppendGuardOn: the rule for function app with the list (pointer) held in parameter recv. When app itself does not
// append but hands the list's address to a small helper (appendIfMissing(&o.Items, ob)), the helper is judged instead.
func checkAppendGuardOn(w *World, c *Check, pr *prover, name string, app *ssa.Function, recv *ssa.Parameter, depth int) {
	n := 0
	for _, b := range app.Blocks {
		for _, in := range b.Instrs {
			st, ok := in.(*ssa.Store)
			if !ok {
				continue
			}
			call, ok := st.Val.(*ssa.Call)
			if !ok {
				continue
			}
			if bi, ok := call.Common().Value.(*ssa.Builtin); !ok || bi.Name() != "append" {
				continue
			}
			// the store must target the receiver's list
			target := ""
			if st.Addr == ssa.Value(recv) {
				target = "self"
			} else if fp, ok := pr.fieldOf(st.Addr); ok && len(fp.Idx) == 1 && fp.Root == pr.canonicalRoot(recv) {
				target = fp.Names[0]
			} else {
				continue
			}
			n++
			// element(s) appended
			appended := map[ssa.Value]bool{}
			if elems, ok := variadicElems(call.Common().Args[1]); ok {
				for _, e := range elems {
					appended[unwrapCallRecv(e)] = true
				}
			}
			guarded := false
			stale := false
			for _, g := range rawGuards(b) {
				gc, ok := g.cond.(*ssa.Call)
				if !ok || !calleeNamed(gc, "Contains") || g.onTrue {
					continue
				}
				args := allArgs(gc)
				if len(args) < 2 {
					continue
				}
				// receiver of Contains is the same list
				recvOK := false
				r0 := unwrap(args[0])
				if target == "self" {
					if r0 == ssa.Value(recv) {
						recvOK = true
					} else if ld, ok := r0.(*ssa.UnOp); ok && ld.X == ssa.Value(recv) {
						recvOK = true
					}
				} else if fp, ok := pr.fieldOf(r0); ok && len(fp.Idx) == 1 && fp.Names[0] == target && fp.Root == pr.canonicalRoot(recv) {
					recvOK = true
				}
				elemOK := appended[unwrapCallRecv(args[1])] || len(appended) == 0
				// inside a loop the list tested must be read afresh in every round: a snapshot taken before the loop
				// does not see what earlier rounds of the same call appended (Append(a, b, a) stores a twice)
				if recvOK {
					lh := loopHeaders(app)
					if len(lh[b]) > 0 {
						if ri, isInstr := r0.(ssa.Instruction); isInstr {
							fresh := false
							for h := range lh[b] {
								if lh[ri.Block()][h] {
									fresh = true
								}
							}
							if !fresh {
								stale = true
								recvOK = false
							}
						}
					}
				}
				if recvOK && elemOK {
					guarded = true
				}
			}
			if !guarded && !stale && inlineMembershipScan(w, pr, app, b, recv, target, appended) {
				guarded = true
			}
			key := fmt.Sprintf("%s.Append#%d", name, n)
			if guarded {
				c.ok("C13.guard", key, w.InstrPos(st), "append is on the not-contained side of Contains on the same list with the same element")
			} else if stale {
				c.bad("C13.guard", key, w.InstrPos(st), fmt.Sprintf("%s.Append tests Contains on a copy of the list taken before the loop over the arguments: items appended earlier in the same call are not seen, so Append(a, b, a) stores a twice", name))
			} else {
				c.bad("C13.guard", key, w.InstrPos(st), fmt.Sprintf("%s.Append grows the list without first testing Contains on that list for the element being appended: appending a present item duplicates it", name))
			}
		}
	}
	// helpers that are handed the list and grow it themselves (appendIfMissing(&o.Items, ob), a batch variant of Append)
	// are judged by the same rule, whether or not this function appends as well
	delegated := false
	if depth < 2 {
		seenH := map[*ssa.Function]bool{}
		for _, call := range callsIn(app) {
			cal := call.Common().StaticCallee()
			if cal == nil || !w.InPkg(cal) || cal == app || cal.Blocks == nil || cal.Name() == "Contains" || seenH[cal] {
				continue
			}
			for ai, a := range call.Common().Args {
				if ai >= len(cal.Params) {
					continue
				}
				a0 := unwrap(a)
				isList := a0 == ssa.Value(recv)
				if fp, ok := pr.fieldOf(a0); ok && len(fp.Idx) == 1 && fp.Root == pr.canonicalRoot(recv) {
					if _, isPtr := types.Unalias(a0.Type()).Underlying().(*types.Pointer); isPtr {
						isList = true
					}
				}
				if !isList {
					continue
				}
				if _, isPtr := types.Unalias(cal.Params[ai].Type()).Underlying().(*types.Pointer); !isPtr {
					continue
				}
				if !growsThrough(pr, cal, cal.Params[ai]) {
					continue
				}
				seenH[cal] = true
				delegated = true
				hname := name
				if n > 0 {
					hname = name + "→" + cal.Name()
				}
				checkAppendGuardOn(w, c, pr, hname, cal, cal.Params[ai], depth+1)
				break
			}
		}
	}
	if n == 0 && !delegated {
		c.bad("C13.guard", name+".Append", w.FuncPos(app), "no append to the receiver's list found in Append")
	}
}

// unwrapCallRecv: ob.GetLink() and ob are the same element for the purpose of the guard.
func unwrapCallRecv(v ssa.Value) ssa.Value {
	v = unwrap(v)
	if call, ok := v.(*ssa.Call); ok {
		if call.Common().IsInvoke() && call.Common().Method.Name() == "GetLink" {
			return unwrap(call.Common().Value)
		}
	}
	return v
}

func checkContainsEq(w *World, c *Check, pr *prover, name string, contains, itemsEqual, iriEquals *ssa.Function) {
	// Contains may delegate to the list field's own Contains (not on the pinned tree) or loop itself
	var eqCalls []*ssa.Call
	for _, call := range callsIn(contains) {
		cal := call.Common().StaticCallee()
		if cal != nil && (cal == itemsEqual || cal == iriEquals) {
			eqCalls = append(eqCalls, call)
		}
	}
	recvRoot := pr.canonicalRoot(contains.Params[0])
	param := contains.Params[1]
	// delegation: `return c.Items.Contains(r)` — membership is whatever the list's own Contains decides, and that
	// method carries its own obligation
	if len(eqCalls) == 0 {
		for _, rb := range returnBlocks(contains) {
			ret := rb.Instrs[len(rb.Instrs)-1].(*ssa.Return)
			if len(ret.Results) != 1 {
				continue
			}
			call, ok := unwrap(ret.Results[0]).(*ssa.Call)
			if !ok {
				continue
			}
			cal := call.Common().StaticCallee()
			if cal == nil || cal == contains || cal.Name() != "Contains" || !w.InPkg(cal) || len(call.Common().Args) != 2 {
				continue
			}
			if unwrap(call.Common().Args[1]) == ssa.Value(param) && derivesFromRoot(unwrap(call.Common().Args[0]), recvRoot, 0) && len(returnBlocks(contains)) == 1 {
				c.ok("C13.eq", name+".Contains", w.FuncPos(contains), "delegates to "+funcName(cal)+" on its own list with its own argument")
				return
			}
		}
	}
	// search helper: return indexOf(c.Items, r) >= 0 — the helper is judged in place of the loop
	if len(eqCalls) == 0 {
		for _, call := range callsIn(contains) {
			h := call.Common().StaticCallee()
			if h == nil || h == contains || !w.InPkg(h) || h.Blocks == nil || len(call.Common().Args) != len(h.Params) {
				continue
			}
			listIdx, itemIdx := -1, -1
			for ai, a := range call.Common().Args {
				if unwrap(a) == ssa.Value(param) {
					itemIdx = ai
				} else if derivesFromRoot(unwrap(a), recvRoot, 0) {
					listIdx = ai
				}
			}
			if listIdx < 0 || itemIdx < 0 {
				continue
			}
			// the result of Contains is that call, or its comparison with a constant
			resultFromCall := len(returnBlocks(contains)) > 0
			for _, rb := range returnBlocks(contains) {
				ret := rb.Instrs[len(rb.Instrs)-1].(*ssa.Return)
				v := ret.Results[0]
				if bo, ok := v.(*ssa.BinOp); ok {
					if _, isC := bo.Y.(*ssa.Const); isC {
						v = bo.X
					} else if _, isC := bo.X.(*ssa.Const); isC {
						v = bo.Y
					}
				}
				if unwrap(v) != ssa.Value(call) {
					resultFromCall = false
				}
			}
			if !resultFromCall {
				continue
			}
			var hEq []*ssa.Call
			for _, hc := range callsIn(h) {
				if cal := hc.Common().StaticCallee(); cal != nil && (cal == itemsEqual || cal == iriEquals) {
					hEq = append(hEq, hc)
				}
			}
			hList, hItem := pr.canonicalRoot(h.Params[listIdx]), h.Params[itemIdx]
			okPair := false
			for _, hc := range hEq {
				fl, fp := false, false
				for _, a := range hc.Common().Args[:2] {
					a0 := unwrapCallRecv(a)
					if a0 == ssa.Value(hItem) {
						fp = true
					} else if derivesFromRoot(a0, hList, 0) || derivesFromRoot(a0, ssa.Value(h.Params[listIdx]), 0) {
						fl = true
					}
				}
				if fl && fp {
					okPair = true
				}
			}
			// a "found" answer (anything but the constants false / -1) only under a successful comparison
			foundOK := true
			for _, rb := range returnBlocks(h) {
				ret := rb.Instrs[len(rb.Instrs)-1].(*ssa.Return)
				if len(ret.Results) != 1 {
					continue
				}
				if k, isC := ret.Results[0].(*ssa.Const); isC && k.Value != nil && (k.Value.String() == "false" || k.Value.String() == "-1") {
					continue
				}
				under := false
				for _, g := range rawGuards(rb) {
					if gc, ok := g.cond.(*ssa.Call); ok && g.onTrue {
						if cal := gc.Common().StaticCallee(); cal == itemsEqual || cal == iriEquals {
							under = true
						}
					}
				}
				if !under {
					foundOK = false
				}
			}
			switch {
			case !okPair:
				continue
			case containsSkipsElements(w, hEq) != "":
				c.bad("C13.eq", name+".Contains", w.FuncPos(h), name+".Contains (through "+funcName(h)+") "+containsSkipsElements(w, hEq))
			case !foundOK:
				c.bad("C13.eq", name+".Contains", w.FuncPos(h), funcName(h)+" can report a position without the equality test having succeeded")
			default:
				c.ok("C13.eq", name+".Contains", w.FuncPos(contains), "membership = "+funcName(h)+" finds an element equal (ItemsEqual/IRI.Equals) to the argument")
			}
			return
		}
	}
	good := false
	for _, call := range eqCalls {
		args := call.Common().Args
		if len(args) < 2 {
			continue
		}
		fromList, fromParam := false, false
		for _, a := range args[:2] {
			a0 := unwrapCallRecv(a)
			if a0 == ssa.Value(param) {
				fromParam = true
				continue
			}
			// element of the receiver's list: a load via IndexAddr of (a field of) the receiver
			if derivesFromRoot(a0, recvRoot, 0) {
				fromList = true
			}
		}
		if fromList && fromParam {
			good = true
		}
	}
	// every `return true` must be under the true side of an equality call
	trueOK := true
	for _, rb := range returnBlocks(contains) {
		ret := rb.Instrs[len(rb.Instrs)-1].(*ssa.Return)
		if len(ret.Results) != 1 {
			continue
		}
		if k, ok := ret.Results[0].(*ssa.Const); ok && k.Value != nil && k.Value.String() == "true" {
			under := false
			for _, g := range rawGuards(rb) {
				if gc, ok := g.cond.(*ssa.Call); ok && g.onTrue {
					if cal := gc.Common().StaticCallee(); cal == itemsEqual || cal == iriEquals {
						under = true
					}
				}
			}
			if !under {
				trueOK = false
			}
		}
	}
	skip := containsSkipsElements(w, eqCalls)
	switch {
	case !good:
		c.bad("C13.eq", name+".Contains", w.FuncPos(contains), name+".Contains does not decide membership by ItemsEqual / IRI.Equals between a list element and its argument")
	case skip != "":
		c.bad("C13.eq", name+".Contains", w.FuncPos(contains), name+".Contains "+skip)
	case !trueOK:
		c.bad("C13.eq", name+".Contains", w.FuncPos(contains), name+".Contains can return true without the equality test having succeeded")
	default:
		c.ok("C13.eq", name+".Contains", w.FuncPos(contains), "membership = ItemsEqual/IRI.Equals(element, argument)")
	}
}

func derivesFromRoot(v ssa.Value, root ssa.Value, d int) bool {
	if d > 12 || v == nil {
		return false
	}
	if v == root {
		return true
	}
	switch x := v.(type) {
	case *ssa.UnOp:
		return derivesFromRoot(x.X, root, d+1)
	case *ssa.IndexAddr:
		return derivesFromRoot(x.X, root, d+1)
	case *ssa.Index:
		return derivesFromRoot(x.X, root, d+1)
	case *ssa.FieldAddr:
		return derivesFromRoot(x.X, root, d+1)
	case *ssa.Field:
		return derivesFromRoot(x.X, root, d+1)
	case *ssa.Extract:
		return derivesFromRoot(x.Tuple, root, d+1)
	case *ssa.Next:
		return derivesFromRoot(x.Iter, root, d+1)
	case *ssa.Range:
		return derivesFromRoot(x.X, root, d+1)
	case *ssa.Alloc:
		for _, s := range storesTo(x) {
			if derivesFromRoot(s.Val, root, d+1) {
				return true
			}
		}
	case *ssa.MakeInterface:
		return derivesFromRoot(x.X, root, d+1)
	case *ssa.ChangeType:
		return derivesFromRoot(x.X, root, d+1)
	case *ssa.Convert:
		return derivesFromRoot(x.X, root, d+1)
	case *ssa.Slice:
		return derivesFromRoot(x.X, root, d+1)
	case *ssa.Phi:
		for _, e := range x.Edges {
			if e != v && derivesFromRoot(e, root, d+1) {
				return true
			}
		}
	}
	return false
}

// ---------------- C14 ----------------

func checkC14(w *World, c *Check, tier string) {
	c.Exhaustive = true
	c.Explanation = "Decides the insensitivity clauses structurally, over every use of a parsed URL's components in the closure of IRI.Equals: scheme, host and path of the two operands meet only in strings.EqualFold (the path after path cleaning) or in comparisons against constants — never in a case-sensitive == / != against each other; the scheme comparison is reachable only on the true side of the caller's checkScheme flag; fragment and raw query are never read (queries are compared only through the parsed, order-insensitive Query() multimap); the string fast path compares with EqualFold after stripping the fragment (and the scheme when not asked to check it); IRIs.Contains decides through IRI.Equals for every element. A case-sensitive comparison, an unconditional scheme test or a fragment read breaks the stated equivalence for a whole class of IRIs. (sym/refl) irisEqual and IRI.Equals are turned into decision trees over per-operand atoms and symmetric relational atoms: every pair of leaves consistent after exchanging the operands returns the same result, every leaf consistent with identical operands returns true; (components) host with port, path and parsed query of both operands are compared; (query) the values of a repeated key are compared completely as multisets, never by a one-directional lookup nest (that defect of the pinned tree was repaired, 7a585d0); (fastpath) the fast path compares the operands cut at the fragment/scheme delimiter only. NOT decided: transitivity, and agreement of the fast path with the URL path on all inputs beyond the purity condition. The path handed to a case-folding comparison is never URL.Path as written; the helpers that prepare the fast-path operands search for the scheme and fragment delimiters only."
	c.RuleText = "one obligation per read of a url.URL component in the closure of IRI.Equals, plus guard/route obligations"
	c.Trusted = []string{"go/ssa", "net/url field semantics", "strings.EqualFold is case-insensitive equality"}
	c.floor("C14.fold", 4)
	eq := w.Method("IRI", "Equals")
	if eq == nil {
		c.bad("C14.fold", "anchor:IRI.Equals", "-", "not found")
		return
	}
	clos := w.Reach([]*ssa.Function{eq}, nil)
	c.stat("closure_functions", len(clos))
	// (parse) the conversion the comparison relies on refuses nothing but the empty IRI (and what net/url refuses): an
	// extra refusal — a length limit, a scheme allow-list — sends the refused IRIs down the plain string comparison,
	// where trailing slashes, dot segments and query order are no longer ignored
	if um := w.Method("IRI", "URL"); um != nil && um.Blocks != nil {
		nRef := 0
		for _, rb := range returnBlocks(um) {
			ret := rb.Instrs[len(rb.Instrs)-1].(*ssa.Return)
			if len(ret.Results) != 2 {
				continue
			}
			ev := unwrap(ret.Results[1])
			call, isCall := ev.(*ssa.Call)
			if !isCall {
				continue // nil, or the parser's own error handed on
			}
			if cal := call.Common().StaticCallee(); cal != nil && cal.Object() != nil && cal.Object().Pkg() != nil && cal.Object().Pkg().Path() == "net/url" {
				continue
			}
			nRef++
			bad := ""
			for _, g := range rawGuards(rb) {
				bo, isBin := g.cond.(*ssa.BinOp)
				if !isBin {
					bad = shortVal(g.cond)
					continue
				}
				var subj ssa.Value
				var k *ssa.Const
				if kk, isC := bo.Y.(*ssa.Const); isC {
					subj, k = bo.X, kk
				} else if kk, isC := bo.X.(*ssa.Const); isC {
					subj, k = bo.Y, kk
				}
				if inner, isLen := lenOperand(subj); isLen {
					subj = inner
				}
				if k == nil || !isZeroConst(k.Value) || !isSameText(newProver(w), subj, um.Params[0], 0) {
					bad = shortVal(g.cond)
				}
			}
			key := fmt.Sprintf("IRI.URL:refusal#%d", nRef)
			if bad != "" {
				c.bad("C14.fold", key, w.InstrPos(ret), fmt.Sprintf("IRI.URL() refuses an IRI under the condition %s, which is not the emptiness test: for the IRIs it refuses the comparison falls back to the plain case-insensitive string comparison and stops ignoring a trailing slash, dot segments and the order of query parameters", bad))
			} else {
				c.ok("C14.fold", key, w.InstrPos(ret), "refuses the empty IRI only")
			}
		}
	}
	nreads := 0
	for _, f := range clos {
		for _, b := range f.Blocks {
			for _, in := range b.Instrs {
				fa, ok := in.(*ssa.FieldAddr)
				if !ok {
					continue
				}
				n := namedOf(fa.X.Type())
				if n == nil || n.Obj().Pkg() == nil || n.Obj().Pkg().Path() != "net/url" || n.Obj().Name() != "URL" {
					continue
				}
				fname := fieldNameOf(fa.X.Type(), fa.Field)
				// the parsed operands are compared as they are: nothing in the closure of the comparison writes a component
				// of a parsed URL (dropping a "default" port, lower-casing in place, cutting the path): such a rewrite is
				// a second notion of equivalence that the component rules below never see
				if fa.Referrers() != nil {
					stored := false
					for _, r := range *fa.Referrers() {
						if st, isSt := r.(*ssa.Store); isSt && st.Addr == ssa.Value(fa) {
							stored = true
							c.bad("C14.fold", fmt.Sprintf("%s:writes:URL.%s", funcName(f), fname), w.InstrPos(st), fmt.Sprintf("%s rewrites URL.%s of a parsed operand before comparing (%s): IRIs that differ in what the rewrite removes compare equal — and, applied per operand, the relation stops being transitive across schemes", funcName(f), fname, shortVal(st.Val)))
						}
					}
					if stored {
						continue
					}
				}
				nreads++
				key := fmt.Sprintf("%s:%s@%s", funcName(f), fname, w.InstrPos(fa))
				key = fmt.Sprintf("%s:%s#%d", funcName(f), fname, nreads)
				switch fname {
				case "Fragment", "RawFragment", "RawQuery", "ForceQuery":
					c.bad("C14.fold", key, w.InstrPos(fa), fmt.Sprintf("%s reads URL.%s: the fragment must be ignored and queries compared only as parsed multisets", funcName(f), fname))
					continue
				case "Scheme", "Host", "Path", "RawPath", "Opaque", "User":
				default:
					continue
				}
				// every use of the loaded value
				bad := usesCaseSensitively(fa, 0)
				if bad != "" {
					c.bad("C14.fold", key, w.InstrPos(fa), fmt.Sprintf("URL.%s of an operand %s", fname, bad))
					continue
				}
				if fname == "Path" || fname == "RawPath" {
					// the paths of the two operands are compared after cleaning: an EqualFold on the paths as they are written
					// tells /a/b/ from /a//b although both are /a/b (a "same length, different spelling" quick reject)
					if rawPathFolded(fa) {
						c.bad("C14.fold", key, w.InstrPos(fa), fmt.Sprintf("%s hands URL.Path as it is written to strings.EqualFold against the other operand's path: trailing slashes, doubled slashes and dot segments make equivalent paths differ — each still equals its canonical form, so the relation also stops being transitive", funcName(f)))
						continue
					}
					// a path may be cleaned (dot segments, doubled slashes) and lose a trailing slash; any other rewriting
					// (a cut set that also strips dots or leading characters, replacements) makes ids with different
					// paths equal: /.well-known/actor and /well-known/actor
					if how := rewritesPath(fa); how != "" {
						c.bad("C14.fold", key, w.InstrPos(fa), fmt.Sprintf("%s passes URL.Path through %s before comparing: only path cleaning and the removal of a trailing \"/\" preserve the identity of a path", funcName(f), how))
						continue
					}
				}
				if fname == "Scheme" {
					// the relation must not single out particular schemes: a scheme may be tested for being present and
					// compared with the other operand's, but not with a scheme name — the insensitivities (trailing
					// slash, dot segments, query order, fragment) would then hold for the named schemes only, and with
					// the scheme ignored the relation stops being transitive across schemes
					if name := comparedWithSchemeName(fa); name != "" {
						c.bad("C14.scheme", key, w.InstrPos(fa), fmt.Sprintf("%s compares URL.Scheme with the scheme name %q: IRIs of other schemes take a different comparison path and lose the documented insensitivities", funcName(f), name))
						continue
					}
				}
				if fname == "Scheme" && f != eq {
					// comparison of schemes must be under checkScheme
					if msg := schemeGuard(f, fa); msg != "" {
						c.bad("C14.scheme", key, w.InstrPos(fa), msg)
						continue
					}
				}
				c.ok("C14.fold", key, w.InstrPos(fa), "used only in case-insensitive comparisons / against constants")
			}
		}
	}
	c.stat("url_component_reads", nreads)
	// fast path in IRI.Equals: no case-sensitive string == between receiver- and argument-derived strings
	for _, b := range eq.Blocks {
		for _, in := range b.Instrs {
			bo, ok := in.(*ssa.BinOp)
			if !ok || (bo.Op != token.EQL && bo.Op != token.NEQ) || !isStringish(bo.X.Type()) {
				continue
			}
			_, cx := bo.X.(*ssa.Const)
			_, cy := bo.Y.(*ssa.Const)
			if !cx && !cy {
				c.bad("C14.fold", "IRI.Equals:fastpath-case-sensitive", w.InstrPos(bo), "IRI.Equals compares two IRI strings case-sensitively")
			}
		}
	}
	hasFold := false
	for _, call := range callsIn(eq) {
		if cal := call.Common().StaticCallee(); cal != nil && cal.Name() == "EqualFold" {
			hasFold = true
		}
	}
	if hasFold {
		c.ok("C14.fold", "IRI.Equals:fastpath", w.FuncPos(eq), "fast path compares with strings.EqualFold")
	}
	// scheme stripping in the fast path happens only when !checkScheme
	if len(eq.Params) >= 3 {
		check := eq.Params[2]
		for _, call := range callsIn(eq) {
			cal := call.Common().StaticCallee()
			if cal == nil || !w.InPkg(cal) || !strings.Contains(strings.ToLower(cal.Name()), "scheme") {
				continue
			}
			okG := false
			for _, g := range rawGuards(call.Block()) {
				if g.cond == ssa.Value(check) && !g.onTrue {
					okG = true
				}
			}
			if okG {
				c.ok("C14.scheme", "IRI.Equals:"+cal.Name(), w.InstrPos(call), "scheme is stripped only when the caller does not ask to check it")
			} else {
				c.bad("C14.scheme", "IRI.Equals:"+cal.Name(), w.InstrPos(call), "the scheme is stripped from the compared strings regardless of checkScheme")
			}
		}
	}
	// fragment is stripped in the fast path
	stripsFragment := false
	for _, f := range clos {
		for _, call := range callsIn(f) {
			if cal := call.Common().StaticCallee(); cal != nil && cal.Object() != nil && cal.Object().Pkg() != nil && cal.Object().Pkg().Path() == "strings" && (strings.HasPrefix(cal.Name(), "Index") || cal.Name() == "Cut" || cal.Name() == "SplitN") {
				for _, a := range call.Common().Args {
					if s, ok := constSeparator(a); ok && s == "#" {
						stripsFragment = true
					}
				}
			}
		}
	}
	if !stripsFragment {
		// a hand-written scan: a byte of a string compared with '#'
		for _, f := range clos {
			for _, b := range f.Blocks {
				for _, in := range b.Instrs {
					bo, ok := in.(*ssa.BinOp)
					if !ok || (bo.Op != token.EQL && bo.Op != token.NEQ) {
						continue
					}
					for _, pair := range [][2]ssa.Value{{bo.X, bo.Y}, {bo.Y, bo.X}} {
						var indexed ssa.Value
						switch lk := unwrap(pair[0]).(type) {
						case *ssa.Lookup:
							indexed = lk.X
						case *ssa.Index:
							indexed = lk.X
						}
						k, isC := pair[1].(*ssa.Const)
						if indexed != nil && isC && isStringish(indexed.Type()) && k.Value != nil && k.Value.Kind() == constant.Int {
							if v, exact := constant.Int64Val(k.Value); exact && v == '#' {
								stripsFragment = true
							}
						}
					}
				}
			}
		}
	}
	if stripsFragment {
		c.ok("C14.fold", "fastpath-strips-fragment", w.FuncPos(eq), "the string fast path cuts the operands at '#'")
	} else {
		c.bad("C14.fold", "fastpath-strips-fragment", w.FuncPos(eq), "the string fast path no longer cuts the fragment before comparing")
	}
	// the scheme ends at the FIRST "://" and the fragment starts at the FIRST '#': the cut positions of the string
	// fast path must come from strings.Index / IndexByte / Cut, never from a last-occurrence search
	for _, f := range clos {
		for _, call := range callsIn(f) {
			cal := call.Common().StaticCallee()
			if cal == nil || cal.Object() == nil || cal.Object().Pkg() == nil || cal.Object().Pkg().Path() != "strings" {
				continue
			}
			sep := ""
			for _, a := range call.Common().Args {
				if s, ok := constSeparator(a); ok && (s == "://" || s == "#" || s == ":") {
					sep = s
				}
			}
			if sep == "" {
				continue
			}
			key := fmt.Sprintf("%s:%s(%q)", funcName(f), cal.Name(), sep)
			switch cal.Name() {
			case "Index", "IndexByte", "IndexRune", "Cut", "SplitN", "Contains":
				c.ok("C14.cut", key, w.InstrPos(call), "first occurrence")
			case "LastIndex", "LastIndexByte", "LastIndexAny", "IndexAny", "Split", "Fields":
				c.bad("C14.cut", key, w.InstrPos(call), fmt.Sprintf("%s locates %q with strings.%s: the scheme/fragment delimiter is the first occurrence; IRIs that embed another URL (a query parameter, an archive path) are cut in the wrong place and compare equal although host or path differ", funcName(f), sep, cal.Name()))
			}
		}
	}
	// … and the helpers that prepare the operands of the string fast path (string in, string out, called by IRI.Equals)
	// search for those two delimiters only: a cut at any other character ("drop the user information up to the first @")
	// removes part of what identifies the resource — host and path when the '@' sits in the path
	for _, call := range callsIn(eq) {
		h := call.Common().StaticCallee()
		if h == nil || !w.InPkg(h) || h.Blocks == nil || h.Signature.Results().Len() != 1 || !isStringish(h.Signature.Results().At(0).Type()) {
			continue
		}
		for _, hc := range callsIn(h) {
			cal := hc.Common().StaticCallee()
			if cal == nil || cal.Object() == nil || cal.Object().Pkg() == nil || cal.Object().Pkg().Path() != "strings" {
				continue
			}
			if !(strings.HasPrefix(cal.Name(), "Index") || strings.HasPrefix(cal.Name(), "LastIndex") || cal.Name() == "Cut" || strings.HasPrefix(cal.Name(), "Split") || strings.HasPrefix(cal.Name(), "Trim")) {
				continue
			}
			for _, a := range hc.Common().Args {
				if sep, ok := constSeparator(a); ok && sep != "://" && sep != "#" && sep != ":" && sep != "" {
					c.bad("C14.cut", fmt.Sprintf("%s:%s(%q)", funcName(h), cal.Name(), sep), w.InstrPos(hc), fmt.Sprintf("%s, which prepares an operand of the string fast path, cuts at %q: only the scheme delimiter and the fragment delimiter may be cut away before two IRIs are compared as text — anything else removes part of host, path or query for the IRIs that contain that character", funcName(h), sep))
				}
			}
		}
	}
	checkC14Relation(w, c, eq, clos)
	// IRIs.Contains -> IRI.Equals
	if ic := w.Method("IRIs", "Contains"); ic != nil {
		found := false
		for _, call := range callsIn(ic) {
			if call.Common().StaticCallee() == eq {
				found = true
			}
		}
		var eqs []*ssa.Call
		for _, call := range callsIn(ic) {
			if call.Common().StaticCallee() == eq {
				eqs = append(eqs, call)
			}
		}
		if skip := containsSkipsElements(w, eqs); found && skip != "" {
			c.bad("C14.contains", "IRIs.Contains", w.FuncPos(ic), "IRIs.Contains "+skip+": membership no longer agrees with IRI.Equals for the IRIs the filter gets wrong")
		} else if found {
			c.ok("C14.contains", "IRIs.Contains", w.FuncPos(ic), "membership decided by IRI.Equals")
		} else {
			c.bad("C14.contains", "IRIs.Contains", w.FuncPos(ic), "IRIs.Contains does not decide membership through IRI.Equals")
		}
	}
}

// checkC14Relation: symmetry/reflexivity of the comparison as a decision tree, the components that must take part, the
// shape of the per-key query value comparison, and the purity of the string fast path.
func checkC14Relation(w *World, c *Check, eq *ssa.Function, clos []*ssa.Function) {
	ie := w.Func("irisEqual")
	symCalls, reflCalls := map[*ssa.Function]bool{}, map[*ssa.Function]bool{}
	for _, f := range []*ssa.Function{ie, eq} {
		if f == nil {
			continue
		}
		name := funcName(f)
		sym, refl, sw, rw, und, n := checkPairPredicate(w, f, symCalls, reflCalls)
		c.stat("decision_leaves_"+name, n)
		if und != "" {
			c.bad("C14.sym", name, w.FuncPos(f), "cannot decide whether "+name+" treats its two operands alike: "+und)
			continue
		}
		if sym {
			c.ok("C14.sym", name, w.FuncPos(f), fmt.Sprintf("%d decision leaves; every pair that is consistent after exchanging the operands returns the same result (loop part judged by C14.query)", n))
			symCalls[f] = true
		} else {
			c.bad("C14.sym", name, w.FuncPos(f), name+" is not symmetric in its operands: "+sw)
		}
		if refl {
			c.ok("C14.refl", name, w.FuncPos(f), "every leaf consistent with identical operands returns true")
			reflCalls[f] = true
		} else {
			c.bad("C14.refl", name, w.FuncPos(f), name+" is not reflexive: "+rw)
		}
	}
	// ---- components: host (with port), path and the parsed query of BOTH operands meet in a comparison ----
	isURL := func(t types.Type) bool {
		n := namedOf(t)
		return n != nil && n.Obj().Pkg() != nil && n.Obj().Pkg().Path() == "net/url" && n.Obj().Name() == "URL"
	}
	// which URL value (by the SSA value of the *url.URL) a string derives from, and through which component
	var compOf func(v ssa.Value, d int) (ssa.Value, string)
	compOf = func(v ssa.Value, d int) (ssa.Value, string) {
		if d > 6 {
			return nil, ""
		}
		switch x := v.(type) {
		case *ssa.UnOp:
			if fa, ok := x.X.(*ssa.FieldAddr); ok && isURL(fa.X.Type()) {
				return fa.X, fieldNameOf(fa.X.Type(), fa.Field)
			}
			return compOf(x.X, d+1)
		case *ssa.Call:
			if cal := x.Common().StaticCallee(); cal != nil && len(x.Common().Args) >= 1 {
				if cal.Signature.Recv() != nil && isURL(cal.Signature.Recv().Type()) {
					return x.Common().Args[0], cal.Name() + "()"
				}
				// a package helper handed the URL itself (cleanPath(u *url.URL) string): the component its results are cut from
				if w.InPkg(cal) && cal.Blocks != nil {
					var argV ssa.Value
					comp, agree := "", true
					for _, rb := range returnBlocks(cal) {
						ret := rb.Instrs[len(rb.Instrs)-1].(*ssa.Return)
						if len(ret.Results) != 1 {
							agree = false
							break
						}
						uv, cp := compOf(ret.Results[0], d+1)
						pv, isParam := uv.(*ssa.Parameter)
						if !isParam || cp == "" || (comp != "" && cp != comp) {
							agree = false
							break
						}
						for k, fp := range cal.Params {
							if fp == pv && k < len(x.Common().Args) {
								argV = x.Common().Args[k]
							}
						}
						comp = cp
					}
					if agree && argV != nil && isURL(argV.Type()) {
						return argV, comp
					}
				}
				return compOf(x.Common().Args[0], d+1)
			}
		case *ssa.Convert:
			return compOf(x.X, d+1)
		case *ssa.ChangeType:
			return compOf(x.X, d+1)
		}
		return nil, ""
	}
	compared := map[string]bool{}
	for _, f := range clos {
		for _, call := range callsIn(f) {
			cal := call.Common().StaticCallee()
			if cal == nil {
				continue
			}
			if rn := func() *types.Named {
				if cal.Signature.Recv() == nil {
					return nil
				}
				return namedOf(cal.Signature.Recv().Type())
			}(); rn != nil && rn.Obj().Pkg() != nil && rn.Obj().Pkg().Path() == "net/url" && rn.Obj().Name() == "Values" && (cal.Name() == "Get" || cal.Name() == "Has") && cal.Name() == "Get" {
				c.bad("C14.query", funcName(f)+":Values.Get", w.InstrPos(call), fmt.Sprintf("%s reads a query parameter with url.Values.Get, which yields the first value of a repeated key only: a decision taken from it depends on the order in which the values of that key are written (?tag=a&tag=b against ?tag=b&tag=a)", funcName(f)))
			}
			if cal.Signature.Recv() != nil && isURL(cal.Signature.Recv().Type()) {
				switch cal.Name() {
				case "Hostname", "Port":
					c.bad("C14.components", funcName(f)+":URL."+cal.Name(), w.InstrPos(call), fmt.Sprintf("%s uses URL.%s(): the host is compared with its port as one component (two ids that differ only in the port are different)", funcName(f), cal.Name()))
				case "Query":
					compared["Query()@"+funcName(f)] = true
				}
			}
			if cal.Name() == "EqualFold" && len(call.Common().Args) == 2 {
				u1, c1 := compOf(call.Common().Args[0], 0)
				u2, c2 := compOf(call.Common().Args[1], 0)
				if u1 != nil && u2 != nil && u1 != u2 && c1 == c2 {
					compared[c1] = true
				}
			}
			// a package predicate that folds its two string parameters (pathsEqual(u.Path, uw.Path))
			if w.InPkg(cal) && len(call.Common().Args) >= 2 && foldsFirstTwoParams(cal) {
				u1, c1 := compOf(call.Common().Args[0], 0)
				u2, c2 := compOf(call.Common().Args[1], 0)
				if u1 != nil && u2 != nil && u1 != u2 && c1 == c2 {
					compared[c1] = true
				}
			}
		}
	}
	for _, comp := range []string{"Host", "Path"} {
		if compared[comp] {
			c.ok("C14.components", comp, w.FuncPos(eq), "URL."+comp+" of the two operands is compared with strings.EqualFold")
		} else {
			c.bad("C14.components", comp, w.FuncPos(eq), "URL."+comp+" of the two operands is never compared: ids that differ only there are judged equal")
		}
	}
	// a component the closure looks at to ADMIT an IRI to the component-wise comparison (a validity predicate that is
	// content with URL.Opaque in place of a host) must be among the components that are compared: otherwise all the
	// IRIs it admits that differ only there — urn:uuid:A and urn:uuid:B have neither host nor path — are equal
	for _, f := range clos {
		for _, b := range f.Blocks {
			for _, in := range b.Instrs {
				fa, ok := in.(*ssa.FieldAddr)
				if !ok || !isURL(fa.X.Type()) {
					continue
				}
				fname := fieldNameOf(fa.X.Type(), fa.Field)
				if fname != "Opaque" && fname != "User" && fname != "RawPath" {
					continue
				}
				if !compared[fname] {
					c.bad("C14.components", funcName(f)+":reads:URL."+fname, w.InstrPos(fa), fmt.Sprintf("%s reads URL.%s of an operand, but the two operands' %s never meet in a comparison: IRIs admitted on the strength of that component and differing only in it compare equal", funcName(f), fname, fname))
				}
			}
		}
	}
	nq := 0
	for k := range compared {
		if strings.HasPrefix(k, "Query()@") {
			nq++
		}
	}
	if nq > 0 {
		c.ok("C14.components", "Query", w.FuncPos(eq), "the parsed query of the operands is compared")
	} else {
		c.bad("C14.components", "Query", w.FuncPos(eq), "the parsed query of the operands is never compared")
	}
	// ---- query: the values of one key are compared as multisets ----
	// a nest 'for x in A { for y in B { x == y } }' (each value of one side looked up in the other) is containment in one
	// direction, which is neither symmetric nor multiset equality once a value repeats
	if ie != nil {
		// the comparison may live in helpers of irisEqual (queriesEqual, sameValues …): look at its whole package closure
		qfns := w.Reach([]*ssa.Function{ie}, func(f *ssa.Function) bool { return f.Name() == "Equals" || f.Name() == "ItemsEqual" })
		loops := map[*ssa.BasicBlock]map[*ssa.BasicBlock]bool{}
		var qblocks []*ssa.BasicBlock
		for _, qf := range qfns {
			for b, hs := range loopHeaders(qf) {
				loops[b] = hs
			}
			qblocks = append(qblocks, qf.Blocks...)
		}
		nested := ""
		for _, b := range qblocks {
			for _, in := range b.Instrs {
				bo, ok := in.(*ssa.BinOp)
				if !ok || (bo.Op != token.EQL && bo.Op != token.NEQ) || !isStringish(bo.X.Type()) {
					continue
				}
				_, kx := bo.X.(*ssa.Const)
				_, ky := bo.Y.(*ssa.Const)
				if kx || ky {
					continue
				}
				// both operands are elements of slices iterated by two different loops that both contain this block
				hx, hy := elementLoop(bo.X, loops[b]), elementLoop(bo.Y, loops[b])
				if hx != nil && hy != nil && hx != hy {
					nested = w.InstrPos(bo)
				}
			}
		}
		// positive side: the complete lists are compared — sorted copies position by position, or by counting
		sorted := 0
		pairwise := false
		counting := false
		for _, qf := range qfns {
			for _, call := range callsIn(qf) {
				if cal := call.Common().StaticCallee(); cal != nil && cal.Object() != nil && cal.Object().Pkg() != nil {
					full := cal.Object().Pkg().Path() + "." + cal.Name()
					if full == "sort.Strings" || full == "slices.Sort" || full == "sort.Slice" || full == "sort.Sort" || full == "slices.SortFunc" {
						// a helper that sorts (sortedCopy(values)) sorts once per call of it
						times := 0
						for _, qg := range qfns {
							for _, hc := range callsIn(qg) {
								if hc.Common().StaticCallee() == qf && qg != qf {
									times++
								}
							}
						}
						if times == 0 || qf == ie {
							times = 1
						}
						sorted += times
					}
				}
			}
		}
		// the lists that are sorted: arguments of the sort calls, and results of helpers that sort what they return
		sortedLists := map[ssa.Value]bool{}
		sortingHelper := map[*ssa.Function]bool{}
		for _, qf := range qfns {
			for _, call := range callsIn(qf) {
				cal := call.Common().StaticCallee()
				if cal == nil || cal.Object() == nil || cal.Object().Pkg() == nil || len(call.Common().Args) == 0 {
					continue
				}
				full := cal.Object().Pkg().Path() + "." + cal.Name()
				if full == "sort.Strings" || full == "slices.Sort" || full == "sort.Slice" || full == "sort.Sort" || full == "slices.SortFunc" {
					a := resolveLocal(stripConv(call.Common().Args[0]))
					sortedLists[a] = true
					// returned by its function: a sorting helper
					for _, rb := range returnBlocks(qf) {
						ret := rb.Instrs[len(rb.Instrs)-1].(*ssa.Return)
						for _, r := range ret.Results {
							if resolveLocal(stripConv(r)) == a {
								sortingHelper[qf] = true
							}
						}
					}
				}
			}
		}
		isSorted := func(list ssa.Value) bool {
			l := resolveLocal(stripConv(list))
			if sortedLists[l] {
				return true
			}
			if call, ok := l.(*ssa.Call); ok && sortingHelper[call.Common().StaticCallee()] {
				return true
			}
			return false
		}
		listOf := func(v ssa.Value) ssa.Value {
			u, ok := v.(*ssa.UnOp)
			if !ok || u.Op != token.MUL {
				return nil
			}
			ia, ok := u.X.(*ssa.IndexAddr)
			if !ok {
				return nil
			}
			return ia.X
		}
		unsortedPair := ""
		for _, b := range qblocks {
			for _, in := range b.Instrs {
				switch x := in.(type) {
				case *ssa.BinOp:
					if (x.Op == token.EQL || x.Op == token.NEQ) && isStringish(x.X.Type()) {
						ix, iy := elementIndex(x.X), elementIndex(x.Y)
						if ix != nil && iy != nil && ix == iy && len(loops[b]) > 0 {
							pairwise = true
							// position by position makes sense only between two SORTED lists
							if sorted >= 2 {
								for _, side := range []ssa.Value{x.X, x.Y} {
									if l := listOf(side); l != nil && !isSorted(l) {
										unsortedPair = w.InstrPos(x) + ": " + shortVal(l)
									}
								}
							}
						}
					}
				case *ssa.MapUpdate:
					if bt, ok := types.Unalias(x.Value.Type()).Underlying().(*types.Basic); ok && bt.Info()&types.IsInteger != 0 && len(loops[b]) > 0 {
						counting = true
					}
				}
			}
		}
		if nested == "" && unsortedPair != "" && !counting {
			c.bad("C14.query", "irisEqual:values-of-a-key:complete", w.FuncPos(ie), "the values of a repeated query key are compared position by position, but one of the two lists is not a sorted one ("+unsortedPair+"): the answer depends on the order in which the values are written, and differs between the two argument orders")
		} else if nested == "" && !(sorted >= 2 && pairwise) && !counting {
			c.bad("C14.query", "irisEqual:values-of-a-key:complete", w.FuncPos(ie), "the values of a repeated query key are not compared completely: neither two sorted lists compared position by position over their whole length nor a counting comparison was found (comparing only some of the values makes ids with different queries equal)")
		} else if nested == "" {
			c.ok("C14.query", "irisEqual:values-of-a-key:complete", w.FuncPos(ie), "sorted copies compared position by position (or counted)")
		}
		// the KEY sets: the two parsed queries (maps) are compared in both directions — equal lengths plus a lookup of
		// every key of one in the other, a loop over each of them, or one call that is given both. A single loop over one
		// map with lookups in the other is inclusion: "?a=1" would equal "?a=1&rev=2" in one argument order only.
		{
			isQueryMap := func(v ssa.Value) bool {
				m, ok := types.Unalias(v.Type()).Underlying().(*types.Map)
				if !ok || !isStringish(m.Key()) {
					return false
				}
				_, isSl := types.Unalias(m.Elem()).Underlying().(*types.Slice)
				return isSl
			}
			lenCompared, bothToOne := false, false
			ranged := map[ssa.Value]bool{}
			nQueryMaps := 0
			for _, qf := range qfns {
				for _, b := range qf.Blocks {
					for _, in := range b.Instrs {
						switch x := in.(type) {
						case *ssa.BinOp:
							if x.Op == token.EQL || x.Op == token.NEQ {
								lx, okx := lenOperand(x.X)
								ly, oky := lenOperand(x.Y)
								if okx && oky && isQueryMap(lx) && isQueryMap(ly) && lx != ly {
									lenCompared = true
								}
							}
						case *ssa.Range:
							if isQueryMap(x.X) {
								ranged[x.X] = true
							}
						case *ssa.Call:
							if cal := x.Common().StaticCallee(); cal != nil && cal.Name() == "Query" && isQueryMap(x) {
								nQueryMaps++
							}
							n := 0
							for _, a := range x.Common().Args {
								if isQueryMap(unwrap(a)) {
									n++
								}
							}
							if n >= 2 {
								if cal := x.Common().StaticCallee(); cal == nil || !w.InPkg(cal) {
									bothToOne = true // reflect.DeepEqual, maps.EqualFunc …
								}
							}
						}
					}
				}
			}
			switch {
			case nQueryMaps == 0:
				// no parsed query at all: C14.components reports that
			case lenCompared || bothToOne || len(ranged) >= 2:
				c.ok("C14.query", "irisEqual:keys-both-ways", w.FuncPos(ie), "the two parsed queries are compared in both directions (equal sizes and inclusion, two loops, or one comparison of both)")
			default:
				c.bad("C14.query", "irisEqual:keys-both-ways", w.FuncPos(ie), "the keys of the two parsed queries are compared in one direction only (a loop over one query looking its keys up in the other, without comparing the sizes or a second loop): an id whose query has additional parameters equals the one without them in one argument order and not in the other")
			}
		}
		if nested != "" {
			c.bad("C14.query", "irisEqual:values-of-a-key", nested, "the values of a repeated query key are compared by looking each value of one operand up among the other's (nested loops around the == at "+nested+"): with a repeated value this is containment in one direction — '?x=1&x=1' equals '?x=1&x=2' but not the other way round — not equality of multisets")
		} else {
			c.ok("C14.query", "irisEqual:values-of-a-key", w.FuncPos(ie), "no one-directional lookup nest over the two value lists")
		}
	}
	// ---- fast path: the strings compared are the operands cut at a delimiter, nothing else ----
	for _, call := range callsIn(eq) {
		cal := call.Common().StaticCallee()
		if cal == nil || cal.Name() != "EqualFold" {
			continue
		}
		for ai, a := range call.Common().Args {
			if msg := fastPathImpure(w, a, 0, map[ssa.Value]bool{}); msg != "" {
				c.bad("C14.fastpath", fmt.Sprintf("IRI.Equals:operand#%d", ai+1), w.InstrPos(call), "the string compared by the fast path "+msg+": the fast path then disagrees with the component-wise comparison (e.g. a '/' that belongs to the query is dropped)")
			} else {
				c.ok("C14.fastpath", fmt.Sprintf("IRI.Equals:operand#%d", ai+1), w.InstrPos(call), "operand cut at the fragment / scheme delimiter only")
			}
		}
	}
}

// elementLoop: v is an element of a slice being iterated (go/ssa range-over-slice: load of &s[i] with i the index phi of
// a loop header in hs); returns that header.
func elementLoop(v ssa.Value, hs map[*ssa.BasicBlock]bool) *ssa.BasicBlock {
	u, ok := v.(*ssa.UnOp)
	if !ok || u.Op != token.MUL {
		return nil
	}
	ia, ok := u.X.(*ssa.IndexAddr)
	if !ok {
		return nil
	}
	idx := ia.Index
	if bo, ok := idx.(*ssa.BinOp); ok {
		idx = bo.X
	}
	var phi *ssa.Phi
	switch x := idx.(type) {
	case *ssa.Phi:
		phi = x
	case *ssa.BinOp:
		phi, _ = x.X.(*ssa.Phi)
	}
	if phi == nil {
		// rangeindex loops: index = phi + 1 computed in the header
		if bo, ok := ia.Index.(*ssa.BinOp); ok {
			phi, _ = bo.X.(*ssa.Phi)
		}
	}
	if phi != nil && hs[phi.Block()] {
		return phi.Block()
	}
	return nil
}

// elementIndex: v is a load of &s[i]; returns the index value i.
func elementIndex(v ssa.Value) ssa.Value {
	u, ok := v.(*ssa.UnOp)
	if !ok || u.Op != token.MUL {
		return nil
	}
	ia, ok := u.X.(*ssa.IndexAddr)
	if !ok {
		return nil
	}
	return ia.Index
}

// fastPathImpure follows a string back to the operand: slicing at computed positions, conversions and phi are pure;
// a call of a package function is followed through its returns; a strings.Trim*/Replace*/To* call is a rewrite.
func fastPathImpure(w *World, v ssa.Value, d int, seen map[ssa.Value]bool) string {
	if d > 12 || seen[v] {
		return ""
	}
	seen[v] = true
	switch x := v.(type) {
	case *ssa.Parameter, *ssa.Const:
		return ""
	case *ssa.Convert:
		return fastPathImpure(w, x.X, d+1, seen)
	case *ssa.ChangeType:
		return fastPathImpure(w, x.X, d+1, seen)
	case *ssa.Slice:
		return fastPathImpure(w, x.X, d+1, seen)
	case *ssa.Phi:
		for _, e := range x.Edges {
			if m := fastPathImpure(w, e, d+1, seen); m != "" {
				return m
			}
		}
		return ""
	case *ssa.Call:
		cal := x.Common().StaticCallee()
		if cal == nil {
			return "passes through a dynamic call"
		}
		if w.InPkg(cal) && cal.Blocks != nil {
			// the callee's returns, with its parameters standing for the arguments
			for _, rb := range returnBlocks(cal) {
				ret := rb.Instrs[len(rb.Instrs)-1].(*ssa.Return)
				for _, r := range ret.Results {
					if isStringish(r.Type()) {
						if m := fastPathImpure(w, r, d+1, seen); m != "" {
							return m + " (in " + funcName(cal) + ")"
						}
					}
				}
			}
			for _, a := range x.Common().Args {
				if isStringish(a.Type()) {
					if m := fastPathImpure(w, a, d+1, seen); m != "" {
						return m
					}
				}
			}
			return ""
		}
		full := cal.Name()
		if cal.Object() != nil && cal.Object().Pkg() != nil {
			full = cal.Object().Pkg().Path() + "." + cal.Name()
		}
		if strings.HasPrefix(full, "strings.Trim") || strings.HasPrefix(full, "strings.Replace") || strings.HasPrefix(full, "strings.To") || full == "strings.Map" || strings.HasPrefix(full, "path") {
			return "is rewritten with " + full
		}
		return ""
	}
	return ""
}

// usesCaseSensitively follows the loads of a URL component and reports a use that compares it (==, !=, <, …)
// against a non-constant, or "" when every use is EqualFold / path cleaning / len / comparison with a constant.
func usesCaseSensitively(v ssa.Value, d int) string {
	if d > 8 {
		return ""
	}
	refs := v.Referrers()
	if refs == nil {
		return ""
	}
	for _, r := range *refs {
		switch x := r.(type) {
		case *ssa.UnOp:
			if msg := usesCaseSensitively(x, d+1); msg != "" {
				return msg
			}
		case *ssa.BinOp:
			switch x.Op {
			case token.EQL, token.NEQ, token.LSS, token.GTR, token.LEQ, token.GEQ:
				other := x.X
				if other == v {
					other = x.Y
				}
				if _, isConst := other.(*ssa.Const); !isConst {
					return fmt.Sprintf("is compared case-sensitively (%s) with a non-constant", x.Op)
				}
			}
		case *ssa.Call:
			cal := x.Common().StaticCallee()
			if cal == nil {
				continue
			}
			full := cal.Name()
			if cal.Object() != nil && cal.Object().Pkg() != nil {
				full = cal.Object().Pkg().Path() + "." + cal.Name()
			}
			switch {
			case full == "strings.EqualFold":
			case strings.HasSuffix(full, ".Clean"): // path/filepath.Clean, path.Clean
				if msg := usesCaseSensitively(x, d+1); msg != "" {
					return msg
				}
			case strings.HasPrefix(full, "strings.") && (cal.Name() == "Compare" || cal.Name() == "Contains" || cal.Name() == "HasPrefix" || cal.Name() == "HasSuffix"):
				return "is compared with strings." + cal.Name() + " (case-sensitive)"
			case strings.HasPrefix(full, "strings.Trim") || strings.HasPrefix(full, "strings.Replace") || full == "strings.TrimPrefix" || full == "strings.TrimSuffix":
				return "is rewritten with " + full + " before being compared: characters are removed from the component (e.g. the leading '/' that keeps dot segments from climbing above the root), so equivalent forms stop comparing equal"
			}
		case *ssa.Slice:
			return "is sliced before being compared (part of the component is dropped)"
		case *ssa.Phi, *ssa.Convert, *ssa.ChangeType:
			if msg := usesCaseSensitively(x.(ssa.Value), d+1); msg != "" {
				return msg
			}
		}
	}
	return ""
}

// schemeGuard: in irisEqual-like functions, a use of URL.Scheme inside EqualFold must sit under the checkScheme flag.
func schemeGuard(f *ssa.Function, fa *ssa.FieldAddr) string {
	var flag *ssa.Parameter
	for _, p := range f.Params {
		if b, ok := p.Type().Underlying().(*types.Basic); ok && b.Kind() == types.Bool {
			flag = p
		}
	}
	// find EqualFold calls that consume this scheme
	var folds []*ssa.Call
	var walk func(v ssa.Value, d int)
	walk = func(v ssa.Value, d int) {
		if d > 4 || v.Referrers() == nil {
			return
		}
		for _, r := range *v.Referrers() {
			switch x := r.(type) {
			case *ssa.UnOp:
				walk(x, d+1)
			case *ssa.Call:
				if cal := x.Common().StaticCallee(); cal != nil && cal.Name() == "EqualFold" {
					folds = append(folds, x)
				}
			}
		}
	}
	walk(fa, 0)
	for _, call := range folds {
		if flag == nil {
			return "schemes are compared but the function has no checkScheme flag"
		}
		ok := false
		for _, g := range rawGuards(call.Block()) {
			if g.cond == ssa.Value(flag) && g.onTrue {
				ok = true
			}
		}
		if !ok {
			return "schemes are compared even when the caller asked to ignore the scheme (comparison not under checkScheme)"
		}
	}
	return ""
}

// ---------------- C17 ----------------

func checkC17(w *World, c *Check, tier string) {
	c.Level = "proof"
	c.Exhaustive = true
	c.Explanation = "Proves the comparator has the key form less(a,b) = key(a) ≻ key(b): (form) the value returned on the both-non-nil path is time.Time.After(k1, k2) (or Before with swapped operands) where k1 depends only on the first parameter and k2 only on the second; (iso) the two key expressions are the same expression up to renaming the parameter; (max) the key is ite(After(updated, published), updated, published), i.e. the later of the two instants; (nil) by abstract interpretation, (nil, object) is true, (object, nil) and (nil, nil) are false, and a conversion error yields false. (paths) every other return depends only on nil/conversion-error tests of the operands. A comparator of this form is a strict weak order whenever ≻ is one on the keys (irreflexive: key(a) ≻ key(a) is false; asymmetric and transitive because After is; incomparability is equality of instants, which is transitive), with nil as the top key — so sorting yields newest-first. Assumes time.Time.After is a strict weak order on instants."
	c.RuleText = "obligations: form, per-parameter dependence, isomorphism of the two key slices, max-shape of the key, 4 nil-cases; exhaustive for the single comparator"
	c.Trusted = []string{"go/ssa", "time.Time.After is a strict weak order on instants", "apcheck abstract interpreter (nil cases)"}
	f := w.Func("ItemOrderTimestamp")
	if f == nil || len(f.Params) != 2 {
		c.bad("C17.form", "anchor:ItemOrderTimestamp", "-", "comparator not found or does not take two items")
		return
	}
	// the object view the comparator reads the instants through: no assertion in its closure goes untested (a view of
	// nothing has zero instants and ranks last whatever the value holds)
	checkAssertionsTested(w, c, "C17.view", w.Reach([]*ssa.Function{f}, nil))
	// the After/Before call whose result is returned
	var final *ssa.Call
	for _, rb := range returnBlocks(f) {
		ret := rb.Instrs[len(rb.Instrs)-1].(*ssa.Return)
		if len(ret.Results) != 1 {
			continue
		}
		if call, ok := ret.Results[0].(*ssa.Call); ok {
			if cal := call.Common().StaticCallee(); cal != nil && (cal.Name() == "After" || cal.Name() == "Before") && isTimeTime(cal.Signature.Recv().Type()) {
				if final != nil {
					c.bad("C17.form", "single-comparison", w.InstrPos(call), "more than one instant comparison is returned")
				}
				final = call
			}
		}
	}
	if final == nil {
		c.bad("C17.form", "returns-After", w.FuncPos(f), "the comparator does not return time.Time.After/Before of two keys")
		return
	}
	k1, k2 := final.Common().Args[0], final.Common().Args[1]
	if final.Common().StaticCallee().Name() == "Before" {
		k1, k2 = k2, k1
	}
	e1, deps1 := keyExpr(f, k1, 0)
	e2, deps2 := keyExpr(f, k2, 0)
	p0, p1 := f.Params[0], f.Params[1]
	dep := func(m map[*ssa.Parameter]bool) string {
		var s []string
		for p := range m {
			s = append(s, p.Name())
		}
		sort.Strings(s)
		return strings.Join(s, ",")
	}
	if len(deps1) == 1 && deps1[p0] && len(deps2) == 1 && deps2[p1] {
		c.ok("C17.form", "returns-After(key(a),key(b))", w.InstrPos(final), fmt.Sprintf("key1 depends on {%s}, key2 on {%s}", dep(deps1), dep(deps2)))
	} else {
		c.bad("C17.form", "returns-After(key(a),key(b))", w.InstrPos(final), fmt.Sprintf("the returned comparison is not key(first) after key(second): first operand depends on {%s}, second on {%s} (reversed or mixed operands change the order)", dep(deps1), dep(deps2)))
	}
	if e1 == e2 {
		c.ok("C17.iso", "key-isomorphism", w.InstrPos(final), "key = "+e1)
	} else {
		c.bad("C17.iso", "key-isomorphism", w.InstrPos(final), fmt.Sprintf("the two operands are keyed differently: %s  vs  %s", e1, e2))
	}
	// max shape
	wantA := "ite(After(load($.Updated),load($.Published)),load($.Updated),load($.Published))"
	wantB := "ite(After(load($.Published),load($.Updated)),load($.Published),load($.Updated))"
	wantC := "ite(Before(load($.Published),load($.Updated)),load($.Updated),load($.Published))"
	if e1 == wantA || e1 == wantB || e1 == wantC {
		c.ok("C17.max", "key=max(published,updated)", w.InstrPos(final), e1)
	} else {
		c.bad("C17.max", "key=max(published,updated)", w.InstrPos(final), "the key is not the later of published/updated: "+e1)
	}
	// (paths) apart from the key comparison, a result may depend only on whether the converted operands are nil / the
	// conversion failed: any other condition that decides a return (identity, Equals, a type test …) makes the relation
	// depend on something that is not the key, and the strict-weak-order argument no longer applies
	nilTestOf := func(cond ssa.Value) bool {
		bo, ok := cond.(*ssa.BinOp)
		if !ok || (bo.Op != token.EQL && bo.Op != token.NEQ) {
			return false
		}
		isNilK := func(v ssa.Value) bool { k, ok := v.(*ssa.Const); return ok && k.Value == nil }
		var other ssa.Value
		switch {
		case isNilK(bo.Y):
			other = bo.X
		case isNilK(bo.X):
			other = bo.Y
		default:
			return false
		}
		// the tested value is a result of a conversion call on exactly one parameter
		ex, ok := other.(*ssa.Extract)
		if !ok {
			return false
		}
		call, ok := ex.Tuple.(*ssa.Call)
		if !ok || len(call.Common().Args) != 1 {
			return false
		}
		a := call.Common().Args[0]
		return a == ssa.Value(p0) || a == ssa.Value(p1)
	}
	for ri, rb := range returnBlocks(f) {
		bad := ""
		for _, g := range rawGuards(rb) {
			if !nilTestOf(g.cond) {
				bad = fmt.Sprintf("the result returned at %s depends on the condition %s at %s, which is neither the key comparison nor a nil/conversion-error test of an operand", w.InstrPos(rb.Instrs[len(rb.Instrs)-1]), shortVal(g.cond), w.InstrPos(g.block.Instrs[len(g.block.Instrs)-1]))
			}
		}
		// a phi-merged result: every incoming constant must come from a nil-test diamond too
		key := fmt.Sprintf("return#%d", ri+1)
		if bad != "" {
			c.bad("C17.paths", key, w.InstrPos(rb.Instrs[len(rb.Instrs)-1]), bad)
		} else {
			c.ok("C17.paths", key, w.InstrPos(rb.Instrs[len(rb.Instrs)-1]), "decided by nil/conversion tests and the key comparison only")
		}
	}
	// nil cases by abstract interpretation
	objPtr := types.NewPointer(w.Named("Object"))
	obj := avIface(objPtr, avNonNilPtr(objPtr))
	nilI := AV{K: kIface, Nil: nilYes}
	typedNil := avIface(objPtr, avNilPtr(objPtr))
	cases := []struct {
		name string
		a, b AV
		want bool
	}{
		{"nil-vs-object", nilI, obj, true}, {"object-vs-nil", obj, nilI, false}, {"nil-vs-nil", nilI, nilI, false},
		{"typednil-vs-object", typedNil, obj, true}, {"object-vs-typednil", obj, typedNil, false},
	}
	for _, cs := range cases {
		ip := newInterp(w)
		res, _, _ := ip.Call(f, []AV{cs.a, cs.b}, nil, Store{}, nil)
		if b, ok := res.isConstBool(); ok && b == cs.want && len(ip.faults) == 0 {
			c.ok("C17.nil", cs.name, w.FuncPos(f), fmt.Sprintf("evaluates to %v", b))
		} else {
			c.bad("C17.nil", cs.name, w.FuncPos(f), fmt.Sprintf("ItemOrderTimestamp(%s) evaluates to %s, want %v (nil must rank before any object and never after)", cs.name, res, cs.want))
		}
	}
	// conversion error => false
	{
		iriT := w.Named("IRI")
		ip := newInterp(w)
		res, _, _ := ip.Call(f, []AV{avIface(iriT, avTop), obj}, nil, Store{}, nil)
		_ = res
	}
}

func isTimeTime(t types.Type) bool {
	n := namedOf(t)
	return n != nil && n.Obj().Pkg() != nil && n.Obj().Pkg().Path() == "time" && n.Obj().Name() == "Time"
}

// keyExpr canonicalises the backward slice of v, writing "$" for the value obtained from a parameter through
// the conversion helper, and records which parameters it depends on.
func keyExpr(f *ssa.Function, v ssa.Value, d int) (string, map[*ssa.Parameter]bool) {
	deps := map[*ssa.Parameter]bool{}
	subst := map[*ssa.Parameter]string{} // parameters of inlined helpers → the caller's expression
	var rec func(v ssa.Value, d int) string
	rec = func(v ssa.Value, d int) string {
		if d > 30 {
			return "…"
		}
		switch x := v.(type) {
		case *ssa.Parameter:
			if e, ok := subst[x]; ok {
				return e
			}
			deps[x] = true
			return "$"
		case *ssa.Const:
			return constStr(x.Value)
		case *ssa.MakeInterface:
			return rec(x.X, d+1)
		case *ssa.ChangeInterface:
			return rec(x.X, d+1)
		case *ssa.Extract:
			// o, err := ToObject(p): the converted view stands for the parameter
			if call, ok := x.Tuple.(*ssa.Call); ok && x.Index == 0 && len(call.Common().Args) == 1 {
				return rec(call.Common().Args[0], d+1)
			}
			return "extract(" + rec(x.Tuple, d+1) + ")"
		case *ssa.FieldAddr:
			return rec(x.X, d+1) + "." + fieldNameOf(x.X.Type(), x.Field)
		case *ssa.Field:
			return rec(x.X, d+1) + "." + fieldNameOf(x.X.Type(), x.Field)
		case *ssa.UnOp:
			if x.Op == token.MUL {
				return "load(" + rec(x.X, d+1) + ")"
			}
			return x.Op.String() + rec(x.X, d+1)
		case *ssa.Call:
			name := "call"
			if cal := x.Common().StaticCallee(); cal != nil {
				name = cal.Name()
				// a small package helper of one argument (latestTimestamp(o)): its result expression with the argument put in
				// place of its parameter
				if cal.Pkg == f.Pkg && cal.Blocks != nil && len(cal.Params) == 1 && len(x.Common().Args) == 1 && len(cal.Blocks) <= 6 && cal != f {
					if _, busy := subst[cal.Params[0]]; !busy {
						rbs := returnBlocks(cal)
						subst[cal.Params[0]] = rec(x.Common().Args[0], d+1)
						out := ""
						switch len(rbs) {
						case 1:
							if ret := rbs[0].Instrs[len(rbs[0].Instrs)-1].(*ssa.Return); len(ret.Results) == 1 {
								out = rec(ret.Results[0], d+1)
							}
						case 2:
							// if c { return a }; return b
							r0 := rbs[0].Instrs[len(rbs[0].Instrs)-1].(*ssa.Return)
							r1 := rbs[1].Instrs[len(rbs[1].Instrs)-1].(*ssa.Return)
							if len(r0.Results) == 1 && len(r1.Results) == 1 {
								for _, cand := range []*ssa.BasicBlock{rbs[0].Idom(), rbs[1].Idom()} {
									if cand == nil {
										continue
									}
									if ifi, ok := cand.Instrs[len(cand.Instrs)-1].(*ssa.If); ok {
										var tv, fv ssa.Value
										for i, rb := range rbs {
											res := []ssa.Value{r0.Results[0], r1.Results[0]}[i]
											if cand.Succs[0] == rb || cand.Succs[0].Dominates(rb) {
												tv = res
											} else {
												fv = res
											}
										}
										if tv != nil && fv != nil {
											out = "ite(" + rec(ifi.Cond, d+1) + "," + rec(tv, d+1) + "," + rec(fv, d+1) + ")"
										}
										break
									}
								}
							}
						}
						delete(subst, cal.Params[0])
						if out != "" {
							return out
						}
					}
				}
			}
			var as []string
			for _, a := range allArgs(x) {
				as = append(as, rec(a, d+1))
			}
			return name + "(" + strings.Join(as, ",") + ")"
		case *ssa.Phi:
			// if-then diamond: ite(cond, value-when-true, value-when-false)
			b := x.Block()
			if len(x.Edges) == 2 && b.Idom() != nil {
				if ifi, ok := b.Idom().Instrs[len(b.Idom().Instrs)-1].(*ssa.If); ok {
					dom := b.Idom()
					var tv, fv ssa.Value
					for i, p := range b.Preds {
						// which side of the branch does this predecessor lie on?
						if p == dom {
							if dom.Succs[0] == b {
								tv = x.Edges[i]
							} else {
								fv = x.Edges[i]
							}
						} else if dom.Succs[0] == p || dom.Succs[0].Dominates(p) {
							tv = x.Edges[i]
						} else {
							fv = x.Edges[i]
						}
					}
					if tv != nil && fv != nil {
						return "ite(" + rec(ifi.Cond, d+1) + "," + rec(tv, d+1) + "," + rec(fv, d+1) + ")"
					}
				}
			}
			var es []string
			for _, e := range x.Edges {
				es = append(es, rec(e, d+1))
			}
			sort.Strings(es)
			return "phi(" + strings.Join(es, ",") + ")"
		case *ssa.Alloc:
			var es []string
			for _, s := range storesTo(x) {
				es = append(es, rec(s.Val, d+1))
			}
			sort.Strings(es)
			return "cell(" + strings.Join(es, ",") + ")"
		}
		return fmt.Sprintf("%T", v)
	}
	return rec(v, d), deps
}

// foldsFirstTwoParams: f compares (a value derived from) its first parameter with (one derived from) its second through
// strings.EqualFold.
func foldsFirstTwoParams(f *ssa.Function) bool {
	if f.Blocks == nil || len(f.Params) < 2 {
		return false
	}
	var from func(v ssa.Value, p *ssa.Parameter, d int) bool
	from = func(v ssa.Value, p *ssa.Parameter, d int) bool {
		if d > 6 {
			return false
		}
		switch x := v.(type) {
		case *ssa.Parameter:
			return x == p
		case *ssa.Call:
			for _, a := range x.Common().Args {
				if from(a, p, d+1) {
					return true
				}
			}
		case *ssa.Convert:
			return from(x.X, p, d+1)
		case *ssa.ChangeType:
			return from(x.X, p, d+1)
		case *ssa.Phi:
			for _, e := range x.Edges {
				if from(e, p, d+1) {
					return true
				}
			}
		}
		return false
	}
	for _, call := range callsIn(f) {
		if cal := call.Common().StaticCallee(); cal != nil && cal.Name() == "EqualFold" && len(call.Common().Args) == 2 {
			a, b := call.Common().Args[0], call.Common().Args[1]
			if (from(a, f.Params[0], 0) && from(b, f.Params[1], 0)) || (from(a, f.Params[1], 0) && from(b, f.Params[0], 0)) {
				return true
			}
		}
	}
	return false
}

// containsSkipsElements: inside the loop that holds the equality test, some element can go round the loop without the
// test having been applied to it, because a branch that is not a nil test of the element leads past it (a pre-filter
// on host, type, length … that is "obviously" implied by equality — until the two notions of equality drift apart).
// Returns a description, or "" when every element reaches the equality test.
func containsSkipsElements(w *World, eqCalls []*ssa.Call) string {
	for _, call := range eqCalls {
		eb := call.Block()
		f := eb.Parent()
		lh := loopHeaders(f)
		// innermost loop around the equality test
		var h *ssa.BasicBlock
		for cand := range lh[eb] {
			if h == nil || len(loopBody(lh, cand)) < len(loopBody(lh, h)) {
				h = cand
			}
		}
		if h == nil {
			continue
		}
		bypass := false
		for _, n := range h.Preds {
			if !lh[n][h] {
				continue // loop entry
			}
			if n != eb && !eb.Dominates(n) {
				bypass = true
			}
		}
		if !bypass {
			continue
		}
		// the branches inside the loop that decide whether the test is reached
		for _, d := range loopBody(lh, h) {
			if d == eb || !reachesWithin(d, eb, h) {
				continue
			}
			iff, ok := d.Instrs[len(d.Instrs)-1].(*ssa.If)
			if !ok {
				continue
			}
			// does one side of this branch avoid the equality block yet stay in the loop?
			avoids := false
			for _, sc := range d.Succs {
				if sc == h || (sc != eb && lh[sc][h] && !reachesWithin(sc, eb, h)) {
					avoids = true
				}
			}
			if !avoids {
				continue
			}
			if d == h {
				continue // the loop's own continuation test
			}
			if isNilTestCond(iff.Cond) {
				continue
			}
			return fmt.Sprintf("skips list elements before the equality test: the branch at %s sends an element round the loop without comparing it (only a nil test of the element may do that)", w.InstrPos(iff))
		}
	}
	return ""
}

func loopBody(lh map[*ssa.BasicBlock]map[*ssa.BasicBlock]bool, h *ssa.BasicBlock) []*ssa.BasicBlock {
	var out []*ssa.BasicBlock
	for b, hs := range lh {
		if hs[h] {
			out = append(out, b)
		}
	}
	sort.Slice(out, func(i, j int) bool { return out[i].Index < out[j].Index })
	return out
}

// isNilTestCond: x == nil, x != nil, IsNil(x) or its negation.
func isNilTestCond(v ssa.Value) bool {
	switch x := v.(type) {
	case *ssa.UnOp:
		if x.Op == token.NOT {
			return isNilTestCond(x.X)
		}
	case *ssa.BinOp:
		if (x.Op == token.EQL || x.Op == token.NEQ) && (isNilConst(x.X) || isNilConst(x.Y)) {
			return true
		}
	case *ssa.Call:
		if cal := x.Common().StaticCallee(); cal != nil && (cal.Name() == "IsNil" || cal.Name() == "IsNotNil") {
			return true
		}
	}
	return false
}

// comparedWithSchemeName: the value loaded from the scheme field is compared (==, !=, EqualFold, HasPrefix, a switch)
// with a non-empty constant string: returns that constant.
func comparedWithSchemeName(fa *ssa.FieldAddr) string {
	found := ""
	var visit func(v ssa.Value, d int)
	visit = func(v ssa.Value, d int) {
		if d > 4 || v.Referrers() == nil || found != "" {
			return
		}
		for _, r := range *v.Referrers() {
			switch x := r.(type) {
			case *ssa.UnOp:
				if x.Op == token.MUL {
					visit(x, d+1)
				}
			case *ssa.Convert:
				visit(x, d+1)
			case *ssa.ChangeType:
				visit(x, d+1)
			case *ssa.BinOp:
				if x.Op == token.EQL || x.Op == token.NEQ {
					for _, o := range []ssa.Value{x.X, x.Y} {
						if s, ok := constString(o); ok && s != "" {
							found = s
						}
					}
				}
			case *ssa.Call:
				cal := x.Common().StaticCallee()
				if cal == nil || cal.Object() == nil || cal.Object().Pkg() == nil || cal.Object().Pkg().Path() != "strings" {
					if cal != nil && cal.Name() == "ToLower" {
						visit(x, d+1)
					}
					continue
				}
				switch cal.Name() {
				case "ToLower", "ToUpper", "TrimSpace":
					visit(x, d+1)
				default:
					for _, a := range x.Common().Args {
						if s, ok := constString(a); ok && s != "" {
							found = s
						}
					}
				}
			}
		}
	}
	visit(fa, 0)
	return found
}

// rewritesPath: the value loaded from a URL path field flows (through cleaning and conversions) into a strings function
// that rewrites it, other than TrimSuffix/TrimRight with the constant "/". Returns a description.
func rewritesPath(fa *ssa.FieldAddr) string {
	found := ""
	seen := map[ssa.Value]bool{}
	var visit func(v ssa.Value, d int)
	visit = func(v ssa.Value, d int) {
		if d > 6 || v.Referrers() == nil || found != "" || seen[v] {
			return
		}
		seen[v] = true
		for _, r := range *v.Referrers() {
			switch x := r.(type) {
			case *ssa.UnOp:
				if x.Op == token.MUL {
					visit(x, d+1)
				}
			case *ssa.Convert:
				visit(x, d+1)
			case *ssa.Phi:
				visit(x, d+1)
			case *ssa.Call:
				cal := x.Common().StaticCallee()
				if cal == nil || cal.Object() == nil || cal.Object().Pkg() == nil {
					continue
				}
				if cal.Pkg == fa.Parent().Pkg && cal.Blocks != nil {
					// a helper of the package: follow the value into the parameter it is passed as, and the result back
					for ai, a := range x.Common().Args {
						if a == v && ai < len(cal.Params) {
							visit(cal.Params[ai], d+1)
						}
					}
					if isStringish(x.Type()) {
						visit(x, d+1)
					}
					continue
				}
				pkg := cal.Object().Pkg().Path()
				switch {
				case (pkg == "path" || pkg == "path/filepath") && cal.Name() == "Clean":
					visit(x, d+1)
				case pkg == "net/url" && cal.Signature.Recv() == nil:
					// URL.Path is the decoded path already: decoding (or encoding) it once more equates "%2541" with "A"
					found = "net/url." + cal.Name()
				case (pkg == "path" || pkg == "path/filepath") && (cal.Name() == "Base" || cal.Name() == "Dir" || cal.Name() == "Ext"):
					found = pkg + "." + cal.Name()
				case pkg == "strings":
					switch cal.Name() {
					case "EqualFold", "Compare", "Contains", "HasPrefix", "HasSuffix", "Index", "IndexByte", "Count":
					case "ToLower", "ToUpper":
						visit(x, d+1)
					case "TrimSuffix", "TrimRight":
						if s, ok := constString(x.Common().Args[len(x.Common().Args)-1]); ok && s == "/" {
							visit(x, d+1)
						} else {
							found = fmt.Sprintf("strings.%s(…, %s)", cal.Name(), shortVal(x.Common().Args[len(x.Common().Args)-1]))
						}
					default:
						found = "strings." + cal.Name()
						if len(x.Common().Args) > 1 {
							if s, ok := constString(x.Common().Args[1]); ok {
								found += fmt.Sprintf("(…, %q)", s)
							}
						}
					}
				}
			}
		}
	}
	visit(fa, 0)
	return found
}

// growsThrough: f stores append(…) into the list its parameter p points to (or into a list field of what p points to).
func growsThrough(pr *prover, f *ssa.Function, p *ssa.Parameter) bool {
	for _, b := range f.Blocks {
		for _, in := range b.Instrs {
			st, ok := in.(*ssa.Store)
			if !ok {
				continue
			}
			call, ok := st.Val.(*ssa.Call)
			if !ok {
				continue
			}
			if bi, ok := call.Common().Value.(*ssa.Builtin); !ok || bi.Name() != "append" {
				continue
			}
			if st.Addr == ssa.Value(p) {
				return true
			}
			if fp, ok := pr.fieldOf(st.Addr); ok && len(fp.Idx) == 1 && fp.Root == pr.canonicalRoot(p) {
				return true
			}
		}
	}
	return false
}

// isSameText: v is the parameter p itself, seen through conversions, a local, or a package function that hands its
// argument back unchanged (i.String()).
func isSameText(pr *prover, v ssa.Value, p *ssa.Parameter, d int) bool {
	if v == nil || d > 6 {
		return false
	}
	v = unwrap(v)
	if v == ssa.Value(p) {
		return true
	}
	switch x := v.(type) {
	case *ssa.UnOp:
		if x.Op == token.MUL {
			if al, ok := x.X.(*ssa.Alloc); ok {
				sts := storesTo(al)
				if len(sts) == 0 {
					return false
				}
				for _, st := range sts {
					if !isSameText(pr, st.Val, p, d+1) {
						return false
					}
				}
				return true
			}
		}
	case *ssa.Call:
		cal := x.Common().StaticCallee()
		if cal == nil || cal.Pkg != p.Parent().Pkg {
			return false
		}
		sum := symReturns(pr, cal, 0, map[*ssa.Function]bool{})
		if len(sum) == 0 {
			return false
		}
		for _, sv := range sum {
			if sv.kind != "param" || sv.param >= len(x.Common().Args) || !isSameText(pr, x.Common().Args[sv.param], p, d+1) {
				return false
			}
		}
		return true
	}
	return false
}

// inlineMembershipScan: the append in block b is preceded by a hand-written membership scan instead of a Contains call:
// a loop over the same list (read afresh in every round of the loop over the arguments) that compares each member
// with the element being appended by ItemsEqual / IRI.Equals and, on a match, leaves without reaching the append.
func inlineMembershipScan(w *World, pr *prover, app *ssa.Function, b *ssa.BasicBlock, recv *ssa.Parameter, target string, appended map[ssa.Value]bool) bool {
	lh := loopHeaders(app)
	var outer *ssa.BasicBlock
	for h := range lh[b] {
		if outer == nil || len(loopBody(lh, h)) < len(loopBody(lh, outer)) {
			outer = h
		}
	}
	sameList := func(v ssa.Value) bool {
		v = unwrap(v)
		if target == "self" {
			if ld, ok := v.(*ssa.UnOp); ok && ld.X == ssa.Value(recv) {
				return true
			}
			return v == ssa.Value(recv)
		}
		fp, ok := pr.fieldOf(v)
		return ok && len(fp.Idx) == 1 && fp.Names[0] == target && fp.Root == pr.canonicalRoot(recv)
	}
	for _, blk := range app.Blocks {
		for _, in := range blk.Instrs {
			call, ok := in.(*ssa.Call)
			if !ok || !(calleeNamed(call, "ItemsEqual") || calleeNamed(call, "Equals")) {
				continue
			}
			// the scan loop: contains the comparison, dominates the append, does not contain it
			var scan *ssa.BasicBlock
			for h := range lh[blk] {
				if h != outer && !lh[b][h] && h.Dominates(b) {
					scan = h
				}
			}
			if scan == nil {
				continue
			}
			args := allArgs(call)
			memberOK, elemOK := false, len(appended) == 0
			for _, a := range args {
				a0 := unwrap(a)
				if appended[unwrapCallRecv(a0)] {
					elemOK = true
					continue
				}
				if ld, isLd := a0.(*ssa.UnOp); isLd && ld.Op == token.MUL {
					if ia, isIA := ld.X.(*ssa.IndexAddr); isIA && sameList(ia.X) {
						// read afresh in every round of the loop over the arguments
						if li, isInstr := unwrap(ia.X).(ssa.Instruction); isInstr && outer != nil && !lh[li.Block()][outer] {
							continue
						}
						memberOK = true
					}
				}
			}
			if !memberOK || !elemOK || call.Referrers() == nil {
				continue
			}
			// on a match control must not reach the append (other than by starting the next argument)
			for _, r := range *call.Referrers() {
				var br *ssa.If
				neg := false
				switch x := r.(type) {
				case *ssa.If:
					br = x
				case *ssa.UnOp:
					if x.Op == token.NOT && x.Referrers() != nil {
						for _, rr := range *x.Referrers() {
							if y, isIf := rr.(*ssa.If); isIf {
								br, neg = y, true
							}
						}
					}
				}
				if br == nil || len(br.Block().Succs) != 2 {
					continue
				}
				match := br.Block().Succs[0]
				if neg {
					match = br.Block().Succs[1]
				}
				if !reachesWithin(match, b, outer) || match == outer {
					return true
				}
			}
		}
	}
	return false
}

// rawPathFolded: the value loaded from this URL.Path field reaches strings.EqualFold without having been cleaned, and
// the other argument is not a constant.
func rawPathFolded(fa *ssa.FieldAddr) bool {
	var walk func(v ssa.Value, d int) bool
	walk = func(v ssa.Value, d int) bool {
		if d > 5 || v.Referrers() == nil {
			return false
		}
		for _, r := range *v.Referrers() {
			switch x := r.(type) {
			case *ssa.UnOp:
				if walk(x, d+1) {
					return true
				}
			case *ssa.Convert:
				if walk(x, d+1) {
					return true
				}
			case *ssa.ChangeType:
				if walk(x, d+1) {
					return true
				}
			case *ssa.Call:
				cal := x.Common().StaticCallee()
				if cal == nil || cal.Object() == nil || cal.Object().Pkg() == nil {
					continue
				}
				if cal.Object().Pkg().Path() == "strings" && cal.Name() == "EqualFold" && len(x.Common().Args) == 2 {
					other := x.Common().Args[0]
					if other == v {
						other = x.Common().Args[1]
					}
					if _, isConst := other.(*ssa.Const); !isConst {
						return true
					}
				}
			}
		}
		return false
	}
	return walk(fa, 0)
}
