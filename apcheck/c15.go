package main

import (
	"fmt"
	"go/constant"
	"go/token"
	"go/types"
	"sort"
	"strings"

	"golang.org/x/tools/go/ssa"
)

func init() { register("C15", checkC15) }

// the eight well-known collection names the property statement enumerates
var c15Names = []string{"inbox", "outbox", "followers", "following", "liked", "likes", "shares", "replies"}

func checkC15(w *World, c *Check, tier string) {
	c.Exhaustive = true
	c.Explanation = "Decides the table-agreement clauses of the property: the eight collection names of the statement are CollectionPath constants; the table the package-level Split consults and the union of the two validity tables each contain all eight; Split reads that table and ValidCollectionIRI decides through Split and both validity tables (who-reads/who-calls on the SSA call graph); and, by abstract interpretation with the path fixed to each name, ofActor/ofObject/AddTo touch exactly the struct field whose jsonld term equals the name (falling back to the id only). A dropped table entry or a name mapped to the wrong field breaks the join/split and owner laws for that name on every IRI. Not decided: the inverse law on strings (trailing slashes, owner paths ending in a collection name, percent-escapes, host-OS behaviour of path/filepath), and that Of() lets an explicitly set actor collection survive (value-level). (owner-as-cut) the owner Split hands back has not been through a function that rewrites text."
	c.RuleText = "obligations: 8 names x {constant, split table, validity tables} + route reads + 8 names x {ofActor, ofObject, AddTo} field mapping; exhaustive over the names"
	c.Trusted = []string{"go/types constant evaluation", "go/ssa", "apcheck abstract interpreter"}
	c.floor("C15.tables", 20)
	c.floor("C15.fields", 8)
	c.floor("C15.route", 3)

	consts := w.ConstsOfType("CollectionPath")
	byVal := map[string]string{}
	for n, v := range consts {
		byVal[v] = n
	}
	for _, n := range c15Names {
		if cn, ok := byVal[n]; ok {
			c.ok("C15.tables", "const:"+n, "-", "constant "+cn)
		} else {
			c.bad("C15.tables", "const:"+n, "-", fmt.Sprintf("no CollectionPath constant has the value %q", n))
		}
	}
	lists := map[string]map[string]bool{}
	listPos := map[string]token.Pos{}
	for _, ln := range []string{"ActivityPubCollections", "OfActor", "OfObject", "validActivityCollection", "validObjectCollection"} {
		vals, pos, ok := w.ListVar(ln)
		listPos[ln] = pos
		if !ok {
			c.bad("C15.tables", "list:"+ln, w.Pos(pos), "table "+ln+" is missing or not a composite literal of constants (undecided)")
			continue
		}
		lists[ln] = setOf(vals)
	}
	need := func(rule, label string, have map[string]bool, pos token.Pos, why string) {
		for _, n := range c15Names {
			if have[n] {
				c.ok(rule, label+":"+n, w.Pos(pos), "present")
			} else {
				c.bad(rule, label+":"+n, w.Pos(pos), fmt.Sprintf("collection name %q is missing from %s: %s", n, label, why))
			}
		}
	}
	if l, ok := lists["ActivityPubCollections"]; ok {
		need("C15.tables", "ActivityPubCollections", l, listPos["ActivityPubCollections"], "Split(IRIf(owner, name)) no longer returns the name")
	}
	la, oka := lists["validActivityCollection"]
	lo, oko := lists["validObjectCollection"]
	if oka && oko {
		u := map[string]bool{}
		for k := range la {
			u[k] = true
		}
		for k := range lo {
			u[k] = true
		}
		need("C15.tables", "validity-tables", u, listPos["validActivityCollection"], "an IRI built with this name is no longer recognised as a valid collection IRI")
	}
	ofA, okA := lists["OfActor"]
	ofO, okO := lists["OfObject"]
	if okA && okO {
		u := map[string]bool{}
		for k := range ofA {
			u[k] = true
		}
		for k := range ofO {
			u[k] = true
		}
		need("C15.tables", "OfActor∪OfObject", u, listPos["OfActor"], "Of/AddTo no longer know which struct owns the collection")
	}

	// ---- route ----
	splitFn := w.Func("Split")
	validIRI := w.Func("ValidCollectionIRI")
	if splitFn == nil || validIRI == nil {
		c.bad("C15.route", "anchor", "-", "Split / ValidCollectionIRI not found")
	} else {
		gs := globalsTouched(w.Reach([]*ssa.Function{splitFn}, nil))
		if g := w.Global("ActivityPubCollections"); g != nil && gs[g] && callsMethodOnGlobal(splitFn, g, "Split") {
			c.ok("C15.route", "Split→ActivityPubCollections", w.FuncPos(splitFn), "Split consults the full table")
		} else {
			c.bad("C15.route", "Split→ActivityPubCollections", w.FuncPos(splitFn), "the package-level Split does not split against the full ActivityPubCollections table")
		}
		reach := w.Reach([]*ssa.Function{validIRI}, nil)
		gs = globalsTouched(reach)
		callsSplit := false
		for _, f := range reach {
			if f == splitFn {
				callsSplit = true
			}
			// the package-level Split inlined: ActivityPubCollections.Split(i)
			if g := w.Global("ActivityPubCollections"); g != nil && callsMethodOnGlobal(f, g, "Split") {
				callsSplit = true
			}
		}
		for _, gn := range []string{"validActivityCollection", "validObjectCollection"} {
			if g := w.Global(gn); g != nil && gs[g] {
				c.ok("C15.route", "ValidCollectionIRI→"+gn, w.FuncPos(validIRI), "consulted")
			} else {
				c.bad("C15.route", "ValidCollectionIRI→"+gn, w.FuncPos(validIRI), "ValidCollectionIRI no longer consults "+gn)
			}
		}
		if callsSplit {
			c.ok("C15.route", "ValidCollectionIRI→Split", w.FuncPos(validIRI), "decides through Split")
		} else {
			c.bad("C15.route", "ValidCollectionIRI→Split", w.FuncPos(validIRI), "ValidCollectionIRI no longer decides through Split")
		}
	}

	// ---- valid: the validity predicate, evaluated for each of the eight names ----
	if vc := w.Func("ValidCollection"); vc != nil && cpTypeOf(w) != nil {
		cpT := cpTypeOf(w)
		targets := []*ssa.Function{vc}
		// what ValidCollectionIRI applies to the name Split returned
		if validIRI != nil {
			for _, call := range callsIn(validIRI) {
				g := call.Common().StaticCallee()
				if g != nil && w.InPkg(g) && g != splitFn && len(g.Params) == 1 && types.Identical(g.Params[0].Type(), cpT) {
					targets = append(targets, g)
				}
			}
		}
		for _, tf := range targets {
			for _, n := range c15Names {
				ip := newInterp(w)
				res, _, returned := ip.Call(tf, []AV{{K: kConst, C: constant.MakeString(n), T: cpT}}, nil, Store{}, nil)
				key := funcName(tf) + ":" + n
				rejected := returned && res.K == kConst && ((res.C.Kind() == constant.Bool && !constant.BoolVal(res.C)) || (res.C.Kind() == constant.String && constant.StringVal(res.C) == ""))
				switch {
				case rejected:
					c.bad("C15.valid", key, w.FuncPos(tf), fmt.Sprintf("%s(%q) evaluates to %s: an IRI built from an owner and this collection name is not recognised as a valid collection IRI", funcName(tf), n, res))
				case returned && res.K == kConst:
					c.ok("C15.valid", key, w.FuncPos(tf), "evaluates to "+res.String())
				default:
					c.ok("C15.valid", key, w.FuncPos(tf), "not decided by constant evaluation ("+res.String()+"); the table and routing rules apply")
				}
			}
		}
	}

	// ---- IRI consults Of: "the helper yields the explicitly set collection when present" — for every non-nil object,
	// whatever its id: only nil-ness and object-ness of the item may stand between CollectionPath.IRI and its lookup ----
	if irif := w.Method("CollectionPath", "IRI"); irif != nil {
		ofm := w.Method("CollectionPath", "Of")
		nOf := 0
		for _, call := range callsIn(irif) {
			if call.Common().StaticCallee() != ofm || ofm == nil {
				continue
			}
			nOf++
			bad := ""
			for _, g := range rawGuards(call.Block()) {
				for _, dj := range disjuncts(g.cond, 0) {
					if n, isNot := dj.(*ssa.UnOp); isNot && n.Op == token.NOT {
						dj = n.X
					}
					ok := false
					switch x := dj.(type) {
					case *ssa.Call:
						if cal := x.Common().StaticCallee(); cal != nil && (cal.Name() == "IsNil" || cal.Name() == "IsObject" || cal.Name() == "IsNotNil") {
							ok = true
						}
						if x.Common().IsInvoke() && x.Common().Method.Name() == "IsObject" {
							ok = true
						}
					case *ssa.BinOp:
						ok = isNilConst(x.X) || isNilConst(x.Y)
					}
					if !ok {
						bad = shortVal(dj)
					}
				}
			}
			if bad != "" {
				c.bad("C15.build", "IRI-consults-Of", w.InstrPos(call), fmt.Sprintf("CollectionPath.IRI looks the explicit collection up only under the additional condition %s: an object that fails it (one without an id) gets the built path even though it carries an explicit collection, and IRI() disagrees with Of()", bad))
			} else {
				c.ok("C15.build", "IRI-consults-Of", w.InstrPos(call), "every non-nil object is looked up")
			}
		}
		if nOf == 0 {
			c.bad("C15.build", "IRI-consults-Of", w.FuncPos(irif), "CollectionPath.IRI no longer consults Of for an explicitly set collection")
		}
	}

	// ---- Of answers through the per-kind lookups: every value CollectionPath.Of can return is nil or the result of one of
	// the of* lookups (ofIRI builds owner + name; ofActor / ofObject yield the explicit property or fall back to ofIRI).
	// A return of something else — the item's own IRI "because it already is that collection" — makes IRI(owner) hand
	// the owner back for owners whose last segment is the collection name, and Split then cuts that segment off ----
	if of := w.Method("CollectionPath", "Of"); of != nil && of.Blocks != nil {
		pr := newProver(w)
		seenV := map[ssa.Value]bool{}
		bad := ""
		var badPos ssa.Instruction
		var judge func(v ssa.Value, at ssa.Instruction, d int)
		judge = func(v ssa.Value, at ssa.Instruction, d int) {
			if v == nil || d > 12 || seenV[v] || bad != "" {
				return
			}
			seenV[v] = true
			for _, leaf := range phiLeaves(v) {
				switch x := leaf.(type) {
				case *ssa.Const:
					continue
				case *ssa.Call:
					cal := x.Common().StaticCallee()
					if cal != nil && cal.Signature.Recv() != nil && namedOf(cal.Signature.Recv().Type()) == w.Named("CollectionPath") && (strings.HasPrefix(cal.Name(), "of") || cal.Name() == "Of") {
						continue
					}
					bad, badPos = "the result of "+shortVal(x), at
				case *ssa.UnOp:
					if x.Op == token.MUL {
						var cell ssa.Value = x.X
						if fv, isFV := cell.(*ssa.FreeVar); isFV {
							if b, ok := pr.fvMap[fv]; ok {
								cell = b
							}
						}
						if al, isAl := cell.(*ssa.Alloc); isAl {
							for _, st := range storesTo(al) {
								judge(st.Val, st, d+1)
							}
							// stores made by the callbacks that capture the cell
							for _, a := range allAnon(of) {
								for fi, fv := range a.FreeVars {
									if b, ok := pr.fvMap[fv]; ok && b == ssa.Value(al) && fv.Referrers() != nil {
										_ = fi
										for _, r := range *fv.Referrers() {
											if st, isSt := r.(*ssa.Store); isSt && st.Addr == ssa.Value(fv) {
												judge(st.Val, st, d+1)
											}
										}
									}
								}
							}
							continue
						}
					}
					bad, badPos = shortVal(x), at
				default:
					bad, badPos = shortVal(leaf), at
				}
			}
		}
		nRet := 0
		for _, rb := range returnBlocks(of) {
			ret := rb.Instrs[len(rb.Instrs)-1].(*ssa.Return)
			if len(ret.Results) == 1 {
				nRet++
				judge(ret.Results[0], ret, 0)
			}
		}
		if bad != "" {
			c.bad("C15.build", "Of:sources", w.InstrPos(badPos), fmt.Sprintf("CollectionPath.Of can return %s, which is neither nil nor the result of one of the of* lookups: an item that is handed back as its own collection (an IRI that \"already ends in the name\") breaks build/split for the owners whose last path segment is that name", bad))
		} else if nRet > 0 {
			c.ok("C15.build", "Of:sources", w.FuncPos(of), "every result is nil or comes from an of* lookup")
		}
	}

	// ---- IRIf builds: whatever IRIf returns is made of BOTH its arguments — the owner and, after it, the collection name.
	// A return that hands the owner back (trimmed or not) "because it already ends in that name" breaks build/split for
	// exactly the owners whose last segment is the name being built: Split then cuts the owner's own segment off ----
	if irif := w.Func("IRIf"); irif != nil && len(irif.Params) == 2 {
		nRet := 0
		for _, rb := range returnBlocks(irif) {
			ret := rb.Instrs[len(rb.Instrs)-1].(*ssa.Return)
			if len(ret.Results) != 1 {
				continue
			}
			nRet++
			leaves := map[ssa.Value]bool{}
			textLeaves(ret.Results[0], ret, leaves, map[ssa.Value]bool{}, 0)
			key := fmt.Sprintf("IRIf:return#%d", nRet)
			switch {
			case !leaves[irif.Params[1]]:
				c.bad("C15.build", key, w.InstrPos(ret), "IRIf returns a text that is not built from the collection name: for the inputs that take this path the result does not end in the name, so splitting it does not give the name and the owner back")
			case !leaves[irif.Params[0]]:
				c.bad("C15.build", key, w.InstrPos(ret), "IRIf returns a text that is not built from the owner IRI")
			default:
				c.ok("C15.build", key, w.InstrPos(ret), "built from the owner and the collection name")
			}
		}
		if nRet == 0 {
			c.bad("C15.build", "IRIf:return", w.FuncPos(irif), "no return found (undecided)")
		}
	} else {
		c.bad("C15.build", "anchor:IRIf", "-", "IRIf(owner, name) not found")
	}

	// ---- path representation: what Split writes back into URL.Path comes from URL.Path itself ----
	if sp := w.Method("CollectionPaths", "Split"); sp != nil {
		for _, f := range w.Reach([]*ssa.Function{sp}, nil) {
			for _, b := range f.Blocks {
				for _, in := range b.Instrs {
					st, ok := in.(*ssa.Store)
					if !ok {
						continue
					}
					fa, ok := st.Addr.(*ssa.FieldAddr)
					if !ok {
						continue
					}
					n := namedOf(fa.X.Type())
					if n == nil || n.Obj().Pkg() == nil || n.Obj().Pkg().Path() != "net/url" || fieldNameOf(fa.X.Type(), fa.Field) != "Path" {
						continue
					}
					src := urlComponentSources(st.Val, 0, map[ssa.Value]bool{})
					sort.Strings(src)
					key := funcName(f) + ":URL.Path←" + strings.Join(src, "+")
					if len(src) == 1 && src[0] == "Path" {
						c.ok("C15.route", key, w.InstrPos(st), "the owner path is cut out of the decoded path it is stored back into")
					} else {
						c.bad("C15.route", key, w.InstrPos(st), fmt.Sprintf("%s stores into URL.Path a value derived from %v: mixing the escaped and the decoded representation escapes the owner twice (or not at all) for owner paths with percent-escapes", funcName(f), src))
					}
				}
			}
		}
	}

	// ---- the owner Split hands back is the text it cut the name from: never put through a function that rewrites text ----
	if sp := w.Method("CollectionPaths", "Split"); sp != nil {
		nret := 0
		for _, rb := range returnBlocks(sp) {
			ret := rb.Instrs[len(rb.Instrs)-1].(*ssa.Return)
			if len(ret.Results) == 0 {
				continue
			}
			nret++
			if how, at := ownerRewrittenBy(w, ret.Results[0]); how != "" {
				c.bad("C15.route", "Split:owner-as-cut←"+how, w.InstrPos(at), fmt.Sprintf("the owner IRI Split hands back has been through %s: for the owners that function changes (percent-escapes, case, separators) the owner is not the IRI the collection IRI was built from, and IRIf(owner, name) is no longer the IRI that was split", how))
			}
		}
		if nret > 0 {
			c.ok("C15.route", "Split:owner-as-cut", w.FuncPos(sp), fmt.Sprintf("%d returns traced", nret))
		}
	}

	// ---- a name cut from the raw text is handed back only where the IRI could not be parsed: for an IRI that parses, the
	// name is the last segment of URL.Path — "what follows the last slash" of the text is the host for http://inbox,
	// and part of the query or fragment elsewhere ----
	if sp := w.Method("CollectionPaths", "Split"); sp != nil && len(sp.Params) == 2 {
		var failSide []*ssa.BasicBlock
		for _, call := range callsIn(sp) {
			cal := call.Common().StaticCallee()
			if cal == nil || cal.Name() != "URL" || cal.Signature.Recv() == nil || len(call.Common().Args) == 0 || unwrap(call.Common().Args[0]) != ssa.Value(sp.Params[1]) {
				continue
			}
			v := call
			if v.Referrers() == nil {
				continue
			}
			for _, r := range *v.Referrers() {
				ex, isEx := r.(*ssa.Extract)
				if !isEx || ex.Index != 1 || ex.Referrers() == nil {
					continue
				}
				for _, r2 := range *ex.Referrers() {
					bo, isB := r2.(*ssa.BinOp)
					if !isB || !(isNilConst(bo.X) || isNilConst(bo.Y)) || bo.Referrers() == nil {
						continue
					}
					for _, r3 := range *bo.Referrers() {
						if iff, isIf := r3.(*ssa.If); isIf {
							if bo.Op == token.EQL {
								failSide = append(failSide, iff.Block().Succs[1])
							} else if bo.Op == token.NEQ {
								failSide = append(failSide, iff.Block().Succs[0])
							}
						}
					}
				}
			}
		}
		var rawName func(v ssa.Value, d int, seen map[ssa.Value]bool) bool
		rawName = func(v ssa.Value, d int, seen map[ssa.Value]bool) bool {
			if v == nil || d > 10 || seen[v] {
				return false
			}
			seen[v] = true
			switch x := v.(type) {
			case *ssa.Parameter:
				return x == sp.Params[1]
			case *ssa.ChangeType:
				return rawName(x.X, d+1, seen)
			case *ssa.Convert:
				return rawName(x.X, d+1, seen)
			case *ssa.Slice:
				return rawName(x.X, d+1, seen)
			case *ssa.Extract:
				return rawName(x.Tuple, d+1, seen)
			case *ssa.Phi:
				for _, e := range x.Edges {
					if rawName(e, d+1, seen) {
						return true
					}
				}
			case *ssa.UnOp:
				if al, ok := x.X.(*ssa.Alloc); ok && x.Op == token.MUL {
					for _, st := range storesTo(al) {
						if rawName(st.Val, d+1, seen) {
							return true
						}
					}
				}
			case *ssa.BinOp:
				return x.Op == token.ADD && (rawName(x.X, d+1, seen) || rawName(x.Y, d+1, seen))
			case *ssa.Call:
				for _, a := range x.Common().Args {
					if isStringish(a.Type()) && rawName(a, d+1, seen) {
						return true
					}
				}
			}
			return false
		}
		nraw := 0
		for _, rb := range returnBlocks(sp) {
			ret := rb.Instrs[len(rb.Instrs)-1].(*ssa.Return)
			if len(ret.Results) != 2 {
				continue
			}
			if _, isConst := unwrap(ret.Results[1]).(*ssa.Const); isConst {
				continue
			}
			if !rawName(ret.Results[1], 0, map[ssa.Value]bool{}) {
				continue
			}
			nraw++
			ok := false
			for _, fs := range failSide {
				if fs.Dominates(rb) {
					ok = true
				}
			}
			key := fmt.Sprintf("Split:raw-name#%d", nraw)
			if ok {
				c.ok("C15.route", key, w.InstrPos(ret), "a name cut from the raw text is returned only after IRI.URL() failed")
			} else {
				c.bad("C15.route", "Split:raw-name:parsable", w.InstrPos(ret), "Split can hand back a collection name cut from the text of the IRI for an IRI that parses as a URL: the name must be the last segment of URL.Path — for http://inbox the text after the last slash is the host, so the host is taken for a collection and ValidCollectionIRI accepts an IRI without a path")
			}
		}
	}

	// ---- fields ----
	actor, object := w.StructInfoOf("Actor"), w.StructInfoOf("Object")
	cpT := w.Named("CollectionPath")
	if actor == nil || object == nil || cpT == nil {
		c.bad("C15.fields", "anchor", "-", "Actor/Object/CollectionPath not found")
		return
	}
	mk := func(n string) AV { return AV{K: kConst, C: constant.MakeString(n), T: cpT} }
	type target struct {
		fn      *ssa.Function
		si      *StructInfo
		ownOnly bool
		args    func(n string) []AV
	}
	var targets []target
	if f := w.Method("CollectionPath", "ofActor"); f != nil {
		targets = append(targets, target{f, actor, true, func(n string) []AV { return []AV{mk(n), avNonNilPtr(types.NewPointer(actor.Named))} }})
	} else {
		c.bad("C15.fields", "anchor:ofActor", "-", "CollectionPath.ofActor not found")
	}
	if f := w.Method("CollectionPath", "ofObject"); f != nil {
		targets = append(targets, target{f, object, false, func(n string) []AV { return []AV{mk(n), avNonNilPtr(types.NewPointer(object.Named))} }})
	} else {
		c.bad("C15.fields", "anchor:ofObject", "-", "CollectionPath.ofObject not found")
	}
	if f := w.Method("CollectionPath", "AddTo"); f != nil {
		pa := types.NewPointer(actor.Named)
		targets = append(targets, target{f, actor, false, func(n string) []AV { return []AV{mk(n), avIface(pa, avNonNilPtr(pa))} }})
	} else {
		c.bad("C15.fields", "anchor:AddTo", "-", "CollectionPath.AddTo not found")
	}
	objTerms := map[string]bool{}
	for _, f := range object.Fields {
		objTerms[f.Term] = true
	}
	// ---- of: the public helper hands back what the per-kind helper found — for an actor's own collection the result of
	// ofActor must not be overwritten by a later lookup on the object core (which can only build the default IRI) ----
	if of := w.Method("CollectionPath", "Of"); of != nil {
		ofA, ofO := w.Method("CollectionPath", "ofActor"), w.Method("CollectionPath", "ofObject")
		pa := types.NewPointer(actor.Named)
		actorTerms := map[string]bool{}
		for _, f := range actor.Fields {
			if !objTerms[f.Term] {
				actorTerms[f.Term] = true
			}
		}
		// the actor is recognised by its Go type, whatever its type NAME says: a decoded {"type":"Actor"} document and an
		// actor value without a type are *Actor values too and carry the same explicit collections
		for _, tv := range []string{"Person", "Actor", ""} {
			for _, n := range c15Names {
				ip := newInterp(w)
				var seq []string
				ip.onCall = func(ev callEvent) {
					switch ev.Callee {
					case ofA:
						seq = append(seq, "ofActor")
					case ofO:
						seq = append(seq, "ofObject")
					}
				}
				ip.postCall = func(callee *ssa.Function, args []AV, res AV) AV {
					if callee.Name() == "GetType" {
						return AV{K: kConst, C: constant.MakeString(tv), T: w.Named("ActivityVocabularyType")}
					}
					return res
				}
				ip.Call(of, []AV{mk(n), avIface(pa, avNonNilPtr(pa))}, nil, Store{}, nil)
				key := "CollectionPath.Of:" + n
				if tv != "Person" {
					key += fmt.Sprintf(":type=%q", tv)
				}
				last := ""
				if len(seq) > 0 {
					last = seq[len(seq)-1]
				}
				switch {
				case ip.aborted != "":
					c.bad("C15.of", key, w.FuncPos(of), "undecided: "+ip.aborted)
				case actorTerms[n] && last != "ofActor":
					c.bad("C15.of", key, w.FuncPos(of), fmt.Sprintf("for the actor collection %q the last lookup of CollectionPath.Of on an *Actor whose type name is %q is %q (sequence %v): the collection the actor sets explicitly is ignored or replaced by the IRI built from its id", n, tv, last, seq))
				case !actorTerms[n] && objTerms[n] && last != "ofObject":
					c.bad("C15.of", key, w.FuncPos(of), fmt.Sprintf("for the object collection %q CollectionPath.Of does not end with the lookup on the object (sequence %v): the explicitly set collection is ignored", n, seq))
				default:
					c.ok("C15.of", key, w.FuncPos(of), fmt.Sprintf("lookups %v", seq))
				}
			}
		}
	}
	// ---- build: the fallback builds owner + "/" + name for every non-empty owner, whatever the owner looks like ----
	if ofIRI := w.Method("CollectionPath", "ofIRI"); ofIRI != nil {
		bad := ""
		n := 0
		for _, rb := range returnBlocks(ofIRI) {
			ret := rb.Instrs[len(rb.Instrs)-1].(*ssa.Return)
			if len(ret.Results) != 1 || isNilConst(ret.Results[0]) {
				continue
			}
			n++
			v := unwrap(ret.Results[0])
			call, ok := v.(*ssa.Call)
			if !ok || call.Common().StaticCallee() == nil || call.Common().StaticCallee().Name() != "AddPath" {
				bad = fmt.Sprintf("CollectionPath.ofIRI can return %s (at %s) instead of the owner's IRI extended by the collection name: for some owners the helper hands back the owner itself (e.g. an object whose id already ends in the name), and splitting that result yields a different owner", shortVal(v), w.InstrPos(ret))
			}
		}
		if bad != "" {
			c.bad("C15.build", "CollectionPath.ofIRI", w.FuncPos(ofIRI), bad)
		} else if n > 0 {
			c.ok("C15.build", "CollectionPath.ofIRI", w.FuncPos(ofIRI), "every non-nil result is iri.AddPath(name)")
		} else {
			c.bad("C15.build", "CollectionPath.ofIRI", w.FuncPos(ofIRI), "no building return found (undecided)")
		}
	}
	for _, tg := range targets {
		// fields touched regardless of the name (e.g. the id used for the fallback IRI) are not part of the mapping
		always := map[string]int{}
		touched := map[string]map[string]bool{}
		for _, n := range c15Names {
			ip := newInterp(w)
			ip.Call(tg.fn, tg.args(n), nil, Store{}, nil)
			if ip.aborted != "" {
				c.bad("C15.fields", funcName(tg.fn)+":"+n, w.FuncPos(tg.fn), "undecided: "+ip.aborted)
				continue
			}
			touched[n] = fieldsTouched(ip, tg.fn, []*StructInfo{actor, object})
			for f := range touched[n] {
				always[f]++
			}
		}
		for _, n := range c15Names {
			t := touched[n]
			if t == nil {
				continue
			}
			var extra []string
			hit := false
			for f := range t {
				if always[f] == len(c15Names) {
					continue
				}
				fi := tg.si.byName[f]
				if fi == nil {
					fi = object.byName[f]
				}
				if fi != nil && fi.Term == n {
					hit = true
				} else {
					extra = append(extra, f)
				}
			}
			sort.Strings(extra)
			wantField := tg.si.byTerm[n]
			if tg.ownOnly && objTerms[n] {
				wantField = nil // ofActor only maps the actor's own collections
			}
			key := funcName(tg.fn) + ":" + n
			switch {
			case len(extra) > 0:
				c.bad("C15.fields", key, w.FuncPos(tg.fn), fmt.Sprintf("for collection name %q %s touches field(s) %v whose term is not %q", n, funcName(tg.fn), extra, n))
			case wantField != nil && !hit:
				c.bad("C15.fields", key, w.FuncPos(tg.fn), fmt.Sprintf("for collection name %q %s never touches %s.%s (term %q): the explicitly set collection is ignored", n, funcName(tg.fn), tg.si.Name, wantField.Name, n))
			default:
				c.ok("C15.fields", key, w.FuncPos(tg.fn), fmt.Sprintf("touches %v", sortedKeys(t)))
			}
		}
	}
}

func callsMethodOnGlobal(fn *ssa.Function, g *ssa.Global, method string) bool {
	for _, b := range fn.Blocks {
		for _, in := range b.Instrs {
			call, ok := in.(ssa.CallInstruction)
			if !ok {
				continue
			}
			cal := call.Common().StaticCallee()
			if cal == nil || cal.Name() != method || len(call.Common().Args) == 0 {
				continue
			}
			if ld, ok := call.Common().Args[0].(*ssa.UnOp); ok && ld.X == g {
				return true
			}
		}
	}
	return false
}

// fieldsTouched lists the fields (by name) of the given structs whose address is taken on an executable path
// of fn or one of its closures during the finished abstract run.
func fieldsTouched(ip *Interp, fn *ssa.Function, structs []*StructInfo) map[string]bool {
	out := map[string]bool{}
	seenFn := map[*ssa.Function]bool{}
	var visit func(f *ssa.Function)
	visit = func(f *ssa.Function) {
		for _, b := range f.Blocks {
			for _, in := range b.Instrs {
				if !ip.execInstr[in] {
					continue
				}
				var st types.Type
				var idx int
				switch x := in.(type) {
				case *ssa.FieldAddr:
					st, idx = derefType(x.X.Type()), x.Field
				case *ssa.Field:
					st, idx = x.X.Type(), x.Field
				default:
					continue
				}
				n := namedOf(st)
				for _, si := range structs {
					if n == si.Named && idx < len(si.Fields) {
						out[si.Fields[idx].Name] = true
					}
				}
			}
		}
		for _, a := range f.AnonFuncs {
			visit(a)
		}
		// unexported helpers that are handed the struct itself (t.actorProperty(a)) work on the caller's behalf
		for _, call := range callsIn(f) {
			if !ip.execInstr[call] {
				continue
			}
			cal := call.Common().StaticCallee()
			if cal == nil || cal.Blocks == nil || seenFn[cal] || cal.Object() == nil || cal.Object().Exported() {
				continue
			}
			takesStruct := false
			for _, p := range cal.Params {
				n := namedOf(p.Type())
				for _, si := range structs {
					if n == si.Named {
						takesStruct = true
					}
				}
			}
			if takesStruct {
				seenFn[cal] = true
				visit(cal)
			}
		}
	}
	seenFn[fn] = true
	visit(fn)
	_ = strings.Join
	return out
}

// urlComponentSources: which url.URL components / methods a string value derives from.
func urlComponentSources(v ssa.Value, d int, seen map[ssa.Value]bool) []string {
	if v == nil || d > 20 || seen[v] {
		return nil
	}
	seen[v] = true
	var out []string
	add := func(xs []string) {
		for _, x := range xs {
			dup := false
			for _, o := range out {
				if o == x {
					dup = true
				}
			}
			if !dup {
				out = append(out, x)
			}
		}
	}
	isURL := func(t types.Type) bool {
		n := namedOf(t)
		return n != nil && n.Obj().Pkg() != nil && n.Obj().Pkg().Path() == "net/url" && n.Obj().Name() == "URL"
	}
	switch x := v.(type) {
	case *ssa.UnOp:
		if fa, ok := x.X.(*ssa.FieldAddr); ok && isURL(fa.X.Type()) {
			return []string{fieldNameOf(fa.X.Type(), fa.Field)}
		}
		add(urlComponentSources(x.X, d+1, seen))
	case *ssa.Call:
		if cal := x.Common().StaticCallee(); cal != nil && cal.Signature.Recv() != nil && isURL(cal.Signature.Recv().Type()) {
			return []string{cal.Name() + "()"}
		}
		for _, a := range allArgs(x) {
			add(urlComponentSources(a, d+1, seen))
		}
	case *ssa.Extract:
		add(urlComponentSources(x.Tuple, d+1, seen))
	case *ssa.Phi:
		for _, e := range x.Edges {
			add(urlComponentSources(e, d+1, seen))
		}
	case *ssa.Convert:
		add(urlComponentSources(x.X, d+1, seen))
	case *ssa.BinOp:
		add(urlComponentSources(x.X, d+1, seen))
		add(urlComponentSources(x.Y, d+1, seen))
	case *ssa.Slice:
		add(urlComponentSources(x.X, d+1, seen))
	}
	return out
}

func cpTypeOf(w *World) types.Type {
	if n := w.Named("CollectionPath"); n != nil {
		return n
	}
	return nil
}

// textLeaves: the parameters (and other leaves) whose text can end up in the string/bytes value v as it stands at
// instruction `at`: conversions, slicing, concatenation, phis, calls (arguments), and — for the text of a
// strings.Builder / bytes.Buffer local — everything written into that builder by calls that can precede `at`.
func textLeaves(v ssa.Value, at ssa.Instruction, out map[ssa.Value]bool, seen map[ssa.Value]bool, d int) {
	if v == nil || seen[v] || d > 30 {
		return
	}
	seen[v] = true
	switch x := v.(type) {
	case *ssa.Parameter, *ssa.FreeVar, *ssa.Global:
		out[v] = true
	case *ssa.Const:
	case *ssa.Convert:
		textLeaves(x.X, at, out, seen, d+1)
	case *ssa.ChangeType:
		textLeaves(x.X, at, out, seen, d+1)
	case *ssa.MakeInterface:
		textLeaves(x.X, at, out, seen, d+1)
	case *ssa.Slice:
		textLeaves(x.X, at, out, seen, d+1)
	case *ssa.Phi:
		for _, e := range x.Edges {
			textLeaves(e, at, out, seen, d+1)
		}
	case *ssa.BinOp:
		if x.Op == token.ADD {
			textLeaves(x.X, at, out, seen, d+1)
			textLeaves(x.Y, at, out, seen, d+1)
		}
	case *ssa.Extract:
		textLeaves(x.Tuple, at, out, seen, d+1)
	case *ssa.UnOp:
		if x.Op == token.MUL {
			if al, ok := x.X.(*ssa.Alloc); ok {
				for _, st := range storesTo(al) {
					textLeaves(st.Val, at, out, seen, d+1)
				}
				return
			}
		}
		textLeaves(x.X, at, out, seen, d+1)
	case *ssa.Call:
		cc := x.Common()
		cal := cc.StaticCallee()
		if cal != nil && cal.Signature.Recv() != nil && len(cc.Args) > 0 {
			if al, ok := cc.Args[0].(*ssa.Alloc); ok && (cal.Name() == "String" || cal.Name() == "Bytes") {
				// the accumulated text of a local builder: every write that can come before this read
				if al.Referrers() != nil {
					for _, r := range *al.Referrers() {
						wc, ok := r.(*ssa.Call)
						if !ok || wc == x || !strings.HasPrefix(wc.Common().StaticCallee().Name(), "Write") {
							continue
						}
						if wc.Block() == x.Block() || wc.Block().Dominates(x.Block()) || blockReaches(wc.Block(), x.Block()) {
							for _, a := range wc.Common().Args[1:] {
								textLeaves(a, at, out, seen, d+1)
							}
						}
					}
				}
				return
			}
		}
		if cc.IsInvoke() {
			textLeaves(cc.Value, at, out, seen, d+1)
		}
		for _, a := range cc.Args {
			textLeaves(a, at, out, seen, d+1)
		}
	}
}

func blockReaches(from, to *ssa.BasicBlock) bool {
	seen := map[*ssa.BasicBlock]bool{}
	work := []*ssa.BasicBlock{from}
	for len(work) > 0 {
		b := work[len(work)-1]
		work = work[:len(work)-1]
		if b == to {
			return true
		}
		if seen[b] {
			continue
		}
		seen[b] = true
		work = append(work, b.Succs...)
	}
	return false
}

// ownerRewrittenBy traces a text back through conversions, slices, merges, trimming/splitting helpers and package
// functions; it names the first function on the way that rewrites text (unescaping, escaping, case mapping, replacing,
// cleaning), "" when there is none. (*url.URL).String ends the trace: it is the serialisation Split is written around.
func ownerRewrittenBy(w *World, v ssa.Value) (string, ssa.Instruction) {
	seen := map[ssa.Value]bool{}
	var trace func(v ssa.Value, d int) (string, ssa.Instruction)
	trace = func(v ssa.Value, d int) (string, ssa.Instruction) {
		if v == nil || d > 12 || seen[v] {
			return "", nil
		}
		seen[v] = true
		switch x := v.(type) {
		case *ssa.ChangeType:
			return trace(x.X, d+1)
		case *ssa.Convert:
			return trace(x.X, d+1)
		case *ssa.MakeInterface:
			return trace(x.X, d+1)
		case *ssa.Slice:
			return trace(x.X, d+1)
		case *ssa.Extract:
			return trace(x.Tuple, d+1)
		case *ssa.BinOp:
			if x.Op == token.ADD {
				if how, at := trace(x.X, d+1); how != "" {
					return how, at
				}
				return trace(x.Y, d+1)
			}
		case *ssa.Phi:
			for _, e := range x.Edges {
				if how, at := trace(e, d+1); how != "" {
					return how, at
				}
			}
		case *ssa.UnOp:
			if al, ok := x.X.(*ssa.Alloc); ok && x.Op == token.MUL {
				for _, st := range storesTo(al) {
					if how, at := trace(st.Val, d+1); how != "" {
						return how, at
					}
				}
			}
		case *ssa.Call:
			cal := x.Common().StaticCallee()
			if cal == nil {
				return "", nil
			}
			if w.InPkg(cal) {
				for _, rb := range returnBlocks(cal) {
					ret := rb.Instrs[len(rb.Instrs)-1].(*ssa.Return)
					for _, r := range ret.Results {
						if isStringish(r.Type()) {
							if how, _ := trace(r, d+1); how != "" {
								return funcName(cal) + " → " + how, x
							}
						}
					}
				}
				for _, a := range x.Common().Args {
					if isStringish(a.Type()) {
						if how, at := trace(a, d+1); how != "" {
							return how, at
						}
					}
				}
				return "", nil
			}
			if cal.Object() == nil || cal.Object().Pkg() == nil {
				return "", nil
			}
			pkg, name := cal.Object().Pkg().Path(), cal.Name()
			rewrites := false
			switch pkg {
			case "net/url":
				rewrites = cal.Signature.Recv() == nil && strings.Contains(name, "scape")
				if cal.Signature.Recv() != nil {
					return "", nil
				}
			case "strings", "bytes":
				switch name {
				case "ToLower", "ToUpper", "ToTitle", "Title", "Replace", "ReplaceAll", "Map", "ToValidUTF8", "ToLowerSpecial", "ToUpperSpecial", "Repeat":
					rewrites = true
				}
			case "path", "path/filepath":
				rewrites = name == "Clean" || name == "ToSlash" || name == "FromSlash"
			case "golang.org/x/text/cases", "golang.org/x/text/unicode/norm", "html", "mime":
				rewrites = true
			}
			if rewrites {
				return extName(cal), x
			}
			for _, a := range x.Common().Args {
				if _, isConst := a.(*ssa.Const); !isConst && isStringish(a.Type()) {
					if how, at := trace(a, d+1); how != "" {
						return how, at
					}
				}
			}
		}
		return "", nil
	}
	return trace(v, 0)
}
