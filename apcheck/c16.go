package main

import (
	"fmt"
	"go/constant"
	"go/token"
	"go/types"
	"sort"
	"strings"

	"golang.org/x/tools/go/ssa"
)

func init() {
	register("C16", checkC16)
	register("C18", checkC18)
}

// fieldAssign describes one store into a field of a vocabulary struct: target field, the helper producing the
// value (if any) and the fields the value derives from.
type fieldAssign struct {
	fn      *ssa.Function
	instr   ssa.Instruction
	target  FieldPath
	helper  *ssa.Function
	sources []FieldPath
	guards  []guard
}

func collectAssigns(w *World, pr *prover, fns []*ssa.Function) []fieldAssign {
	var out []fieldAssign
	for _, f := range fns {
		for _, b := range f.Blocks {
			for _, in := range b.Instrs {
				st, ok := in.(*ssa.Store)
				if !ok {
					continue
				}
				fa, ok := st.Addr.(*ssa.FieldAddr)
				if !ok {
					// for _, row := range [...]struct{dst *T; src T}{{&to.A, from.A}, …} { if row.src != nil { *row.dst = row.src } }:
					// one assignment per row, guarded by the loop's tests read with that row's values
					if rows, df, table, isRow := literalTableRowsOf(st.Addr); isRow {
						// *row.dst = helper(*row.dst, row.src): per row, the field is assigned helper(itself, that row's source)
						if hc, isCall := unwrap(st.Val).(*ssa.Call); isCall && hc.Common().StaticCallee() != nil && w.InPkg(hc.Common().StaticCallee()) {
							handled := false
							for j, row := range rows {
								efa, isFA := row[df].(*ssa.FieldAddr)
								if !isFA {
									continue
								}
								efp, okp := pr.structPath(efa, 0)
								if !okp || len(efp.Idx) == 0 || efp.RootType.Obj().Pkg() != w.Types {
									continue
								}
								var srcs []FieldPath
								okArgs := true
								for _, a := range hc.Common().Args {
									a0 := unwrap(a)
									if r3, f3, t3, ok3 := literalTableRowsOf(a0); ok3 && t3 == table && j < len(r3) {
										srcs = append(srcs, pr.prov(r3[j][f3]).list()...)
										continue
									}
									if ld, isLd := a0.(*ssa.UnOp); isLd && ld.Op == token.MUL {
										if _, f4, t4, ok4 := literalTableRowsOf(ld.X); ok4 && t4 == table && f4 == df {
											srcs = append(srcs, efp)
											continue
										}
									}
									if _, isConst := a0.(*ssa.Const); !isConst {
										okArgs = false
									}
								}
								if !okArgs {
									continue
								}
								handled = true
								out = append(out, fieldAssign{fn: f, instr: st, target: efp, helper: hc.Common().StaticCallee(), sources: srcs, guards: pr.dominatingGuards(b)})
							}
							if handled {
								continue
							}
						}
						if rows2, sf, table2, isRow2 := literalTableRowsOf(unwrap(st.Val)); isRow2 && table2 == table && len(rows2) == len(rows) {
							for j, row := range rows {
								efa, isFA := row[df].(*ssa.FieldAddr)
								if !isFA {
									continue
								}
								efp, okp := pr.structPath(efa, 0)
								if !okp || len(efp.Idx) == 0 || efp.RootType.Obj().Pkg() != w.Types {
									continue
								}
								gs := substGuards(pr, pr.dominatingGuards(b), func(v ssa.Value) []FieldPath {
									if r3, f3, t3, ok3 := literalTableRowsOf(v); ok3 && t3 == table && j < len(r3) {
										return pr.prov(r3[j][f3]).list()
									}
									return nil
								})
								out = append(out, fieldAssign{fn: f, instr: st, target: efp, sources: pr.prov(row[sf]).list(), guards: gs})
							}
							continue
						}
					}
					// for _, p := range [...]*Item{&x.A, &x.B} { *p = G(*p) }: each field is assigned G of itself
					if elems := pointerArrayElems(st.Addr); len(elems) > 0 {
						if call, isCall := unwrap(st.Val).(*ssa.Call); isCall && len(call.Common().Args) >= 1 {
							if ld, isLd := unwrap(call.Common().Args[0]).(*ssa.UnOp); isLd && ld.Op == token.MUL && ld.X == st.Addr {
								for _, e := range elems {
									efa, isFA := e.(*ssa.FieldAddr)
									if !isFA {
										continue
									}
									efp, okp := pr.structPath(efa, 0)
									if !okp || len(efp.Idx) == 0 || efp.RootType.Obj().Pkg() != w.Types {
										continue
									}
									out = append(out, fieldAssign{fn: f, instr: st, target: efp, helper: call.Common().StaticCallee(), sources: []FieldPath{efp}, guards: pr.dominatingGuards(b)})
								}
							}
						}
					}
					continue
				}
				fp, ok := pr.structPath(fa, 0)
				if !ok || len(fp.Idx) == 0 || fp.RootType.Obj().Pkg() != w.Types {
					continue
				}
				a := fieldAssign{fn: f, instr: st, target: fp}
				if call, ok := unwrap(st.Val).(*ssa.Call); ok {
					a.helper = call.Common().StaticCallee()
				}
				a.sources = pr.prov(st.Val).list()
				a.guards = pr.dominatingGuards(b)
				out = append(out, a)
			}
		}
		// set(&to.F, from.F) where set — a local closure or a package helper — stores its value parameter through its
		// pointer parameter (if with != nil { *link = with }): an assignment of the field, guarded by the helper's own
		// tests read with the call's arguments
		for _, call := range callsIn(f) {
			var h *ssa.Function
			if cal := call.Common().StaticCallee(); cal != nil {
				h = cal
			} else if mc := closureValue(call.Common().Value); mc != nil {
				h, _ = mc.Fn.(*ssa.Function)
			}
			if h == nil || !w.InPkg(h) || h.Blocks == nil || len(h.Params) != 2 || len(call.Common().Args) != 2 {
				continue
			}
			efa, isFA := call.Common().Args[0].(*ssa.FieldAddr)
			if !isFA {
				continue
			}
			efp, okp := pr.structPath(efa, 0)
			if !okp || len(efp.Idx) == 0 || efp.RootType.Obj().Pkg() != w.Types {
				continue
			}
			for _, hb := range h.Blocks {
				for _, hin := range hb.Instrs {
					hst, isSt := hin.(*ssa.Store)
					if !isSt || hst.Addr != ssa.Value(h.Params[0]) || unwrap(hst.Val) != ssa.Value(h.Params[1]) {
						continue
					}
					gs := substGuards(pr, pr.dominatingGuards(hb), func(v ssa.Value) []FieldPath {
						if unwrap(v) == ssa.Value(h.Params[1]) {
							return pr.prov(call.Common().Args[1]).list()
						}
						if ld, isLd := unwrap(v).(*ssa.UnOp); isLd && ld.Op == token.MUL && ld.X == ssa.Value(h.Params[0]) {
							return []FieldPath{efp}
						}
						return nil
					})
					gs = append(gs, pr.dominatingGuards(call.Block())...)
					out = append(out, fieldAssign{fn: f, instr: call, target: efp, sources: pr.prov(call.Common().Args[1]).list(), guards: gs})
				}
			}
		}
		// h(&x.A) where h does *p = G(*p) on every path (flattenInPlace(p *Item)): the field is assigned G of itself
		for _, call := range callsIn(f) {
			h := call.Common().StaticCallee()
			if h == nil || !w.InPkg(h) || h.Blocks == nil || len(h.Params) != 1 || len(call.Common().Args) != 1 {
				continue
			}
			efa, isFA := call.Common().Args[0].(*ssa.FieldAddr)
			if !isFA {
				continue
			}
			efp, okp := pr.structPath(efa, 0)
			if !okp || len(efp.Idx) == 0 || efp.RootType.Obj().Pkg() != w.Types {
				continue
			}
			for _, hb := range h.Blocks {
				for _, hin := range hb.Instrs {
					hst, isSt := hin.(*ssa.Store)
					if !isSt || hst.Addr != ssa.Value(h.Params[0]) {
						continue
					}
					gcall, isCall := unwrap(hst.Val).(*ssa.Call)
					if !isCall || gcall.Common().StaticCallee() == nil || len(gcall.Common().Args) < 1 {
						continue
					}
					ld, isLd := unwrap(gcall.Common().Args[0]).(*ssa.UnOp)
					if !isLd || ld.Op != token.MUL || ld.X != ssa.Value(h.Params[0]) {
						continue
					}
					// on every path of the helper
					every := true
					for _, rb := range returnBlocks(h) {
						if !hb.Dominates(rb) {
							every = false
						}
					}
					if !every {
						continue
					}
					out = append(out, fieldAssign{fn: f, instr: call, target: efp, helper: gcall.Common().StaticCallee(), sources: []FieldPath{efp}, guards: pr.dominatingGuards(call.Block())})
				}
			}
		}
		// h(&x.A, &x.B, …) where h maps every pointed-to value through one function (for _, p := range ps { *p = G(*p) })
		// assigns each of those fields from G applied to itself
		for _, call := range callsIn(f) {
			h := call.Common().StaticCallee()
			if h == nil || !w.InPkg(h) || h.Blocks == nil || len(call.Common().Args) == 0 {
				continue
			}
			for ai, arg := range call.Common().Args {
				elems, ok := variadicElems(arg)
				if !ok || len(elems) == 0 || ai >= len(h.Params) {
					continue
				}
				g := mapsPointeesThrough(h, h.Params[ai])
				if g == nil {
					continue
				}
				for _, e := range elems {
					fa, ok := e.(*ssa.FieldAddr)
					if !ok {
						continue
					}
					fp, ok := pr.structPath(fa, 0)
					if !ok || len(fp.Idx) == 0 || fp.RootType.Obj().Pkg() != w.Types {
						continue
					}
					out = append(out, fieldAssign{fn: f, instr: call, target: fp, helper: g, sources: []FieldPath{fp}, guards: pr.dominatingGuards(call.Block())})
				}
			}
		}
	}
	return out
}

// mapsPointeesThrough: h ranges over its slice-of-pointers parameter ps and does `*p = G(*p)` for every element, and
// stores nothing else through the elements; returns G.
func mapsPointeesThrough(h *ssa.Function, ps *ssa.Parameter) *ssa.Function {
	var g *ssa.Function
	isElem := func(v ssa.Value) bool { // load of &ps[i]
		u, ok := v.(*ssa.UnOp)
		if !ok || u.Op != token.MUL {
			return false
		}
		ia, ok := u.X.(*ssa.IndexAddr)
		return ok && ia.X == ssa.Value(ps)
	}
	for _, b := range h.Blocks {
		for _, in := range b.Instrs {
			st, ok := in.(*ssa.Store)
			if !ok {
				continue
			}
			if !isElem(st.Addr) {
				if _, isLocal := st.Addr.(*ssa.Alloc); isLocal {
					continue
				}
				return nil
			}
			call, ok := unwrap(st.Val).(*ssa.Call)
			if !ok || call.Common().StaticCallee() == nil || len(call.Common().Args) != 1 {
				return nil
			}
			ld, ok := unwrap(call.Common().Args[0]).(*ssa.UnOp)
			if !ok || ld.Op != token.MUL || ld.X != st.Addr {
				return nil
			}
			if g != nil && g != call.Common().StaticCallee() {
				return nil
			}
			g = call.Common().StaticCallee()
		}
	}
	return g
}

var c16Single = []string{"Actor", "Target", "Result", "Origin", "Instrument", "Object", "AttributedTo", "Replies", "Likes", "Shares"}
var c16Lists = []string{"To", "Bto", "CC", "BCC", "Audience"}

func checkC16(w *World, c *Check, tier string) {
	c.Exhaustive = true
	c.Explanation = "Decides the structural clauses of flattening: (cover) in the closure of the Flatten*Properties entry points each of the fifteen flattened properties (actor, target, result, origin, instrument, object, attributedTo, replies, likes, shares; to, bto, cc, bcc, audience) is reassigned from a flattener applied to that same property of the same value — no property is flattened from another one and none is skipped; (frame) no other property of a vocabulary struct is written anywhere in those closures; (guard) every flattener that can replace an item by an identifier (a value obtained from GetLink/GetID of its argument) does so only on the true side of both an is-object test and a non-empty test of that identifier, so plain IRIs, links and id-less embedded objects are returned unchanged; (nil) by abstract interpretation the flatteners return nil-likes unchanged or as nil without faulting. (align) a positional overwrite of list members takes its position from a loop over that very list. (every-exit) in each Flatten*Properties entry point every flattening site lies on every path to a return except the nil side of a test of the argument. (Normalize) ItemCollection.Normalize returns nil, the list or one of its members. NOT decided: idempotence, equality of the produced IRI with the id for concrete values. (lists) Flatten handed a non-nil item list reaches FlattenItemCollection."
	c.RuleText = "15 properties x {cover} + frame scan + guard obligations per identifier-returning flattener; exhaustive"
	c.Trusted = []string{"go/ssa", "apcheck prov.go, abstract interpreter"}
	c.floor("C16.cover", 15)
	c.floor("C16.guard", 1)
	c.floor("C16.accessor", 42)
	checkAccessors(w, c, "C16.accessor", []string{"IsObject", "GetID", "GetLink"})
	pr := newProver(w)
	var roots []*ssa.Function
	for _, n := range []string{"FlattenActivityProperties", "FlattenIntransitiveActivityProperties", "FlattenObjectProperties", "FlattenActorProperties", "FlattenProperties"} {
		if f := w.Func(n); f != nil {
			roots = append(roots, f)
		} else {
			c.bad("C16.cover", "anchor:"+n, "-", "entry point not found")
		}
	}
	if len(roots) == 0 {
		return
	}
	// flatteners: package functions named Flatten* with a single item-ish parameter returning an item-ish value
	isFlattener := func(f *ssa.Function) bool {
		if f == nil || !w.InPkg(f) || !strings.HasPrefix(f.Name(), "Flatten") || f.Signature.Params().Len() != 1 || f.Signature.Results().Len() != 1 {
			return false
		}
		pt := f.Signature.Params().At(0).Type()
		return w.itemLikeIface(pt) != nil || isItemCollectionType(w, pt)
	}
	clos := w.Reach(roots, func(f *ssa.Function) bool { return isFlattener(f) })
	checkListAlignment(w, c)
	// (cross) flattening treats each list on its own: the cross-list de-duplicator (what Recipients() uses, it deletes
	// from every later list what an earlier one already names) is never given more than one list — otherwise an
	// addressee named in both `to` and `bcc` silently disappears from bcc when the value is flattened
	if dd := w.Func("ItemCollectionDeduplication"); dd != nil {
		ncalls := 0
		full := w.Reach(roots, nil)
		for _, f := range full {
			if !strings.HasPrefix(f.Name(), "Flatten") && (f.Parent() == nil || !strings.HasPrefix(f.Parent().Name(), "Flatten")) {
				continue
			}
			for _, call := range callsIn(f) {
				if call.Common().StaticCallee() != dd || len(call.Common().Args) != 1 {
					continue
				}
				ncalls++
				key := fmt.Sprintf("%s:dedup#%d", funcName(f), ncalls)
				elems, ok := variadicElems(call.Common().Args[0])
				switch {
				case !ok:
					c.bad("C16.cross", key, w.InstrPos(call), "cannot tell how many lists are handed to the cross-list de-duplication inside the flattening (undecided)")
				case len(elems) > 1:
					c.bad("C16.cross", key, w.InstrPos(call), fmt.Sprintf("%s de-duplicates %d lists against each other while flattening: an entry that also occurs in an earlier list is deleted from the later one (an addressee in both to and bcc loses its bcc entry), although flattening must leave every other entry as it was", funcName(f), len(elems)))
				default:
					c.ok("C16.cross", key, w.InstrPos(call), "one list, de-duplicated against itself only")
				}
			}
		}
		c.stat("dedup_calls_in_flatteners", ncalls)
	}
	checkFlattenDispatch(w, c)
	// the flatteners de-duplicate every list through the recipient de-duplicator: its rules (order-preserving splice, one
	// record per entry, entries without an id left alone) are conditions of "embedded objects without an id stay as they
	// were" and "nothing else changes" here too
	if dd := w.Func("ItemCollectionDeduplication"); dd != nil {
		checkSplice(w, c, pr, "C16.dedup", dd)
	}
	assigns := collectAssigns(w, pr, clos)
	covered := map[string]bool{}
	for _, a := range assigns {
		if len(a.target.Idx) != 1 {
			continue
		}
		name := a.target.Names[0]
		key := a.target.RootType.Obj().Name() + "." + name
		want := false
		for _, p := range append(append([]string{}, c16Single...), c16Lists...) {
			if p == name {
				want = true
			}
		}
		if !want {
			c.bad("C16.frame", funcName(a.fn)+":writes:"+key, w.InstrPos(a.instr), fmt.Sprintf("%s writes %s, which flattening must leave unchanged", funcName(a.fn), key))
			continue
		}
		same := len(a.sources) > 0
		for _, s := range a.sources {
			if len(s.Names) != 1 || s.Names[0] != name || s.Root != a.target.Root {
				same = false
			}
		}
		switch {
		case !isFlattener(a.helper):
			c.bad("C16.cover", key, w.InstrPos(a.instr), fmt.Sprintf("%s is assigned a value that is not the result of a flattener", key))
		case !same:
			c.bad("C16.cover", key, w.InstrPos(a.instr), fmt.Sprintf("%s is flattened from %s instead of from itself", key, pathsString(a.sources)))
		default:
			covered[name] = true
			c.ok("C16.cover", key, w.InstrPos(a.instr), fmt.Sprintf("%s = %s(%s)", key, a.helper.Name(), key))
		}
	}
	for _, p := range append(append([]string{}, c16Single...), c16Lists...) {
		if !covered[p] {
			c.bad("C16.cover", "property:"+p, "-", fmt.Sprintf("no flattening entry point reassigns %s from a flattener of itself: embedded objects in %s are never replaced by their ids", p, p))
		} else {
			c.ok("C16.cover", "property:"+p, "-", "flattened")
		}
	}
	c.ok("C16.frame", "closure", "-", fmt.Sprintf("%d field stores in the flattening closures examined", len(assigns)))

	// ---- every exit: inside a Flatten*Properties entry point the flattening of each property — the reassignment itself,
	// or the call that hands the value on to the entry point of the embedded struct — lies on every path to a return,
	// except the paths taken for a nil argument. An early return ("both actor and object are IRIs already: nothing to
	// do") skips the properties behind it for the values that take it. FlattenProperties dispatches by type name and
	// is decided by C16.dispatch instead. ----
	isRoot := map[*ssa.Function]bool{}
	for _, r := range roots {
		isRoot[r] = true
	}
	reachesFlattening := func(f *ssa.Function) bool {
		for _, g := range w.Reach([]*ssa.Function{f}, nil) {
			if isRoot[g] {
				return true
			}
			for _, a := range assigns {
				if a.fn == g {
					return true
				}
			}
		}
		return false
	}
	for _, r := range roots {
		if r.Name() == "FlattenProperties" || len(r.Params) != 1 {
			continue
		}
		type site struct {
			in   ssa.Instruction
			what string
		}
		var sites []site
		for _, a := range assigns {
			if a.fn == r && len(a.target.Idx) == 1 {
				sites = append(sites, site{a.instr, a.target.Names[0]})
			}
		}
		for _, call := range callsIn(r) {
			cal := call.Common().StaticCallee()
			if cal == nil || !w.InPkg(cal) {
				continue
			}
			if isRoot[cal] && cal != r {
				sites = append(sites, site{call, cal.Name()})
				continue
			}
			for _, a := range call.Common().Args {
				var fn *ssa.Function
				switch x := unwrap(a).(type) {
				case *ssa.MakeClosure:
					fn, _ = x.Fn.(*ssa.Function)
				case *ssa.Function:
					fn = x
				}
				if fn != nil && reachesFlattening(fn) {
					sites = append(sites, site{call, cal.Name() + "(…flattening…)"})
				}
			}
		}
		lh := loopHeaders(r)
		nsites := 0
		for _, st := range sites {
			if len(lh[st.in.Block()]) > 0 {
				continue // a table-driven loop: whether the loop runs for every row is C16.cover's table reading
			}
			nsites++
			// search a path entry → return that avoids the site's block and takes no nil edge of a test on the argument
			seenB := map[*ssa.BasicBlock]bool{}
			work := []*ssa.BasicBlock{r.Blocks[0]}
			var escaped *ssa.BasicBlock
			for len(work) > 0 && escaped == nil {
				b := work[len(work)-1]
				work = work[:len(work)-1]
				if seenB[b] || b == st.in.Block() {
					continue
				}
				seenB[b] = true
				if len(b.Instrs) > 0 {
					if _, isRet := b.Instrs[len(b.Instrs)-1].(*ssa.Return); isRet {
						escaped = b
						break
					}
					if iff, ok := b.Instrs[len(b.Instrs)-1].(*ssa.If); ok && isNilTestCond(iff.Cond) {
						if nilSide, ok := nilSideOf(iff.Cond, r.Params[0]); ok {
							work = append(work, b.Succs[1-nilSide])
							continue
						}
						// if o.Replies != nil { o.Replies = Flatten(o.Replies) }: the nil side of a test of the very
						// property has nothing to flatten
						if tested, nilSide, ok := nilTestOperand(iff.Cond); ok {
							own := false
							for _, fp := range pr.prov(tested).list() {
								if len(fp.Names) == 1 && fp.Names[0] == st.what {
									own = true
								}
							}
							if own {
								work = append(work, b.Succs[1-nilSide])
								continue
							}
						}
					}
				}
				work = append(work, b.Succs...)
			}
			key := "every-exit:" + funcName(r) + ":" + st.what
			if escaped != nil {
				c.bad("C16.cover", key, w.InstrPos(escaped.Instrs[len(escaped.Instrs)-1]), fmt.Sprintf("%s can return for a non-nil argument without passing the flattening of %s (at %s): the values that take that path keep their embedded objects there", funcName(r), st.what, w.InstrPos(st.in)))
			} else {
				c.ok("C16.cover", key, w.InstrPos(st.in), "on every path to a return for a non-nil argument")
			}
		}
		if nsites == 0 {
			c.bad("C16.cover", "every-exit:"+funcName(r), w.FuncPos(r), "no flattening site found in this entry point (undecided)")
		}
	}

	// ---- siblings: within one entry point, properties of the same Go type are flattened by the same helper ----
	byFn := map[*ssa.Function]map[string]map[string][]string{} // fn -> type kind -> helper -> fields
	for _, a := range assigns {
		if len(a.target.Idx) != 1 || !isFlattener(a.helper) {
			continue
		}
		kind := "item"
		if st, ok := a.target.RootType.Underlying().(*types.Struct); ok && isItemCollectionType(w, st.Field(a.target.Idx[0]).Type()) {
			kind = "list"
		}
		if byFn[a.fn] == nil {
			byFn[a.fn] = map[string]map[string][]string{}
		}
		if byFn[a.fn][kind] == nil {
			byFn[a.fn][kind] = map[string][]string{}
		}
		byFn[a.fn][kind][a.helper.Name()] = append(byFn[a.fn][kind][a.helper.Name()], a.target.Names[0])
	}
	for fn, kinds := range byFn {
		for kind, helpers := range kinds {
			key := funcName(fn) + ":" + kind
			if len(helpers) <= 1 {
				c.ok("C16.siblings", key, w.FuncPos(fn), fmt.Sprintf("all %s properties use %v", kind, sortedKeys(helpers)))
				continue
			}
			// the odd ones out: helpers used by a strict minority
			total := 0
			for _, fs := range helpers {
				total += len(fs)
			}
			var odd []string
			for h, fs := range helpers {
				if len(fs)*2 < total {
					odd = append(odd, fmt.Sprintf("%v via %s", fs, h))
				}
			}
			sort.Strings(odd)
			if len(odd) == 0 {
				odd = []string{fmt.Sprintf("%v", helpers)}
			}
			c.bad("C16.siblings", key, w.FuncPos(fn), fmt.Sprintf("%s flattens sibling %s properties with different helpers (%s): the helpers differ in which shapes they replace (single item vs list of items), so the odd property keeps embedded objects the others replace", funcName(fn), kind, strings.Join(odd, "; ")))
		}
	}

	// ---- normalize: what Flatten hands a flattened list to — ItemCollection.Normalize — gives back nil, the list itself
	// or one of its members, never something computed from the members: "a list of nothing but references is handed
	// back as its IRI list" turns the Link members (left as they are by the flatteners) into their hrefs ----
	if nz := w.Method("ItemCollection", "Normalize"); nz != nil && len(nz.Params) == 1 {
		var fromList func(v ssa.Value, d int) bool
		fromList = func(v ssa.Value, d int) bool {
			if d > 8 {
				return false
			}
			switch x := v.(type) {
			case *ssa.Const:
				return x.IsNil()
			case *ssa.Parameter:
				return x == nz.Params[0]
			case *ssa.MakeInterface:
				return fromList(x.X, d+1)
			case *ssa.ChangeType:
				return fromList(x.X, d+1)
			case *ssa.ChangeInterface:
				return fromList(x.X, d+1)
			case *ssa.Slice:
				return fromList(x.X, d+1)
			case *ssa.Phi:
				for _, e := range x.Edges {
					if !fromList(e, d+1) {
						return false
					}
				}
				return true
			case *ssa.UnOp:
				if x.Op == token.MUL {
					if ia, ok := x.X.(*ssa.IndexAddr); ok {
						return fromList(ia.X, d+1)
					}
					if al, ok := x.X.(*ssa.Alloc); ok {
						sts := storesTo(al)
						for _, st := range sts {
							if !fromList(st.Val, d+1) {
								return false
							}
						}
						return len(sts) > 0
					}
				}
			case *ssa.Extract:
				// the value of a range over the list
				if nx, ok := x.Tuple.(*ssa.Next); ok {
					if rg, ok := nx.Iter.(*ssa.Range); ok {
						return x.Index == 2 && fromList(rg.X, d+1)
					}
				}
			}
			return false
		}
		n := 0
		for _, rb := range returnBlocks(nz) {
			ret := rb.Instrs[len(rb.Instrs)-1].(*ssa.Return)
			if len(ret.Results) != 1 {
				continue
			}
			n++
			key := fmt.Sprintf("Normalize:result#%d", n)
			if fromList(ret.Results[0], 0) {
				c.ok("C16.noinvent", key, w.InstrPos(ret), "nil, the list or one of its members")
			} else {
				what := shortVal(ret.Results[0])
				var inner ssa.Value = ret.Results[0]
				if mi, ok := inner.(*ssa.MakeInterface); ok {
					inner = mi.X
				}
				if call, ok := inner.(*ssa.Call); ok && call.Common().StaticCallee() != nil {
					what = "the result of " + funcName(call.Common().StaticCallee())
				}
				c.bad("C16.noinvent", "Normalize:result:computed", w.InstrPos(ret), fmt.Sprintf("ItemCollection.Normalize can return %s, which is neither nil, the list itself nor one of its members: flattening hands every flattened list through it, so members (a Link that the flatteners leave as it is) come back as something else", what))
			}
		}
	} else {
		c.bad("C16.noinvent", "anchor:Normalize", "-", "ItemCollection.Normalize not found")
	}

	// ---- lists: Flatten handed a plain item list flattens its members — on the abstract run with a non-nil ItemCollection
	// as the operand the list flattener is reached ("references need no flattening: return anything that is not an
	// object" also returns lists, which are neither objects nor links by their own accessors) ----
	if fl, ic := w.Func("Flatten"), w.Named("ItemCollection"); fl != nil && ic != nil && w.Func("FlattenItemCollection") != nil {
		d := topOfType(ic)
		d.T = ic
		d.Nil = nilNo
		ip := newInterp(w)
		reached := false
		ip.onCall = func(ev callEvent) {
			if ev.Callee.Name() == "FlattenItemCollection" {
				reached = true
			}
		}
		ip.Call(fl, []AV{{K: kIface, Nil: nilNo, Dyn: &d}}, nil, Store{}, nil)
		switch {
		case ip.aborted != "":
			c.bad("C16.dispatch", "Flatten:ItemCollection", w.FuncPos(fl), "undecided: "+ip.aborted)
		case !reached:
			c.bad("C16.dispatch", "Flatten:ItemCollection", w.FuncPos(fl), "Flatten handed a non-nil ItemCollection never reaches FlattenItemCollection: a list-valued attributedTo/replies/likes/shares keeps its embedded members")
		default:
			c.ok("C16.dispatch", "Flatten:ItemCollection", w.FuncPos(fl), "reaches FlattenItemCollection")
		}
	}

	// ---- noinvent: the identifiers that flattening (and de-duplication, on which the list variant is built) put into
	// a list are exactly what GetID/GetLink of the member returned — never a rewritten or constant IRI ----
	// (since fix 7bd0a2e the list flattener no longer copies identifiers out of the de-duplicated list, so that list
	// is no longer part of what flattening produces and is not judged here)
	for _, fname := range []string{"FlattenItemCollection"} {
		f := w.Func(fname)
		if f == nil {
			c.bad("C16.noinvent", "anchor:"+fname, "-", "not found")
			continue
		}
		n := 0
		checkVal := func(v ssa.Value, in ssa.Instruction, what string) {
			n++
			if msg := onlyIdentifierOf(v, 0, map[ssa.Value]bool{}); msg != "" {
				c.bad("C16.noinvent", fmt.Sprintf("%s:%s#%d", fname, what, n), w.InstrPos(in), fmt.Sprintf("%s puts into the %s a value that is not simply GetID()/GetLink() of a member: %s — an IRI can appear that was not in the original", fname, what, msg))
			} else {
				c.ok("C16.noinvent", fmt.Sprintf("%s:%s#%d", fname, what, n), w.InstrPos(in), "the member's own id/link")
			}
		}
		for _, b := range f.Blocks {
			for _, in := range b.Instrs {
				switch x := in.(type) {
				case *ssa.Call:
					if bi, ok := x.Common().Value.(*ssa.Builtin); ok && bi.Name() == "append" && isItemListValue(w, x) {
						// appended to the result list (a fresh local list), not to the caller's lists
						if elems, ok := variadicElems(x.Common().Args[1]); ok {
							for _, el := range elems {
								if isSpliceTail(x.Common().Args[1]) {
									continue
								}
								checkVal(el, in, "result list")
							}
						}
					}
				case *ssa.Store:
					if ia, ok := x.Addr.(*ssa.IndexAddr); ok && isItemListValue(w, ia.X) {
						checkVal(x.Val, in, "flattened list")
					}
				}
			}
		}
	}

	// ---- guard: identifier-returning flatteners ----
	for _, f := range w.Funcs {
		if !isFlattener(f) || w.itemLikeIface(f.Signature.Params().At(0).Type()) == nil {
			continue
		}
		param := f.Params[0]
		for _, rb := range returnBlocks(f) {
			ret := rb.Instrs[len(rb.Instrs)-1].(*ssa.Return)
			if len(ret.Results) != 1 {
				continue
			}
			v := unwrap(ret.Results[0])
			call, ok := v.(*ssa.Call)
			if !ok || !call.Common().IsInvoke() || !derivesFromRoot(unwrap(call.Common().Value), param, 0) {
				continue
			}
			mn := call.Common().Method.Name()
			if mn != "GetLink" && mn != "GetID" {
				continue
			}
			// guards: IsObject() true and len(link) > 0 / != ""
			hasObj, hasNonEmpty := false, false
			for _, g := range rawGuards(rb) {
				switch x := g.cond.(type) {
				case *ssa.Call:
					if x.Common().IsInvoke() && x.Common().Method.Name() == "IsObject" && derivesFromRoot(unwrap(x.Common().Value), param, 0) && g.onTrue {
						hasObj = true
					}
					if cal := x.Common().StaticCallee(); cal != nil && cal.Name() == "IsObject" && g.onTrue {
						hasObj = true
					}
				case *ssa.BinOp:
					for _, side := range []ssa.Value{x.X, x.Y} {
						if inner, isLen := lenOperand(side); isLen {
							if ic, ok := unwrap(inner).(*ssa.Call); ok && ic.Common().IsInvoke() && (ic.Common().Method.Name() == "GetLink" || ic.Common().Method.Name() == "GetID") {
								hasNonEmpty = true
							}
						}
						if ic, ok := unwrap(side).(*ssa.Call); ok && ic.Common().IsInvoke() && (ic.Common().Method.Name() == "GetLink" || ic.Common().Method.Name() == "GetID") {
							hasNonEmpty = true
						}
					}
				}
			}
			key := funcName(f) + ":returns-" + mn
			if hasObj && hasNonEmpty {
				c.ok("C16.guard", key, w.InstrPos(ret), "identifier returned only for objects with a non-empty id")
			} else {
				var miss []string
				if !hasObj {
					miss = append(miss, "is-object test")
				}
				if !hasNonEmpty {
					miss = append(miss, "non-empty-id test")
				}
				c.bad("C16.guard", key, w.InstrPos(ret), fmt.Sprintf("%s replaces its argument by %s() without %s: an embedded object without id becomes the empty IRI and a Link becomes its id", funcName(f), mn, strings.Join(miss, " and ")))
			}
		}
	}
}

// ---------------- C18 ----------------

var c18Object = []string{"Name", "Summary", "Content", "MediaType", "Attachment", "AttributedTo", "Audience", "Context", "Generator", "Icon", "Image", "InReplyTo", "Location", "Preview", "Replies", "Tag", "URL", "To", "Bto", "CC", "BCC", "StartTime", "EndTime"}
var c18Actor = []string{"Inbox", "Outbox", "Following", "Followers", "Liked", "PreferredUsername"}

func checkC18(w *World, c *Check, tier string) {
	c.Exhaustive = true
	c.Explanation = "Decides the structural clauses of the merge: (guards) by abstract interpretation CopyItemProperties returns an error without reaching the merge dispatcher when either side is the untyped nil or a typed nil pointer, when the id comparison is forced to 'different', and when the two type names are forced to differ, and the dispatcher's unsupported-type exit returns an error without a write; (merge) every store `to.f = …` in the merge closures is one of: replace-if-set helper applied to (to.f, from.f) of the same f — the helper's own body returning the old value only when the new one is unset —, a direct copy of from.f that is not on the unset side of a test of from.f, or the unconditional id/type copy; a store on the unset side of its source's emptiness test (inverted guard) or fed from a different property is a finding; (cover) each merged property the statement lists has such a store for its type; (frame) nothing is written through `from`; (reach) the routing layer never reports success on a path without a merge call. NOT decided: the 2^n set/unset combinations on concrete values, wholesale replacement of nested structs (Source) — reported only when the helper returns the new struct under a condition that is not its emptiness."
	c.RuleText = "obligations: 6 refusal cases + every field store in the copy closures (merge) + listed properties per type (cover) + from-frame; exhaustive over stores"
	c.Trusted = []string{"go/ssa", "apcheck prov.go, abstract interpreter"}
	c.floor("C18.merge", 30)
	c.floor("C18.cover", 30)
	c.floor("C18.complete", 6)
	c.floor("C18.guards", 5)
	pr := newProver(w)
	copyItem := w.Func("CopyItemProperties")
	disp := w.Func("copyAllItemProperties")
	if copyItem == nil {
		c.bad("C18.guards", "anchor:CopyItemProperties", "-", "not found")
		return
	}
	// ---- guards (abstract interpretation) ----
	objPtr := types.NewPointer(w.Named("Object"))
	obj := avIface(objPtr, avNonNilPtr(objPtr))
	nilI := AV{K: kIface, Nil: nilYes}
	typedNil := avIface(objPtr, avNilPtr(objPtr))
	merges := map[*ssa.Function]bool{}
	for _, n := range []string{"CopyObjectProperties", "UpdatePersonProperties", "CopyCollectionProperties", "CopyOrderedCollectionProperties", "CopyCollectionPageProperties", "CopyOrderedCollectionPageProperties"} {
		if f := w.Func(n); f != nil {
			merges[f] = true
		}
	}
	run := func(label string, to, from AV, override func(ip *Interp)) {
		ip := newInterp(w)
		reached := false
		ip.onCall = func(ev callEvent) {
			if merges[ev.Callee] || (disp != nil && ev.Callee == disp) {
				reached = true
			}
		}
		if override != nil {
			override(ip)
		}
		res, _, _ := ip.Call(copyItem, []AV{to, from}, nil, Store{}, nil)
		errOK := res.K == kTuple && len(res.Tup) == 2 && res.Tup[1].K == kIface && res.Tup[1].Nil == nilNo
		switch {
		case len(ip.faults) > 0:
			c.bad("C18.guards", label, w.FuncPos(copyItem), "CopyItemProperties faults: "+strings.Join(ip.faultStrings(), "; "))
		case reached:
			c.bad("C18.guards", label, w.FuncPos(copyItem), "the merge is reached although the update must be refused ("+label+")")
		case !errOK:
			c.bad("C18.guards", label, w.FuncPos(copyItem), fmt.Sprintf("CopyItemProperties evaluates to %s instead of returning an error (%s)", res, label))
		default:
			c.ok("C18.guards", label, w.FuncPos(copyItem), "refused with an error before any merge function is reached")
		}
	}
	run("to-nil", nilI, obj, nil)
	run("from-nil", obj, nilI, nil)
	run("to-typed-nil", typedNil, obj, nil)
	run("from-typed-nil", obj, typedNil, nil)
	// id mismatch: force the result of the id equivalence test to false
	var idCalls, typeCalls []*ssa.Call
	// the guards may have been moved into a predicate (canCopy(to, from) error): look at everything CopyItemProperties
	// reaches before the merge dispatcher
	guardFns := w.Reach([]*ssa.Function{copyItem}, func(f *ssa.Function) bool {
		return f != copyItem && (merges[f] || f == disp || f.Name() == "Equals" || f.Name() == "IsNil" || f.Name() == "GetLink" || f.Name() == "GetType" || strings.HasPrefix(f.Name(), "On") || strings.HasPrefix(f.Name(), "To"))
	})
	typeParamOf := map[*ssa.Call]int{}
	for _, gf := range guardFns {
		for _, call := range callsIn(gf) {
			if cal := call.Common().StaticCallee(); cal != nil && cal.Name() == "Equals" && cal.Signature.Recv() != nil && namedOf(cal.Signature.Recv().Type()) == w.Named("IRI") {
				idCalls = append(idCalls, call)
			}
			if call.Common().IsInvoke() && call.Common().Method.Name() == "GetType" {
				typeCalls = append(typeCalls, call)
				for pi, p := range gf.Params {
					if unwrap(call.Common().Value) == ssa.Value(p) {
						typeParamOf[call] = pi
					}
				}
			}
		}
	}
	if len(idCalls) == 0 {
		c.bad("C18.guards", "ids-differ", w.FuncPos(copyItem), "CopyItemProperties no longer compares the two ids with IRI.Equals")
	} else {
		run("ids-differ", obj, obj, func(ip *Interp) {
			for _, ic := range idCalls {
				ip.overrides[ic] = avBool(false)
			}
		})
	}
	if len(typeCalls) == 0 {
		c.bad("C18.guards", "types-differ", w.FuncPos(copyItem), "CopyItemProperties no longer compares the two type names")
	} else {
		avt := w.Named("ActivityVocabularyType")
		run("types-differ", obj, obj, func(ip *Interp) {
			for _, ic := range idCalls {
				ip.overrides[ic] = avBool(true)
			}
			for _, tc := range typeCalls {
				name := "Note"
				if typeParamOf[tc] == 1 {
					name = "Article"
				}
				ip.overrides[tc] = AV{K: kConst, C: constant.MakeString(name), T: avt}
			}
		})
	}
	// (reach) the routing layer never reports success without having handed the pair to a merge function: a return with
	// a constant nil error in CopyItemProperties / the dispatcher must be dominated by a call of a merge function
	for _, rf := range []*ssa.Function{copyItem, disp} {
		if rf == nil {
			continue
		}
		nret := 0
		for _, rb := range returnBlocks(rf) {
			ret := rb.Instrs[len(rb.Instrs)-1].(*ssa.Return)
			if len(ret.Results) != 2 || !isNilConst(ret.Results[1]) {
				continue
			}
			nret++
			merged := false
			for d := rb; d != nil; d = d.Idom() {
				for _, in := range d.Instrs {
					if call, ok := in.(*ssa.Call); ok {
						if cal := call.Common().StaticCallee(); cal != nil && (merges[cal] || cal == disp) {
							merged = true
						}
					}
				}
			}
			key := fmt.Sprintf("%s:success-return#%d", funcName(rf), nret)
			if merged {
				c.ok("C18.reach", key, w.InstrPos(ret), "preceded by a merge call on every path")
			} else {
				c.bad("C18.reach", key, w.InstrPos(ret), fmt.Sprintf("%s can report success (nil error) at %s without any merge function having been called on that path: the update is silently dropped", funcName(rf), w.InstrPos(ret)))
			}
		}
	}
	c.ok("C18.reach", "routing-layer", w.FuncPos(copyItem), "every other result of the routing layer is the result of a merge/conversion call or a constructed error")
	// unsupported type: the dispatcher's fall-through returns an error
	if disp != nil {
		avt := w.Named("ActivityVocabularyType")
		ip := newInterp(w)
		reached := false
		ip.onCall = func(ev callEvent) {
			if merges[ev.Callee] {
				reached = true
			}
		}
		for _, call := range callsIn(disp) {
			if call.Common().IsInvoke() && call.Common().Method.Name() == "GetType" {
				ip.overrides[call] = AV{K: kConst, C: constant.MakeString("Create"), T: avt}
			}
		}
		res, _, _ := ip.Call(disp, []AV{obj, obj}, nil, Store{}, nil)
		errOK := res.K == kTuple && len(res.Tup) == 2 && res.Tup[1].K == kIface && res.Tup[1].Nil == nilNo
		if reached || !errOK {
			c.bad("C18.guards", "unsupported-type", w.FuncPos(disp), fmt.Sprintf("for a type the merge does not support (an activity) the dispatcher evaluates to %s, merge reached=%v", res, reached))
		} else {
			c.ok("C18.guards", "unsupported-type", w.FuncPos(disp), "returns an error without merging")
		}
	}

	// ---- merge ----
	var mfns []*ssa.Function
	for f := range merges {
		mfns = append(mfns, f)
	}
	sort.Slice(mfns, func(i, j int) bool { return funcName(mfns[i]) < funcName(mfns[j]) })
	coveredBy := map[string]map[string]bool{} // merge fn -> fields
	coverSites := map[*ssa.Function]map[string][]ssa.Instruction{}
	for _, mf := range mfns {
		if len(mf.Params) < 2 {
			continue
		}
		coveredBy[funcName(mf)] = map[string]bool{}
		coverSites[mf] = map[string][]ssa.Instruction{}
		// the merge function itself, plus package helpers it hands its own (to, from) pair to, in that order
		// (copyActorCollections(to, from)): their stores count as the merge function's
		type unit struct {
			fn       *ssa.Function
			to, from *ssa.Parameter
		}
		units := []unit{{mf, mf.Params[0], mf.Params[1]}}
		for _, call := range callsIn(mf) {
			h := call.Common().StaticCallee()
			if h == nil || !w.InPkg(h) || h.Blocks == nil || merges[h] || h == mf || len(h.Params) != 2 || len(call.Common().Args) != 2 {
				continue
			}
			if call.Common().Args[0] == ssa.Value(mf.Params[0]) && call.Common().Args[1] == ssa.Value(mf.Params[1]) && types.Identical(h.Params[0].Type(), mf.Params[0].Type()) {
				units = append(units, unit{h, h.Params[0], h.Params[1]})
			}
		}
		var allAssigns []fieldAssign
		unitRoots := map[*ssa.Function][2]ssa.Value{}
		for _, u := range units {
			unitRoots[u.fn] = [2]ssa.Value{pr.canonicalRoot(u.to), pr.canonicalRoot(u.from)}
			allAssigns = append(allAssigns, collectAssigns(w, pr, []*ssa.Function{u.fn})...)
		}
		for _, a := range allAssigns {
			toRoot, fromRoot := unitRoots[a.fn][0], unitRoots[a.fn][1]
			if len(a.target.Idx) != 1 {
				continue
			}
			fname := a.target.Names[0]
			key := funcName(mf) + ":" + fname
			if a.target.Root == fromRoot {
				c.bad("C18.frame", key, w.InstrPos(a.instr), fmt.Sprintf("%s writes %s of `from`, which must never be modified", funcName(mf), fname))
				continue
			}
			if a.target.Root != toRoot {
				continue
			}
			// classify sources
			var fromSame, toSame, other bool
			for _, s := range a.sources {
				switch {
				case len(s.Names) >= 1 && s.Names[0] == fname && s.Root == fromRoot:
					fromSame = true
				case len(s.Names) >= 1 && s.Names[0] == fname && s.Root == toRoot:
					toSame = true
				default:
					other = true
				}
			}
			_ = toSame
			switch {
			case other || !fromSame:
				c.bad("C18.merge", key, w.InstrPos(a.instr), fmt.Sprintf("to.%s is assigned from %s, not from from.%s", fname, pathsString(a.sources), fname))
				continue
			}
			// guard polarity with respect to from.f
			inverted := ""
			for _, g := range a.guards {
				for _, r := range g.refs {
					if len(r.Names) >= 1 && r.Names[0] == fname && r.Root == fromRoot && g.side == sideUnset {
						inverted = g.desc
					}
				}
			}
			if inverted != "" {
				c.bad("C18.merge", key, w.InstrPos(a.instr), fmt.Sprintf("to.%s is overwritten with from.%s only when %s, i.e. when the update does NOT set it: a value present in `to` is lost and a value present in `from` is never copied", fname, fname, inverted))
				continue
			}
			// a guard that looks at a DIFFERENT property of the update (and not at this one) decides whether this property
			// is merged: copy-paste slip in one of many identical blocks (startTime merged when endTime is set)
			foreign := ""
			for _, g := range a.guards {
				own, otherProp := false, ""
				for _, r := range g.refs {
					if r.Root != fromRoot || len(r.Names) == 0 {
						continue
					}
					if r.Names[0] == fname {
						own = true
					} else if r.Names[0] != "ID" && r.Names[0] != "Type" {
						otherProp = r.Names[0]
					}
				}
				if !own && otherProp != "" {
					foreign = otherProp
				}
			}
			// a guard that compares to.f with from.f ("skip the write when they are already equal"): the comparison is an
			// equivalence (IRI equivalence ignores fragment, case, query order, a trailing slash), so the merged value keeps
			// to's spelling although the property says it carries from's value afterwards
			cross := ""
			for _, g := range a.guards {
				hasTo, hasFrom := false, false
				for _, r := range g.refs {
					if len(r.Names) == 0 || r.Names[0] != fname {
						continue
					}
					if r.Root == toRoot {
						hasTo = true
					}
					if r.Root == fromRoot {
						hasFrom = true
					}
				}
				if hasTo && hasFrom {
					cross = g.desc
				}
			}
			if cross == "" {
				// the comparison may be a call: to.ID.Equals(from.ID, …), ItemsEqual(to.X, from.X)
				for _, g := range rawGuards(a.instr.Block()) {
					call, isCall := g.cond.(*ssa.Call)
					if !isCall {
						continue
					}
					hasTo, hasFrom := false, false
					for _, arg := range allArgs(call) {
						for _, r := range pr.prov(arg).list() {
							if len(r.Names) == 0 || r.Names[0] != fname {
								continue
							}
							if r.Root == toRoot {
								hasTo = true
							}
							if r.Root == fromRoot {
								hasFrom = true
							}
						}
					}
					if hasTo && hasFrom {
						cross = "a comparison of the two by " + shortVal(call)
					}
				}
			}
			if cross != "" && a.helper == nil {
				c.bad("C18.merge", key, w.InstrPos(a.instr), fmt.Sprintf("to.%s is only overwritten when it does not already compare equal to from.%s (%s): the comparison is an equivalence, not identity, so after a successful merge to.%s can still differ from from.%s", fname, fname, cross, fname, fname))
				continue
			}
			if foreign != "" {
				c.bad("C18.merge", key, w.InstrPos(a.instr), fmt.Sprintf("whether to.%s takes from.%s is decided by a test of from.%s, a different property: an update that sets only %s is not merged, and one that sets only %s overwrites to.%s with the unset value", fname, fname, foreign, fname, foreign, fname))
				continue
			}
			if a.helper != nil && w.InPkg(a.helper) && a.helper.Signature.Params().Len() == 2 {
				// the merged value is the old one, the new one, or a fresh copy — never something written into the storage
				// of one of the two (append(old[:0], new...) overwrites whatever else shares old's backing array: a
				// sibling list sliced from the same array, or the update itself when it was derived from `to`)
				if how := returnsIntoParamStorage(a.helper); how != "" {
					c.bad("C18.merge", key, w.InstrPos(a.instr), fmt.Sprintf("to.%s is merged through %s, which %s: properties that share that backing array (and the update, if it was derived from the value) are overwritten", fname, a.helper.Name(), how))
					continue
				}
				if msg := replaceIfShape(w, pr, a.helper); msg != "" {
					listed := false
					for _, l := range append(append([]string{"First", "Last", "Items", "OrderedItems", "PartOf", "Next", "Prev"}, c18Object...), c18Actor...) {
						if l == fname {
							listed = true
						}
					}
					// a property the statement does not list as merged may keep the value `to` had (published, updated,
					// totalItems): allowed as long as the helper hands back one of the two values and nothing else
					if listed || !returnsOnlyItsParams(a.helper) {
						c.bad("C18.merge", key, w.InstrPos(a.instr), fmt.Sprintf("to.%s is merged through %s, %s", fname, a.helper.Name(), msg))
						continue
					}
				}
			}
			coveredBy[funcName(mf)][fname] = true
			if a.fn == mf {
				coverSites[mf][fname] = append(coverSites[mf][fname], a.instr)
			} else {
				for _, call := range callsIn(mf) {
					if call.Common().StaticCallee() == a.fn {
						coverSites[mf][fname] = append(coverSites[mf][fname], call)
					}
				}
			}
			c.ok("C18.merge", key, w.InstrPos(a.instr), "to."+fname+" ← from."+fname)
		}
	}
	// ---- const: before the merge, the dispatcher writes nothing into `to` that could survive it. A constant stored into
	// a property of `to` ("an untyped receiver is an Object") is harmless only while the merge function overwrites that
	// property from `from` on every path; once that overwrite becomes conditional the constant is what `to` ends up with —
	// neither the value it had nor the value `from` has ----
	for _, f := range []*ssa.Function{copyItem, disp} {
		if f == nil {
			continue
		}
		for _, g := range append([]*ssa.Function{f}, allAnon(f)...) {
			for _, b := range g.Blocks {
				for _, in := range b.Instrs {
					st, ok := in.(*ssa.Store)
					if !ok {
						continue
					}
					k, isConst := unwrap(st.Val).(*ssa.Const)
					if !isConst || isZeroConst(k.Value) {
						continue
					}
					fa, ok := st.Addr.(*ssa.FieldAddr)
					if !ok {
						continue
					}
					sn := namedOf(fa.X.Type())
					if sn == nil || w.StructInfoOf(sn.Obj().Name()) == nil {
						continue
					}
					fname := fieldNameOf(fa.X.Type(), fa.Field)
					// a merge function handed this struct afterwards that overwrites the property from `from` on every path?
					overwritten := false
					for _, call := range callsIn(g) {
						m := call.Common().StaticCallee()
						if m == nil || !merges[m] || len(call.Common().Args) < 2 || call.Common().Args[0] != fa.X || !blockReaches(b, call.Block()) {
							continue
						}
						for _, mb := range m.Blocks {
							if !dominatesAllReturns(mb) {
								continue
							}
							for _, min := range mb.Instrs {
								ms, isSt := min.(*ssa.Store)
								if !isSt {
									continue
								}
								if fp, ok := pr.fieldOf(ms.Addr); ok && len(fp.Names) == 1 && fp.Names[0] == fname && fp.Root == pr.canonicalRoot(m.Params[0]) {
									for _, r := range pr.prov(ms.Val).list() {
										if len(r.Names) == 1 && r.Names[0] == fname && r.Root == pr.canonicalRoot(m.Params[1]) {
											overwritten = true
										}
									}
								}
							}
						}
					}
					key := fmt.Sprintf("%s:const:%s.%s", funcName(g), sn.Obj().Name(), fname)
					if overwritten {
						c.ok("C18.frame", key, w.InstrPos(st), "overwritten from `from` on every path of the merge that follows")
					} else {
						c.bad("C18.frame", key, w.InstrPos(st), fmt.Sprintf("%s stores the constant %s into %s of the value being updated and nothing overwrites it from the update on every path: after a successful merge `to` can carry a %s that is neither the one it had nor the one `from` has", funcName(g), k.String(), fname, strings.ToLower(fname)))
					}
				}
			}
		}
	}
	// ---- complete: a successful return comes after the merge of every property. For each merge function, each return
	// that is not an error return, and each merged property: every path from the entry to that return passes the
	// property's merge (the store, or a branch above it that tests that very property of the update). A shortcut
	// ("the update brings nothing new: return") decides from something coarser than the properties themselves — an
	// equality that skips media type and source, or compares nested items by id — and leaves exactly those unmerged ----
	for _, mf := range mfns {
		sites := coverSites[mf]
		if len(sites) == 0 {
			continue
		}
		fromRoot := pr.canonicalRoot(mf.Params[1])
		toRoot := pr.canonicalRoot(mf.Params[0])
		lhMerge := loopHeaders(mf)
		nR := 0
		for _, rb := range returnBlocks(mf) {
			ret := rb.Instrs[len(rb.Instrs)-1].(*ssa.Return)
			if len(ret.Results) == 0 {
				continue
			}
			ev := ret.Results[len(ret.Results)-1]
			if !isNilConst(ev) {
				isErr := false
				for _, g := range rawGuards(rb) {
					if bo, ok := g.cond.(*ssa.BinOp); ok && bo.Op == token.NEQ && g.onTrue && (bo.X == ev && isNilConst(bo.Y) || bo.Y == ev && isNilConst(bo.X)) {
						isErr = true
					}
				}
				if isErr {
					continue
				}
			}
			nR++
			var missed []string
			var fields []string
			for f := range sites {
				fields = append(fields, f)
			}
			sort.Strings(fields)
			for _, f := range fields {
				region := map[*ssa.BasicBlock]bool{}
				for _, in := range sites[f] {
					region[in.Block()] = true
					// a merge made inside a loop over a table of (target, source) rows: the loop is the merge site
					for h := range lhMerge[in.Block()] {
						region[h] = true
					}
					for d := in.Block().Idom(); d != nil; d = d.Idom() {
						br, isIf := d.Instrs[len(d.Instrs)-1].(*ssa.If)
						if !isIf {
							continue
						}
						for _, r := range pr.prov(br.Cond).list() {
							if len(r.Names) >= 1 && r.Names[0] == f && (r.Root == fromRoot || r.Root == toRoot) {
								region[d] = true
							}
						}
					}
				}
				if region[rb] {
					continue
				}
				// is there a path entry -> rb that avoids the region?
				seenB := map[*ssa.BasicBlock]bool{}
				work := []*ssa.BasicBlock{mf.Blocks[0]}
				reached := false
				for len(work) > 0 && !reached {
					b := work[len(work)-1]
					work = work[:len(work)-1]
					if seenB[b] || region[b] {
						continue
					}
					seenB[b] = true
					if b == rb {
						reached = true
					}
					work = append(work, b.Succs...)
				}
				if reached {
					missed = append(missed, f)
				}
			}
			key := fmt.Sprintf("%s:return#%d", funcName(mf), nR)
			if len(missed) > 0 {
				c.bad("C18.complete", key, w.InstrPos(ret), fmt.Sprintf("%s can return successfully on a path that has not merged %s: whatever decides to take that path (an equality test, a flag) is coarser than the properties themselves, so an update whose only news is one of them is dropped while the caller is told it was applied", funcName(mf), strings.Join(missed, ", ")))
			} else {
				c.ok("C18.complete", key, w.InstrPos(ret), fmt.Sprintf("every path to this return passes the merge of all %d properties", len(fields)))
			}
		}
	}
	// ---- cover ----
	need := func(fn string, fields []string) {
		got := coveredBy[fn]
		if got == nil {
			c.bad("C18.cover", fn, "-", "merge function "+fn+" not found")
			return
		}
		for _, f := range fields {
			if got[f] {
				c.ok("C18.cover", fn+":"+f, "-", "merged")
			} else {
				c.bad("C18.cover", fn+":"+f, "-", fmt.Sprintf("%s has no sound merge of %s: a %s set in the update is not carried over (or is merged wrongly, see C18.merge)", fn, f, f))
			}
		}
	}
	need("CopyObjectProperties", c18Object)
	need("UpdatePersonProperties", c18Actor)
	need("CopyCollectionProperties", []string{"First", "Last", "Items"})
	need("CopyOrderedCollectionProperties", []string{"First", "Last", "OrderedItems"})
	need("CopyCollectionPageProperties", []string{"PartOf", "Next", "Prev"})
	need("CopyOrderedCollectionPageProperties", []string{"PartOf", "Next", "Prev"})
	// delegation: the type-specific merges reach the object merge
	objMerge := w.Func("CopyObjectProperties")
	for _, mf := range mfns {
		if mf == objMerge {
			continue
		}
		reach := w.Reach([]*ssa.Function{mf}, nil)
		ok := false
		for _, g := range reach {
			if g == objMerge {
				ok = true
			}
		}
		if ok {
			c.ok("C18.cover", funcName(mf)+"→CopyObjectProperties", w.FuncPos(mf), "object part merged")
		} else {
			c.bad("C18.cover", funcName(mf)+"→CopyObjectProperties", w.FuncPos(mf), funcName(mf)+" no longer merges the object part")
		}
	}
}

// replaceIfShape checks a two-parameter merge helper (old, new): it may return `old` only where `new` is unset,
// and must return (a value derived from) `new` otherwise. Returns "" when the shape is right.
func replaceIfShape(w *World, pr *prover, h *ssa.Function) string {
	if len(h.Params) != 2 {
		return ""
	}
	oldP, newP := h.Params[0], h.Params[1]
	_, isStruct := types.Unalias(oldP.Type()).Underlying().(*types.Struct)
	for _, rb := range returnBlocks(h) {
		ret := rb.Instrs[len(rb.Instrs)-1].(*ssa.Return)
		if len(ret.Results) != 1 {
			continue
		}
		v := unwrap(ret.Results[0])
		guards := pr.dominatingGuards(rb)
		switch {
		case v == ssa.Value(oldP):
			okG := false
			for _, g := range guards {
				if g.side == sideUnset && guardMentions(pr, g, newP) {
					okG = true
				}
			}
			// x.IsZero() / IsNil(x) on the parameter itself (a time.Time or item passed by value has no field path)
			for _, g := range rawGuards(rb) {
				if call, ok := g.cond.(*ssa.Call); ok && g.onTrue {
					name := ""
					if cal := call.Common().StaticCallee(); cal != nil {
						name = cal.Name()
					}
					if (name == "IsZero" || name == "IsNil") && len(call.Common().Args) >= 1 && paramValue(call.Common().Args[0], newP) {
						okG = true
					}
				}
			}
			if !okG {
				return "which returns the old value on a path where the new one is not known to be unset"
			}
		case v == ssa.Value(newP) || (isStruct && structLoadOf(v, newP)):
			if isStruct {
				// wholesale replacement of a struct: only sound when guarded by the new value being set in full;
				// a condition comparing the two values (e.g. media types differ) drops the parts only `to` had
				for _, g := range rawGuards(rb) {
					if bo, ok := g.cond.(*ssa.BinOp); ok {
						_, cx := bo.X.(*ssa.Const)
						_, cy := bo.Y.(*ssa.Const)
						if !cx && !cy {
							return "which replaces the whole struct by the new one whenever the two values differ in one field (" + shortVal(bo.X) + " vs " + shortVal(bo.Y) + "), dropping what only the old one had set"
						}
					}
				}
			}
			for _, g := range guards {
				if g.side == sideUnset && guardMentions(pr, g, newP) {
					return "which returns the new value on the path where it is unset"
				}
			}
		}
	}
	return ""
}

// paramValue: v is the parameter, or a load of the local cell the parameter was spilled to (method call on a value).
func paramValue(v ssa.Value, p *ssa.Parameter) bool {
	v = unwrap(v)
	if v == ssa.Value(p) {
		return true
	}
	if u, ok := v.(*ssa.UnOp); ok {
		if a, ok := u.X.(*ssa.Alloc); ok {
			st := storesTo(a)
			return len(st) == 1 && st[0].Val == ssa.Value(p)
		}
	}
	if a, ok := v.(*ssa.Alloc); ok { // address of the spilled parameter (pointer-receiver method on a value)
		st := storesTo(a)
		return len(st) == 1 && st[0].Val == ssa.Value(p)
	}
	return false
}

// returnsOnlyItsParams: every return of the two-parameter helper is one of its parameters (the value it had or the
// value the update carries — never something else).
func returnsOnlyItsParams(h *ssa.Function) bool {
	if len(h.Params) != 2 {
		return false
	}
	for _, rb := range returnBlocks(h) {
		ret := rb.Instrs[len(rb.Instrs)-1].(*ssa.Return)
		if len(ret.Results) != 1 {
			return false
		}
		if !paramValue(ret.Results[0], h.Params[0]) && !paramValue(ret.Results[0], h.Params[1]) {
			return false
		}
	}
	return true
}

func structLoadOf(v ssa.Value, p *ssa.Parameter) bool {
	if u, ok := v.(*ssa.UnOp); ok {
		if a, ok := u.X.(*ssa.Alloc); ok {
			for _, s := range storesTo(a) {
				if s.Val == ssa.Value(p) {
					return true
				}
			}
		}
	}
	return false
}

func guardMentions(pr *prover, g guard, p *ssa.Parameter) bool {
	if bo, ok := g.cond.(*ssa.BinOp); ok {
		for _, side := range []ssa.Value{bo.X, bo.Y} {
			s := unwrap(side)
			if s == ssa.Value(p) {
				return true
			}
			if inner, isLen := lenOperand(s); isLen && unwrap(inner) == ssa.Value(p) {
				return true
			}
		}
	}
	for _, r := range g.refs {
		if r.Root == pr.canonicalRoot(p) {
			return true
		}
	}
	return false
}

func isSpliceTail(v ssa.Value) bool {
	_, ok := unwrap(v).(*ssa.Slice)
	if !ok {
		return false
	}
	_, isAlloc := unwrap(v).(*ssa.Slice).X.(*ssa.Alloc)
	return !isAlloc
}

// onlyIdentifierOf: v is (a phi / conversion of) the result of GetID()/GetLink() invoked on some value, possibly
// spilled through a local; returns "" when so, otherwise what else it is.
func onlyIdentifierOf(v ssa.Value, d int, seen map[ssa.Value]bool) string {
	if d > 12 {
		return "value too complex to trace"
	}
	if seen[v] {
		return ""
	}
	seen[v] = true
	switch x := v.(type) {
	case *ssa.MakeInterface:
		return onlyIdentifierOf(x.X, d+1, seen)
	case *ssa.ChangeInterface:
		return onlyIdentifierOf(x.X, d+1, seen)
	case *ssa.ChangeType:
		return onlyIdentifierOf(x.X, d+1, seen)
	case *ssa.Phi:
		for _, e := range x.Edges {
			if msg := onlyIdentifierOf(e, d+1, seen); msg != "" {
				return msg
			}
		}
		return ""
	case *ssa.UnOp:
		if al, ok := x.X.(*ssa.Alloc); ok {
			for _, st := range storesTo(al) {
				if msg := onlyIdentifierOf(st.Val, d+1, seen); msg != "" {
					return msg
				}
			}
			return ""
		}
		return "loaded from " + shortVal(x.X)
	case *ssa.Call:
		if x.Common().IsInvoke() && (x.Common().Method.Name() == "GetID" || x.Common().Method.Name() == "GetLink") {
			return ""
		}
		if cal := x.Common().StaticCallee(); cal != nil {
			// a single-item flattener applied to the member: returns the member or its own GetLink() (C16.guard decides
			// that); the member must be an element of the list itself
			if strings.HasPrefix(cal.Name(), "Flatten") && len(x.Common().Args) == 1 && cal.Signature.Results().Len() == 1 {
				if u, ok := unwrap(x.Common().Args[0]).(*ssa.UnOp); ok {
					if _, isElem := u.X.(*ssa.IndexAddr); isElem {
						return ""
					}
				}
			}
			return "result of " + cal.Name() + "(…)"
		}
		return "result of a call"
	case *ssa.Const:
		if x.Value == nil {
			return ""
		}
		return "the constant " + x.Value.String()
	case *ssa.Convert:
		return onlyIdentifierOf(x.X, d+1, seen)
	}
	return fmt.Sprintf("%T", v)
}

// checkListAlignment (C16.align): a flattener that overwrites the members of a list position by position must take
// the position from a loop over that very list. Writing col[k] with k running over another list (the de-duplicated
// copy) silently assumes the two are index aligned; they are not as soon as a member has no entry in the copy (a nil
// member, a link without a type), and from there on every member is overwritten with its neighbour's id.
func checkListAlignment(w *World, c *Check) {
	n := 0
	for _, f := range w.Funcs {
		if !strings.HasPrefix(funcName(f), "Flatten") {
			continue
		}
		loops := loopHeaders(f)
		for _, b := range f.Blocks {
			for _, in := range b.Instrs {
				st, ok := in.(*ssa.Store)
				if !ok {
					continue
				}
				ia, ok := st.Addr.(*ssa.IndexAddr)
				if !ok || !isItemCollectionType(w, ia.X.Type()) {
					continue
				}
				// the loop whose index this is
				var idxPhi *ssa.Phi
				switch x := ia.Index.(type) {
				case *ssa.Phi:
					idxPhi = x
				case *ssa.BinOp:
					idxPhi, _ = x.X.(*ssa.Phi)
				}
				key := fmt.Sprintf("%s:store#%d", funcName(f), n+1)
				if idxPhi == nil || !loops[b][idxPhi.Block()] {
					continue
				}
				n++
				// the slice the loop ranges over: the operand of the len() that bounds the index in the header
				var ranged ssa.Value
				for _, hin := range idxPhi.Block().Instrs {
					if call, ok := hin.(*ssa.Call); ok {
						if inner, isLen := lenOperand(call); isLen {
							ranged = inner
						}
					}
				}
				if ranged == nil {
					// rangeindex loops compute len() before the header
					for _, p := range idxPhi.Block().Preds {
						for _, pin := range p.Instrs {
							if call, ok := pin.(*ssa.Call); ok {
								if inner, isLen := lenOperand(call); isLen {
									ranged = inner
								}
							}
						}
					}
				}
				same := ranged != nil && sameSliceValue(ranged, ia.X)
				if same {
					c.ok("C16.align", key, w.InstrPos(st), "the position comes from a loop over the list that is written")
				} else {
					c.bad("C16.align", key, w.InstrPos(st), fmt.Sprintf("%s overwrites member k of %s with k running over another list (%s): the two are index aligned only as long as every member has an entry in the other list — a nil member or a link without a type shifts all later members, which are then replaced by their neighbour's id while objects stay embedded", funcName(f), shortVal(ia.X), shortVal(ranged)))
				}
			}
		}
	}
	if n == 0 {
		c.ok("C16.align", "none", "-", "no positional overwrite of list members in the flatteners")
	}
}

// sameSliceValue: two SSA values denote the same slice variable (identical, or loads of one local cell).
func sameSliceValue(a, b ssa.Value) bool {
	if a == b {
		return true
	}
	la, ok1 := a.(*ssa.UnOp)
	lb, ok2 := b.(*ssa.UnOp)
	return ok1 && ok2 && la.Op == token.MUL && lb.Op == token.MUL && la.X == lb.X
}

// checkFlattenDispatch (C16.dispatch): the generic entry point FlattenProperties routes by type name. For every
// vocabulary type name (with the value the registry creates for it, and GetType forced to that name) the abstract run
// must reach the flattener of the value's Go type: FlattenActivityProperties for an Activity,
// FlattenIntransitiveActivityProperties for an IntransitiveActivity or Question, FlattenActorProperties for an Actor, and
// FlattenObjectProperties for every object-like value. A dispatch that sends a type to a conversion helper which refuses
// it (and drops the error) flattens nothing for that type.
func checkFlattenDispatch(w *World, c *Check) {
	fp := w.Func("FlattenProperties")
	reg := w.Func("GetItemByType")
	avtT := w.Named("ActivityVocabularyType")
	if fp == nil || reg == nil || avtT == nil {
		c.bad("C16.dispatch", "anchor", "-", "FlattenProperties / GetItemByType / ActivityVocabularyType not found")
		return
	}
	// the GetType() call(s) the dispatcher branches on
	var tags []*ssa.Call
	for _, call := range callsIn(fp) {
		if call.Common().IsInvoke() && call.Common().Method.Name() == "GetType" {
			tags = append(tags, call)
		}
	}
	want := map[string][]string{
		"Activity":             {"FlattenActivityProperties", "FlattenObjectProperties"},
		"IntransitiveActivity": {"FlattenIntransitiveActivityProperties", "FlattenObjectProperties"},
		"Question":             {"FlattenIntransitiveActivityProperties", "FlattenObjectProperties"},
		"Actor":                {"FlattenActorProperties", "FlattenObjectProperties"},
	}
	// the vocabulary names: the Types and GenericTypes tables (pseudo names such as "IRI" are not types of values)
	vocab := map[string]bool{}
	for _, ln := range []string{"Types", "GenericTypes"} {
		if vals, _, ok := w.ListVar(ln); ok {
			for _, v := range vals {
				vocab[v] = true
			}
		}
	}
	if len(vocab) < 40 {
		c.bad("C16.dispatch", "anchor:Types", "-", "the vocabulary tables Types / GenericTypes could not be read")
		return
	}
	names := sortedKeys(vocab)
	n := 0
	for _, name := range names {
		if name == "" {
			continue
		}
		mk := AV{K: kConst, C: constant.MakeString(name), T: avtT}
		ip := newInterp(w)
		res, _, _ := ip.Call(reg, []AV{mk}, nil, Store{}, nil)
		k, item := registryResult(res)
		if k == nil || ip.aborted != "" {
			continue // not a vocabulary name of a Go struct (C07 decides the registry)
		}
		if _, isObj := w.StructInfoOf(k.Obj().Name()).Named.Underlying().(*types.Struct); !isObj {
			continue
		}
		switch k.Obj().Name() {
		case "Link":
			continue // links are not flattened
		case "Collection", "OrderedCollection", "CollectionPage", "OrderedCollectionPage":
			continue // the statement speaks of activities, objects and actors; collections are flattened member-wise by Flatten
		}
		expected := want[k.Obj().Name()]
		if expected == nil {
			expected = []string{"FlattenObjectProperties"}
		}
		ip = newInterp(w)
		for _, tg := range tags {
			ip.overrides[tg] = mk
		}
		reached := map[string]bool{}
		ip.onCall = func(ev callEvent) {
			if strings.HasPrefix(ev.Callee.Name(), "Flatten") {
				reached[ev.Callee.Name()] = true
			}
		}
		ip.Call(fp, []AV{item}, nil, Store{}, nil)
		n++
		key := fmt.Sprintf("FlattenProperties:%q", name)
		var missing []string
		for _, e := range expected {
			if !reached[e] {
				missing = append(missing, e)
			}
		}
		switch {
		case ip.aborted != "":
			c.bad("C16.dispatch", key, w.FuncPos(fp), "undecided: "+ip.aborted)
		case len(missing) > 0:
			c.bad("C16.dispatch", key, w.FuncPos(fp), fmt.Sprintf("FlattenProperties on a *%s of type %q never reaches %v (reached: %v): its embedded items are left as they are", k.Obj().Name(), name, missing, sortedKeys(reached)))
		default:
			c.ok("C16.dispatch", key, w.FuncPos(fp), fmt.Sprintf("*%s reaches %v", k.Obj().Name(), expected))
		}
	}
	c.stat("flatten_dispatch_names", n)
	c.floor("C16.dispatch", 40)
}

func mapValues(m map[string]string) []string {
	var out []string
	for _, v := range m {
		out = append(out, v)
	}
	return out
}

// returnsIntoParamStorage: some return value of h is built by appending into (a re-slice of) one of its slice
// parameters. Returns a description.
func returnsIntoParamStorage(h *ssa.Function) string {
	var fromParam func(v ssa.Value, d int) *ssa.Parameter
	fromParam = func(v ssa.Value, d int) *ssa.Parameter {
		if d > 6 {
			return nil
		}
		switch x := v.(type) {
		case *ssa.Parameter:
			if _, isSlice := types.Unalias(x.Type()).Underlying().(*types.Slice); isSlice {
				return x
			}
		case *ssa.Slice:
			return fromParam(x.X, d+1)
		case *ssa.Phi:
			for _, e := range x.Edges {
				if p := fromParam(e, d+1); p != nil {
					return p
				}
			}
		case *ssa.ChangeType:
			return fromParam(x.X, d+1)
		case *ssa.Convert:
			return fromParam(x.X, d+1)
		}
		return nil
	}
	var check func(v ssa.Value, d int) string
	check = func(v ssa.Value, d int) string {
		if d > 6 {
			return ""
		}
		switch x := v.(type) {
		case *ssa.Call:
			if bi, ok := x.Common().Value.(*ssa.Builtin); ok && bi.Name() == "append" && len(x.Common().Args) == 2 {
				base := x.Common().Args[0]
				if _, direct := base.(*ssa.Parameter); !direct {
					if p := fromParam(base, 0); p != nil {
						return fmt.Sprintf("appends into a re-slice of its parameter %s", p.Name())
					}
				}
				return check(base, d+1)
			}
		case *ssa.Phi:
			for _, e := range x.Edges {
				if s := check(e, d+1); s != "" {
					return s
				}
			}
		case *ssa.ChangeType:
			return check(x.X, d+1)
		}
		return ""
	}
	for _, rb := range returnBlocks(h) {
		ret := rb.Instrs[len(rb.Instrs)-1].(*ssa.Return)
		for _, r := range ret.Results {
			if s := check(r, 0); s != "" {
				return s
			}
		}
	}
	return ""
}

// substGuards: guards whose tested value is not a struct field by itself (a table row's field, a helper's parameter)
// are read with what that value stands for, as given by mapVal.
func substGuards(pr *prover, gs []guard, mapVal func(ssa.Value) []FieldPath) []guard {
	out := make([]guard, 0, len(gs))
	for _, g := range gs {
		if len(g.refs) == 0 {
			var operand ssa.Value
			switch x := g.cond.(type) {
			case *ssa.BinOp:
				if _, isC := x.Y.(*ssa.Const); isC {
					operand = x.X
				} else if _, isC := x.X.(*ssa.Const); isC {
					operand = x.Y
				}
			case *ssa.Call:
				if len(x.Common().Args) >= 1 {
					operand = x.Common().Args[0]
				}
			}
			if operand != nil {
				if inner, isLen := lenOperand(operand); isLen {
					operand = inner
				}
				if refs := mapVal(operand); len(refs) > 0 {
					g.refs = refs
				}
			}
		}
		out = append(out, g)
	}
	return out
}

// closureValue: the MakeClosure a called function value stands for (directly, or through a local it was assigned to once).
func closureValue(v ssa.Value) *ssa.MakeClosure {
	switch x := v.(type) {
	case *ssa.MakeClosure:
		return x
	case *ssa.UnOp:
		if al, ok := x.X.(*ssa.Alloc); ok && x.Op == token.MUL {
			if sts := storesTo(al); len(sts) == 1 {
				return closureValue(sts[0].Val)
			}
		}
	}
	return nil
}

// nilSideOf: for a nil test on v (v == nil, v != nil, IsNil(v), !…), the successor index taken when v is nil.
func nilSideOf(cond ssa.Value, v ssa.Value) (int, bool) {
	switch x := cond.(type) {
	case *ssa.UnOp:
		if x.Op == token.NOT {
			if s, ok := nilSideOf(x.X, v); ok {
				return 1 - s, true
			}
		}
	case *ssa.BinOp:
		var other ssa.Value
		switch {
		case isNilConst(x.X):
			other = x.Y
		case isNilConst(x.Y):
			other = x.X
		default:
			return 0, false
		}
		if unwrap(other) != v {
			return 0, false
		}
		if x.Op == token.EQL {
			return 0, true
		}
		if x.Op == token.NEQ {
			return 1, true
		}
	case *ssa.Call:
		cal := x.Common().StaticCallee()
		if cal == nil || len(x.Common().Args) != 1 || unwrap(x.Common().Args[0]) != v {
			return 0, false
		}
		if cal.Name() == "IsNil" {
			return 0, true
		}
		if cal.Name() == "IsNotNil" {
			return 1, true
		}
		// a predicate of the package that answers true for nil-likes only (nothingToCollect(it))
		if trueImpliesNil(cal, 0) {
			return 0, true
		}
	}
	return 0, false
}

// trueImpliesNil: a one-parameter bool function of the analysed package every true answer of which is given on the nil
// side of a nil test of its parameter, or is the answer of IsNil / another such predicate on that parameter.
func trueImpliesNil(f *ssa.Function, depth int) bool {
	if f == nil || f.Blocks == nil || len(f.Params) != 1 || depth > 3 || f.Signature.Results().Len() != 1 || !isBoolType(f.Signature.Results().At(0).Type()) {
		return false
	}
	p := f.Params[0]
	nilDominated := func(b *ssa.BasicBlock) bool {
		for d := b; d != nil; d = d.Idom() {
			id := d.Idom()
			if id == nil {
				break
			}
			if iff, ok := id.Instrs[len(id.Instrs)-1].(*ssa.If); ok {
				if side, isNil := nilSideOf(iff.Cond, p); isNil && id.Succs[side] == d && len(d.Preds) == 1 {
					return true
				}
			}
		}
		return false
	}
	var okVal func(v ssa.Value, at *ssa.BasicBlock, d int) bool
	okVal = func(v ssa.Value, at *ssa.BasicBlock, d int) bool {
		if d > 6 {
			return false
		}
		switch x := v.(type) {
		case *ssa.Const:
			if x.Value != nil && x.Value.Kind() == constant.Bool && !constant.BoolVal(x.Value) {
				return true
			}
			return nilDominated(at)
		case *ssa.Phi:
			for i, e := range x.Edges {
				if !okVal(e, x.Block().Preds[i], d+1) {
					return false
				}
			}
			return true
		case *ssa.Call:
			cal := x.Common().StaticCallee()
			if cal == nil || len(x.Common().Args) != 1 || unwrap(x.Common().Args[0]) != ssa.Value(p) {
				return false
			}
			return cal.Name() == "IsNil" || trueImpliesNil(cal, depth+1)
		case *ssa.BinOp:
			if side, isNil := nilSideOf(x, p); isNil && side == 0 {
				return true
			}
		}
		return false
	}
	n := 0
	for _, rb := range returnBlocks(f) {
		ret := rb.Instrs[len(rb.Instrs)-1].(*ssa.Return)
		if len(ret.Results) != 1 || !okVal(ret.Results[0], rb, 0) {
			return false
		}
		n++
	}
	return n > 0
}

// nilTestOperand: the value a nil test is about (x == nil, x != nil, IsNil(x), !…) and the successor taken when it is nil.
func nilTestOperand(cond ssa.Value) (ssa.Value, int, bool) {
	switch x := cond.(type) {
	case *ssa.UnOp:
		if x.Op == token.NOT {
			if v, s, ok := nilTestOperand(x.X); ok {
				return v, 1 - s, true
			}
		}
	case *ssa.BinOp:
		var other ssa.Value
		switch {
		case isNilConst(x.X):
			other = x.Y
		case isNilConst(x.Y):
			other = x.X
		default:
			return nil, 0, false
		}
		if x.Op == token.EQL {
			return other, 0, true
		}
		if x.Op == token.NEQ {
			return other, 1, true
		}
	case *ssa.Call:
		cal := x.Common().StaticCallee()
		if cal == nil || len(x.Common().Args) != 1 {
			return nil, 0, false
		}
		if cal.Name() == "IsNil" {
			return x.Common().Args[0], 0, true
		}
		if cal.Name() == "IsNotNil" {
			return x.Common().Args[0], 1, true
		}
	}
	return nil, 0, false
}
