package main

import (
	"fmt"
	"go/types"
	"os"
	"sort"
	"strings"
	"time"

	"golang.org/x/tools/go/ssa"
)

func init() { register("C20", checkC20) }

// itemStructs returns the named struct types T of the package such that *T implements Item, in declaration order.
func (w *World) itemStructs() []*types.Named {
	itemT := w.itemIface()
	if itemT == nil {
		return nil
	}
	var out []*types.Named
	for _, name := range w.Types.Scope().Names() {
		tn, ok := w.Types.Scope().Lookup(name).(*types.TypeName)
		if !ok || tn.IsAlias() {
			continue
		}
		n, ok := tn.Type().(*types.Named)
		if !ok {
			continue
		}
		if _, isStruct := n.Underlying().(*types.Struct); !isStruct {
			continue
		}
		if types.Implements(types.NewPointer(n), itemT) {
			out = append(out, n)
		}
	}
	sort.Slice(out, func(i, j int) bool { return out[i].Obj().Pos() < out[j].Obj().Pos() })
	return out
}

func (w *World) itemIface() *types.Interface {
	tn, _ := w.Types.Scope().Lookup("Item").(*types.TypeName)
	if tn == nil {
		return nil
	}
	i, _ := types.Unalias(tn.Type()).Underlying().(*types.Interface)
	return i
}

// itemLikeIface: an interface type declared in the package that at least one vocabulary struct pointer implements.
func (w *World) itemLikeIface(t types.Type) *types.Interface {
	t = types.Unalias(t)
	n, ok := t.(*types.Named)
	if !ok || n.Obj().Pkg() != w.Types {
		return nil
	}
	i, ok := n.Underlying().(*types.Interface)
	if !ok {
		return nil
	}
	for _, s := range w.itemStructs() {
		if types.Implements(types.NewPointer(s), i) {
			return i
		}
	}
	return nil
}

type nilSeed struct {
	label string // untyped-nil | typed-nil(*T) | list[...]
	class string // untyped-nil | typed-nil | nil-list | list-with-untyped-nil | list-with-typed-nil
	av    AV
}

// seedsForParam builds the abstract nil-kinds that can be passed for a parameter of type t.
func (w *World) seedsForParam(t types.Type, variadic bool) []nilSeed {
	var out []nilSeed
	structs := w.itemStructs()
	elemSeeds := func(i *types.Interface) []nilSeed {
		var es []nilSeed
		es = append(es, nilSeed{"untyped-nil", "untyped-nil", AV{K: kIface, Nil: nilYes}})
		for _, s := range structs {
			pt := types.NewPointer(s)
			if types.Implements(pt, i) {
				es = append(es, nilSeed{"typed-nil(*" + s.Obj().Name() + ")", "typed-nil", avIface(pt, avNilPtr(pt))})
			}
		}
		return es
	}
	if variadic {
		sl, ok := types.Unalias(t).Underlying().(*types.Slice)
		if !ok {
			return nil
		}
		if i := w.itemLikeIface(sl.Elem()); i != nil {
			for _, e := range elemSeeds(i) {
				ev := e.av
				out = append(out, nilSeed{"...[" + e.label + "]", "variadic-" + e.class, AV{K: kSlice, T: t, Nil: nilNo, Elem: &ev}})
			}
		}
		// ...*ItemCollection
		if p, ok := types.Unalias(sl.Elem()).Underlying().(*types.Pointer); ok {
			if esl, ok := types.Unalias(p.Elem()).Underlying().(*types.Slice); ok {
				if i := w.itemLikeIface(esl.Elem()); i != nil {
					out = append(out, nilSeed{"...[nil *list]", "variadic-nil-list-pointer", AV{K: kSlice, T: t, Nil: nilNo, Elem: &AV{K: kPtr, T: sl.Elem(), Nil: nilYes}}})
					nl := AV{K: kSlice, T: p.Elem(), Nil: nilYes}
					out = append(out, nilSeed{"...[&nil-list]", "variadic-nil-list", AV{K: kSlice, T: t, Nil: nilNo, Elem: &AV{K: kPtr, T: sl.Elem(), Nil: nilNo, Pointee: &nl}}})
					for _, e := range elemSeeds(i) {
						ev := e.av
						l := AV{K: kSlice, T: p.Elem(), Nil: nilNo, Elem: &ev}
						out = append(out, nilSeed{"...[&list[" + e.label + "]]", "variadic-list-with-" + e.class, AV{K: kSlice, T: t, Nil: nilNo, Elem: &AV{K: kPtr, T: sl.Elem(), Nil: nilNo, Pointee: &l}}})
					}
				}
			}
		}
		return out
	}
	if i := w.itemLikeIface(t); i != nil {
		// (an item list handed over AS an Item with a nil-like member was tried as a further seed class: the abstract
		// runs of Contains/ItemsEqual/GobEncode on it do not converge within the step bound, so it is not armed; list
		// parameters and list receivers are seeded directly)
		return elemSeeds(i)
	}
	// list parameters: ItemCollection and friends (slices of an item-like interface)
	if sl, ok := types.Unalias(t).Underlying().(*types.Slice); ok {
		if i := w.itemLikeIface(sl.Elem()); i != nil {
			out = append(out, nilSeed{"nil-list", "nil-list", AV{K: kSlice, T: t, Nil: nilYes}})
			for _, e := range elemSeeds(i) {
				ev := e.av
				out = append(out, nilSeed{"list[" + e.label + "]", "list-with-" + e.class, AV{K: kSlice, T: t, Nil: nilNo, Elem: &ev}})
				// the same member as the ONLY member: single-member lists take the compact / "first element" paths
				out = append(out, nilSeed{"list-of-one[" + e.label + "]", "single-" + e.class, AV{K: kSlice, T: t, Nil: nilNo, Elem: &ev, Len: 2}})
			}
		}
	}
	return out
}

func isDefinitelyNilLike(a AV) bool {
	if a.nilIface() || a.typedNil() {
		return true
	}
	if a.K == kIface && a.Nil == nilNo && a.Dyn != nil && a.Dyn.K == kSlice && a.Dyn.Nil == nilYes {
		return true
	}
	return false
}

// c20Helpers enumerates the in-scope helpers: exported package-level functions and exported methods (other than
// Equals/Format/getters) that take at least one item-like parameter.
func (w *World) c20Helpers() []*ssa.Function {
	var out []*ssa.Function
	for _, f := range w.Funcs {
		if f.Parent() != nil || f.Origin() != nil || f.TypeParams().Len() > 0 || f.Synthetic != "" {
			continue
		}
		obj, _ := f.Object().(*types.Func)
		if obj == nil || !obj.Exported() {
			continue
		}
		sig := f.Signature
		if sig.Recv() == nil && strings.HasSuffix(f.Name(), "New") {
			continue // constructors are outside the statement's helper families
		}
		if recv := sig.Recv(); recv != nil {
			n := namedOf(recv.Type())
			if n == nil || !n.Obj().Exported() {
				continue
			}
			switch f.Name() {
			case "Equals", "Format", "String":
				continue
			}
		}
		has := false
		if recv := sig.Recv(); recv != nil {
			if _, isSlice := types.Unalias(recv.Type()).Underlying().(*types.Slice); isSlice && len(w.seedsForParam(recv.Type(), false)) > 0 {
				has = true // methods of the list types: the receiver itself is the list with a nil-like member
			}
		}
		for i := 0; i < sig.Params().Len(); i++ {
			variadic := sig.Variadic() && i == sig.Params().Len()-1
			if len(w.seedsForParam(sig.Params().At(i).Type(), variadic)) > 0 {
				has = true
			}
		}
		if has {
			out = append(out, f)
		}
	}
	sort.Slice(out, func(i, j int) bool { return funcName(out[i]) < funcName(out[j]) })
	return out
}

// defaultArg builds the abstract value for a parameter that is not being seeded: callbacks are opaque
// caller-supplied functions, everything else is unknown (but typed).
func defaultArg(t types.Type, label string) AV {
	if _, isSig := types.Unalias(t).Underlying().(*types.Signature); isSig {
		return AV{K: kExtFn, Tag: label}
	}
	switch types.Unalias(t).Underlying().(type) {
	case *types.Pointer:
		return AV{K: kPtr, T: t, Nil: nilNo} // a valid receiver/argument
	}
	return topOfType(t)
}

type c20Run struct {
	faults    []Fault
	isNilBad  []string
	aborted   string
	result    AV
	returned  bool
	callbacks int
}

func (w *World) c20Eval(f *ssa.Function, args []AV) c20Run {
	ip := newInterp(w)
	isNilFn := w.Func("IsNil")
	var run c20Run
	ip.postCall = func(callee *ssa.Function, a []AV, res AV) AV {
		if callee == isNilFn && len(a) == 1 && isDefinitelyNilLike(a[0]) {
			if b, ok := res.isConstBool(); ok && b {
				return res
			}
			run.isNilBad = append(run.isNilBad, fmt.Sprintf("IsNil(%s) evaluates to %s, not true", a[0], res))
			if _, ok := res.isConstBool(); ok {
				return res // definitely false: keep exploring with the wrong answer, the consequences are real
			}
			return avBool(true)
		}
		return res
	}
	ip.onExtCall = func(site ssa.Instruction, tag string, a []AV) { run.callbacks++ }
	if os.Getenv("APCHECK_PROFILE") != "" {
		ip.profile = map[string]int{}
		defer func() {
			if ip.aborted != "" {
				type kv struct {
					k string
					v int
				}
				var kvs []kv
				for k, v := range ip.profile {
					kvs = append(kvs, kv{k, v})
				}
				sort.Slice(kvs, func(i, j int) bool { return kvs[i].v > kvs[j].v })
				for i := 0; i < len(kvs) && i < 15; i++ {
					fmt.Printf("     prof %8d %s\n", kvs[i].v, kvs[i].k)
				}
			}
		}()
	}
	res, _, returned := ip.Call(f, args, nil, Store{}, nil)
	run.faults, run.aborted, run.result, run.returned = ip.faults, ip.aborted, res, returned
	return run
}

func checkC20(w *World, c *Check, tier string) {
	c.Exhaustive = true
	c.Explanation = "Decides the helper x nil-kind matrix by abstract interpretation of the SSA form (no execution): every in-scope helper (exported functions and collection/encoder methods with an item-like parameter, found by signature) is evaluated with each parameter seeded in turn to the untyped nil, to a typed nil pointer of each of the 14 vocabulary struct types, and — for list and variadic parameters — to nil lists and lists holding one such member; an obligation fails when an executable instruction definitely faults on that abstract state (method invoked on a nil interface, value-receiver method or field access through a nil pointer, failing single-result assertion, method call on reflect.TypeOf(nil)). IsNil must evaluate to the constant true, NotEmpty to false, and ItemsEqual to 'both nil' on all nil-kinds. Unknown conditions make both branches executable, so faults behind data-dependent guards are reported as possible on the over-approximation; heap shapes beyond one list level (nil-likes stored in struct fields) are covered only by the separate C20.load guard rule. Not decided: behaviour of caller-supplied callbacks, faults inside dependencies."
	c.RuleText = "obligation = helper x parameter x nil-class (untyped nil, typed nil of 14 struct types, nil list, list with nil-kind member); exhaustive over the enumerated helpers; non-trivial = distinct keys"
	c.Trusted = []string{"go/ssa builder (x/tools v0.29.0)", "apcheck abstract interpreter absint.go (transfer functions for the SSA subset the package uses)", "dependencies do not panic on the values they are handed (summarised as unknown results)"}
	c.Assumptions = []string{"hooks at their initial values (ItemTyperFunc=GetItemByType, IsNotEmpty=NotEmpty, JSONItemUnmarshal=nil)", "callbacks passed by the caller are not entered"}
	helpers := w.c20Helpers()
	c.stat("helpers", len(helpers))
	c.floor("C20.matrix", 100)
	c.floor("C20.isnil", 10)
	runs := 0
	only := os.Getenv("APCHECK_ONLY")
	debug := os.Getenv("APCHECK_DEBUG") != ""
	for _, f := range helpers {
		if only != "" && funcName(f) != only {
			continue
		}
		sig := f.Signature
		nrecv := 0
		if sig.Recv() != nil {
			nrecv = 1
		}
		first := 0
		if nrecv == 1 {
			if _, isSlice := types.Unalias(sig.Recv().Type()).Underlying().(*types.Slice); isSlice {
				first = -1 // the receiver of a list type is seeded like a list parameter
			}
		}
		for pi := first; pi < sig.Params().Len(); pi++ {
			p := sig.Recv()
			variadic := false
			if pi >= 0 {
				p = sig.Params().At(pi)
				variadic = sig.Variadic() && pi == sig.Params().Len()-1
			}
			seeds := w.seedsForParam(p.Type(), variadic)
			if len(seeds) == 0 {
				continue
			}
			// group verdicts by nil-class
			type agg struct {
				n      int
				bad    []string
				detail string
				pos    string
			}
			classes := map[string]*agg{}
			var order []string
			for _, sd := range seeds {
				args := make([]AV, 0, nrecv+sig.Params().Len())
				if nrecv == 1 && pi == -1 {
					args = append(args, sd.av)
				} else if nrecv == 1 {
					args = append(args, defaultArg(sig.Recv().Type(), "recv"))
				}
				for qi := 0; qi < sig.Params().Len(); qi++ {
					if qi == pi {
						args = append(args, sd.av)
					} else {
						args = append(args, defaultArg(sig.Params().At(qi).Type(), sig.Params().At(qi).Name()))
					}
				}
				t1 := time.Now()
				run := w.c20Eval(f, args)
				runs++
				if debug {
					fmt.Printf("  [c20] %s %s=%s: %d faults, aborted=%q, %.2fs\n", funcName(f), p.Name(), sd.label, len(run.faults), run.aborted, time.Since(t1).Seconds())
				}
				a := classes[sd.class]
				if a == nil {
					a = &agg{}
					classes[sd.class] = a
					order = append(order, sd.class)
				}
				a.n++
				if run.aborted != "" {
					a.bad = append(a.bad, sd.label+": undecided ("+run.aborted+")")
					continue
				}
				if len(run.faults) > 0 {
					ft := run.faults[0]
					a.bad = append(a.bad, sd.label)
					if a.detail == "" {
						a.pos = w.InstrPos(ft.Instr)
						a.detail = fmt.Sprintf("%s with %s=%s: %s in %s (%s); path: %s", funcName(f), p.Name(), sd.label, ft.Kind, funcName(ft.Fn), ft.What, strings.Join(ft.Stack, " → "))
					}
				}
			}
			for _, cl := range order {
				a := classes[cl]
				construct := fmt.Sprintf("%s:%s:%s", funcName(f), p.Name(), cl)
				if len(a.bad) > 0 {
					c.bad("C20.matrix", construct, a.pos, fmt.Sprintf("%d/%d nil-kinds fault [%s]; first: %s", len(a.bad), a.n, strings.Join(a.bad, ", "), a.detail))
				} else {
					c.ok("C20.matrix", construct, w.FuncPos(f), fmt.Sprintf("%d nil-kinds: no reachable definite fault", a.n))
				}
			}
		}
	}
	c.stat("abstract_runs", runs)

	// C20.isnil: the predicates themselves
	isNil, notEmpty, itemsEqual := w.Func("IsNil"), w.Func("NotEmpty"), w.Func("ItemsEqual")
	for name, f := range map[string]*ssa.Function{"IsNil": isNil, "NotEmpty": notEmpty, "ItemsEqual": itemsEqual} {
		if f == nil {
			c.bad("C20.isnil", name+":anchor", "-", "anchor function "+name+" not found")
		}
	}
	if isNil == nil || notEmpty == nil || itemsEqual == nil {
		return
	}
	itemT := w.Types.Scope().Lookup("Item").Type()
	var kinds []nilSeed
	for _, k := range w.seedsForParam(itemT, false) {
		if !strings.HasPrefix(k.class, "item-") { // a list that merely holds a nil-like member is not itself nil-like
			kinds = append(kinds, k)
		}
	}
	// plus nil lists held in the interface
	for _, ln := range []string{"ItemCollection", "IRIs"} {
		if n := w.Named(ln); n != nil {
			kinds = append(kinds, nilSeed{"nil " + ln, "nil-list", avIface(n, AV{K: kSlice, T: n, Nil: nilYes})})
			pt := types.NewPointer(n)
			kinds = append(kinds, nilSeed{"nil *" + ln, "nil-list", avIface(pt, avNilPtr(pt))})
		}
	}
	// totality on non-nil values: IsNil must terminate with the constant false on the pointer form and on the value form
	// of every vocabulary struct (a form missing from a conversion switch sends IsNil -> OnObject -> ToObject ->
	// reflectItemToType -> IsNil into unbounded recursion)
	for _, s := range w.itemStructs() {
		pt := types.NewPointer(s)
		forms := map[string]AV{
			"*" + s.Obj().Name(): avIface(pt, avNonNilPtr(pt)),
			s.Obj().Name():       avIface(s, AV{K: kTop}),
		}
		for label, av := range forms {
			r := w.c20Eval(isNil, []AV{av})
			b, isConst := r.result.isConstBool()
			switch {
			case r.aborted != "":
				c.bad("C20.total", "IsNil:"+label, w.FuncPos(isNil), "undecided: "+r.aborted)
			case !r.returned:
				c.bad("C20.total", "IsNil:"+label, w.FuncPos(isNil), fmt.Sprintf("IsNil on a non-nil %s never returns on the abstract run: the conversion helpers recurse into each other without a base case for this form (stack overflow)", label))
			case len(r.faults) > 0:
				c.bad("C20.total", "IsNil:"+label, w.FuncPos(isNil), fmt.Sprintf("IsNil on a non-nil %s faults: %v", label, faultList(w, r.faults)))
			case isConst && b:
				c.bad("C20.total", "IsNil:"+label, w.FuncPos(isNil), fmt.Sprintf("IsNil on a non-nil %s is constantly true", label))
			default:
				c.ok("C20.total", "IsNil:"+label, w.FuncPos(isNil), "returns "+r.result.String())
			}
		}
	}
	objPtr := types.NewPointer(w.Named("Object"))
	nonNil := avIface(objPtr, avNonNilPtr(objPtr))
	for _, k := range kinds {
		r := w.c20Eval(isNil, []AV{k.av})
		if b, ok := r.result.isConstBool(); ok && b && len(r.faults) == 0 && len(r.isNilBad) == 0 {
			c.ok("C20.isnil", "IsNil:"+k.label, w.FuncPos(isNil), "evaluates to the constant true")
		} else {
			c.bad("C20.isnil", "IsNil:"+k.label, w.FuncPos(isNil), fmt.Sprintf("IsNil(%s) evaluates to %s (faults: %v)", k.label, r.result, faultList(w, r.faults)))
		}
		if k.class == "nil-list" {
			continue
		}
		r = w.c20Eval(notEmpty, []AV{k.av})
		if b, ok := r.result.isConstBool(); ok && !b && len(r.faults) == 0 {
			c.ok("C20.isnil", "NotEmpty:"+k.label, w.FuncPos(notEmpty), "evaluates to the constant false")
		} else {
			c.bad("C20.isnil", "NotEmpty:"+k.label, w.FuncPos(notEmpty), fmt.Sprintf("NotEmpty(%s) evaluates to %s (faults: %v)", k.label, r.result, faultList(w, r.faults)))
		}
		// equality: nil-like vs nil-like is true; nil-like vs a non-nil object is false in both orders
		r = w.c20Eval(itemsEqual, []AV{k.av, AV{K: kIface, Nil: nilYes}})
		r2 := w.c20Eval(itemsEqual, []AV{AV{K: kIface, Nil: nilYes}, k.av})
		b1, ok1 := r.result.isConstBool()
		b2, ok2 := r2.result.isConstBool()
		if ok1 && ok2 && b1 && b2 && len(r.faults)+len(r2.faults) == 0 {
			c.ok("C20.isnil", "ItemsEqual-nil-nil:"+k.label, w.FuncPos(itemsEqual), "true in both orders")
		} else {
			c.bad("C20.isnil", "ItemsEqual-nil-nil:"+k.label, w.FuncPos(itemsEqual), fmt.Sprintf("ItemsEqual(%s, nil)=%s, ItemsEqual(nil, %s)=%s", k.label, r.result, k.label, r2.result))
		}
		r = w.c20Eval(itemsEqual, []AV{k.av, nonNil})
		r2 = w.c20Eval(itemsEqual, []AV{nonNil, k.av})
		b1, ok1 = r.result.isConstBool()
		b2, ok2 = r2.result.isConstBool()
		if ok1 && ok2 && !b1 && !b2 && len(r.faults)+len(r2.faults) == 0 {
			c.ok("C20.isnil", "ItemsEqual-nil-obj:"+k.label, w.FuncPos(itemsEqual), "false in both orders")
		} else {
			c.bad("C20.isnil", "ItemsEqual-nil-obj:"+k.label, w.FuncPos(itemsEqual), fmt.Sprintf("ItemsEqual(%s, obj)=%s, ItemsEqual(obj, %s)=%s faults=%v", k.label, r.result, k.label, r2.result, faultList(w, append(r.faults, r2.faults...))))
		}
	}
}

func faultList(w *World, fs []Fault) []string {
	var out []string
	for _, f := range fs {
		out = append(out, fmt.Sprintf("%s@%s", f.Kind, w.InstrPos(f.Instr)))
	}
	return out
}
