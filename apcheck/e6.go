package main

// E6: CFG helpers — reachability, natural loops, must-call, call-guards.

import (
	"go/token"
	"go/types"

	"golang.org/x/tools/go/ssa"
)

// reaches reports whether control can flow from block a to block b (a != b allowed; a == b means via a cycle or trivially true).
func reaches(a, b *ssa.BasicBlock) bool {
	if a == b {
		return true
	}
	seen := map[*ssa.BasicBlock]bool{a: true}
	work := []*ssa.BasicBlock{a}
	for len(work) > 0 {
		x := work[len(work)-1]
		work = work[:len(work)-1]
		for _, s := range x.Succs {
			if s == b {
				return true
			}
			if !seen[s] {
				seen[s] = true
				work = append(work, s)
			}
		}
	}
	return false
}

// loopDepths computes, for every block, the set of natural-loop headers whose loop body contains it.
func loopHeaders(f *ssa.Function) map[*ssa.BasicBlock]map[*ssa.BasicBlock]bool {
	in := map[*ssa.BasicBlock]map[*ssa.BasicBlock]bool{}
	for _, b := range f.Blocks {
		in[b] = map[*ssa.BasicBlock]bool{}
	}
	for _, n := range f.Blocks {
		for _, h := range n.Succs {
			if !h.Dominates(n) {
				continue
			}
			// back edge n -> h: body = h plus everything that reaches n without passing h
			body := map[*ssa.BasicBlock]bool{h: true, n: true}
			work := []*ssa.BasicBlock{n}
			for len(work) > 0 {
				x := work[len(work)-1]
				work = work[:len(work)-1]
				if x == h {
					continue
				}
				for _, p := range x.Preds {
					if !body[p] {
						body[p] = true
						work = append(work, p)
					}
				}
			}
			for b := range body {
				in[b][h] = true
			}
		}
	}
	return in
}

func returnBlocks(f *ssa.Function) []*ssa.BasicBlock {
	var out []*ssa.BasicBlock
	for _, b := range f.Blocks {
		if len(b.Instrs) > 0 {
			if _, ok := b.Instrs[len(b.Instrs)-1].(*ssa.Return); ok {
				out = append(out, b)
			}
		}
	}
	return out
}

// dominatesAllReturns: every path from entry to a return passes through block b.
func dominatesAllReturns(b *ssa.BasicBlock) bool {
	for _, r := range returnBlocks(b.Parent()) {
		if b != r && !b.Dominates(r) {
			return false
		}
	}
	return true
}

// callsIn lists the call instructions of f (not of its closures).
func callsIn(f *ssa.Function) []*ssa.Call {
	var out []*ssa.Call
	for _, b := range f.Blocks {
		for _, in := range b.Instrs {
			if c, ok := in.(*ssa.Call); ok {
				out = append(out, c)
			}
		}
	}
	return out
}

// condGuard describes one dominating branch: the condition and whether the guarded block lies on its true side.
type condGuard struct {
	cond   ssa.Value
	onTrue bool
	block  *ssa.BasicBlock
}

// rawGuards returns the dominating If conditions of b with polarity (NOT-stripped), innermost first.
func rawGuards(b *ssa.BasicBlock) []condGuard {
	var out []condGuard
	for d := b.Idom(); d != nil; d = d.Idom() {
		ifi, ok := d.Instrs[len(d.Instrs)-1].(*ssa.If)
		if !ok || len(d.Succs) != 2 {
			continue
		}
		t, f := d.Succs[0], d.Succs[1]
		onTrue := len(t.Preds) == 1 && (t == b || t.Dominates(b))
		onFalse := len(f.Preds) == 1 && (f == b || f.Dominates(b))
		if onTrue == onFalse {
			continue
		}
		cond := ifi.Cond
		pol := onTrue
		for {
			u, ok := cond.(*ssa.UnOp)
			if !ok || u.Op != token.NOT {
				break
			}
			cond = u.X
			pol = !pol
		}
		out = append(out, condGuard{cond: cond, onTrue: pol, block: d})
	}
	return out
}

// calleeNamed: the call's static callee (function or method) has this name.
func calleeNamed(c *ssa.Call, name string) bool {
	if cal := c.Common().StaticCallee(); cal != nil {
		return cal.Name() == name
	}
	if c.Common().IsInvoke() {
		return c.Common().Method.Name() == name
	}
	return false
}

// allArgs returns receiver (for invokes) + args.
func allArgs(c *ssa.Call) []ssa.Value {
	cc := c.Common()
	var out []ssa.Value
	if cc.IsInvoke() {
		out = append(out, cc.Value)
	}
	return append(out, cc.Args...)
}

func isItemCollectionType(w *World, t types.Type) bool {
	n := namedOf(t)
	return n != nil && n.Obj().Pkg() == w.Types && n.Obj().Name() == "ItemCollection"
}

// unwrap strips conversions and interface wrapping.
func unwrap(v ssa.Value) ssa.Value {
	for {
		switch x := v.(type) {
		case *ssa.MakeInterface:
			v = x.X
		case *ssa.ChangeInterface:
			v = x.X
		case *ssa.ChangeType:
			v = x.X
		case *ssa.Convert:
			v = x.X
		default:
			return v
		}
	}
}

// fieldOfLoad: v is (a conversion of) a load of recv.f or a Field extraction: returns the struct path.
func (p *prover) fieldOf(v ssa.Value) (FieldPath, bool) {
	v = unwrap(v)
	switch x := v.(type) {
	case *ssa.UnOp:
		if x.Op == token.MUL {
			if fa, ok := x.X.(*ssa.FieldAddr); ok {
				fp, ok := p.structPath(fa, 0)
				return fp, ok && len(fp.Idx) > 0
			}
		}
	case *ssa.Field:
		fp, ok := p.structPath(x, 0)
		return fp, ok && len(fp.Idx) > 0
	case *ssa.FieldAddr:
		fp, ok := p.structPath(x, 0)
		return fp, ok && len(fp.Idx) > 0
	}
	return FieldPath{}, false
}
