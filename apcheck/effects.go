package main

// E8: write-effect summaries. For every package function: through which of its parameters (deeply) memory may be
// written, which package-level variables it may write, what its results may alias, and which function-typed
// parameters it calls with what. Bottom-up fixpoint over the package; dependencies come from a reviewed table.

import (
	"fmt"
	"go/token"
	"go/types"
	"sort"
	"strings"

	"golang.org/x/tools/go/ssa"
)

type rootSet uint64

const (
	rootGlobal  rootSet = 1 << 62
	rootUnknown rootSet = 1 << 63
	maxParamBit         = 48
)

func paramBit(i int) rootSet {
	if i >= maxParamBit {
		return rootUnknown
	}
	return 1 << uint(i)
}

type invokeEff struct {
	param    int       // index (params then free vars) of the function value being called
	argRoots []rootSet // roots of the arguments it is called with, in the caller's terms
}

type effSummary struct {
	writes   rootSet
	ret      rootSet
	globals  map[string]bool // package-level variables written
	invokes  []invokeEff
	witness  map[rootSet]string // one example write per root bit (for reports)
	gwitness map[string]string
}

type extEff struct {
	writes []int // argument indices (receiver = 0) written through
	alias  []int // argument indices the result may alias (-1 = none/fresh)
	calls  int   // index of a callback argument that is invoked with values aliasing arg 0 (or -1)
}

// reviewed summaries of the dependencies the package calls (matched by full name)
var extTable = map[string]extEff{
	"(*bytes.Buffer).Write": {writes: []int{0}}, "(*bytes.Buffer).WriteByte": {writes: []int{0}}, "(*bytes.Buffer).WriteRune": {writes: []int{0}},
	"(*bytes.Buffer).WriteString": {writes: []int{0}}, "(*bytes.Buffer).Bytes": {alias: []int{0}},
	"(*strings.Builder).Write": {writes: []int{0}}, "(*strings.Builder).WriteRune": {writes: []int{0}}, "(*strings.Builder).WriteString": {writes: []int{0}},
	"(*strings.Builder).WriteByte": {writes: []int{0}},
	"encoding/gob.NewEncoder":      {alias: []int{0}}, "(*encoding/gob.Encoder).Encode": {writes: []int{0}},
	"encoding/gob.NewDecoder": {alias: []int{0}}, "(*encoding/gob.Decoder).Decode": {writes: []int{0, 1}},
	"bytes.NewReader": {alias: []int{0}}, "bytes.NewBuffer": {alias: []int{0}},
	"(*github.com/valyala/fastjson.Parser).ParseBytes": {writes: []int{0}, alias: []int{0}}, "(*github.com/valyala/fastjson.Parser).Parse": {writes: []int{0}, alias: []int{0}},
	"(*github.com/valyala/fastjson.Value).Get": {alias: []int{0}}, "(*github.com/valyala/fastjson.Value).GetArray": {alias: []int{0}},
	"(*github.com/valyala/fastjson.Value).GetStringBytes": {alias: []int{0}}, "(*github.com/valyala/fastjson.Value).Object": {alias: []int{0}},
	"(*github.com/valyala/fastjson.Value).GetObject": {alias: []int{0}}, "(*github.com/valyala/fastjson.Value).StringBytes": {alias: []int{0}},
	"(*github.com/valyala/fastjson.Object).Visit": {calls: 1},
	"(reflect.Value).Convert":                     {alias: []int{0}}, "(reflect.Value).Interface": {alias: []int{0}}, "reflect.ValueOf": {alias: []int{0}},
	"reflect.Indirect": {alias: []int{0}}, "(reflect.Value).Elem": {alias: []int{0}}, "(reflect.Value).Field": {alias: []int{0}}, "(reflect.Value).Index": {alias: []int{0}}, "(reflect.Value).Addr": {alias: []int{0}}, "(reflect.Value).Bytes": {alias: []int{0}},
	"(*time.Time).GobDecode": {writes: []int{0}}, "(*time.Time).UnmarshalText": {writes: []int{0}}, "(*time.Time).UnmarshalJSON": {writes: []int{0}}, "(*time.Time).UnmarshalBinary": {writes: []int{0}},
	"fmt.Fprintf": {writes: []int{0}}, "fmt.Fprint": {writes: []int{0}}, "fmt.Fprintln": {writes: []int{0}}, "io.WriteString": {writes: []int{0}},
	"git.sr.ht/~mariusor/go-xsd-duration.Unmarshal": {writes: []int{1}},
	"sort.Sort": {writes: []int{0}}, "sort.Stable": {writes: []int{0}}, "sort.Reverse": {alias: []int{0}}, "sort.Slice": {writes: []int{0}}, "sort.Strings": {writes: []int{0}}, "sort.Ints": {writes: []int{0}},
	"strconv.AppendFloat": {writes: []int{0}, alias: []int{0}}, "strconv.AppendInt": {writes: []int{0}, alias: []int{0}}, "strconv.AppendQuote": {writes: []int{0}, alias: []int{0}},
	"bytes.TrimSpace": {alias: []int{0}}, "bytes.Trim": {alias: []int{0}}, "bytes.TrimLeft": {alias: []int{0}}, "bytes.TrimRight": {alias: []int{0}}, "bytes.TrimPrefix": {alias: []int{0}}, "bytes.TrimSuffix": {alias: []int{0}},
	"encoding/json.Unmarshal": {writes: []int{1}},
	// shared-state primitives: what they hand out is the shared object itself
	"(*sync.Pool).Get": {alias: []int{0}}, "(*sync.Pool).Put": {writes: []int{0}},
	"(*sync.Map).Load": {alias: []int{0}}, "(*sync.Map).Store": {writes: []int{0}}, "(*sync.Map).LoadOrStore": {writes: []int{0}, alias: []int{0}}, "(*sync.Map).Delete": {writes: []int{0}},
	"(*sync.Mutex).Lock": {writes: []int{0}}, "(*sync.Mutex).Unlock": {writes: []int{0}}, "(*sync.RWMutex).Lock": {writes: []int{0}}, "(*sync.RWMutex).Unlock": {writes: []int{0}},
	"(*sync.RWMutex).RLock": {writes: []int{0}}, "(*sync.RWMutex).RUnlock": {writes: []int{0}}, "(*sync.Once).Do": {writes: []int{0}},
}

// externals known to neither write through their arguments nor return memory aliasing them
var extPurePrefixes = []string{"strings.", "strconv.", "unicode/", "errors.", "fmt.Sprint", "fmt.Errorf", "path/filepath.", "path.", "net/url.", "(*net/url.", "(net/url.",
	"(time.", "time.", "reflect.TypeOf", "reflect.TypeFor", "(reflect.Value).Is", "(reflect.Value).Kind", "(reflect.Type)", "bytes.Equal", "bytes.ReplaceAll", "bytes.Replace",
	"bytes.Index", "bytes.Contains", "bytes.HasPrefix", "bytes.HasSuffix", "encoding/json.Marshal", "github.com/go-ap/jsonld.Marshal", "github.com/go-ap/errors.",
	"git.sr.ht/~mariusor/go-xsd-duration.Marshal", "(*strings.Builder).String", "(*strings.Builder).Len", "(*bytes.Buffer).Len", "(*bytes.Buffer).String",
	"(*github.com/valyala/fastjson.Value).", "(*github.com/valyala/fastjson.Object).Len", "math.", "unicode.", "(*strings.Builder).Reset",
	"(reflect.Value).Type", "(reflect.Value).CanConvert", "(reflect.Value).CanInterface", "(reflect.Value).CanAddr", "(reflect.Value).NumField", "(reflect.Value).Len",
	"(reflect.Value).String", "(reflect.Value).Int", "(reflect.Value).Uint", "(reflect.Value).Float", "(reflect.Value).Bool", "(reflect.Value).Pointer", "(reflect.Value).UnsafePointer",
	"reflect.DeepEqual", "(*reflect.rtype).", "reflect.PointerTo", "reflect.PtrTo",
	"slices.Contains", "slices.Index", "slices.Equal", "maps.Keys", "sort.Search", "bytes.Compare", "bytes.Count", "bytes.LastIndex", "bytes.ToLower", "bytes.ToUpper", "bytes.Clone", "slices.Clone"}

type effects struct {
	w          *World
	sum        map[*ssa.Function]*effSummary
	unknownExt map[string]int // externals assumed pure because they are in neither table
	pr         *prover
}

func isPointerLike(t types.Type) bool {
	switch u := types.Unalias(t).Underlying().(type) {
	case *types.Pointer, *types.Slice, *types.Map, *types.Chan, *types.Signature, *types.Interface:
		return true
	case *types.Struct:
		for i := 0; i < u.NumFields(); i++ {
			if isPointerLike(u.Field(i).Type()) {
				return true
			}
		}
	case *types.Array:
		return isPointerLike(u.Elem())
	case *types.Tuple:
		for i := 0; i < u.Len(); i++ {
			if isPointerLike(u.At(i).Type()) {
				return true
			}
		}
	}
	return false
}

func computeEffects(w *World) *effects {
	e := &effects{w: w, sum: map[*ssa.Function]*effSummary{}, unknownExt: map[string]int{}, pr: newProver(w)}
	for _, f := range w.Funcs {
		e.sum[f] = &effSummary{globals: map[string]bool{}, witness: map[rootSet]string{}, gwitness: map[string]string{}}
	}
	for iter := 0; iter < 30; iter++ {
		changed := false
		for _, f := range w.Funcs {
			if e.analyse(f) {
				changed = true
			}
		}
		if !changed {
			break
		}
	}
	return e
}

type fnCtx struct {
	f    *ssa.Function
	memo map[ssa.Value]rootSet
	busy map[ssa.Value]bool
}

func (e *effects) paramIndex(f *ssa.Function, v ssa.Value) int {
	for i, p := range f.Params {
		if ssa.Value(p) == v {
			return i
		}
	}
	for i, fv := range f.FreeVars {
		if ssa.Value(fv) == v {
			return len(f.Params) + i
		}
	}
	return -1
}

// roots: which caller-visible memory a value may point into.
func (e *effects) roots(cx *fnCtx, v ssa.Value) rootSet {
	if v == nil {
		return 0
	}
	if r, ok := cx.memo[v]; ok {
		return r
	}
	if cx.busy[v] {
		return 0
	}
	cx.busy[v] = true
	defer delete(cx.busy, v)
	var r rootSet
	switch x := v.(type) {
	case *ssa.Parameter, *ssa.FreeVar:
		if isPointerLike(v.Type()) {
			r = paramBit(e.paramIndex(cx.f, v))
		}
	case *ssa.Global:
		r = rootGlobal
	case *ssa.Const, *ssa.Function, *ssa.Builtin:
	case *ssa.Alloc:
		// fresh: no caller-visible root for the cell itself
	case *ssa.MakeSlice, *ssa.MakeMap, *ssa.MakeChan:
	case *ssa.MakeClosure:
		for _, b := range x.Bindings {
			r |= e.roots(cx, b)
		}
	case *ssa.FieldAddr:
		r = e.roots(cx, x.X)
	case *ssa.Field:
		r = e.roots(cx, x.X)
	case *ssa.IndexAddr:
		r = e.roots(cx, x.X)
	case *ssa.Index:
		r = e.roots(cx, x.X)
	case *ssa.Slice:
		r = e.roots(cx, x.X)
	case *ssa.Lookup:
		r = e.roots(cx, x.X)
	case *ssa.Convert:
		if isPointerLike(x.Type()) && isPointerLike(x.X.Type()) {
			r = e.roots(cx, x.X)
		} // []byte(string), string([]byte): copies
	case *ssa.ChangeType:
		r = e.roots(cx, x.X)
	case *ssa.ChangeInterface:
		r = e.roots(cx, x.X)
	case *ssa.MakeInterface:
		if isPointerLike(x.X.Type()) {
			r = e.roots(cx, x.X)
		}
	case *ssa.TypeAssert:
		r = e.roots(cx, x.X)
	case *ssa.Extract:
		r = e.roots(cx, x.Tuple)
	case *ssa.Phi:
		for _, ed := range x.Edges {
			r |= e.roots(cx, ed)
		}
	case *ssa.Next:
		r = e.roots(cx, x.Iter)
	case *ssa.Range:
		r = e.roots(cx, x.X)
	case *ssa.UnOp:
		if x.Op == token.MUL {
			if !isPointerLike(x.Type()) {
				break
			}
			base := x.X
			if al, ok := base.(*ssa.Alloc); ok {
				for _, st := range storesTo(al) {
					r |= e.roots(cx, st.Val)
				}
				// a cell captured by a closure of this function and assigned there (items = col.Collection() inside the
				// callback handed to an On* helper): the closure's parameters are views of this function's own
				// arguments, so what it stores may alias any of them
				if e.closureStoresRooted(cx.f, al) {
					for i, p := range cx.f.Params {
						if isPointerLike(p.Type()) {
							r |= paramBit(i)
						}
					}
					for i, fv := range cx.f.FreeVars {
						if isPointerLike(fv.Type()) {
							r |= paramBit(len(cx.f.Params) + i)
						}
					}
				}
				break
			}
			if fa, ok := base.(*ssa.FieldAddr); ok {
				if al, ok := fa.X.(*ssa.Alloc); ok {
					// field of a local struct: roots of what was stored into that field or into the whole struct
					for _, st := range storesTo(al) {
						r |= e.roots(cx, st.Val)
					}
					if refs := al.Referrers(); refs != nil {
						for _, rf := range *refs {
							if fa2, ok := rf.(*ssa.FieldAddr); ok && fa2.Field == fa.Field && fa2.Referrers() != nil {
								for _, rr := range *fa2.Referrers() {
									if st, ok := rr.(*ssa.Store); ok && st.Addr == fa2 {
										r |= e.roots(cx, st.Val)
									}
								}
							}
						}
					}
					break
				}
			}
			r = e.roots(cx, base)
		} else {
			r = e.roots(cx, x.X)
		}
	case *ssa.BinOp:
		// string concatenation etc.: no pointer-like result
	case *ssa.Call:
		r = e.callResultRoots(cx, x)
	default:
		if isPointerLike(v.Type()) {
			r = rootUnknown
		}
	}
	cx.memo[v] = r
	return r
}

// closureStoresRooted: some closure made in f captures the cell al and stores into it a value that points into
// caller-visible memory of that closure (its parameters, free variables, globals).
func (e *effects) closureStoresRooted(f *ssa.Function, al *ssa.Alloc) bool {
	if al.Referrers() == nil {
		return false
	}
	for _, r := range *al.Referrers() {
		mc, ok := r.(*ssa.MakeClosure)
		if !ok {
			continue
		}
		g, ok := mc.Fn.(*ssa.Function)
		if !ok {
			continue
		}
		for bi, b := range mc.Bindings {
			if b != ssa.Value(al) || bi >= len(g.FreeVars) {
				continue
			}
			fv := g.FreeVars[bi]
			if fv.Referrers() == nil {
				continue
			}
			gcx := &fnCtx{f: g, memo: map[ssa.Value]rootSet{}, busy: map[ssa.Value]bool{}}
			for _, rr := range *fv.Referrers() {
				if st, ok := rr.(*ssa.Store); ok && st.Addr == ssa.Value(fv) && e.roots(gcx, st.Val) != 0 {
					return true
				}
			}
		}
	}
	return false
}

func extName(fn *ssa.Function) string {
	if fn == nil {
		return ""
	}
	s := fn.String()
	if o := fn.Origin(); o != nil {
		s = o.String()
	}
	return s
}

func (e *effects) extSummary(fn *ssa.Function) (extEff, bool) {
	name := extName(fn)
	if strings.HasPrefix(name, "sync/atomic.") || strings.HasPrefix(name, "(*sync/atomic.") {
		return extEff{writes: []int{0}, calls: -1}, true
	}
	if ee, ok := extTable[name]; ok {
		return ee, true
	}
	for _, p := range extPurePrefixes {
		if strings.HasPrefix(name, p) {
			return extEff{calls: -1}, true
		}
	}
	// a dependency nobody has reviewed: assume the worst that its signature allows — it may write through every
	// pointer-like argument and hand back memory that aliases them (a pool's Get/Put, a cache, an in-place filter)
	ee := extEff{calls: -1}
	n := fn.Signature.Params().Len()
	if fn.Signature.Recv() != nil {
		n++
	}
	for i := 0; i < n; i++ {
		ee.writes = append(ee.writes, i)
		ee.alias = append(ee.alias, i)
	}
	return ee, false
}

func (e *effects) argList(c *ssa.Call) []ssa.Value {
	cc := c.Common()
	if cc.IsInvoke() {
		return append([]ssa.Value{cc.Value}, cc.Args...)
	}
	return cc.Args
}

func (e *effects) callResultRoots(cx *fnCtx, c *ssa.Call) rootSet {
	if !isPointerLike(c.Type()) {
		return 0
	}
	cc := c.Common()
	args := e.argList(c)
	var r rootSet
	mapRet := func(ret rootSet, nparams int, closure *ssa.MakeClosure) {
		for i := 0; i < maxParamBit; i++ {
			if ret&paramBit(i) == 0 {
				continue
			}
			if i < nparams {
				if i < len(args) {
					r |= e.roots(cx, args[i])
				}
			} else if closure != nil && i-nparams < len(closure.Bindings) {
				r |= e.roots(cx, closure.Bindings[i-nparams])
			}
		}
		r |= ret & (rootGlobal | rootUnknown)
	}
	if bi, ok := cc.Value.(*ssa.Builtin); ok {
		switch bi.Name() {
		case "append":
			for _, a := range args {
				r |= e.roots(cx, a)
			}
		}
		return r
	}
	if cc.IsInvoke() {
		impls := e.w.implementers(cc.Method)
		for _, g := range impls {
			if s := e.sum[g]; s != nil {
				mapRet(s.ret, len(g.Params), nil)
			}
		}
		if len(impls) == 0 {
			// unknown interface method of a dependency: result may alias the receiver
			r |= e.roots(cx, cc.Value)
		}
		return r
	}
	callee := cc.StaticCallee()
	if callee == nil {
		// call of a function value: result may alias anything it was given
		switch fv := cc.Value.(type) {
		case *ssa.MakeClosure:
			if s := e.sum[fv.Fn.(*ssa.Function)]; s != nil {
				mapRet(s.ret, len(fv.Fn.(*ssa.Function).Params), fv)
				return r
			}
		}
		for _, a := range args {
			r |= e.roots(cx, a)
		}
		return r
	}
	if s := e.sum[callee]; s != nil {
		mapRet(s.ret, len(callee.Params), nil)
		return r
	}
	if o := callee.Origin(); o != nil {
		if s := e.sum[o]; s != nil {
			mapRet(s.ret, len(o.Params), nil)
			return r
		}
	}
	ee, known := e.extSummary(callee)
	if !known {
		e.unknownExt[extName(callee)]++
	}
	for _, i := range ee.alias {
		if i >= 0 && i < len(args) {
			r |= e.roots(cx, args[i])
		}
	}
	return r
}

// analyse recomputes f's summary; reports whether it grew.
func (e *effects) analyse(f *ssa.Function) bool {
	s := e.sum[f]
	before := fmt.Sprintf("%x/%x/%d/%d", uint64(s.writes), uint64(s.ret), len(s.globals), len(s.invokes))
	cx := &fnCtx{f: f, memo: map[ssa.Value]rootSet{}, busy: map[ssa.Value]bool{}}
	addWrite := func(r rootSet, in ssa.Instruction, what string) {
		if r == 0 {
			return
		}
		s.writes |= r &^ rootGlobal
		for i := 0; i < 64; i++ {
			b := rootSet(1) << uint(i)
			if r&b != 0 && s.witness[b] == "" {
				s.witness[b] = fmt.Sprintf("%s at %s", what, e.w.InstrPos(in))
			}
		}
	}
	addGlobal := func(g string, in ssa.Instruction, what string) {
		if !s.globals[g] {
			s.globals[g] = true
			s.gwitness[g] = fmt.Sprintf("%s at %s", what, e.w.InstrPos(in))
		}
	}
	globalName := func(v ssa.Value) string {
		// the global a pointer-ish value was loaded from, if evident
		for d := 0; d < 8 && v != nil; d++ {
			switch x := v.(type) {
			case *ssa.Global:
				return x.Name()
			case *ssa.UnOp:
				v = x.X
			case *ssa.FieldAddr:
				v = x.X
			case *ssa.IndexAddr:
				v = x.X
			case *ssa.Slice:
				v = x.X
			default:
				return "?"
			}
		}
		return "?"
	}
	var invokes []invokeEff
	applyCallee := func(in ssa.Instruction, cs *effSummary, nparams int, args []ssa.Value, closure *ssa.MakeClosure, calleeName string) {
		mapRoots := func(rs rootSet) rootSet {
			var r rootSet
			for i := 0; i < maxParamBit; i++ {
				if rs&paramBit(i) == 0 {
					continue
				}
				if i < nparams {
					if i < len(args) {
						r |= e.roots(cx, args[i])
					}
				} else if closure != nil && i-nparams < len(closure.Bindings) {
					r |= e.roots(cx, closure.Bindings[i-nparams])
				}
			}
			return r | (rs & rootUnknown)
		}
		w := mapRoots(cs.writes)
		if w&rootGlobal != 0 {
			for i := 0; i < nparams && i < len(args); i++ {
				if cs.writes&paramBit(i) != 0 && e.roots(cx, args[i])&rootGlobal != 0 {
					addGlobal(globalName(args[i]), in, "write through "+calleeName)
				}
			}
		}
		addWrite(w&^rootGlobal, in, "write through call of "+calleeName)
		for g := range cs.globals {
			addGlobal(g, in, "via "+calleeName+": "+cs.gwitness[g])
		}
		// callbacks the callee invokes
		for _, iv := range cs.invokes {
			var actual ssa.Value
			if iv.param < nparams {
				if iv.param < len(args) {
					actual = args[iv.param]
				}
			} else if closure != nil && iv.param-nparams < len(closure.Bindings) {
				actual = closure.Bindings[iv.param-nparams]
			}
			if actual == nil {
				continue
			}
			ar := make([]rootSet, len(iv.argRoots))
			for i, a := range iv.argRoots {
				ar[i] = mapRoots(a)
			}
			e.applyFuncValue(cx, s, in, unwrap(actual), ar, &invokes, addWrite, addGlobal)
		}
	}
	for _, b := range f.Blocks {
		for _, in := range b.Instrs {
			switch x := in.(type) {
			case *ssa.Store:
				if g, ok := x.Addr.(*ssa.Global); ok {
					addGlobal(g.Name(), in, "assignment to package variable "+g.Name())
					continue
				}
				r := e.roots(cx, x.Addr)
				if r&rootGlobal != 0 {
					addGlobal(globalName(x.Addr), in, "store into memory of a package variable")
				}
				addWrite(r&^rootGlobal, in, "store")
			case *ssa.MapUpdate:
				r := e.roots(cx, x.Map)
				if r&rootGlobal != 0 {
					addGlobal(globalName(x.Map), in, "map update of a package variable")
				}
				addWrite(r&^rootGlobal, in, "map update")
			case *ssa.Send:
				addWrite(e.roots(cx, x.Chan), in, "channel send")
			case *ssa.Call:
				cc := x.Common()
				args := e.argList(x)
				if bi, ok := cc.Value.(*ssa.Builtin); ok {
					switch bi.Name() {
					case "append":
						// append may write into the spare capacity of its first argument's backing array
						if len(args) > 0 {
							r := e.roots(cx, args[0])
							if r&rootGlobal != 0 {
								addGlobal(globalName(args[0]), in, "append to a package-level slice")
							}
							addWrite(r&^rootGlobal, in, "append (may write the backing array)")
						}
					case "copy":
						if len(args) > 0 {
							addWrite(e.roots(cx, args[0])&^rootGlobal, in, "copy into")
						}
					case "delete", "clear":
						if len(args) > 0 {
							addWrite(e.roots(cx, args[0])&^rootGlobal, in, bi.Name())
						}
					}
					continue
				}
				if cc.IsInvoke() {
					impls := e.w.implementers(cc.Method)
					for _, g := range impls {
						if cs := e.sum[g]; cs != nil {
							applyCallee(in, cs, len(g.Params), args, nil, funcName(g))
						}
					}
					continue
				}
				callee := cc.StaticCallee()
				if callee == nil {
					// call of a function value
					ar := make([]rootSet, len(cc.Args))
					for i, a := range cc.Args {
						ar[i] = e.roots(cx, a)
					}
					e.applyFuncValue(cx, s, in, unwrap(cc.Value), ar, &invokes, addWrite, addGlobal)
					continue
				}
				target := callee
				if e.sum[target] == nil && callee.Origin() != nil {
					target = callee.Origin()
				}
				if cs := e.sum[target]; cs != nil {
					applyCallee(in, cs, len(target.Params), args, nil, funcName(target))
					continue
				}
				ee, known := e.extSummary(callee)
				if !known {
					e.unknownExt[extName(callee)]++
				}
				for _, i := range ee.writes {
					if i < len(args) {
						r := e.roots(cx, args[i])
						if r&rootGlobal != 0 {
							addGlobal(globalName(args[i]), in, "written by "+extName(callee))
						}
						addWrite(r&^rootGlobal, in, "written by "+extName(callee))
					}
				}
				if ee.calls > 0 && ee.calls < len(args) {
					// the dependency calls the callback with values aliasing its receiver
					ar := []rootSet{e.roots(cx, args[0]), e.roots(cx, args[0])}
					e.applyFuncValue(cx, s, in, unwrap(args[ee.calls]), ar, &invokes, addWrite, addGlobal)
				}
			case *ssa.Return:
				for _, rv := range x.Results {
					s.ret |= e.roots(cx, rv)
				}
			}
		}
	}
	// merge invokes (dedupe)
	for _, iv := range invokes {
		dup := false
		for j, old := range s.invokes {
			if old.param == iv.param && len(old.argRoots) == len(iv.argRoots) {
				for k := range old.argRoots {
					s.invokes[j].argRoots[k] |= iv.argRoots[k]
				}
				dup = true
			}
		}
		if !dup {
			s.invokes = append(s.invokes, iv)
		}
	}
	var inv uint64
	for _, iv := range s.invokes {
		for _, a := range iv.argRoots {
			inv += uint64(a)
		}
	}
	after := fmt.Sprintf("%x/%x/%d/%d", uint64(s.writes), uint64(s.ret), len(s.globals), len(s.invokes))
	return before != after || inv != s.invHash(&inv)
}

func (s *effSummary) invHash(cur *uint64) uint64 {
	// stored hash of invoke argument roots from the previous round, to notice growth inside existing entries
	old := uint64(s.witnessHash())
	s.setWitnessHash(*cur)
	return old
}

var invHashes = map[*effSummary]uint64{}

func (s *effSummary) witnessHash() uint64     { return invHashes[s] }
func (s *effSummary) setWitnessHash(v uint64) { invHashes[s] = v }

// applyFuncValue: the function value fv is called with arguments rooted at ar (in the current function's terms).
func (e *effects) applyFuncValue(cx *fnCtx, s *effSummary, in ssa.Instruction, fv ssa.Value, ar []rootSet, invokes *[]invokeEff,
	addWrite func(rootSet, ssa.Instruction, string), addGlobal func(string, ssa.Instruction, string)) {
	// a function parameter captured by a closure is spilled to a cell: look through it
	for d := 0; d < 4; d++ {
		if ld, ok := fv.(*ssa.UnOp); ok && ld.Op == token.MUL {
			switch a := ld.X.(type) {
			case *ssa.Alloc:
				if r := e.pr.canonicalRoot(a); r != ssa.Value(a) {
					fv = r
					continue
				}
				// a local function variable assigned exactly one closure / function
				if sts := storesTo(a); len(sts) == 1 {
					fv = unwrap(sts[0].Val)
					continue
				}
			case *ssa.FreeVar:
				fv = a
			}
		}
		if al, ok := fv.(*ssa.Alloc); ok {
			if r := e.pr.canonicalRoot(al); r != ssa.Value(al) {
				fv = r
				continue
			}
		}
		break
	}
	switch x := fv.(type) {
	case *ssa.MakeClosure:
		fn := x.Fn.(*ssa.Function)
		cs := e.sum[fn]
		if cs == nil {
			return
		}
		var w rootSet
		for i := 0; i < maxParamBit; i++ {
			if cs.writes&paramBit(i) == 0 {
				continue
			}
			if i < len(fn.Params) {
				if i < len(ar) {
					w |= ar[i]
				}
			} else if i-len(fn.Params) < len(x.Bindings) {
				w |= e.roots(cx, x.Bindings[i-len(fn.Params)])
			}
		}
		w |= cs.writes & rootUnknown
		addWrite(w&^rootGlobal, in, "write inside callback "+funcName(fn))
		for g := range cs.globals {
			addGlobal(g, in, "via callback "+funcName(fn)+": "+cs.gwitness[g])
		}
	case *ssa.Function:
		cs := e.sum[x]
		if cs == nil {
			return
		}
		var w rootSet
		for i := 0; i < len(x.Params) && i < len(ar); i++ {
			if cs.writes&paramBit(i) != 0 {
				w |= ar[i]
			}
		}
		addWrite(w&^rootGlobal, in, "write inside "+funcName(x))
		for g := range cs.globals {
			addGlobal(g, in, "via "+funcName(x)+": "+cs.gwitness[g])
		}
	case *ssa.Parameter, *ssa.FreeVar:
		idx := e.paramIndex(cx.f, fv)
		if idx >= 0 {
			*invokes = append(*invokes, invokeEff{param: idx, argRoots: append([]rootSet(nil), ar...)})
		}
	case *ssa.UnOp:
		// a hook loaded from a package variable, or a captured function variable: opaque
	}
}

func (e *effects) describe(f *ssa.Function, r rootSet) []string {
	var out []string
	names := func(i int) string {
		if i < len(f.Params) {
			return "parameter " + f.Params[i].Name()
		}
		if i-len(f.Params) < len(f.FreeVars) {
			return "captured " + f.FreeVars[i-len(f.Params)].Name()
		}
		return fmt.Sprintf("param#%d", i)
	}
	s := e.sum[f]
	for i := 0; i < maxParamBit; i++ {
		if r&paramBit(i) != 0 {
			out = append(out, fmt.Sprintf("%s (%s)", names(i), s.witness[paramBit(i)]))
		}
	}
	if r&rootUnknown != 0 {
		out = append(out, "unknown memory ("+s.witness[rootUnknown]+")")
	}
	sort.Strings(out)
	return out
}
