package main

// Escaper rules (shared by C02 and C06): structural correctness of the JSON string escaper stringBytes.
//
// The escaper copies runs of safe bytes lazily: a cursor `start` marks the first input byte not yet written, `i` the
// scan position. Output equals escape(input) iff on every trip round the loop
//   (advance)  a path that wrote anything leaves start == i (everything up to the new scan position is out), and a
//              path that wrote nothing leaves start untouched (the pending run keeps growing);
//   (flush)    every escape write is preceded, on all paths, by the conditional flush `if start < i { write s[start:i] }`;
//   (final)    the closing quote is preceded by the conditional flush of s[start:];
//   (table)    the two-character escapes decode to the byte they replace (\n for 0x0A …), an identity escape is used
//              only for '\\', '"' and '/', and the \u00XX form writes the high nibble before the low nibble from a
//              0-9a-f digit table; the \u202X form is used for U+2028/U+2029 only and takes X from the low nibble.
// These are decided on SSA by phi-edge identity, dominance and constants; no input is ever run through the function.

import (
	"fmt"
	"go/constant"
	"go/token"
	"go/types"
	"os"
	"sort"
	"strings"

	"golang.org/x/tools/go/ssa"
)

var jsonShortEscapes = map[int64]int64{'\n': 'n', '\r': 'r', '\t': 't', '\b': 'b', '\f': 'f', '\\': '\\', '"': '"', '/': '/'}

func checkEscaper(w *World, c *Check, rule string) {
	c.floor(rule, 8)
	esc := w.Func("stringBytes")
	if esc == nil {
		c.bad(rule, "anchor", "-", "the escaper stringBytes was not found")
		return
	}
	name := funcName(esc)
	var buf, src *ssa.Parameter
	for _, p := range esc.Params {
		if pt, ok := types.Unalias(p.Type()).(*types.Pointer); ok {
			if n := namedOf(pt.Elem()); n != nil && n.Obj().Name() == "Buffer" && n.Obj().Pkg() != nil && n.Obj().Pkg().Path() == "bytes" {
				buf = p
			}
		}
		if isByteSlice(p.Type()) {
			src = p
		}
	}
	if buf == nil || src == nil {
		c.bad(rule, "anchor", w.FuncPos(esc), "the escaper no longer takes (*bytes.Buffer, []byte, …) (undecided)")
		return
	}
	// a parameter captured by a local closure is spilled into a cell and read back through loads: both forms count
	isParamVal := func(v ssa.Value, p *ssa.Parameter) bool {
		if v == ssa.Value(p) {
			return true
		}
		if u, ok := v.(*ssa.UnOp); ok && u.Op == token.MUL {
			if al, ok := u.X.(*ssa.Alloc); ok {
				st := storesTo(al)
				return len(st) == 1 && st[0].Val == ssa.Value(p)
			}
		}
		return false
	}
	isBuf := func(v ssa.Value) bool { return isParamVal(v, buf) }
	isSrc := func(v ssa.Value) bool { return isParamVal(v, src) }
	isWrite := func(in ssa.Instruction) (*ssa.Call, bool) {
		call, ok := in.(*ssa.Call)
		if !ok || call.Common().IsInvoke() || len(call.Common().Args) < 1 || !isBuf(call.Common().Args[0]) {
			return nil, false
		}
		cal := call.Common().StaticCallee()
		if cal == nil {
			return nil, false
		}
		switch cal.Name() {
		case "Write", "WriteString", "WriteByte", "WriteRune":
			return call, true
		}
		return nil, false
	}
	var flushClosure *ssa.Function  // set below when flushes go through a local closure
	var flushHelperFn *ssa.Function // set below when flushes go through a package helper
	isWriteOrFlush := func(in ssa.Instruction) (*ssa.Call, bool) {
		if call, ok := isWrite(in); ok {
			return call, true
		}
		if call, ok := in.(*ssa.Call); ok && flushClosure != nil && calledClosure(call) == flushClosure {
			return call, true
		}
		if call, ok := in.(*ssa.Call); ok && flushHelperFn != nil && call.Common().StaticCallee() == flushHelperFn {
			return call, true
		}
		return nil, false
	}
	// the cursor: a slice s[A:B] of the source with both bounds phis of one block
	var startPhi, iPhi *ssa.Phi
	for _, b := range esc.Blocks {
		for _, in := range b.Instrs {
			if sl, ok := in.(*ssa.Slice); ok && isSrc(sl.X) && sl.Low != nil && sl.High != nil {
				lo, ok1 := sl.Low.(*ssa.Phi)
				hi, ok2 := sl.High.(*ssa.Phi)
				if ok1 && ok2 && lo.Block() == hi.Block() && lo != hi {
					startPhi, iPhi = lo, hi
				}
			}
		}
	}
	// third form: the conditional flush is a package helper  flush(e, s, from, to) { if from < to { e.Write(s[from:to]) } }
	var flushHelper *ssa.Function
	helperArgs := func(call *ssa.Call) (from, to ssa.Value, ok bool) {
		if flushHelper == nil || call.Common().StaticCallee() != flushHelper || len(call.Common().Args) != 4 {
			return nil, nil, false
		}
		return call.Common().Args[2], call.Common().Args[3], true
	}
	if startPhi == nil {
		for _, b := range esc.Blocks {
			for _, in := range b.Instrs {
				call, ok := in.(*ssa.Call)
				if !ok {
					continue
				}
				h := call.Common().StaticCallee()
				if h == nil || !w.InPkg(h) || h.Blocks == nil || len(h.Params) != 4 || len(call.Common().Args) != 4 {
					continue
				}
				if call.Common().Args[0] != ssa.Value(buf) || call.Common().Args[1] != ssa.Value(src) {
					continue
				}
				if !isGuardedFlushHelper(h) {
					continue
				}
				lo, ok1 := call.Common().Args[2].(*ssa.Phi)
				hi, ok2 := call.Common().Args[3].(*ssa.Phi)
				if ok1 && ok2 && lo.Block() == hi.Block() && lo != hi {
					startPhi, iPhi, flushHelper = lo, hi, h
				}
			}
		}
	}
	// second form: the cursor lives in a local cell because a local closure performs the conditional flush
	//   flush := func(end int) { if start < end { e.Write(s[start:end]) } }
	var startCell *ssa.Alloc
	var flushFn *ssa.Function
	if startPhi == nil {
		for _, a := range esc.AnonFuncs {
			if len(a.Params) != 1 || len(a.FreeVars) == 0 {
				continue
			}
			mc := makeClosureOf(esc, a)
			if mc == nil {
				continue
			}
			bound := func(v ssa.Value) ssa.Value { // what a free variable of the closure stands for in esc
				for i, fv := range a.FreeVars {
					if v == ssa.Value(fv) && i < len(mc.Bindings) {
						return mc.Bindings[i]
					}
				}
				return nil
			}
			derefsTo := func(v ssa.Value, want ssa.Value) bool { // v is a load of a captured cell that holds `want`
				u, ok := v.(*ssa.UnOp)
				if !ok || u.Op != token.MUL {
					return false
				}
				cell, _ := bound(u.X).(*ssa.Alloc)
				if cell == nil {
					return false
				}
				st := storesTo(cell)
				return len(st) == 1 && st[0].Val == want
			}
			for _, b := range a.Blocks {
				for _, in := range b.Instrs {
					call, ok := in.(*ssa.Call)
					if !ok || call.Common().StaticCallee() == nil || len(call.Common().Args) != 2 {
						continue
					}
					switch call.Common().StaticCallee().Name() {
					case "Write", "WriteString":
					default:
						continue
					}
					sl, ok := call.Common().Args[1].(*ssa.Slice)
					if !ok || sl.Low == nil || sl.High != ssa.Value(a.Params[0]) {
						continue
					}
					if !derefsTo(call.Common().Args[0], buf) && bound(call.Common().Args[0]) != ssa.Value(buf) {
						continue
					}
					if !derefsTo(sl.X, src) && bound(sl.X) != ssa.Value(src) {
						continue
					}
					lo, ok := sl.Low.(*ssa.UnOp)
					if !ok || lo.Op != token.MUL {
						continue
					}
					cell, _ := bound(lo.X).(*ssa.Alloc)
					if cell == nil {
						continue
					}
					// the write must sit on the true side of `start < end`
					guarded := false
					for _, g := range rawGuards(b) {
						if bo, ok := g.cond.(*ssa.BinOp); ok && g.onTrue {
							l, isLoad := bo.X.(*ssa.UnOp)
							if bo.Op == token.LSS && isLoad && l.Op == token.MUL && bound(l.X) == ssa.Value(cell) && bo.Y == ssa.Value(a.Params[0]) {
								guarded = true
							}
						}
					}
					if guarded {
						startCell, flushFn = cell, a
					}
				}
			}
		}
		if startCell != nil {
			// the scan position: the phi handed to the flush closure inside a loop
			for _, b := range esc.Blocks {
				for _, in := range b.Instrs {
					if call, ok := in.(*ssa.Call); ok && calledClosure(call) == flushFn && len(call.Common().Args) == 1 {
						if phi, ok := call.Common().Args[0].(*ssa.Phi); ok {
							iPhi = phi
						}
					}
				}
			}
		}
	}
	if startPhi == nil && (startCell == nil || iPhi == nil) {
		c.bad(rule, name+":cursor", w.FuncPos(esc), "the lazy-flush cursor idiom (write s[start:i] with both bounds carried round the loop, inline or through a local flush closure) is no longer recognised: the escaper's copy discipline is undecided")
		return
	}
	flushClosure = flushFn
	flushHelperFn = flushHelper
	H := iPhi.Block()
	// raw writes: input bytes reach the output only through the lazy flush s[start:i] (start the copy cursor, i the scan
	// position or the end of the input) — every byte of such a run has been through the escape decision of the loop. Any
	// other write of (a part of) the input — the whole text on the word of a pre-scan, s[i:i+6] because it "already is an
	// escape" — copies bytes the loop has not judged: the pre-scan is a second, unchecked copy of the escape rules.
	{
		isCursor := func(v ssa.Value) bool {
			if startPhi != nil && v == ssa.Value(startPhi) {
				return true
			}
			if u, ok := v.(*ssa.UnOp); ok && u.Op == token.MUL && startCell != nil && u.X == ssa.Value(startCell) {
				return true
			}
			return false
		}
		isEnd := func(v ssa.Value) bool {
			if v == nil || v == ssa.Value(iPhi) {
				return true
			}
			if call, ok := v.(*ssa.Call); ok {
				if bi, isB := call.Common().Value.(*ssa.Builtin); isB && bi.Name() == "len" && isSrc(call.Common().Args[0]) {
					return true
				}
			}
			return false
		}
		nRaw := 0
		for _, b := range esc.Blocks {
			for _, in := range b.Instrs {
				call, ok := isWrite(in)
				if !ok || len(call.Common().Args) != 2 {
					continue
				}
				switch call.Common().StaticCallee().Name() {
				case "Write", "WriteString":
				default:
					continue
				}
				data := unwrap(call.Common().Args[1])
				var whole bool
				var sl *ssa.Slice
				if isSrc(data) {
					whole = true
				} else if x, isSl := data.(*ssa.Slice); isSl && isSrc(x.X) {
					sl = x
				} else {
					continue
				}
				nRaw++
				key := fmt.Sprintf("%s:raw-write#%d", name, nRaw)
				switch {
				case whole:
					c.bad(rule, key, w.InstrPos(call), "the whole input is written to the output in one go, without the escaper's loop having judged its bytes: whatever decides to take this path is a second copy of the escape rules that nothing checks (a byte it overlooks — the first one, a quote, a backslash — reaches the document raw)")
				case isCursor(sl.Low) && isEnd(sl.High):
					c.ok(rule, key, w.InstrPos(call), "the pending run s[start:i]")
				default:
					c.bad(rule, key, w.InstrPos(call), fmt.Sprintf("input bytes s[%s:%s] are written verbatim although they are not the pending run of bytes the loop has judged safe (s[start:i]): a backslash, quote or control byte inside them reaches the document unescaped and decodes to a different text", boundStr(sl.Low), boundStr(sl.High)))
				}
			}
		}
	}
	// loop body: blocks that H reaches and that reach H
	inLoop := map[*ssa.BasicBlock]bool{}
	for _, b := range esc.Blocks {
		if b != H && reaches(H, b) && reaches(b, H) {
			inLoop[b] = true
		}
	}
	isCursor := func(v ssa.Value) bool {
		if startPhi != nil {
			return v == ssa.Value(startPhi)
		}
		u, ok := v.(*ssa.UnOp)
		return ok && u.Op == token.MUL && u.X == ssa.Value(startCell)
	}
	isFlush := func(call *ssa.Call) bool {
		if from, to, ok := helperArgs(call); ok {
			return isCursor(from) && to == ssa.Value(iPhi)
		}
		if flushFn != nil && calledClosure(call) == flushFn {
			return len(call.Common().Args) == 1 && call.Common().Args[0] == ssa.Value(iPhi)
		}
		if len(call.Common().Args) != 2 {
			return false
		}
		sl, ok := call.Common().Args[1].(*ssa.Slice)
		return ok && isSrc(sl.X) && sl.Low != nil && isCursor(sl.Low) && sl.High == ssa.Value(iPhi)
	}
	writeLabel := func(call *ssa.Call) string {
		if len(call.Common().Args) == 2 {
			if k, ok := call.Common().Args[1].(*ssa.Const); ok && k.Value != nil {
				switch k.Value.Kind() {
				case constant.String:
					return fmt.Sprintf("%q", constant.StringVal(k.Value))
				case constant.Int:
					v, _ := constant.Int64Val(k.Value)
					return fmt.Sprintf("%q", rune(v))
				}
			}
		}
		return "data"
	}
	// ---- (advance) per back edge ----
	type st struct {
		b     *ssa.BasicBlock
		wrote bool
	}
	// forward exploration from H's in-loop successors with a "has written" bit, never passing H
	reachW := map[*ssa.BasicBlock]bool{}  // reachable at block end having written
	reachNW := map[*ssa.BasicBlock]bool{} // reachable at block end without any write
	firstEsc := map[*ssa.BasicBlock]string{}
	var work []st
	seen := map[st]bool{}
	for _, s := range H.Succs {
		if inLoop[s] {
			work = append(work, st{s, false})
		}
	}
	for len(work) > 0 {
		cur := work[len(work)-1]
		work = work[:len(work)-1]
		if seen[cur] {
			continue
		}
		seen[cur] = true
		wrote := cur.wrote
		for _, in := range cur.b.Instrs {
			if call, ok := isWriteOrFlush(in); ok {
				wrote = true
				if !isFlush(call) && firstEsc[cur.b] == "" {
					firstEsc[cur.b] = writeLabel(call)
				}
			}
		}
		if wrote {
			reachW[cur.b] = true
		} else {
			reachNW[cur.b] = true
		}
		for _, s := range cur.b.Succs {
			if inLoop[s] {
				work = append(work, st{s, wrote})
			}
		}
	}
	// label of a back edge: the nearest escape constant written on the way (by dominator walk), or the step expression
	escLabelFor := func(p *ssa.BasicBlock) string {
		for d := p; d != nil && d != H; d = d.Idom() {
			if l := firstEsc[d]; l != "" {
				return l
			}
		}
		return ""
	}
	nBack := 0
	labels := map[string]int{}
	for pi, p := range H.Preds {
		if !inLoop[p] {
			continue
		}
		nBack++
		vi := iPhi.Edges[pi]
		var vs ssa.Value // the cursor's value on this edge; nil = left as it was
		if startPhi != nil {
			vs = startPhi.Edges[pi]
			if vs == ssa.Value(startPhi) {
				vs = nil
			}
		} else {
			// the nearest store to the cell in a block that dominates this edge's source, inside the loop
			for d := p; d != nil && d != H && vs == nil; d = d.Idom() {
				for k := len(d.Instrs) - 1; k >= 0; k-- {
					if st, ok := d.Instrs[k].(*ssa.Store); ok && st.Addr == ssa.Value(startCell) {
						vs = st.Val
						break
					}
				}
			}
			// a store on only some of the paths to this edge cannot be judged
			for _, st := range storesTo(startCell) {
				if inLoop[st.Block()] && reachesWithin(st.Block(), p, H) && !(st.Block() == p || st.Block().Dominates(p)) {
					vs = st.Val
					vi = nil
				}
			}
		}
		step := "?"
		if vi == nil {
			vi = iPhi.Edges[pi]
			step = "?"
		} else if bo, ok := vi.(*ssa.BinOp); ok && bo.Op == token.ADD && bo.X == ssa.Value(iPhi) {
			if k, ok := bo.Y.(*ssa.Const); ok {
				step = "i+" + k.Value.ExactString()
			} else {
				step = "i+size"
				// … where size is what the UTF-8 decoder measured on the bytes at hand: a length read off the lead byte
				// by a table or a helper skips bytes the loop has not judged (and, wrong by one at a boundary, splits a
				// sequence so that its tail is escaped as an invalid byte)
				measured := false
				if ex, isEx := bo.Y.(*ssa.Extract); isEx && ex.Index == 1 {
					if dc, isCall := ex.Tuple.(*ssa.Call); isCall {
						if cal := dc.Common().StaticCallee(); cal != nil && cal.Object() != nil && cal.Object().Pkg() != nil && cal.Object().Pkg().Path() == "unicode/utf8" && strings.HasPrefix(cal.Name(), "DecodeRune") {
							measured = true
						}
					}
				}
				if !measured {
					c.bad(rule, name+":advance:unmeasured-step", w.InstrPos(bo), fmt.Sprintf("the scan position advances by %s, which is not the size utf8.DecodeRune reported for the bytes at hand: bytes are passed over without having been judged, and a length taken from the lead byte alone is wrong for the sequences at a boundary of its table", shortVal(bo.Y)))
				}
			}
		}
		var label string
		if reachW[p] {
			label = "after-escape " + escLabelFor(p)
		} else {
			label = "after-plain " + step
		}
		labels[label]++
		if labels[label] > 1 {
			label = fmt.Sprintf("%s #%d", label, labels[label])
		}
		key := name + ":advance:" + label
		pos := w.InstrPos(p.Instrs[len(p.Instrs)-1])
		switch {
		case step == "?":
			c.bad(rule, key, pos, "the scan position is not advanced by a positive step of the current position on this path (undecided)")
		case reachW[p] && reachNW[p]:
			c.bad(rule, key, pos, "this way round the loop is reached both with and without output having been written: the cursor discipline cannot be decided")
		case reachW[p] && (vs == nil || !sameIntExpr(vs, vi)):
			at := "where it was"
			if vs != nil {
				at = "at " + shortVal(vs)
			}
			c.bad(rule, key, pos, fmt.Sprintf("after writing an escape the copy cursor is left %s while the scan position moves to %s: the bytes before the escape are written again by the next flush (text is duplicated / the raw character is emitted as well)", at, shortVal(vi)))
		case reachNW[p] && !reachW[p] && vs != nil:
			c.bad(rule, key, pos, fmt.Sprintf("nothing was written on this path but the copy cursor moves to %s: the pending bytes are dropped from the output", shortVal(vs)))
		default:
			c.ok(rule, key, pos, "cursor and scan position agree with what was written")
		}
	}
	if nBack < 3 {
		c.bad(rule, name+":advance", w.FuncPos(esc), fmt.Sprintf("only %d ways round the escaper loop recognised", nBack))
	}
	// ---- (flush) every escape write is dominated by the conditional flush ----
	isFlushGuard := func(b *ssa.BasicBlock) (*ssa.BasicBlock, bool) {
		ifi, ok := b.Instrs[len(b.Instrs)-1].(*ssa.If)
		if !ok {
			return nil, false
		}
		bo, ok := ifi.Cond.(*ssa.BinOp)
		if !ok {
			return nil, false
		}
		lt := (bo.Op == token.LSS && isCursor(bo.X) && bo.Y == ssa.Value(iPhi)) || (bo.Op == token.GTR && isCursor(bo.Y) && bo.X == ssa.Value(iPhi))
		ne := bo.Op == token.NEQ && ((isCursor(bo.X) && bo.Y == ssa.Value(iPhi)) || (isCursor(bo.Y) && bo.X == ssa.Value(iPhi)))
		if !lt && !ne {
			return nil, false
		}
		return b.Succs[0], true
	}
	flushed := func(at *ssa.BasicBlock) bool {
		if flushHelper != nil {
			for d := at; d != nil && d != H; d = d.Idom() {
				for _, in := range d.Instrs {
					if call, ok := in.(*ssa.Call); ok && call.Common().StaticCallee() == flushHelper && isFlush(call) {
						return true
					}
				}
			}
		}
		// a call of the flush closure with the scan position, in this block or a dominating one (the guard is inside it)
		if flushFn != nil {
			for d := at; d != nil && d != H; d = d.Idom() {
				for _, in := range d.Instrs {
					if call, ok := in.(*ssa.Call); ok && calledClosure(call) == flushFn && isFlush(call) {
						return true
					}
				}
			}
		}
		// some dominating guard block G (start < i) whose true successor flushes and rejoins
		for d := at; d != nil && d != H; d = d.Idom() {
			if t, ok := isFlushGuard(d); ok && d != at {
				for _, in := range t.Instrs {
					if call, ok := isWrite(in); ok && isFlush(call) {
						return true
					}
				}
			}
		}
		return false
	}
	groups := map[string][]string{}
	gpos := map[string]string{}
	for _, b := range esc.Blocks {
		if !inLoop[b] {
			continue
		}
		for _, in := range b.Instrs {
			call, ok := isWrite(in)
			if !ok || isFlush(call) {
				continue
			}
			l := writeLabel(call)
			key := name + ":flush-before:" + escLabelFor(b)
			if !flushed(b) {
				groups[key] = append(groups[key], fmt.Sprintf("%s at %s", l, w.InstrPos(in)))
			} else if _, has := groups[key]; !has {
				groups[key] = nil
			}
			if gpos[key] == "" {
				gpos[key] = w.InstrPos(in)
			}
		}
	}
	for _, key := range sortedKeys(groups) {
		if bad := groups[key]; len(bad) > 0 {
			c.bad(rule, key, gpos[key], fmt.Sprintf("escape output (%s) is written without the pending run s[start:i] having been flushed first on every path: the bytes before the escaped character are lost or reordered", strings.Join(bad, "; ")))
		} else {
			c.ok(rule, key, gpos[key], "dominated by `if start < i { write s[start:i] }`")
		}
	}
	// ---- (final) ----
	finalOK, finalPos := false, w.FuncPos(esc)
	for _, rb := range returnBlocks(esc) {
		finalPos = w.InstrPos(rb.Instrs[len(rb.Instrs)-1])
		for d := rb.Idom(); d != nil; d = d.Idom() {
			ifi, ok := d.Instrs[len(d.Instrs)-1].(*ssa.If)
			if !ok {
				continue
			}
			bo, ok := ifi.Cond.(*ssa.BinOp)
			if !ok || bo.Op != token.LSS || !isCursor(bo.X) {
				continue
			}
			if base, isLen := lenOperand(bo.Y); !isLen || !isSrc(base) {
				continue
			}
			for _, in := range d.Succs[0].Instrs {
				if call, ok := isWrite(in); ok && len(call.Common().Args) == 2 {
					if sl, ok := call.Common().Args[1].(*ssa.Slice); ok && isSrc(sl.X) && sl.Low != nil && isCursor(sl.Low) && sl.High == nil {
						finalOK = true
					}
				}
			}
		}
	}
	if flushHelper != nil {
		for _, rb := range returnBlocks(esc) {
			for d := rb; d != nil; d = d.Idom() {
				for _, in := range d.Instrs {
					if call, ok := in.(*ssa.Call); ok {
						if from, to, ok := helperArgs(call); ok && isCursor(from) {
							if base, isLen := lenOperand(to); isLen && isSrc(base) {
								finalOK = true
							}
						}
					}
				}
			}
		}
	}
	if flushFn != nil {
		// flush(len(s)) in a block that dominates the return
		for _, rb := range returnBlocks(esc) {
			for d := rb; d != nil; d = d.Idom() {
				for _, in := range d.Instrs {
					if call, ok := in.(*ssa.Call); ok && calledClosure(call) == flushFn && len(call.Common().Args) == 1 {
						if base, isLen := lenOperand(call.Common().Args[0]); isLen && isSrc(base) {
							finalOK = true
						}
					}
				}
			}
		}
	}
	if finalOK {
		c.ok(rule, name+":final-flush", finalPos, "the closing quote is preceded by `if start < len(s) { write s[start:] }`")
	} else {
		c.bad(rule, name+":final-flush", finalPos, "the run of safe bytes pending at the end of the input is not flushed before the closing quote: the tail of every text is lost")
	}
	// ---- (table) ----
	// the byte under inspection: load of &s[iPhi]
	isCurByte := func(v ssa.Value) bool {
		if cv, ok := v.(*ssa.Convert); ok {
			v = cv.X
		}
		u, ok := v.(*ssa.UnOp)
		if !ok || u.Op != token.MUL {
			return false
		}
		ia, ok := u.X.(*ssa.IndexAddr)
		return ok && isSrc(ia.X) && ia.Index == ssa.Value(iPhi)
	}
	// conditions under which block b is entered: constants k with (cur == k) on the true edge of each predecessor
	enterConsts := func(b *ssa.BasicBlock, isSubject func(ssa.Value) bool) ([]int64, bool) {
		var ks []int64
		for _, p := range b.Preds {
			ifi, ok := p.Instrs[len(p.Instrs)-1].(*ssa.If)
			if !ok || p.Succs[0] != b {
				return nil, false
			}
			got, ok := eqConstsOf(ifi.Cond, isSubject, 0)
			if !ok {
				return nil, false
			}
			ks = append(ks, got...)
		}
		return ks, len(ks) > 0
	}
	hexOK := func(v ssa.Value, subject func(ssa.Value) bool, op token.Token, k int64) bool {
		// v = (*hex)[subject op k]
		var idx ssa.Value
		var tbl ssa.Value
		switch x := v.(type) {
		case *ssa.Lookup:
			tbl, idx = x.X, x.Index
		case *ssa.Index:
			tbl, idx = x.X, x.Index
		default:
			return false
		}
		u, ok := tbl.(*ssa.UnOp)
		if !ok {
			return false
		}
		g, ok := u.X.(*ssa.Global)
		if !ok {
			return false
		}
		digits := globalStringInit(w, g)
		if !strings.EqualFold(digits, "0123456789abcdef") || w.globalStoreCount(g) > 1 {
			return false
		}
		if cv, ok := idx.(*ssa.Convert); ok {
			idx = cv.X
		}
		bo, ok := idx.(*ssa.BinOp)
		if !ok || bo.Op != op || !subject(bo.X) {
			return false
		}
		kc, ok := bo.Y.(*ssa.Const)
		if !ok {
			return false
		}
		kv, _ := constant.Int64Val(kc.Value)
		return kv == k
	}
	nTable := 0
	sawU00XX := false
	// the escape table may sit in the loop itself or in a helper the loop calls with the buffer and the byte under
	// inspection (writeEscaped(e, b)): the helper's blocks are scanned with its byte parameter as the subject
	type tableScope struct {
		blocks  []*ssa.BasicBlock
		curByte func(ssa.Value) bool
		isBufW  func(in ssa.Instruction) (*ssa.Call, bool)
		stop    *ssa.BasicBlock
	}
	var loopBlocks []*ssa.BasicBlock
	for _, b := range esc.Blocks {
		if inLoop[b] {
			loopBlocks = append(loopBlocks, b)
		}
	}
	scopes := []tableScope{{loopBlocks, isCurByte, func(in ssa.Instruction) (*ssa.Call, bool) {
		if call, ok := isWrite(in); ok && !isFlush(call) {
			return call, true
		}
		return nil, false
	}, H}}
	for _, b := range loopBlocks {
		for _, in := range b.Instrs {
			call, ok := in.(*ssa.Call)
			if !ok {
				continue
			}
			g := call.Common().StaticCallee()
			if g == nil || !w.InPkg(g) || g.Blocks == nil || g == flushHelperFn {
				continue
			}
			byteParam, bufParam := -1, -1
			for ai, a := range call.Common().Args {
				if isCurByte(a) {
					byteParam = ai
				}
				if isBuf(a) {
					bufParam = ai
				}
			}
			if byteParam < 0 || bufParam < 0 || byteParam >= len(g.Params) || bufParam >= len(g.Params) {
				continue
			}
			bp, fp := g.Params[byteParam], g.Params[bufParam]
			scopes = append(scopes, tableScope{g.Blocks, func(v ssa.Value) bool {
				if cv, ok := v.(*ssa.Convert); ok {
					v = cv.X
				}
				return v == ssa.Value(bp)
			}, func(in ssa.Instruction) (*ssa.Call, bool) {
				c2, ok := in.(*ssa.Call)
				if !ok || c2.Common().IsInvoke() || len(c2.Common().Args) < 1 || c2.Common().Args[0] != ssa.Value(fp) {
					return nil, false
				}
				cal := c2.Common().StaticCallee()
				if cal == nil {
					return nil, false
				}
				switch cal.Name() {
				case "Write", "WriteString", "WriteByte", "WriteRune":
					return c2, true
				}
				return nil, false
			}, nil})
		}
	}
	for _, sc := range scopes {
		isCurByte := sc.curByte
		H := sc.stop
		for _, b := range sc.blocks {
			var ws []*ssa.Call
			for _, in := range b.Instrs {
				if call, ok := sc.isBufW(in); ok {
					ws = append(ws, call)
				}
			}
			if len(ws) == 0 {
				continue
			}
			first := ws[0]
			arg := first.Common().Args[1]
			pos := w.InstrPos(first)
			switch {
			case len(ws) == 1 && (first.Common().StaticCallee().Name() == "WriteRune" || first.Common().StaticCallee().Name() == "WriteByte"):
				if k, ok := arg.(*ssa.Const); ok {
					r, _ := constant.Int64Val(k.Value)
					if r == '\\' {
						continue // the backslash that opens an escape
					}
					ks, ok := enterConsts(b, isCurByte)
					key := fmt.Sprintf("%s:table:\\%c", name, rune(r))
					nTable++
					if !ok {
						c.bad(rule, key, pos, "cannot tell for which input byte this escape letter is written (undecided)")
						continue
					}
					bad := ""
					for _, kb := range ks {
						if jsonShortEscapes[kb] != r {
							bad = fmt.Sprintf("input byte 0x%02x is written as the escape \\%c, which a JSON parser decodes to a different character", kb, rune(r))
						}
					}
					if bad != "" {
						c.bad(rule, key, pos, bad)
					} else {
						c.ok(rule, key, pos, fmt.Sprintf("written for byte(s) %v only", ks))
					}
				} else if isCurByte(arg) {
					ks, ok := enterConsts(b, isCurByte)
					key := name + ":table:identity"
					nTable++
					bad := ""
					if !ok {
						bad = "cannot tell for which input bytes the identity escape \\<byte> is written (undecided)"
					}
					for _, kb := range ks {
						if jsonShortEscapes[kb] != kb {
							bad = fmt.Sprintf("input byte 0x%02x is escaped as backslash + itself, which is not a JSON escape for that byte", kb)
						}
					}
					if bad != "" {
						c.bad(rule, key, pos, bad)
					} else {
						c.ok(rule, key, pos, fmt.Sprintf("identity escape for %v only", ks))
					}
				}
			case len(ws) == 3:
				k, isConst := arg.(*ssa.Const)
				if !isConst || k.Value.Kind() != constant.String {
					continue
				}
				prefix := constant.StringVal(k.Value)
				if strings.TrimPrefix(prefix, `\`) == "u00" {
					key := name + ":table:u00XX"
					nTable++
					sawU00XX = true
					if hexOK(ws[1].Common().Args[1], isCurByte, token.SHR, 4) && hexOK(ws[2].Common().Args[1], isCurByte, token.AND, 15) {
						c.ok(rule, key, pos, "\\u00 + high nibble + low nibble from the 0-9a-f table")
					} else {
						c.bad(rule, key, pos, "the \\u00XX escape does not write hex[b>>4] followed by hex[b&0xF] from a 0123456789abcdef table: control characters decode to a different code point")
					}
				}
			case len(ws) == 2:
				k, isConst := arg.(*ssa.Const)
				if !isConst || k.Value.Kind() != constant.String {
					continue
				}
				prefix := constant.StringVal(k.Value)
				// a \uXXXX escape of the BYTE under inspection with a single variable digit: only right for bytes below 0x10
				if bare := strings.TrimPrefix(prefix, `\`); strings.HasPrefix(bare, "u") && len(bare) == 4 && hexOK(ws[1].Common().Args[1], isCurByte, token.AND, 15) {
					nTable++
					c.bad(rule, name+":table:u00XX", pos, fmt.Sprintf("the escape %q + one hex digit carries only the low nibble of the byte: every byte from 0x10 up that takes this branch (0x10-0x1f, and <, >, & when HTML escaping is on) is written as the escape of a different character", prefix))
					sawU00XX = true
					continue
				}
				if strings.HasPrefix(prefix, `\u`) && len(prefix) == 5 {
					key := name + ":table:" + strings.TrimPrefix(prefix, `\`) + "X"
					nTable++
					// the rune subject: extract #0 of DecodeRune
					isRune := func(v ssa.Value) bool {
						if cv, ok := v.(*ssa.Convert); ok {
							v = cv.X
						}
						ex, ok := v.(*ssa.Extract)
						return ok && ex.Index == 0
					}
					// guards: find the nearest dominating block all of whose predecessors enter on rune == const
					var ks []int64
					okk := false
					for d := b; d != nil && d != H; d = d.Idom() {
						if os.Getenv("APCHECK_ESCDEBUG") != "" {
							fmt.Printf("ESCDEBUG u202X block %d: walk d=%d preds=%d H=%d\n", b.Index, d.Index, len(d.Preds), H.Index)
							for _, p := range d.Preds {
								fmt.Printf("   pred %d: %s succ0=%d\n", p.Index, p.Instrs[len(p.Instrs)-1], p.Succs[0].Index)
							}
						}
						if got, ok := enterConsts(d, isRune); ok {
							ks, okk = got, true
							break
						}
						// a join reached both on "the rune is one of the separators" and on another condition (invalid :=
						// …; separator := …; if !invalid && !separator { continue }): the ways in that contradict what is
						// known at the write (… else branch of `if invalid`) do not count
						if got, ok := enterConstsGiven(d, isRune, knownAt(b)); ok {
							ks, okk = got, true
							break
						}
					}
					bad := ""
					if !okk {
						bad = "cannot tell for which code points this escape is written (undecided)"
					}
					var want int64
					fmt.Sscanf(prefix[2:], "%x", &want)
					for _, kr := range ks {
						if kr>>4 != want {
							bad = fmt.Sprintf("code point U+%04X is written with the prefix %s", kr, prefix)
						}
					}
					if bad == "" && !hexOK(ws[1].Common().Args[1], isRune, token.AND, 15) {
						bad = "the last hex digit is not hex[c&0xF]"
					}
					if bad != "" {
						c.bad(rule, key, pos, bad)
					} else {
						c.ok(rule, key, pos, fmt.Sprintf("written for code points %x only, last digit from the low nibble", ks))
					}
				}
			}
		}
	}
	// ---- (skip) a byte goes round the loop unwritten (left for the next flush to copy verbatim) only because a safe
	// table said so. Any other reason to skip an ASCII byte — "this backslash starts something that is already an
	// escape" — copies bytes into the string that a JSON parser reads as something else.
	{
		isTableLoad := func(v ssa.Value) bool {
			ld, ok := v.(*ssa.UnOp)
			if !ok || ld.Op != token.MUL {
				return false
			}
			ia, ok := ld.X.(*ssa.IndexAddr)
			if !ok || !isCurByte(ia.Index) {
				return false
			}
			_, isGlobal := ia.X.(*ssa.Global)
			return isGlobal
		}
		writes := func(b *ssa.BasicBlock) bool {
			for _, in := range b.Instrs {
				if _, ok := isWriteOrFlush(in); ok {
					return true
				}
				if call, ok := in.(*ssa.Call); ok {
					for _, a := range call.Common().Args {
						if isBuf(a) {
							return true
						}
					}
				}
			}
			return false
		}
		// the ASCII region: entered on the true side of a comparison of the byte with a constant bound
		for _, rb := range esc.Blocks {
			if !inLoop[rb] {
				continue
			}
			iff, ok := rb.Instrs[len(rb.Instrs)-1].(*ssa.If)
			if !ok {
				continue
			}
			cmp, ok := iff.Cond.(*ssa.BinOp)
			if !ok || cmp.Op != token.LSS || !isCurByte(cmp.X) {
				continue
			}
			if _, isConst := cmp.Y.(*ssa.Const); !isConst {
				continue
			}
			entry := rb.Succs[0]
			seen := map[*ssa.BasicBlock]bool{entry: true}
			work := []*ssa.BasicBlock{entry}
			var via *ssa.BasicBlock
			for len(work) > 0 && via == nil {
				x := work[len(work)-1]
				work = work[:len(work)-1]
				if writes(x) {
					continue
				}
				xi, isIf := x.Instrs[len(x.Instrs)-1].(*ssa.If)
				for si, sc := range x.Succs {
					if isIf && si == 0 && isTableLoad(xi.Cond) {
						continue // the safe tables say so
					}
					if sc == H {
						via = x
						break
					}
					if !inLoop[sc] || seen[sc] {
						continue
					}
					seen[sc] = true
					work = append(work, sc)
				}
			}
			key := name + ":skip"
			if via != nil {
				c.bad(rule, key, w.InstrPos(via.Instrs[len(via.Instrs)-1]), "an ASCII byte can go round the escaper loop unwritten (to be copied verbatim by a later flush) without a safe table having cleared it: bytes the tables mark for escaping — a backslash, a quote, a control character — reach the output as they are, so the emitted string decodes to something other than the text held")
			} else {
				c.ok(rule, key, w.InstrPos(iff), "ASCII bytes are skipped only on the word of the safe tables")
			}
		}
	}
	if !sawU00XX {
		c.bad(rule, name+":table:u00XX", w.FuncPos(esc), "no \\u00XX escape (u00 + high nibble + low nibble of the byte) was found in the escaper: control characters have no other valid representation in a JSON string")
	}
	if nTable < 5 {
		c.bad(rule, name+":table", w.FuncPos(esc), fmt.Sprintf("only %d escape forms recognised in the escaper (expected the short escapes, the identity escape, \\u00XX and \\u202X)", nTable))
	}
	_ = sort.Strings
}

func isByteSlice(t types.Type) bool {
	s, ok := types.Unalias(t).Underlying().(*types.Slice)
	if !ok {
		return false
	}
	b, ok := types.Unalias(s.Elem()).Underlying().(*types.Basic)
	return ok && b.Kind() == types.Byte
}

// globalStringInit returns the constant string a package-level variable is initialised with ("" if unknown).
func globalStringInit(w *World, g *ssa.Global) string {
	obj, ok := g.Object().(*types.Var)
	if !ok {
		return ""
	}
	for _, in := range w.Info.InitOrder {
		for i, lhs := range in.Lhs {
			if lhs == obj && len(in.Lhs) == 1 && i == 0 {
				if tv, ok := w.Info.Types[in.Rhs]; ok && tv.Value != nil && tv.Value.Kind() == constant.String {
					return constant.StringVal(tv.Value)
				}
			}
		}
	}
	return ""
}

// sameIntExpr: the two SSA values denote the same integer (identical, or the same sum of identical operands — go/ssa
// does not share common subexpressions).
func sameIntExpr(a, b ssa.Value) bool {
	if a == b {
		return true
	}
	x, ok1 := a.(*ssa.BinOp)
	y, ok2 := b.(*ssa.BinOp)
	if ok1 && ok2 && x.Op == y.Op && (x.Op == token.ADD || x.Op == token.SUB) {
		return sameIntExpr(x.X, y.X) && sameIntExpr(x.Y, y.Y) || (x.Op == token.ADD && sameIntExpr(x.X, y.Y) && sameIntExpr(x.Y, y.X))
	}
	kx, ok1 := a.(*ssa.Const)
	ky, ok2 := b.(*ssa.Const)
	if ok1 && ok2 && kx.Value != nil && ky.Value != nil {
		return constant.Compare(kx.Value, token.EQL, ky.Value)
	}
	return false
}

// makeClosureOf: the MakeClosure instruction in parent that creates fn.
func makeClosureOf(parent, fn *ssa.Function) *ssa.MakeClosure {
	for _, b := range parent.Blocks {
		for _, in := range b.Instrs {
			if mc, ok := in.(*ssa.MakeClosure); ok && mc.Fn == fn {
				return mc
			}
		}
	}
	return nil
}

// calledClosure: the local closure a call instruction invokes directly (nil if it calls something else).
func calledClosure(call *ssa.Call) *ssa.Function {
	if mc, ok := call.Common().Value.(*ssa.MakeClosure); ok {
		f, _ := mc.Fn.(*ssa.Function)
		return f
	}
	return nil
}

// reachesWithin: b is reachable from a without passing through the block stop (one iteration of a loop headed by stop).
func reachesWithin(a, b, stop *ssa.BasicBlock) bool {
	if a == b {
		return true
	}
	seen := map[*ssa.BasicBlock]bool{a: true}
	work := []*ssa.BasicBlock{a}
	for len(work) > 0 {
		x := work[len(work)-1]
		work = work[:len(work)-1]
		for _, s := range x.Succs {
			if s == stop || seen[s] {
				continue
			}
			if s == b {
				return true
			}
			seen[s] = true
			work = append(work, s)
		}
	}
	return false
}

// isGuardedFlushHelper: h(e, s, from, to) writes s[from:to] to e exactly on the true side of from < to and does nothing else.
func isGuardedFlushHelper(h *ssa.Function) bool {
	if len(h.Params) != 4 {
		return false
	}
	e, s, from, to := h.Params[0], h.Params[1], h.Params[2], h.Params[3]
	writes, ok := 0, true
	for _, b := range h.Blocks {
		for _, in := range b.Instrs {
			call, isCall := in.(*ssa.Call)
			if !isCall {
				if _, isStore := in.(*ssa.Store); isStore {
					ok = false
				}
				continue
			}
			cal := call.Common().StaticCallee()
			if cal == nil || len(call.Common().Args) != 2 || call.Common().Args[0] != ssa.Value(e) {
				ok = false
				continue
			}
			sl, isSl := call.Common().Args[1].(*ssa.Slice)
			if !isSl || sl.X != ssa.Value(s) || sl.Low != ssa.Value(from) || sl.High != ssa.Value(to) {
				ok = false
				continue
			}
			guarded := false
			for _, g := range rawGuards(b) {
				if bo, isBo := g.cond.(*ssa.BinOp); isBo && g.onTrue {
					if (bo.Op == token.LSS && bo.X == ssa.Value(from) && bo.Y == ssa.Value(to)) || (bo.Op == token.GTR && bo.X == ssa.Value(to) && bo.Y == ssa.Value(from)) {
						guarded = true
					}
				}
			}
			if !guarded {
				ok = false
			}
			writes++
		}
	}
	return ok && writes == 1
}

// eqConstsOf: cond is true exactly when the subject equals one of the returned constants: subject == k, or a
// disjunction of such tests lowered to a phi (a || b evaluates b only when a is false).
func eqConstsOf(cond ssa.Value, isSubject func(ssa.Value) bool, depth int) ([]int64, bool) {
	if depth > 6 {
		return nil, false
	}
	switch x := cond.(type) {
	case *ssa.BinOp:
		if x.Op != token.EQL || !isSubject(x.X) {
			return nil, false
		}
		k, ok := x.Y.(*ssa.Const)
		if !ok || k.Value == nil {
			return nil, false
		}
		v, _ := constant.Int64Val(k.Value)
		return []int64{v}, true
	case *ssa.Phi:
		var ks []int64
		for i, e := range x.Edges {
			p := x.Block().Preds[i]
			if k, isConst := e.(*ssa.Const); isConst && k.Value != nil && k.Value.Kind() == constant.Bool {
				if !constant.BoolVal(k.Value) {
					continue // this way in the disjunction is false
				}
				// true because the predecessor's own test succeeded
				ifi, ok := p.Instrs[len(p.Instrs)-1].(*ssa.If)
				if !ok || p.Succs[0] != x.Block() {
					return nil, false
				}
				got, ok := eqConstsOf(ifi.Cond, isSubject, depth+1)
				if !ok {
					return nil, false
				}
				ks = append(ks, got...)
				continue
			}
			got, ok := eqConstsOf(e, isSubject, depth+1)
			if !ok {
				return nil, false
			}
			ks = append(ks, got...)
		}
		return ks, len(ks) > 0
	}
	return nil, false
}

func boundStr(v ssa.Value) string {
	if v == nil {
		return ""
	}
	return shortVal(v)
}

// knownAt: the truth values of branch conditions that hold in block b (dominating branches with a single way in).
func knownAt(b *ssa.BasicBlock) map[ssa.Value]bool {
	facts := map[ssa.Value]bool{}
	for _, g := range rawGuards(b) {
		facts[g.cond] = g.onTrue
	}
	return facts
}

// enterConstsGiven: as enterConsts, but ways into b whose own branch condition contradicts the known facts are left
// out; at least one way must remain and each remaining one must enter on subject == constant (or a disjunction of such).
func enterConstsGiven(b *ssa.BasicBlock, isSubject func(ssa.Value) bool, facts map[ssa.Value]bool) ([]int64, bool) {
	if len(b.Preds) < 2 || len(facts) == 0 {
		return nil, false
	}
	var ks []int64
	n := 0
	for _, p := range b.Preds {
		ifi, ok := p.Instrs[len(p.Instrs)-1].(*ssa.If)
		if !ok || len(p.Succs) != 2 {
			return nil, false
		}
		cond, want := ifi.Cond, p.Succs[0] == b
		for {
			u, isNot := cond.(*ssa.UnOp)
			if !isNot || u.Op != token.NOT {
				break
			}
			cond, want = u.X, !want
		}
		if known, has := facts[cond]; has && known != want {
			continue // this way in cannot have been taken
		}
		if !want {
			return nil, false
		}
		got, ok := eqConstsOf(cond, isSubject, 0)
		if !ok {
			return nil, false
		}
		ks = append(ks, got...)
		n++
	}
	return ks, n > 0 && len(ks) > 0
}
