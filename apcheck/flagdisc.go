package main

import (
	"fmt"
	"go/constant"
	"go/token"
	"go/types"
	"sort"

	"golang.org/x/tools/go/ssa"
)

// The gob encoders collect the properties of a value in a map[string][]byte and keep a boolean beside it ("hasData")
// that says whether anything was put in; when the flag is false the encoder returns an empty byte slice and the map is
// thrown away. A map entry whose flag update is missing is therefore lost whenever it is the only property set.
//
// Rule (flag discipline): for every event that puts something into the property map
//   - a map update on a map[string][]byte,
//   - a call of a package function that passes the map on and returns its own flag (the "seed": by this same rule the
//     callee's flag is true whenever it wrote),
//   - a call that runs a closure containing such events and storing into a captured flag,
// and every later use of a flag in the same function (the bool result of a return that is not under an err != nil test,
// or a branch on a flag value), the flag is true (or the seed) on EVERY path from the event to the use. Flags are
// followed through phis (SSA-lifted locals) and through cells (named results captured by closures).

type flagEvent struct {
	in     ssa.Instruction
	seed   ssa.Value // flag returned by the callee, nil for a plain map update
	cell   ssa.Value // for closure events: the captured cell already holds the right value after the call
	what   string
	pseudo bool // the event stands before its instruction (first instruction of a guard block)
}

func isPropMap(t types.Type) bool {
	m, ok := t.Underlying().(*types.Map)
	if !ok {
		return false
	}
	k, ok := m.Key().Underlying().(*types.Basic)
	if !ok || k.Kind() != types.String {
		return false
	}
	s, ok := m.Elem().Underlying().(*types.Slice)
	if !ok {
		return false
	}
	e, ok := s.Elem().Underlying().(*types.Basic)
	return ok && e.Kind() == types.Byte
}

type flagDisc struct {
	w        *World
	writes   map[*ssa.Function]int // 0 unknown, 1 busy, 2 no, 3 yes : function (transitively) updates a property map it was given
	closCell map[*ssa.Function]int // closure -> index of the captured bool cell it settles (-1 none)
	infBusy  map[*ssa.If]bool
}

// mapWriter: f updates a property map passed to it (or captured), directly or through callees.
func (d *flagDisc) mapWriter(f *ssa.Function) bool {
	switch d.writes[f] {
	case 1, 2:
		return false
	case 3:
		return true
	}
	d.writes[f] = 1
	res := false
	for _, b := range f.Blocks {
		for _, in := range b.Instrs {
			switch x := in.(type) {
			case *ssa.MapUpdate:
				if isPropMap(x.Map.Type()) {
					res = true
				}
			case ssa.CallInstruction:
				if d.callPassesMap(x) != nil {
					res = true
				}
			}
		}
	}
	if res {
		d.writes[f] = 3
	} else {
		d.writes[f] = 2
	}
	return res
}

// callPassesMap: the call hands a property map to a package function that writes it (directly as an argument, or
// through a closure argument that writes a captured map). Returns the callee that writes.
func (d *flagDisc) callPassesMap(call ssa.CallInstruction) *ssa.Function {
	cc := call.Common()
	if cc.IsInvoke() {
		return nil
	}
	cal := cc.StaticCallee()
	for _, a := range cc.Args {
		if isPropMap(a.Type()) && cal != nil && d.w.InPkg(cal) && d.mapWriter(cal) {
			return cal
		}
		if mc, ok := unwrap(a).(*ssa.MakeClosure); ok {
			if g := mc.Fn.(*ssa.Function); d.mapWriter(g) {
				return g
			}
		}
	}
	if mc, ok := cc.Value.(*ssa.MakeClosure); ok {
		if g := mc.Fn.(*ssa.Function); d.mapWriter(g) {
			return g
		}
	}
	return nil
}

func (d *flagDisc) events(f *ssa.Function) []flagEvent {
	var out []flagEvent
	for _, b := range f.Blocks {
		for _, in := range b.Instrs {
			switch x := in.(type) {
			case *ssa.MapUpdate:
				if isPropMap(x.Map.Type()) {
					k := "?"
					if cst, ok := x.Key.(*ssa.Const); ok {
						k = cst.Value.ExactString()
					}
					out = append(out, flagEvent{in: in, what: "map entry " + k})
				}
			case *ssa.Call:
				g := d.callPassesMap(x)
				if g == nil {
					continue
				}
				ev := flagEvent{in: in, what: "call of " + funcName(g)}
				if g.Parent() != nil {
					// closure: which captured cell does it settle?
					if mc := closureArg(x); mc != nil {
						if i := d.closureSettles(g); i >= 0 && i < len(mc.Bindings) {
							ev.cell = mc.Bindings[i]
						}
					}
				} else if d.returnsFlag(g) {
					// flag result of the callee
					res := g.Signature.Results()
					for i := 0; i < res.Len(); i++ {
						if isBoolType(res.At(i).Type()) {
							if res.Len() == 1 {
								ev.seed = x
							} else {
								for _, r := range *x.Referrers() {
									if e, ok := r.(*ssa.Extract); ok && e.Index == i {
										ev.seed = e
									}
								}
							}
							break
						}
					}
				}
				out = append(out, ev)
			}
		}
	}
	return out
}

func closureArg(call *ssa.Call) *ssa.MakeClosure {
	if mc, ok := call.Call.Value.(*ssa.MakeClosure); ok {
		return mc
	}
	for _, a := range call.Call.Args {
		if mc, ok := unwrap(a).(*ssa.MakeClosure); ok {
			return mc
		}
	}
	return nil
}

// closureSettles: index of the captured bool cell that, at every non-error return of the closure reachable from any
// of its events, holds true/the seed; -1 if there is none.
func (d *flagDisc) closureSettles(g *ssa.Function) int {
	if v, ok := d.closCell[g]; ok {
		return v
	}
	d.closCell[g] = -1
	evs := d.events(g)
	for i, fv := range g.FreeVars {
		pt, ok := fv.Type().Underlying().(*types.Pointer)
		if !ok || !isBoolType(pt.Elem()) {
			continue
		}
		good := true
		for _, ev := range evs {
			for _, rb := range returnBlocks(g) {
				ret := rb.Instrs[len(rb.Instrs)-1]
				if !instrReaches(ev.in, ret) || errorReturn(ret.(*ssa.Return)) {
					continue
				}
				if ok, _ := d.cellTrueAt(fv, ev, ret, map[ssa.Value]bool{}); !ok {
					good = false
				}
			}
		}
		if good {
			d.closCell[g] = i
			return i
		}
	}
	return -1
}

func instrReaches(a, b ssa.Instruction) bool {
	if a.Block() == b.Block() {
		if instrIndex(a) < instrIndex(b) {
			return true
		}
		// around a loop
		for _, s := range a.Block().Succs {
			if s == b.Block() || reaches(s, b.Block()) {
				return true
			}
		}
		return false
	}
	return reaches(a.Block(), b.Block())
}

// errorReturn: the return hands back an error that a dominating test has found non-nil.
func errorReturn(r *ssa.Return) bool {
	if underAnyErrorTest(r.Block()) {
		return true
	}
	for _, v := range r.Results {
		if !isErrorType(v.Type()) {
			continue
		}
		if isNilConst(v) {
			continue
		}
		if underNonNilTestLoose(v, r.Block()) {
			return true
		}
	}
	return false
}

// underNonNilTestLoose is underNonNilTest where two loads of the same cell count as the same value.
func underNonNilTestLoose(v ssa.Value, b *ssa.BasicBlock) bool {
	if underNonNilTest(v, b) {
		return true
	}
	ld, ok := v.(*ssa.UnOp)
	if !ok || ld.Op != token.MUL {
		return false
	}
	for d := b; d != nil; d = d.Idom() {
		id := d.Idom()
		if id == nil {
			break
		}
		iff, ok := id.Instrs[len(id.Instrs)-1].(*ssa.If)
		if !ok {
			continue
		}
		bo, ok := iff.Cond.(*ssa.BinOp)
		if !ok || bo.Op != token.NEQ || !isNilConst(bo.Y) {
			continue
		}
		o, ok := bo.X.(*ssa.UnOp)
		if !ok || o.Op != token.MUL || o.X != ld.X {
			continue
		}
		if id.Succs[0].Dominates(b) && len(id.Succs[0].Preds) == 1 {
			return true
		}
	}
	return false
}

// trueVia: on every path from the event to the point `at`, value v is true (or the event's seed).
func (d *flagDisc) trueVia(v ssa.Value, ev flagEvent, at ssa.Instruction, busy map[ssa.Value]bool) (bool, string) {
	if ev.seed != nil && v == ev.seed {
		return true, ""
	}
	if underTrueTestOf(v, ev.in.Block()) {
		return true, "" // the entry is only written when this very flag is already true
	}
	switch x := v.(type) {
	case *ssa.Const:
		if isBoolType(x.Type()) && x.Value != nil && x.Value.ExactString() == "true" {
			return true, ""
		}
		return false, "it is the constant false"
	case *ssa.Phi:
		if busy[x] {
			return true, "" // around a loop: decided by the other edges
		}
		busy[x] = true
		defer delete(busy, x)
		q := x.Block()
		eb := ev.in.Block()
		// was the phi evaluated before the event and not again on some path to the use?
		before := q == eb || reaches(q, eb)
		if before && pathAvoiding(eb, at.Block(), q) {
			return false, fmt.Sprintf("its value (%s) is decided before the entry is written and not updated afterwards", shortVal(x))
		}
		for i, p := range q.Preds {
			if !(p == eb || reaches(eb, p)) {
				continue
			}
			if d.infeasibleAfter(ev, p, busy) {
				continue // only reached when a flag that is true after the event tests false
			}
			last := p.Instrs[len(p.Instrs)-1]
			if ok, why := d.trueVia(x.Edges[i], ev, last, busy); !ok {
				return false, why
			}
		}
		return true, ""
	case *ssa.UnOp:
		if x.Op == token.MUL {
			if busy[x] {
				return false, "the flag is defined in terms of itself"
			}
			busy[x] = true
			defer delete(busy, x)
			return d.cellTrueAt(x.X, ev, x, busy)
		}
	case *ssa.BinOp:
		if x.Op == token.OR {
			if ok, _ := d.trueVia(x.X, ev, at, busy); ok {
				return true, ""
			}
			return d.trueVia(x.Y, ev, at, busy)
		}
	}
	return false, fmt.Sprintf("the flag value %s does not depend on it", shortVal(v))
}

// pathAvoiding: there is a path from block a to block b that does not enter block q (a itself may be q).
func pathAvoiding(a, b, q *ssa.BasicBlock) bool {
	if a == b {
		return true
	}
	seen := map[*ssa.BasicBlock]bool{a: true}
	work := []*ssa.BasicBlock{a}
	for len(work) > 0 {
		x := work[len(work)-1]
		work = work[:len(work)-1]
		for _, s := range x.Succs {
			if s == q || seen[s] {
				continue
			}
			if s == b {
				return true
			}
			seen[s] = true
			work = append(work, s)
		}
	}
	return false
}

// cellTrueAt: on every path from the event to instruction `at`, the last store into the cell wrote true/the seed —
// and there is such a store, unless the event itself settled the cell (closure events).
func (d *flagDisc) cellTrueAt(cell ssa.Value, ev flagEvent, at ssa.Instruction, busy map[ssa.Value]bool) (bool, string) {
	const (
		unset = 0
		set   = 1
	)
	start := unset
	if ev.cell != nil && ev.cell == cell {
		start = set
	}
	if start == unset && !ev.pseudo {
		// the flag may have been raised just before the entry is written ("hasData = true" first, then the map update)
		b, i := ev.in.Block(), instrIndex(ev.in)-1
	back:
		for hops := 0; hops < 4; hops++ {
			for ; i >= 0; i-- {
				if st, ok := b.Instrs[i].(*ssa.Store); ok && st.Addr == cell {
					if k, ok := st.Val.(*ssa.Const); ok && k.Value != nil && k.Value.ExactString() == "true" {
						start = set
					}
					break back
				}
				if _, isCall := b.Instrs[i].(*ssa.Call); isCall && closureArg(b.Instrs[i].(*ssa.Call)) != nil {
					break back
				}
			}
			if len(b.Preds) != 1 {
				break
			}
			b = b.Preds[0]
			i = len(b.Instrs) - 1
		}
	}
	type st struct {
		b     *ssa.BasicBlock
		state int
	}
	// effect of a block range on the state; returns (state, bad reason)
	apply := func(b *ssa.BasicBlock, from, to int, state int) (int, string) {
		for i := from; i < to && i < len(b.Instrs); i++ {
			switch x := b.Instrs[i].(type) {
			case *ssa.Store:
				if x.Addr != cell {
					continue
				}
				if ld, ok := x.Val.(*ssa.UnOp); ok && ld.Op == token.MUL && ld.X == cell {
					continue // cell = cell
				}
				if ok, _ := d.trueVia(x.Val, ev, x, busy); ok {
					state = set
				} else {
					return state, fmt.Sprintf("the flag is overwritten with %s at %s", shortVal(x.Val), d.w.InstrPos(x))
				}
			case *ssa.Call:
				// a closure that captures the cell and stores into it
				if mc := closureArg(x); mc != nil && x != ev.in {
					for bi, bv := range mc.Bindings {
						if bv != cell {
							continue
						}
						g := mc.Fn.(*ssa.Function)
						if storesThroughFreeVar(g, bi) {
							if onlyRaises(g, bi) {
								// the closure only ever stores true: the flag cannot go down
							} else if d.closureSettles(g) == bi && state == unset {
								state = set
							} else {
								return state, fmt.Sprintf("the flag is overwritten inside %s called at %s", funcName(g), d.w.InstrPos(x))
							}
						}
					}
				}
			}
		}
		return state, ""
	}
	eb := ev.in.Block()
	ei := instrIndex(ev.in)
	if ev.pseudo {
		ei = -1
	}
	ab := at.Block()
	ai := instrIndex(at)
	seen := map[st]bool{}
	var work []st
	// first segment: rest of the event's block
	if eb == ab && ei < ai {
		s, bad := apply(eb, ei+1, ai, start)
		if bad != "" {
			return false, bad
		}
		if s != set {
			return false, "no flag update follows it before the flag is read"
		}
	}
	s0, bad := apply(eb, ei+1, len(eb.Instrs), start)
	if bad != "" && (eb != ab || ei >= ai) {
		// a bad store after the event only matters if the use is reachable past it; conservative
		if reachesAnySucc(eb, ab) {
			return false, bad
		}
	}
	for _, s := range eb.Succs {
		work = append(work, st{s, s0})
	}
	for len(work) > 0 {
		cur := work[len(work)-1]
		work = work[:len(work)-1]
		if seen[cur] {
			continue
		}
		seen[cur] = true
		if !(cur.b == ab || reaches(cur.b, ab)) {
			continue
		}
		if cur.b == ab {
			s, bad := apply(cur.b, 0, ai, cur.state)
			if bad != "" {
				return false, bad
			}
			if s != set {
				return false, "a path from it reaches the read of the flag without any flag update"
			}
			// continue past (loops)
		}
		s, bad := apply(cur.b, 0, len(cur.b.Instrs), cur.state)
		if bad != "" {
			// only relevant if the use is still ahead
			ahead := false
			for _, n := range cur.b.Succs {
				if n == ab || reaches(n, ab) {
					ahead = true
				}
			}
			if ahead && cur.b != ab {
				return false, bad
			}
			continue
		}
		for _, n := range cur.b.Succs {
			work = append(work, st{n, s})
		}
	}
	return true, ""
}

func reachesAnySucc(a, b *ssa.BasicBlock) bool {
	for _, s := range a.Succs {
		if s == b || reaches(s, b) {
			return true
		}
	}
	return false
}

func storesThroughFreeVar(g *ssa.Function, idx int) bool {
	if idx >= len(g.FreeVars) {
		return false
	}
	fv := g.FreeVars[idx]
	for _, r := range *fv.Referrers() {
		if s, ok := r.(*ssa.Store); ok && s.Addr == ssa.Value(fv) {
			return true
		}
	}
	return false
}

// flagCandidate: v is a flag-like bool: a phi, a load of a bool cell, the bool result of an event call, a constant.
func (d *flagDisc) flagCandidate(v ssa.Value) bool {
	if !isBoolType(v.Type()) {
		return false
	}
	switch x := v.(type) {
	case *ssa.Phi, *ssa.Const:
		return true
	case *ssa.Extract:
		if call, ok := x.Tuple.(*ssa.Call); ok {
			return d.returnsFlag(d.callPassesMap(call))
		}
	case *ssa.Call:
		return d.returnsFlag(d.callPassesMap(x))
	case *ssa.UnOp:
		if x.Op == token.MUL {
			switch x.X.(type) {
			case *ssa.Alloc, *ssa.FreeVar:
				return true
			}
		}
		if x.Op == token.NOT {
			return d.flagCandidate(x.X)
		}
	}
	return false
}

// checkFlagDiscipline emits one obligation per function of the package that puts entries into a property map and
// reads a flag afterwards. only (optional) restricts the functions judged.
func checkFlagDiscipline(w *World, c *Check, rule string, only func(f *ssa.Function, evs []flagEvent) bool) {
	d := &flagDisc{w: w, writes: map[*ssa.Function]int{}, closCell: map[*ssa.Function]int{}, infBusy: map[*ssa.If]bool{}}
	nEv, nUse, nFn := 0, 0, 0
	funcs := append([]*ssa.Function{}, w.Funcs...)
	sort.Slice(funcs, func(i, j int) bool { return funcName(funcs[i]) < funcName(funcs[j]) })
	for _, f := range funcs {
		evs := d.events(f)
		if len(evs) == 0 {
			continue
		}
		if only != nil && !only(f, evs) {
			continue
		}
		// uses
		type use struct {
			at ssa.Instruction
			v  ssa.Value
		}
		var uses []use
		for _, b := range f.Blocks {
			switch x := b.Instrs[len(b.Instrs)-1].(type) {
			case *ssa.Return:
				if errorReturn(x) || f.Parent() != nil {
					// a closure's own bool result is an ok/failed answer; its flag is the captured one
					continue
				}
				for _, r := range x.Results {
					if isBoolType(r.Type()) && d.flagCandidate(r) {
						uses = append(uses, use{x, r})
					}
				}
			case *ssa.If:
				v := x.Cond
				if n, ok := v.(*ssa.UnOp); ok && n.Op == token.NOT {
					v = n.X
				}
				if d.flagCandidate(v) {
					if _, isConst := v.(*ssa.Const); !isConst {
						// the branch of `flag || more` itself is no read of the flag's verdict: its true side feeds the
						// constant true into the or-value, its false side evaluates `more`; what the or-value is worth is
						// judged where THAT is read
						if !isOrBranch(x, v) {
							uses = append(uses, use{x, v})
						}
					}
				}
			}
		}
		if f.Parent() != nil {
			// a closure: its obligation is that it settles a captured flag; judged where the parent calls it
			if len(uses) == 0 {
				continue
			}
		}
		if len(uses) == 0 {
			continue
		}
		nFn++
		var bad []string
		for _, ev := range evs {
			nEv++
			if g := guardBlockFor(ev); g != nil {
				ev.in = g
				ev.pseudo = true
				ev.what += " (carries data only under the test before " + w.InstrPos(g) + ")"
			}
			// hasData = hasData || c.TotalItems > 0 next to an unconditional write of totalItems: the flag value that
			// or-s in the set-test of the very field the entry carries is true whenever the entry carries data
			orPhi := orTestFor(ev)
			for _, u := range uses {
				if orPhi != nil && flagFlowsFrom(u.v, orPhi, 0, map[ssa.Value]bool{}) {
					continue
				}
				if !instrReaches(ev.in, u.at) {
					continue
				}
				if d.infeasibleAfter(ev, u.at.Block(), map[ssa.Value]bool{}) {
					continue
				}
				// the flag an event call returns is not a use of that same event when branched on directly
				nUse++
				if ok, why := d.trueVia(u.v, ev, u.at, map[ssa.Value]bool{}); !ok {
					bad = append(bad, fmt.Sprintf("%s written at %s, but the flag read at %s may still be false: %s", ev.what, w.InstrPos(ev.in), w.InstrPos(u.at), why))
				}
			}
		}
		if len(bad) > 0 {
			sort.Strings(bad)
			c.bad(rule, funcName(f), w.FuncPos(f), fmt.Sprintf("%s: %s — when this is the only property set, the encoder reports \"no data\" and the entry is thrown away (%d such pairs)", funcName(f), bad[0], len(bad)))
		} else {
			c.ok(rule, funcName(f), w.FuncPos(f), fmt.Sprintf("%d map-writing events, every later read of the flag sees true", len(evs)))
		}
	}
	c.stat(rule+"_events", nEv)
	c.stat(rule+"_event_use_pairs", nUse)
	c.stat(rule+"_functions", nFn)
}

// underTrueTestOf: block b is only reached through the true outcome of a branch on v itself.
func underTrueTestOf(v ssa.Value, b *ssa.BasicBlock) bool {
	for d := b; d != nil; d = d.Idom() {
		id := d.Idom()
		if id == nil {
			break
		}
		iff, ok := id.Instrs[len(id.Instrs)-1].(*ssa.If)
		if !ok {
			continue
		}
		if iff.Cond == v && id.Succs[0].Dominates(b) && len(id.Succs[0].Preds) == 1 {
			return true
		}
		if n, ok := iff.Cond.(*ssa.UnOp); ok && n.Op == token.NOT && n.X == v && id.Succs[1].Dominates(b) && len(id.Succs[1].Preds) == 1 {
			return true
		}
	}
	return false
}

// fieldsBehind collects the struct fields (type, index) whose loads feed v through calls, conversions and extracts.
func fieldsBehind(v ssa.Value, depth int, out map[[2]interface{}]bool) {
	if depth > 6 || v == nil {
		return
	}
	switch x := v.(type) {
	case *ssa.UnOp:
		if fa, ok := x.X.(*ssa.FieldAddr); ok && x.Op == token.MUL {
			out[[2]interface{}{fa.X.Type().String(), fa.Field}] = true
			return
		}
		fieldsBehind(x.X, depth+1, out)
	case *ssa.Field:
		out[[2]interface{}{types.NewPointer(x.X.Type()).String(), x.Field}] = true
	case *ssa.FieldAddr:
		out[[2]interface{}{x.X.Type().String(), x.Field}] = true
	case *ssa.Extract:
		fieldsBehind(x.Tuple, depth+1, out)
	case *ssa.Call:
		for _, a := range x.Call.Args {
			fieldsBehind(a, depth+1, out)
		}
	case *ssa.Convert:
		fieldsBehind(x.X, depth+1, out)
	case *ssa.ChangeType:
		fieldsBehind(x.X, depth+1, out)
	case *ssa.MakeInterface:
		fieldsBehind(x.X, depth+1, out)
	case *ssa.BinOp:
		fieldsBehind(x.X, depth+1, out)
		fieldsBehind(x.Y, depth+1, out)
	}
}

// guardBlockFor: the entry written by ev is not itself under a test of its field, but the function tests the same
// field elsewhere (if c.TotalItems > 0 { hasData = true } … mm["totalItems"] = … unconditionally): the first
// instruction of the block entered when that test holds stands in for the event — the entry only carries data when
// the test holds.
func guardBlockFor(ev flagEvent) ssa.Instruction {
	mu, ok := ev.in.(*ssa.MapUpdate)
	if !ok {
		return nil
	}
	want := map[[2]interface{}]bool{}
	fieldsBehind(mu.Value, 0, want)
	if len(want) != 1 {
		return nil
	}
	f := mu.Parent()
	var found ssa.Instruction
	for _, b := range f.Blocks {
		iff, ok := b.Instrs[len(b.Instrs)-1].(*ssa.If)
		if !ok {
			continue
		}
		got := map[[2]interface{}]bool{}
		fieldsBehind(iff.Cond, 0, got)
		if len(got) != 1 {
			continue
		}
		same := false
		for k := range got {
			same = want[k]
		}
		if !same {
			continue
		}
		t := b.Succs[0]
		if len(t.Preds) != 1 {
			continue
		}
		if t.Dominates(mu.Block()) {
			return nil // the ordinary case: the event sits under its own guard
		}
		if found == nil {
			found = t.Instrs[0]
		}
	}
	return found
}

// infeasibleAfter: block b can only be entered through the false outcome of a branch on a flag value that is true on
// every path from the event to that branch (hasData = hasData || x: the right operand is evaluated only when the
// flag is still false, which it cannot be once the event has raised it).
func (d *flagDisc) infeasibleAfter(ev flagEvent, b *ssa.BasicBlock, busy map[ssa.Value]bool) bool {
	for x := b; x != nil; x = x.Idom() {
		id := x.Idom()
		if id == nil {
			break
		}
		iff, ok := id.Instrs[len(id.Instrs)-1].(*ssa.If)
		if !ok {
			continue
		}
		side := -1
		for si, s := range id.Succs {
			if len(s.Preds) == 1 && (s == b || s.Dominates(b)) {
				side = si
			}
		}
		if side < 0 {
			continue
		}
		cond := iff.Cond
		needTrue := side == 0
		if n, ok := cond.(*ssa.UnOp); ok && n.Op == token.NOT {
			cond = n.X
			needTrue = !needTrue
		}
		if needTrue || !d.flagCandidate(cond) || d.infBusy[iff] {
			continue
		}
		if !instrReaches(ev.in, iff) {
			continue
		}
		if _, isConst := cond.(*ssa.Const); isConst {
			continue
		}
		d.infBusy[iff] = true
		ok2, _ := d.trueVia(cond, ev, iff, busy)
		delete(d.infBusy, iff)
		if ok2 {
			return true
		}
	}
	return false
}

// underAnyErrorTest: block b is only reached through the not-nil outcome of a test of some error value (an error path,
// whatever the function then returns).
func underAnyErrorTest(b *ssa.BasicBlock) bool {
	for d := b; d != nil; d = d.Idom() {
		id := d.Idom()
		if id == nil {
			break
		}
		iff, ok := id.Instrs[len(id.Instrs)-1].(*ssa.If)
		if !ok {
			continue
		}
		bo, ok := iff.Cond.(*ssa.BinOp)
		if !ok || (bo.Op != token.NEQ && bo.Op != token.EQL) {
			continue
		}
		var other ssa.Value
		if isNilConst(bo.Y) {
			other = bo.X
		} else if isNilConst(bo.X) {
			other = bo.Y
		}
		if other == nil || !isErrorType(other.Type()) {
			continue
		}
		side := id.Succs[0]
		if bo.Op == token.EQL {
			side = id.Succs[1]
		}
		if len(side.Preds) == 1 && (side == b || side.Dominates(b)) {
			return true
		}
	}
	return false
}

// returnsFlag: g hands back (…bool…, error): the bool is its "wrote something" flag. A lone bool result is usually an
// ok/failed answer; it counts as a flag only if it is true on every non-error return reachable from g's own events.
func (d *flagDisc) returnsFlag(g *ssa.Function) bool {
	if g == nil || g.Parent() != nil {
		return false
	}
	res := g.Signature.Results()
	hasBool, hasErr := false, false
	for i := 0; i < res.Len(); i++ {
		if isBoolType(res.At(i).Type()) {
			hasBool = true
		}
		if isErrorType(res.At(i).Type()) {
			hasErr = true
		}
	}
	return hasBool && hasErr
}

// onlyRaises: every store the closure makes through its idx-th captured variable writes the constant true.
func onlyRaises(g *ssa.Function, idx int) bool {
	if idx >= len(g.FreeVars) {
		return false
	}
	fv := g.FreeVars[idx]
	for _, r := range *fv.Referrers() {
		if st, ok := r.(*ssa.Store); ok && st.Addr == ssa.Value(fv) {
			k, isC := st.Val.(*ssa.Const)
			if !isC || k.Value == nil || k.Value.ExactString() != "true" {
				return false
			}
		}
	}
	return true
}

// orTestFor: the entry written by ev is written unconditionally, and the function holds a boolean `flag || test` (a
// short-circuit phi with a constant-true way in) whose test reads exactly the field the entry carries; returns that phi.
func orTestFor(ev flagEvent) *ssa.Phi {
	mu, ok := ev.in.(*ssa.MapUpdate)
	if !ok {
		return nil
	}
	want := map[[2]interface{}]bool{}
	fieldsBehind(mu.Value, 0, want)
	if len(want) != 1 {
		return nil
	}
	for _, b := range mu.Parent().Blocks {
		for _, in := range b.Instrs {
			phi, isPhi := in.(*ssa.Phi)
			if !isPhi {
				break
			}
			if bt, isB := types.Unalias(phi.Type()).Underlying().(*types.Basic); !isB || bt.Kind() != types.Bool {
				continue
			}
			hasTrue, hasTest := false, false
			for _, e := range phi.Edges {
				if k, isC := e.(*ssa.Const); isC && k.Value != nil && k.Value.Kind() == constant.Bool && constant.BoolVal(k.Value) {
					hasTrue = true
					continue
				}
				if _, isCmp := e.(*ssa.BinOp); isCmp {
					got := map[[2]interface{}]bool{}
					fieldsBehind(e, 0, got)
					same := len(got) == 1
					for k := range got {
						same = same && want[k]
					}
					if same {
						hasTest = true
					}
				}
			}
			if hasTrue && hasTest {
				return phi
			}
		}
	}
	return nil
}

// flagFlowsFrom: the flag value v is p, or takes p's value on some way in (phis, a local or named result it was stored to).
func flagFlowsFrom(v ssa.Value, p *ssa.Phi, d int, seen map[ssa.Value]bool) bool {
	if v == nil || d > 10 || seen[v] {
		return false
	}
	seen[v] = true
	if v == ssa.Value(p) {
		return true
	}
	switch x := v.(type) {
	case *ssa.Phi:
		for _, e := range x.Edges {
			if flagFlowsFrom(e, p, d+1, seen) {
				return true
			}
		}
	case *ssa.UnOp:
		if al, ok := x.X.(*ssa.Alloc); ok && x.Op == token.MUL {
			for _, st := range storesTo(al) {
				if flagFlowsFrom(st.Val, p, d+1, seen) {
					return true
				}
			}
		}
	}
	return false
}

// isOrBranch: the If is the short-circuit test of `v || rest`: taken, it jumps straight to a join whose phi receives the
// constant true from this block; not taken, it goes to a block that only computes the right operand and joins too.
func isOrBranch(iff *ssa.If, v ssa.Value) bool {
	if iff.Cond != v {
		return false
	}
	b := iff.Block()
	if len(b.Succs) != 2 {
		return false
	}
	join, rhs := b.Succs[0], b.Succs[1]
	if len(rhs.Succs) != 1 || rhs.Succs[0] != join {
		return false
	}
	for _, in := range join.Instrs {
		phi, ok := in.(*ssa.Phi)
		if !ok {
			break
		}
		for pi, p := range join.Preds {
			if p == b && pi < len(phi.Edges) {
				if k, isC := phi.Edges[pi].(*ssa.Const); isC && k.Value != nil && k.Value.Kind() == constant.Bool && constant.BoolVal(k.Value) {
					return true
				}
			}
		}
	}
	return false
}
