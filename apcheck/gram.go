package main

// E9: a path-sensitive abstract interpreter that follows what the JSON encoders write into their buffers.
//
// Every MarshalJSON method of the package is interpreted over go/ssa with unknown field values. A configuration is
// (heap of local cells — buffers with their grammar state, captured booleans — ; the live SSA values of the frame that
// matter: known booleans, byte data with its class and emptiness; facts about access paths such as len(o.Name) > 0).
// Configurations are kept apart (a disjunctive domain), so the correlation between "this call returned true" and
// "this call wrote a member" is not lost, and are merged only when equal on everything still live. Calls to package
// functions and closures are followed (summaries are memoised per abstract input); an interface call of MarshalJSON
// yields "nothing or one complete JSON value" — the induction hypothesis that this very rule establishes for every
// implementation in the package. Nothing is executed.

import (
	"fmt"
	"go/constant"
	"go/token"
	"go/types"
	"os"
	"sort"
	"strings"

	"golang.org/x/tools/go/ssa"
)

type gKind uint8

const (
	gUnknown gKind = iota
	gBool
	gBytes
	gInt
	gByteVal
	gPtr
	gFunc
	gTuple
	gNil
	gErr
	gFloat
	gStruct // a struct value identified only by its access path (Key)
)

type gClass uint8

const (
	clsText  gClass = iota // arbitrary bytes: legal inside a string only
	clsConst               // exactly the bytes in S
	clsSnap                // contents of a buffer whose grammar state is Stack
	clsValue               // nothing, or exactly one complete JSON value (Empty tells which, if known)
	clsLit                 // a non-empty bare literal: integer or boolean text
	clsFloat               // text of a float64: a literal only if the number is finite
)

type tri3 uint8

const (
	triMaybe tri3 = iota
	triYes
	triNo
)

type gcell struct {
	id   string
	root bool // allocated by the function under analysis at depth 0 (a root's own buffer)
}

type gval struct {
	K     gKind
	B     bool // gBool (when Known)
	Known bool
	// refinements applied when an unknown boolean is assumed true / false
	OnTrue, OnFalse []grefine

	Cls   gClass
	S     string // clsConst bytes
	Stack gstack // clsSnap
	Empty tri3   // gBytes / strings: is it empty?
	IsStr bool   // clsValue known to be a JSON string
	FKey  string // clsFloat: access key of the number

	I       int64 // gInt constant (Known), or lower bound (AtLeast)
	AtLeast bool  // gInt: the value is >= I; counters saturate at "2 or more" so that loops reach a fixpoint
	LenOf   *gval // gInt: len(LenOf) + I   (LenOf.K == gBytes)
	LastOf  gstack
	HasLst  bool // gByteVal: last byte of a buffer in state LastOf
	Cell    *gcell
	Fn      *ssa.Function
	Bind    []gval
	Tup     []gval
	Nil     tri3 // gErr / interfaces / pointers
	Key     string
	Dyn     types.Type // dynamic type of an interface value, when the conversion to the interface was seen
}

type grefine struct {
	key  string
	fact gfact
}

type gfact struct {
	empty   tri3
	eq      string
	hasEq   bool
	neq     []string
	isNil   tri3
	notNaN  bool
	notInf  bool
	boolV   tri3
	lenMask uint8 // possible lengths of a slice/string: bit0 len==0, bit1 len==1, bit2 len>=2 (0: nothing known)
}

func (f gfact) String() string {
	return fmt.Sprintf("e%d q%v%q n%v i%d f%v%v b%d l%d", f.empty, f.hasEq, f.eq, f.neq, f.isNil, f.notNaN, f.notInf, f.boolV, f.lenMask)
}

func mergeFact(a, b gfact) gfact {
	if b.empty != triMaybe {
		a.empty = b.empty
	}
	if b.hasEq {
		a.hasEq, a.eq = true, b.eq
	}
	for _, n := range b.neq {
		dup := false
		for _, m := range a.neq {
			if m == n {
				dup = true
			}
		}
		if !dup {
			a.neq = append(append([]string{}, a.neq...), n)
		}
	}
	if b.isNil != triMaybe {
		a.isNil = b.isNil
	}
	a.notNaN = a.notNaN || b.notNaN
	a.notInf = a.notInf || b.notInf
	if b.boolV != triMaybe {
		a.boolV = b.boolV
	}
	if b.lenMask != 0 {
		a.lenMask = b.lenMask
	}
	return a
}

func (v gval) String() string {
	if v.Dyn != nil {
		d := v.Dyn
		v.Dyn = nil
		return v.String() + "~" + d.String()
	}
	switch v.K {
	case gBool:
		if v.Known {
			return fmt.Sprintf("b:%v", v.B)
		}
		return "b:?"
	case gBytes:
		switch v.Cls {
		case clsConst:
			return fmt.Sprintf("c:%q", v.S)
		case clsSnap:
			return fmt.Sprintf("s:%s", string(v.Stack))
		case clsValue:
			return fmt.Sprintf("v:%d%v", v.Empty, v.IsStr)
		case clsLit:
			return "lit"
		case clsFloat:
			return "flt:" + v.FKey
		}
		return fmt.Sprintf("t:%d", v.Empty)
	case gInt:
		if v.LenOf != nil {
			return fmt.Sprintf("len(%s)%+d", v.LenOf.String(), v.I)
		}
		if v.Known {
			return fmt.Sprintf("i:%d", v.I)
		}
		if v.AtLeast {
			return fmt.Sprintf("i>=%d", v.I)
		}
		return "i:?"
	case gByteVal:
		if v.HasLst {
			return "last:" + string(v.LastOf)
		}
		if v.Known {
			return fmt.Sprintf("byte:%d", v.I)
		}
		return "byte?"
	case gPtr:
		if v.Cell != nil {
			return "&" + v.Cell.id
		}
		return "&?"
	case gFunc:
		s := "fn:" + funcName(v.Fn)
		for _, b := range v.Bind {
			s += "," + b.String()
		}
		return s
	case gTuple:
		var ps []string
		for _, t := range v.Tup {
			ps = append(ps, t.String())
		}
		return "(" + strings.Join(ps, ";") + ")"
	case gNil:
		return "nil"
	case gErr:
		return fmt.Sprintf("err:%d", v.Nil)
	case gFloat:
		return "f:" + v.Key
	case gStruct:
		return "st:" + v.Key
	}
	if v.Nil != triMaybe {
		return fmt.Sprintf("?nil%d", v.Nil)
	}
	return "?"
}

// ---- configurations ----

type gconf struct {
	heap  map[*gcell]gval
	env   map[ssa.Value]gval
	facts map[string]gfact
	prev  *ssa.BasicBlock
	trace []string
}

func (c *gconf) clone() *gconf {
	n := &gconf{heap: make(map[*gcell]gval, len(c.heap)), env: make(map[ssa.Value]gval, len(c.env)), facts: make(map[string]gfact, len(c.facts)), prev: c.prev}
	for k, v := range c.heap {
		n.heap[k] = v
	}
	for k, v := range c.env {
		n.env[k] = v
	}
	for k, v := range c.facts {
		n.facts[k] = v
	}
	n.trace = append([]string{}, c.trace...)
	return n
}

func (c *gconf) note(s string) {
	c.trace = append(c.trace, s)
	if len(c.trace) > 8 {
		c.trace = c.trace[len(c.trace)-8:]
	}
}

func heapKey(h map[*gcell]gval) string {
	ks := make([]string, 0, len(h))
	for c, v := range h {
		ks = append(ks, c.id+"="+v.String())
	}
	sort.Strings(ks)
	return strings.Join(ks, "|")
}

// ---- per-function static information (liveness) ----

type gfinfo struct {
	reach     map[*ssa.BasicBlock]map[*ssa.BasicBlock]bool
	useBlocks map[ssa.Value][]*ssa.BasicBlock
	pathUse   map[string][]*ssa.BasicBlock // "valueName.fN" -> blocks that touch that field of the value
	byName    map[string]ssa.Value
}

// defDominates: the definition of v is available on entry to block at (SSA: the defining block strictly dominates
// it, or v is a phi of that very block). Values defined inside a loop body are therefore dead at the loop header.
func defDominates(v ssa.Value, at *ssa.BasicBlock) bool {
	in, ok := v.(ssa.Instruction)
	if !ok {
		return true // parameters, free variables, constants, globals
	}
	db := in.Block()
	if db == nil {
		return true
	}
	if db == at {
		_, isPhi := v.(*ssa.Phi)
		return isPhi
	}
	return db.Dominates(at)
}

func valueID(v ssa.Value) string {
	if v.Parent() != nil {
		return v.Name()
	}
	return v.Name()
}

func (g *gram) info(f *ssa.Function) *gfinfo {
	if fi, ok := g.finfo[f]; ok {
		return fi
	}
	fi := &gfinfo{reach: map[*ssa.BasicBlock]map[*ssa.BasicBlock]bool{}, useBlocks: map[ssa.Value][]*ssa.BasicBlock{}, pathUse: map[string][]*ssa.BasicBlock{}, byName: map[string]ssa.Value{}}
	for _, p := range f.Params {
		fi.byName[p.Name()] = p
	}
	for _, p := range f.FreeVars {
		fi.byName[p.Name()] = p
	}
	for _, b := range f.Blocks {
		r := map[*ssa.BasicBlock]bool{b: true}
		work := []*ssa.BasicBlock{b}
		for len(work) > 0 {
			x := work[len(work)-1]
			work = work[:len(work)-1]
			for _, s := range x.Succs {
				if !r[s] {
					r[s] = true
					work = append(work, s)
				}
			}
		}
		fi.reach[b] = r
	}
	for _, b := range f.Blocks {
		for _, in := range b.Instrs {
			if phi, ok := in.(*ssa.Phi); ok {
				for i, e := range phi.Edges {
					fi.useBlocks[e] = append(fi.useBlocks[e], b.Preds[i])
				}
				continue
			}
			var ops [24]*ssa.Value
			for _, op := range in.Operands(ops[:0]) {
				if op != nil && *op != nil {
					fi.useBlocks[*op] = append(fi.useBlocks[*op], b)
					// a load of a spilled parameter is a use of the parameter (facts are kept under its name)
					if _, isParam := (*op).(*ssa.Parameter); !isParam {
						if root, ok := fi.byName[g.pathKey(*op)]; ok && root != *op {
							if _, isParam := root.(*ssa.Parameter); isParam {
								fi.useBlocks[root] = append(fi.useBlocks[root], b)
							}
						}
					}
				}
			}
			if v, ok := in.(ssa.Value); ok {
				fi.byName[v.Name()] = v
				if k := g.pathKey(v); strings.Contains(k, ".f") {
					// record the two-component prefix root.fN
					parts := strings.SplitN(k, ".f", 3)
					pk := parts[0] + ".f" + parts[1]
					fi.pathUse[pk] = append(fi.pathUse[pk], b)
				}
			}
		}
	}
	g.finfo[f] = fi
	return fi
}

func (fi *gfinfo) liveValue(v ssa.Value, at *ssa.BasicBlock) bool {
	if !defDominates(v, at) {
		return false
	}
	r := fi.reach[at]
	for _, u := range fi.useBlocks[v] {
		if r[u] {
			return true
		}
	}
	return false
}

func (fi *gfinfo) livePath(key string, at *ssa.BasicBlock) bool {
	parts := strings.SplitN(key, ".f", 3)
	if len(parts) < 2 {
		return true
	}
	pk := parts[0] + ".f" + parts[1]
	if root, ok := fi.byName[parts[0]]; ok && !defDominates(root, at) {
		return false
	}
	r := fi.reach[at]
	for _, u := range fi.pathUse[pk] {
		if r[u] {
			return true
		}
	}
	return false
}

// ---- the engine ----

type gramErr struct {
	pos    string
	fn     string
	msg    string
	trace  []string
	chain  string
	lostIn string
}

type gout struct {
	ret  gval
	heap map[*gcell]gval
	tr   []string
	// length classes the callee established for its slice parameters on the way to this return (parameter index ->
	// fact): "returned a plain string only when len(n) == 1" travels back to the caller's name for the argument
	pfacts map[int]gfact
}

func pfactsKey(m map[int]gfact) string {
	if len(m) == 0 {
		return ""
	}
	s := ""
	for i := 0; i < 16; i++ {
		if f, ok := m[i]; ok {
			s += fmt.Sprintf("p%d:l%d;", i, f.lenMask)
		}
	}
	return s
}

type gram struct {
	w          *World
	siteStack  []*ssa.Call       // call sites on the way to the function being interpreted
	keyStart   []*ssa.Call       // the call stack at which the member name being written was opened
	dynKeys    map[string]dynKey // member names written from data (not constants), by innermost loop site
	finfo      map[*ssa.Function]*gfinfo
	memo       map[string][]gout
	busy       map[string]bool
	errs       []gramErr
	errSeen    map[string]bool
	chain      []string
	traceStack [][]string
	cellSeq    int
	steps      int
	maxStep    int
	aborted    string
	// statistics
	nCalls, nMemoHit, nConfigs, nFeeds int
	visited                            map[*ssa.Function]bool
}

type dynKey struct {
	stack []*ssa.Call
	root  string
}

func newGram(w *World) *gram {
	return &gram{dynKeys: map[string]dynKey{}, w: w, finfo: map[*ssa.Function]*gfinfo{}, memo: map[string][]gout{}, busy: map[string]bool{}, errSeen: map[string]bool{}, maxStep: 4000000, visited: map[*ssa.Function]bool{}}
}

func (g *gram) fail(pos, fn, msg string, c *gconf) {
	k := pos + "|" + msg
	if g.errSeen[k] {
		return
	}
	g.errSeen[k] = true
	e := gramErr{pos: pos, fn: fn, msg: msg, chain: strings.Join(g.chain, " → ")}
	for _, t := range g.traceStack {
		e.trace = append(e.trace, t...)
	}
	if c != nil {
		e.trace = append(e.trace, c.trace...)
	}
	g.errs = append(g.errs, e)
}

// pathKey gives a value a name that is stable across the separate Field / FieldAddr+load instructions go/ssa emits
// for each mention of x.f (there is no common-subexpression sharing).
func (g *gram) pathKey(v ssa.Value) string {
	switch x := v.(type) {
	case *ssa.Field:
		return g.pathKey(x.X) + fmt.Sprintf(".f%d", x.Field)
	case *ssa.FieldAddr:
		return g.pathKey(x.X) + fmt.Sprintf(".f%d", x.Field)
	case *ssa.UnOp:
		if x.Op == token.MUL {
			switch a := x.X.(type) {
			case *ssa.FieldAddr:
				return g.pathKey(a)
			case *ssa.Alloc:
				// a spilled parameter / single-assignment local
				if st := storesTo(a); len(st) == 1 {
					if _, isParam := st[0].Val.(*ssa.Parameter); isParam {
						return g.pathKey(st[0].Val)
					}
				}
			}
		}
	case *ssa.ChangeType:
		return g.pathKey(x.X)
	case *ssa.Convert:
		if isStringish(x.Type()) || isByteSlice(x.Type()) {
			if isStringish(x.X.Type()) || isByteSlice(x.X.Type()) {
				return g.pathKey(x.X)
			}
		}
	case *ssa.MakeInterface:
		return g.pathKey(x.X)
	case *ssa.ChangeInterface:
		return g.pathKey(x.X)
	}
	return valueID(v)
}

func constBytes(k *ssa.Const) (string, bool) {
	if k.Value == nil {
		return "", false
	}
	switch k.Value.Kind() {
	case constant.String:
		return constant.StringVal(k.Value), true
	case constant.Int:
		if v, ok := constant.Int64Val(k.Value); ok && v >= 0 && v < 0x110000 {
			if b, ok := types.Unalias(k.Type()).Underlying().(*types.Basic); ok && (b.Kind() == types.Byte || b.Kind() == types.Uint8) {
				return string([]byte{byte(v)}), true
			}
			return string(rune(v)), true
		}
	}
	return "", false
}

func (g *gram) withFacts(c *gconf, v gval) gval {
	if v.Key == "" {
		return v
	}
	f, ok := c.facts[v.Key]
	if !ok {
		return v
	}
	switch v.K {
	case gBytes:
		if f.empty != triMaybe && v.Empty == triMaybe {
			v.Empty = f.empty
		}
		if f.hasEq && v.Cls == clsText {
			v.Cls, v.S = clsConst, f.eq
			if f.eq == "" {
				v.Empty = triYes
			} else {
				v.Empty = triNo
			}
		}
	case gBool:
		if !v.Known && f.boolV != triMaybe {
			v.Known, v.B = true, f.boolV == triYes
		}
	case gErr, gUnknown:
		if f.isNil != triMaybe {
			v.Nil = f.isNil
		}
	}
	return v
}

// val evaluates an operand.
func (g *gram) val(c *gconf, v ssa.Value) gval {
	if r, ok := c.env[v]; ok {
		return g.withFacts(c, r)
	}
	switch x := v.(type) {
	case *ssa.Const:
		t := types.Unalias(x.Type()).Underlying()
		if x.Value == nil {
			if _, isSlice := t.(*types.Slice); isSlice {
				return gval{K: gBytes, Cls: clsConst, S: "", Empty: triYes}
			}
			if isErrorType(x.Type()) {
				return gval{K: gErr, Nil: triYes}
			}
			return gval{K: gNil, Nil: triYes}
		}
		switch x.Value.Kind() {
		case constant.Bool:
			return gval{K: gBool, Known: true, B: constant.BoolVal(x.Value)}
		case constant.String:
			s := constant.StringVal(x.Value)
			e := triNo
			if s == "" {
				e = triYes
			}
			return gval{K: gBytes, Cls: clsConst, S: s, Empty: e}
		case constant.Int:
			i, _ := constant.Int64Val(x.Value)
			if b, ok := t.(*types.Basic); ok && (b.Kind() == types.Byte || b.Kind() == types.Int32) {
				return gval{K: gByteVal, Known: true, I: i}
			}
			return gval{K: gInt, Known: true, I: i}
		case constant.Float:
			return gval{K: gFloat, Key: "const", Known: true}
		}
	case *ssa.Function:
		return gval{K: gFunc, Fn: x}
	case *ssa.Global:
		return gval{K: gPtr}
	case *ssa.Parameter, *ssa.FreeVar:
		return g.withFacts(c, g.unknownOf(x.Type(), g.pathKey(x)))
	}
	return g.withFacts(c, g.unknownOf(v.Type(), g.pathKey(v)))
}

func (g *gram) unknownOf(t types.Type, key string) gval {
	u := types.Unalias(t).Underlying()
	switch x := u.(type) {
	case *types.Basic:
		switch {
		case x.Kind() == types.Bool:
			return gval{K: gBool, Key: key}
		case x.Info()&types.IsString != 0:
			return gval{K: gBytes, Cls: clsText, Key: key}
		case x.Info()&types.IsFloat != 0:
			return gval{K: gFloat, Key: key}
		case x.Kind() == types.Byte, x.Kind() == types.Int32:
			return gval{K: gByteVal, Key: key}
		case x.Info()&types.IsInteger != 0:
			return gval{K: gInt, Key: key}
		}
	case *types.Slice:
		if isByteSlice(t) {
			return gval{K: gBytes, Cls: clsText, Key: key}
		}
	case *types.Struct:
		return gval{K: gStruct, Key: key}
	case *types.Interface:
		if isErrorType(t) {
			return gval{K: gErr, Key: key}
		}
	case *types.Tuple:
		r := gval{K: gTuple}
		for i := 0; i < x.Len(); i++ {
			r.Tup = append(r.Tup, g.unknownOf(x.At(i).Type(), fmt.Sprintf("%s#%d", key, i)))
		}
		return r
	}
	return gval{K: gUnknown, Key: key}
}

func (g *gram) newCell(c *gconf, name string, depth int, init gval) gval {
	g.cellSeq++
	cell := &gcell{id: fmt.Sprintf("%s@%d", name, depth), root: depth == 0}
	c.heap[cell] = init
	return gval{K: gPtr, Cell: cell}
}

func zeroG(t types.Type, key string) gval {
	u := types.Unalias(t).Underlying()
	switch x := u.(type) {
	case *types.Basic:
		switch {
		case x.Kind() == types.Bool:
			return gval{K: gBool, Known: true}
		case x.Info()&types.IsString != 0:
			return gval{K: gBytes, Cls: clsConst, Empty: triYes}
		case x.Info()&types.IsInteger != 0:
			return gval{K: gInt, Known: true}
		}
	case *types.Slice:
		if isByteSlice(t) {
			return gval{K: gBytes, Cls: clsSnap, Stack: "", Empty: triYes}
		}
	case *types.Struct:
		if n := namedOf(t); n != nil && n.Obj().Pkg() != nil && n.Obj().Pkg().Path() == "bytes" && n.Obj().Name() == "Buffer" {
			return gval{K: gBytes, Cls: clsSnap, Stack: "", Empty: triYes}
		}
		return gval{K: gStruct, Key: key}
	case *types.Interface:
		if isErrorType(t) {
			return gval{K: gErr, Nil: triYes}
		}
		return gval{K: gNil, Nil: triYes}
	case *types.Pointer:
		return gval{K: gNil, Nil: triYes}
	}
	return gval{K: gUnknown}
}

// feed appends data to the buffer in state st; it may fork on unknown emptiness. Results: list of (new state, refinement).
type feedOut struct {
	st   gstack
	err  string
	ref  []grefine
	what string
}

func (g *gram) feed(c *gconf, st gstack, data gval) []feedOut {
	g.nFeeds++
	if st.expectsKey() {
		// whatever is written now opens a member name: remember where
		g.keyStart = append(g.keyStart[:0], g.siteStack...)
		if os.Getenv("APCHECK_KEYDEBUG") != "" && len(g.siteStack) > 0 {
			fmt.Printf("KEYDEBUG %s K=%v Cls=%v IsStr=%v Empty=%v S=%q\n", g.w.InstrPos(g.siteStack[len(g.siteStack)-1]), data.K, data.Cls, data.IsStr, data.Empty, data.S)
		}
	}
	switch data.K {
	case gByteVal:
		if data.Known {
			n, e := st.feedByte(byte(data.I))
			return []feedOut{{st: n, err: e, what: fmt.Sprintf("%q", string(rune(data.I)))}}
		}
		n, e := st.feedText()
		return []feedOut{{st: n, err: e, what: "a data byte"}}
	case gBytes:
	default:
		if data.K == gNil {
			return []feedOut{{st: st, what: "nil"}}
		}
		n, e := st.feedText()
		if e != "" {
			e = "data of unknown form: " + e
		}
		return []feedOut{{st: n, err: e, what: "unknown data"}}
	}
	maybe := func(nonEmpty func() feedOut) []feedOut {
		switch data.Empty {
		case triYes:
			return []feedOut{{st: st, what: "nothing (empty)"}}
		case triNo:
			return []feedOut{nonEmpty()}
		}
		a := feedOut{st: st, what: "nothing (empty)"}
		b := nonEmpty()
		if data.Key != "" {
			a.ref = []grefine{{data.Key, gfact{empty: triYes}}}
			b.ref = []grefine{{data.Key, gfact{empty: triNo}}}
		}
		return []feedOut{a, b}
	}
	switch data.Cls {
	case clsConst:
		n, e := st.feedConst(data.S)
		return []feedOut{{st: n, err: e, what: fmt.Sprintf("%q", data.S)}}
	case clsSnap:
		if st.expectsKey() {
			// a member name built in a buffer of its own (jsonQuoted(tag)) and copied in: its bytes came from data
			g.noteDynKey()
		}
		n, e := st.feedSnapshot(data.Stack)
		return []feedOut{{st: n, err: e, what: "buffer[" + string(data.Stack) + "]"}}
	case clsValue:
		if st.expectsKey() && data.IsStr && data.Empty != triYes {
			// a member name that arrives as a ready-made JSON string (b.Write(jsonQuoted(tag))): data-driven as well
			g.noteDynKey()
		}
		return maybe(func() feedOut {
			n, e := st.feedValue(data.IsStr)
			return feedOut{st: n, err: e, what: "a JSON value"}
		})
	case clsLit:
		if st.inString() {
			return []feedOut{{st: st, what: "literal text"}}
		}
		n, e := st.feedValue(false)
		return []feedOut{{st: n, err: e, what: "a literal"}}
	case clsFloat:
		if st.inString() {
			return []feedOut{{st: st, what: "number text"}}
		}
		f := c.facts[data.FKey]
		if !(f.notNaN && f.notInf) {
			return []feedOut{{st: st, err: "the text of a float64 is written as a JSON number without excluding NaN and ±Inf, which are not JSON (the document becomes unparseable)", what: "float text"}}
		}
		n, e := st.feedValue(false)
		return []feedOut{{st: n, err: e, what: "a number"}}
	}
	if st.top() == 'k' && data.Empty != triYes {
		g.noteDynKey()
	}
	return maybe(func() feedOut {
		n, e := st.feedText()
		return feedOut{st: n, err: e, what: "text"}
	})
}

// noteDynKey records that bytes taken from data are being written inside a member name.
func (g *gram) noteDynKey() {
	// the loop that matters is the one around the place where the name was OPENED (the entries loop), not a loop of
	// the escaper that writes its bytes
	st := g.keyStart
	if len(st) == 0 || len(st) > len(g.siteStack) {
		st = g.siteStack
	}
	if len(st) == 0 {
		return
	}
	k := ""
	for _, s := range st {
		k += fmt.Sprintf("%p/", s)
	}
	if _, ok := g.dynKeys[k]; ok {
		return
	}
	root := ""
	if len(g.chain) > 0 {
		root = g.chain[0]
	}
	g.dynKeys[k] = dynKey{stack: append([]*ssa.Call{}, st...), root: root}
}

func applyRefs(c *gconf, refs []grefine) {
	for _, r := range refs {
		c.facts[r.key] = mergeFact(c.facts[r.key], r.fact)
	}
}

// writeTo appends data to the buffer cell; returns the surviving configurations.
func (g *gram) writeTo(c *gconf, cell *gcell, data gval, pos, fn string) []*gconf {
	cur, ok := c.heap[cell]
	if !ok || cur.K != gBytes || cur.Cls != clsSnap {
		return []*gconf{c}
	}
	var out []*gconf
	outs := g.feed(c, cur.Stack, data)
	for i, fo := range outs {
		if fo.err != "" {
			g.fail(pos, fn, fo.err, c)
			continue
		}
		n := c
		if i < len(outs)-1 {
			n = c.clone()
		}
		applyRefs(n, fo.ref)
		nv := cur
		nv.Stack = fo.st
		if fo.st != "" {
			nv.Empty = triNo
		}
		n.heap[cell] = nv
		if fo.st != cur.Stack {
			n.note(fmt.Sprintf("%s: %s wrote %s → %q", pos, fn, fo.what, string(fo.st)))
		}
		out = append(out, n)
	}
	return out
}

// appendVal: the value of append(base, data...).
func (g *gram) appendVal(c *gconf, base, data gval, pos, fn string) []struct {
	v gval
	c *gconf
} {
	type rc = struct {
		v gval
		c *gconf
	}
	if base.K != gBytes || base.Cls != clsSnap {
		if base.K == gBytes && base.Cls == clsConst && base.S == "" || base.K == gNil {
			base = gval{K: gBytes, Cls: clsSnap, Stack: "", Empty: triYes}
		} else {
			return []rc{{gval{K: gBytes, Cls: clsText}, c}}
		}
	}
	var out []rc
	outs := g.feed(c, base.Stack, data)
	for i, fo := range outs {
		if fo.err != "" {
			g.fail(pos, fn, fo.err, c)
			continue
		}
		n := c
		if i < len(outs)-1 {
			n = c.clone()
		}
		applyRefs(n, fo.ref)
		nv := gval{K: gBytes, Cls: clsSnap, Stack: fo.st, Empty: triNo}
		if fo.st == "" {
			nv.Empty = base.Empty
		}
		if fo.st != base.Stack {
			n.note(fmt.Sprintf("%s: %s appended %s → %q", pos, fn, fo.what, string(fo.st)))
		}
		out = append(out, rc{nv, n})
	}
	return out
}
