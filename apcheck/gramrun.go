package main

import (
	"fmt"
	"go/constant"
	"go/token"
	"go/types"
	"os"
	"regexp"
	"sort"
	"strings"

	"golang.org/x/tools/go/ssa"
)

type gframe struct {
	fn    *ssa.Function
	depth int
	bind  []gval
	cells map[*ssa.Alloc]*gcell
	fi    *gfinfo
}

var gcellIntern = map[string]*gcell{}
var gramDebug = os.Getenv("APCHECK_GRAMDEBUG") != ""
var gramTrace = os.Getenv("APCHECK_GRAMTRACE")

func internCell(id string, depth int) *gcell {
	if c, ok := gcellIntern[id]; ok {
		return c
	}
	c := &gcell{id: id, root: depth == 0}
	gcellIntern[id] = c
	return c
}

func cellDepth(c *gcell) int {
	i := strings.LastIndexByte(c.id, '@')
	d := 0
	fmt.Sscanf(c.id[i+1:], "%d", &d)
	return d
}

// invoke interprets fn from the given entry configuration and returns every distinct way it can return.
func (g *gram) invoke(fn *ssa.Function, args []gval, bind []gval, entry *gconf, depth int) []gout {
	g.visited[fn] = true
	fr := &gframe{fn: fn, depth: depth, bind: bind, cells: map[*ssa.Alloc]*gcell{}, fi: g.info(fn)}
	c0 := &gconf{heap: entry.heap, env: map[ssa.Value]gval{}, facts: entry.facts, trace: entry.trace}
	for i, p := range fn.Params {
		if i < len(args) {
			a := args[i]
			a.Key = g.pathKey(p)
			c0.env[p] = a
		}
	}
	for i, fv := range fn.FreeVars {
		if i < len(bind) {
			c0.env[fv] = bind[i]
		}
	}
	type item struct {
		b *ssa.BasicBlock
		c *gconf
	}
	seen := map[*ssa.BasicBlock]map[string]bool{}
	var work []item
	var outs []gout
	outSeen := map[string]bool{}
	push := func(from, to *ssa.BasicBlock, c *gconf) {
		// phis
		if from != nil {
			vals := map[*ssa.Phi]gval{}
			for _, in := range to.Instrs {
				phi, ok := in.(*ssa.Phi)
				if !ok {
					break
				}
				for i, p := range to.Preds {
					if p == from {
						v := g.val(c, phi.Edges[i])
						v.Key = ""
						vals[phi] = v
					}
				}
			}
			for phi, v := range vals {
				c.env[phi] = v
			}
		}
		// prune what is dead from here on
		for v := range c.env {
			if _, isParam := v.(*ssa.Parameter); isParam {
				continue
			}
			if _, isFV := v.(*ssa.FreeVar); isFV {
				continue
			}
			if phi, ok := v.(*ssa.Phi); ok && phi.Block() == to {
				continue
			}
			if !fr.fi.liveValue(v, to) {
				delete(c.env, v)
			}
		}
		for k, f := range c.facts {
			if !fr.fi.liveKey(k, to) {
				// the length class of a slice parameter is kept to the end: it is reported back to the caller
				if f.lenMask != 0 && f.lenMask != 7 {
					if _, isParam := fr.fi.byName[k].(*ssa.Parameter); isParam {
						c.facts[k] = gfact{lenMask: f.lenMask, empty: f.empty}
						continue
					}
				}
				delete(c.facts, k)
			}
		}
		key := g.confKey(c)
		if seen[to] == nil {
			seen[to] = map[string]bool{}
		}
		if seen[to][key] {
			return
		}
		seen[to][key] = true
		g.nConfigs++
		if gramDebug && len(seen[to]) == 200 {
			fmt.Printf("GRAMDEBUG %s block %d has 200 configs; sample:\n", funcName(fn), to.Index)
			n := 0
			for k := range seen[to] {
				fmt.Printf("   %s\n", k)
				if n++; n > 4 {
					break
				}
			}
		}
		work = append(work, item{to, c})
	}
	push(nil, fn.Blocks[0], c0)
	for len(work) > 0 && g.aborted == "" {
		it := work[len(work)-1]
		work = work[:len(work)-1]
		cs := []*gconf{it.c}
		for _, in := range it.b.Instrs {
			if _, isPhi := in.(*ssa.Phi); isPhi {
				continue
			}
			g.steps += len(cs)
			if g.steps > g.maxStep {
				g.aborted = "step bound exceeded in " + funcName(fn)
				break
			}
			switch x := in.(type) {
			case *ssa.If:
				for _, c := range cs {
					cond := g.val(c, x.Cond)
					if cond.K == gBool && cond.Known {
						if cond.B {
							push(it.b, it.b.Succs[0], c)
						} else {
							push(it.b, it.b.Succs[1], c)
						}
						continue
					}
					t, f := c.clone(), c
					applyRefs(t, cond.OnTrue)
					applyRefs(f, cond.OnFalse)
					t.env[x.Cond] = gval{K: gBool, Known: true, B: true}
					f.env[x.Cond] = gval{K: gBool, Known: true, B: false}
					push(it.b, it.b.Succs[0], t)
					push(it.b, it.b.Succs[1], f)
				}
				cs = nil
			case *ssa.Jump:
				for _, c := range cs {
					push(it.b, it.b.Succs[0], c)
				}
				cs = nil
			case *ssa.Return:
				for _, c := range cs {
					var r gval
					switch len(x.Results) {
					case 0:
						r = gval{K: gTuple}
					case 1:
						r = g.val(c, x.Results[0])
					default:
						r = gval{K: gTuple}
						for _, res := range x.Results {
							r.Tup = append(r.Tup, g.val(c, res))
						}
					}
					var pf map[int]gfact
					for i, p := range fn.Params {
						if f, ok := c.facts[g.pathKey(p)]; ok && f.lenMask != 0 && f.lenMask != 7 {
							if pf == nil {
								pf = map[int]gfact{}
							}
							pf[i] = gfact{lenMask: f.lenMask, empty: f.empty}
						}
					}
					k := r.String() + "||" + heapKey(c.heap) + "||" + pfactsKey(pf)
					if !outSeen[k] {
						outSeen[k] = true
						outs = append(outs, gout{ret: r, heap: c.heap, tr: c.trace, pfacts: pf})
					}
				}
				cs = nil
			case *ssa.Panic:
				cs = nil
			default:
				cs = g.step(fr, cs, in)
				if gramTrace != "" && strings.Contains(funcName(fn), gramTrace) {
					for _, c := range cs {
						if v, ok := in.(ssa.Value); ok {
							fmt.Printf("GRAMTRACE %s b%d %s = %s key=%q  heap{%s} facts%v\n", funcName(fn), it.b.Index, v.Name(), c.env[v].String(), c.env[v].Key, heapKey(c.heap), c.facts)
						} else {
							fmt.Printf("GRAMTRACE %s b%d %s   heap{%s}\n", funcName(fn), it.b.Index, in.String(), heapKey(c.heap))
						}
					}
				}
			}
			if cs == nil {
				break
			}
		}
	}
	return outs
}

func (fi *gfinfo) liveKey(k string, at *ssa.BasicBlock) bool {
	if strings.Contains(k, ".f") {
		return fi.livePath(k, at)
	}
	root := k
	if i := strings.IndexByte(k, '#'); i >= 0 {
		root = k[:i]
	}
	v, ok := fi.byName[root]
	if !ok {
		return false
	}
	return fi.liveValue(v, at)
}

func (g *gram) confKey(c *gconf) string {
	var parts []string
	for v, a := range c.env {
		parts = append(parts, v.Name()+"="+a.String())
	}
	for k, f := range c.facts {
		parts = append(parts, "F"+k+"="+f.String())
	}
	sort.Strings(parts)
	return heapKey(c.heap) + "##" + strings.Join(parts, "|")
}

// step executes one non-terminator instruction on every configuration.
func (g *gram) step(fr *gframe, cs []*gconf, in ssa.Instruction) []*gconf {
	pos := g.w.InstrPos(in)
	fn := funcName(fr.fn)
	switch x := in.(type) {
	case *ssa.DebugRef, *ssa.RunDefers, *ssa.Defer, *ssa.Go, *ssa.Send, *ssa.MapUpdate:
		return cs
	case *ssa.Alloc:
		cell := fr.cells[x]
		if cell == nil {
			cell = internCell(fmt.Sprintf("%s.%s@%d", fn, x.Name(), fr.depth), fr.depth)
			fr.cells[x] = cell
		}
		for _, c := range cs {
			c.heap[cell] = zeroG(derefType(x.Type()), g.pathKey(x))
			c.env[x] = gval{K: gPtr, Cell: cell}
		}
		return cs
	case *ssa.Store:
		for _, c := range cs {
			a := g.val(c, x.Addr)
			if a.K == gPtr && a.Cell != nil {
				v := g.val(c, x.Val)
				if k, isK := x.Val.(*ssa.Const); isK && k.Value == nil {
					v = zeroG(k.Type(), "")
				}
				c.heap[a.Cell] = v
			}
		}
		return cs
	case *ssa.Call:
		return g.call(fr, cs, x)
	}
	v, ok := in.(ssa.Value)
	if !ok {
		return cs
	}
	var out []*gconf
	for _, c := range cs {
		for _, r := range g.eval(fr, c, v, pos, fn) {
			r.c.env[v] = r.v
			out = append(out, r.c)
		}
	}
	return out
}

type gres struct {
	v gval
	c *gconf
}

func one(v gval, c *gconf) []gres { return []gres{{v, c}} }

func (g *gram) eval(fr *gframe, c *gconf, v ssa.Value, pos, fn string) []gres {
	switch x := v.(type) {
	case *ssa.UnOp:
		switch x.Op {
		case token.MUL:
			a := g.val(c, x.X)
			if a.K == gPtr && a.Cell != nil {
				if cur, ok := c.heap[a.Cell]; ok {
					return one(g.withFacts(c, cur), c)
				}
			}
			if a.K == gPtr && a.HasLst {
				return one(gval{K: gByteVal, HasLst: true, LastOf: a.LastOf}, c)
			}
			return one(g.withFacts(c, g.unknownOf(x.Type(), g.pathKey(x))), c)
		case token.NOT:
			a := g.val(c, x.X)
			if a.K == gBool {
				if a.Known {
					return one(gval{K: gBool, Known: true, B: !a.B}, c)
				}
				return one(gval{K: gBool, OnTrue: a.OnFalse, OnFalse: a.OnTrue}, c)
			}
			return one(gval{K: gBool}, c)
		case token.SUB:
			a := g.val(c, x.X)
			if a.K == gInt && a.Known && a.LenOf == nil {
				return one(gval{K: gInt, Known: true, I: -a.I}, c)
			}
		}
		return one(g.unknownOf(x.Type(), ""), c)
	case *ssa.BinOp:
		return one(g.binop(c, x), c)
	case *ssa.FreeVar:
		return one(g.val(c, x), c)
	case *ssa.Convert:
		a := g.val(c, x.X)
		if a.K == gBytes && (isStringish(x.Type()) || isByteSlice(x.Type())) {
			return one(a, c)
		}
		if (a.K == gInt || a.K == gByteVal) && !isStringish(x.Type()) {
			if b, ok := types.Unalias(x.Type()).Underlying().(*types.Basic); ok && b.Info()&types.IsInteger != 0 {
				return one(a, c)
			}
		}
		if a.K == gFloat {
			if b, ok := types.Unalias(x.Type()).Underlying().(*types.Basic); ok && b.Info()&types.IsFloat != 0 {
				return one(a, c)
			}
		}
		return one(g.unknownOf(x.Type(), g.pathKey(x)), c)
	case *ssa.ChangeType:
		return one(g.val(c, x.X), c)
	case *ssa.MakeInterface:
		a := g.val(c, x.X)
		a.Dyn = x.X.Type()
		return one(a, c)
	case *ssa.ChangeInterface:
		return one(g.val(c, x.X), c)
	case *ssa.TypeAssert:
		a := g.val(c, x.X)
		okv := gval{K: gBool}
		if a.Dyn != nil {
			var ok bool
			if it, isI := types.Unalias(x.AssertedType).Underlying().(*types.Interface); isI {
				ok = types.Implements(a.Dyn, it)
			} else {
				ok = types.Identical(a.Dyn, x.AssertedType)
			}
			okv = gval{K: gBool, Known: true, B: ok}
		} else if a.K == gNil {
			okv = gval{K: gBool, Known: true, B: false}
		}
		res := a
		if _, isI := types.Unalias(x.AssertedType).Underlying().(*types.Interface); !isI {
			res.Dyn = nil
		}
		if x.CommaOk {
			return one(gval{K: gTuple, Tup: []gval{res, okv}}, c)
		}
		return one(res, c)
	case *ssa.Extract:
		t := g.val(c, x.Tuple)
		if t.K == gTuple && x.Index < len(t.Tup) {
			e := t.Tup[x.Index]
			if e.Key == "" {
				e.Key = g.pathKey(x)
			}
			return one(g.withFacts(c, e), c)
		}
		return one(g.withFacts(c, g.unknownOf(x.Type(), g.pathKey(x))), c)
	case *ssa.MakeClosure:
		f := gval{K: gFunc, Fn: x.Fn.(*ssa.Function)}
		for _, b := range x.Bindings {
			f.Bind = append(f.Bind, g.val(c, b))
		}
		return one(f, c)
	case *ssa.MakeSlice:
		if isByteSlice(x.Type()) {
			if l := g.val(c, x.Len); l.K == gInt && l.Known && l.LenOf == nil && l.I == 0 {
				return one(gval{K: gBytes, Cls: clsSnap, Stack: "", Empty: triYes}, c)
			}
			return one(gval{K: gBytes, Cls: clsText}, c)
		}
		return one(g.unknownOf(x.Type(), ""), c)
	case *ssa.IndexAddr:
		base := g.val(c, x.X)
		idx := g.val(c, x.Index)
		if base.K == gBytes && base.Cls == clsSnap && idx.K == gInt && idx.LenOf != nil && idx.I == -1 && idx.LenOf.Cls == clsSnap && idx.LenOf.Stack == base.Stack {
			return one(gval{K: gPtr, HasLst: true, LastOf: base.Stack}, c)
		}
		return one(gval{K: gPtr, Key: g.pathKey(x)}, c)
	case *ssa.Slice:
		return g.slice(fr, c, x, pos, fn)
	case *ssa.Field, *ssa.FieldAddr:
		if fa, ok := v.(*ssa.FieldAddr); ok {
			return one(gval{K: gPtr, Key: g.pathKey(fa)}, c)
		}
		return one(g.withFacts(c, g.unknownOf(v.Type(), g.pathKey(v))), c)
	}
	return one(g.withFacts(c, g.unknownOf(v.Type(), g.pathKey(v))), c)
}

func (g *gram) slice(fr *gframe, c *gconf, x *ssa.Slice, pos, fn string) []gres {
	if elems, ok := variadicElems(x); ok && x.Low == nil && x.High == nil {
		allConst := true
		var sb strings.Builder
		for _, e := range elems {
			k, isK := e.(*ssa.Const)
			if !isK {
				allConst = false
				break
			}
			s, ok := constBytes(k)
			if !ok {
				allConst = false
				break
			}
			sb.WriteString(s)
		}
		if allConst {
			e := triNo
			if sb.Len() == 0 {
				e = triYes
			}
			return one(gval{K: gBytes, Cls: clsConst, S: sb.String(), Empty: e}, c)
		}
		if len(elems) == 1 {
			ev := g.val(c, elems[0])
			if ev.K == gByteVal {
				return one(ev, c)
			}
		}
		return one(gval{K: gBytes, Cls: clsText, Empty: triNo}, c)
	}
	// make([]byte, 0[, cap]) with constant sizes is an array allocation sliced to length 0
	if al, ok := x.X.(*ssa.Alloc); ok && isByteSlice(x.Type()) {
		if arr, ok := derefType(al.Type()).Underlying().(*types.Array); ok {
			zeroLen := arr.Len() == 0
			if k, ok := x.High.(*ssa.Const); ok && k.Value != nil && k.Int64() == 0 {
				zeroLen = true
			}
			if zeroLen {
				return one(gval{K: gBytes, Cls: clsSnap, Stack: "", Empty: triYes}, c)
			}
		}
	}
	base := g.val(c, x.X)
	if base.K == gBytes && base.Cls == clsSnap && x.Low == nil && x.High != nil {
		hi := g.val(c, x.High)
		if hi.K == gInt && hi.LenOf != nil && hi.LenOf.Cls == clsSnap {
			switch {
			case hi.I == -1 && hi.LenOf.Stack == base.Stack:
				n, e := base.Stack.trunc1()
				if e != "" {
					g.fail(pos, fn, e, c)
					return nil
				}
				c.note(fmt.Sprintf("%s: %s cut the last byte → %q", pos, fn, string(n)))
				return one(gval{K: gBytes, Cls: clsSnap, Stack: n, Empty: triMaybe}, c)
			case hi.I == 0:
				// back to a length taken earlier: the buffer has only grown since, so its text is the one it had then
				c.note(fmt.Sprintf("%s: %s rolled the buffer back → %q", pos, fn, string(hi.LenOf.Stack)))
				return one(gval{K: gBytes, Cls: clsSnap, Stack: hi.LenOf.Stack, Empty: hi.LenOf.Empty}, c)
			}
		}
		g.fail(pos, fn, "the buffer is cut at a position the analysis cannot relate to what was written (undecided)", c)
		return nil
	}
	if base.K == gBytes {
		return one(gval{K: gBytes, Cls: clsText}, c)
	}
	return one(g.unknownOf(x.Type(), ""), c)
}

func cmpInt(op token.Token, a, b int64) bool {
	switch op {
	case token.EQL:
		return a == b
	case token.NEQ:
		return a != b
	case token.LSS:
		return a < b
	case token.LEQ:
		return a <= b
	case token.GTR:
		return a > b
	case token.GEQ:
		return a >= b
	}
	return false
}

func (g *gram) binop(c *gconf, x *ssa.BinOp) gval {
	l, r := g.val(c, x.X), g.val(c, x.Y)
	op := x.Op
	isCmp := op == token.EQL || op == token.NEQ || op == token.LSS || op == token.LEQ || op == token.GTR || op == token.GEQ
	if !isCmp {
		// arithmetic on lengths
		if l.K == gInt && r.K == gInt && (op == token.ADD || op == token.SUB) {
			// counters: exact while small, then "2 or more" (saturating, so every loop reaches a fixpoint)
			if r.Known && r.LenOf == nil && l.LenOf == nil && (l.Known || l.AtLeast) {
				d := r.I
				if op == token.SUB {
					d = -d
				}
				n := gval{K: gInt, Known: l.Known, AtLeast: l.AtLeast, I: l.I + d}
				if n.I > 2 || (n.AtLeast && n.I >= 2) {
					n = gval{K: gInt, AtLeast: true, I: 2}
				}
				return n
			}
			if r.Known && r.LenOf == nil && l.LenOf != nil {
				n := l
				if op == token.ADD {
					n.I += r.I
				} else {
					n.I -= r.I
				}
				n.Key = ""
				return n
			}
			if l.Known && l.LenOf == nil && r.LenOf != nil && op == token.ADD {
				n := r
				n.I += l.I
				n.Key = ""
				return n
			}
		}
		if op == token.ADD && l.K == gBytes && r.K == gBytes {
			// string concatenation
			if l.Cls == clsConst && r.Cls == clsConst {
				v := gval{K: gBytes, Cls: clsConst, S: l.S + r.S, Empty: triNo}
				if v.S == "" {
					v.Empty = triYes
				}
				return v
			}
			e := triMaybe
			if l.Empty == triNo || r.Empty == triNo {
				e = triNo
			} else if l.Empty == triYes && r.Empty == triYes {
				e = triYes
			}
			return gval{K: gBytes, Cls: clsText, Empty: e}
		}
		return g.unknownOf(x.Type(), "")
	}
	// normalise: constant on the right
	if (l.K == gInt || l.K == gByteVal) && l.Known && l.LenOf == nil && !(r.Known && r.LenOf == nil) {
		l, r = r, l
		op = flipOp(op)
	}
	if l.K == gNil || (l.K == gBytes && l.Cls == clsConst && !(r.K == gBytes && r.Cls == clsConst)) {
		l, r = r, l
		op = flipOp(op)
	}
	switch {
	case l.K == gBool && r.K == gBool && l.Known && r.Known && (op == token.EQL || op == token.NEQ):
		return gval{K: gBool, Known: true, B: (l.B == r.B) == (op == token.EQL)}
	case l.K == gInt && r.K == gInt && r.Known && r.LenOf == nil:
		if l.Known && l.LenOf == nil {
			return gval{K: gBool, Known: true, B: cmpInt(op, l.I, r.I)}
		}
		if l.AtLeast && l.LenOf == nil {
			switch {
			case (op == token.GTR || op == token.NEQ) && l.I > r.I, op == token.GEQ && l.I >= r.I:
				return gval{K: gBool, Known: true, B: true}
			case (op == token.LEQ || op == token.EQL) && l.I > r.I, op == token.LSS && l.I >= r.I:
				return gval{K: gBool, Known: true, B: false}
			}
			return gval{K: gBool}
		}
		if l.LenOf != nil {
			k := r.I - l.I // len(v) op k
			d := l.LenOf
			if d.Cls == clsSnap {
				min, max := d.Stack.lenRange()
				lo := cmpInt(op, int64(min), k)
				if max >= 0 {
					if max == min {
						return gval{K: gBool, Known: true, B: lo}
					}
				} else {
					// unbounded above: decided when the answer is the same for every length >= min
					switch op {
					case token.GTR, token.GEQ, token.NEQ:
						if lo && (op != token.NEQ || int64(min) > k) {
							return gval{K: gBool, Known: true, B: true}
						}
					case token.LSS, token.LEQ, token.EQL:
						if !lo && int64(min) > k {
							return gval{K: gBool, Known: true, B: false}
						}
					}
				}
				return gval{K: gBool}
			}
			if d.Key != "" && d.Cls != clsConst {
				// length classes: 0, 1, 2 or more
				cur := uint8(7)
				if f, ok := c.facts[d.Key]; ok {
					if f.lenMask != 0 {
						cur = f.lenMask
					}
					switch f.empty {
					case triYes:
						cur &= 1
					case triNo:
						cur &= 6
					}
				}
				switch d.Empty {
				case triYes:
					cur &= 1
				case triNo:
					cur &= 6
				}
				var tm, fm uint8
				for n := int64(0); n < 2; n++ {
					if cmpInt(op, n, k) {
						tm |= 1 << uint(n)
					} else {
						fm |= 1 << uint(n)
					}
				}
				for _, n := range []int64{2, k - 1, k, k + 1, 1 << 40} {
					if n < 2 {
						continue
					}
					if cmpInt(op, n, k) {
						tm |= 4
					} else {
						fm |= 4
					}
				}
				tm &= cur
				fm &= cur
				switch {
				case cur == 0:
					// contradictory facts: leave the comparison open
				case tm == 0:
					return gval{K: gBool, Known: true, B: false}
				case fm == 0:
					return gval{K: gBool, Known: true, B: true}
				default:
					mk := func(m uint8) gfact {
						f := gfact{lenMask: m}
						if m == 1 {
							f.empty = triYes
						} else if m&1 == 0 {
							f.empty = triNo
						}
						return f
					}
					return gval{K: gBool, OnTrue: []grefine{{d.Key, mk(tm)}}, OnFalse: []grefine{{d.Key, mk(fm)}}}
				}
			}
			// emptiness tests: which truth value says "empty"?
			emptyTruth, isEmptyTest := false, false
			switch {
			case (op == token.EQL && k == 0) || (op == token.LEQ && k == 0) || (op == token.LSS && k == 1):
				emptyTruth, isEmptyTest = true, true
			case (op == token.NEQ && k == 0) || (op == token.GTR && k == 0) || (op == token.GEQ && k == 1):
				emptyTruth, isEmptyTest = false, true
			}
			if isEmptyTest {
				switch d.Empty {
				case triYes:
					return gval{K: gBool, Known: true, B: emptyTruth}
				case triNo:
					return gval{K: gBool, Known: true, B: !emptyTruth}
				}
				if d.Key != "" {
					te, fe := gfact{empty: triYes}, gfact{empty: triNo}
					if !emptyTruth {
						te, fe = fe, te
					}
					return gval{K: gBool, OnTrue: []grefine{{d.Key, te}}, OnFalse: []grefine{{d.Key, fe}}}
				}
			}
			if d.Empty == triYes {
				return gval{K: gBool, Known: true, B: cmpInt(op, 0, k)}
			}
		}
		return gval{K: gBool}
	case l.K == gByteVal && (r.K == gByteVal || r.K == gInt) && r.Known:
		if l.Known {
			return gval{K: gBool, Known: true, B: cmpInt(op, l.I, r.I)}
		}
		if l.HasLst && (op == token.EQL || op == token.NEQ) && r.I >= 0 && r.I < 256 {
			if eq, known := l.LastOf.lastByteIs(byte(r.I)); known {
				return gval{K: gBool, Known: true, B: eq == (op == token.EQL)}
			}
		}
		return gval{K: gBool}
	case l.K == gBytes && r.K == gBytes && r.Cls == clsConst && (op == token.EQL || op == token.NEQ):
		if l.Cls == clsConst {
			return gval{K: gBool, Known: true, B: (l.S == r.S) == (op == token.EQL)}
		}
		if r.S == "" && l.Empty != triMaybe {
			return gval{K: gBool, Known: true, B: (l.Empty == triYes) == (op == token.EQL)}
		}
		if r.S != "" && l.Empty == triYes {
			return gval{K: gBool, Known: true, B: op == token.NEQ}
		}
		if l.Key != "" {
			if f, ok := c.facts[l.Key]; ok {
				for _, n := range f.neq {
					if n == r.S {
						return gval{K: gBool, Known: true, B: op == token.NEQ}
					}
				}
			}
			eqF := gfact{hasEq: true, eq: r.S}
			neF := gfact{neq: []string{r.S}}
			if r.S == "" {
				eqF.empty, neF.empty = triYes, triNo
			} else {
				eqF.empty = triNo
			}
			if op == token.EQL {
				return gval{K: gBool, OnTrue: []grefine{{l.Key, eqF}}, OnFalse: []grefine{{l.Key, neF}}}
			}
			return gval{K: gBool, OnTrue: []grefine{{l.Key, neF}}, OnFalse: []grefine{{l.Key, eqF}}}
		}
		return gval{K: gBool}
	case r.K == gNil && (op == token.EQL || op == token.NEQ):
		n := l.Nil
		if l.K == gNil {
			n = triYes
		}
		if l.K == gPtr && l.Cell != nil {
			n = triNo
		}
		if l.K == gBytes && l.Cls == clsSnap {
			n = triMaybe
			if l.Stack != "" {
				n = triNo
			}
		}
		if n != triMaybe {
			return gval{K: gBool, Known: true, B: (n == triYes) == (op == token.EQL)}
		}
		if l.Key != "" {
			y, no := gfact{isNil: triYes}, gfact{isNil: triNo}
			if op == token.EQL {
				return gval{K: gBool, OnTrue: []grefine{{l.Key, y}}, OnFalse: []grefine{{l.Key, no}}}
			}
			return gval{K: gBool, OnTrue: []grefine{{l.Key, no}}, OnFalse: []grefine{{l.Key, y}}}
		}
		return gval{K: gBool}
	case (l.K == gErr || r.K == gErr) && (op == token.EQL || op == token.NEQ):
		if l.K != gErr {
			l, r = r, l
		}
		if r.K == gErr && r.Nil == triYes || r.K == gNil {
			if l.Nil != triMaybe {
				return gval{K: gBool, Known: true, B: (l.Nil == triYes) == (op == token.EQL)}
			}
			if l.Key != "" {
				y, no := gfact{isNil: triYes}, gfact{isNil: triNo}
				if op == token.EQL {
					return gval{K: gBool, OnTrue: []grefine{{l.Key, y}}, OnFalse: []grefine{{l.Key, no}}}
				}
				return gval{K: gBool, OnTrue: []grefine{{l.Key, no}}, OnFalse: []grefine{{l.Key, y}}}
			}
		}
		return gval{K: gBool}
	}
	return gval{K: gBool}
}

// ---- calls ----

func isMarshalJSONSig(sig *types.Signature) bool {
	if sig.Params().Len() != 0 || sig.Results().Len() != 2 {
		return false
	}
	return isByteSlice(sig.Results().At(0).Type()) && isErrorType(sig.Results().At(1).Type())
}

func (g *gram) call(fr *gframe, cs []*gconf, x *ssa.Call) []*gconf {
	cc := x.Common()
	pos := g.w.InstrPos(x)
	fn := funcName(fr.fn)
	var out []*gconf
	for _, c := range cs {
		var args []gval
		for _, a := range cc.Args {
			args = append(args, g.val(c, a))
		}
		var results []gres
		switch {
		case cc.IsInvoke():
			if cc.Method.Name() == "MarshalJSON" && isMarshalJSONSig(cc.Method.Type().(*types.Signature)) {
				k := g.pathKey(x)
				results = one(gval{K: gTuple, Tup: []gval{{K: gBytes, Cls: clsValue, Key: k + "#0"}, {K: gErr, Key: k + "#1"}}}, c)
			} else {
				results = one(g.unknownOf(x.Type(), g.pathKey(x)), c)
			}
		default:
			switch callee := cc.Value.(type) {
			case *ssa.Builtin:
				results = g.builtin(fr, c, x, callee, args, pos, fn)
			case *ssa.Function:
				results = g.callFn(fr, c, x, callee, args, nil, pos, fn)
			default:
				fv := g.val(c, cc.Value)
				if fv.K == gFunc && fv.Fn != nil {
					results = g.callFn(fr, c, x, fv.Fn, args, fv.Bind, pos, fn)
				} else {
					g.escape(c, args, pos, fn)
					results = one(g.unknownOf(x.Type(), g.pathKey(x)), c)
				}
			}
		}
		for _, r := range results {
			r.c.env[x] = r.v
			out = append(out, r.c)
		}
	}
	return out
}

func (g *gram) builtin(fr *gframe, c *gconf, x *ssa.Call, b *ssa.Builtin, args []gval, pos, fn string) []gres {
	switch b.Name() {
	case "len":
		if len(args) == 1 && args[0].K == gBytes {
			a := args[0]
			if a.Cls == clsConst {
				return one(gval{K: gInt, Known: true, I: int64(len(a.S))}, c)
			}
			return one(gval{K: gInt, LenOf: &a}, c)
		}
		if len(args) == 1 && args[0].K == gUnknown && args[0].Key != "" {
			// a slice the analysis only knows by name: its length class (0, 1, 2 or more) is tracked as a fact
			a := args[0]
			return one(gval{K: gInt, LenOf: &a}, c)
		}
		return one(gval{K: gInt}, c)
	case "append":
		if len(args) == 2 && isByteSlice(x.Type()) {
			var out []gres
			for _, r := range g.appendVal(c, args[0], args[1], pos, fn) {
				out = append(out, gres{r.v, r.c})
			}
			return out
		}
	}
	return one(g.unknownOf(x.Type(), ""), c)
}

// escape: a tracked buffer is handed to code the analysis does not follow.
func (g *gram) escape(c *gconf, args []gval, pos, fn string) {
	for _, a := range args {
		if a.K == gPtr && a.Cell != nil {
			if cur, ok := c.heap[a.Cell]; ok && cur.K == gBytes && cur.Cls == clsSnap {
				c.heap[a.Cell] = gval{K: gBytes, Cls: clsText}
				c.note(pos + ": " + fn + " hands the buffer to code that is not followed")
			}
		}
		if a.K == gFunc {
			g.escape(c, a.Bind, pos, fn)
		}
	}
}

func interesting(v gval, heap map[*gcell]gval, depth int) bool {
	if depth > 4 {
		return false
	}
	switch v.K {
	case gPtr:
		if v.Cell == nil {
			return false
		}
		cur, ok := heap[v.Cell]
		if !ok {
			return false
		}
		if cur.K == gBytes && cur.Cls == clsSnap {
			return true
		}
		if cur.K == gBool {
			return true
		}
		return interesting(cur, heap, depth+1)
	case gFunc:
		for _, b := range v.Bind {
			if interesting(b, heap, depth+1) {
				return true
			}
		}
	}
	return false
}

func returnsBytes(f *ssa.Function) bool {
	res := f.Signature.Results()
	for i := 0; i < res.Len(); i++ {
		if isByteSlice(res.At(i).Type()) {
			return true
		}
	}
	return false
}

func visibleCells(vs []gval, heap map[*gcell]gval, into map[*gcell]bool) {
	for _, v := range vs {
		switch v.K {
		case gPtr:
			if v.Cell != nil && !into[v.Cell] {
				into[v.Cell] = true
				if cur, ok := heap[v.Cell]; ok {
					visibleCells([]gval{cur}, heap, into)
				}
			}
		case gFunc:
			visibleCells(v.Bind, heap, into)
		case gTuple:
			visibleCells(v.Tup, heap, into)
		}
	}
}

func (g *gram) callFn(fr *gframe, c *gconf, site *ssa.Call, callee *ssa.Function, args, bind []gval, pos, fn string) []gres {
	if callee.Blocks == nil || !(g.w.InPkg(callee) || (callee.Origin() != nil && g.w.InPkg(callee.Origin())) || callee.Synthetic != "") {
		return g.external(fr, c, site, callee, args, pos, fn)
	}
	if deref, ok := lenGetterFn(callee); ok && len(args) == 1 {
		a := args[0]
		if deref {
			if a.K == gPtr && a.Cell != nil {
				if cur, ok := c.heap[a.Cell]; ok {
					a = cur
				} else {
					a = gval{}
				}
			} else {
				a = gval{}
			}
		}
		a = g.withFacts(c, a)
		if a.K == gBytes && a.Cls == clsConst {
			return one(gval{K: gInt, Known: true, I: int64(len(a.S))}, c)
		}
		if (a.K == gBytes || a.K == gUnknown) && a.Key != "" {
			return one(gval{K: gInt, LenOf: &a}, c)
		}
		return one(gval{K: gInt}, c)
	}
	g.checkTermKind(c, args, pos, fn)
	relevant := returnsBytes(callee)
	if smallIntFn(callee) {
		// a small length/count getter written in some other shape: followed, so that len comparisons on its result
		// still refine the length class of the slice behind it
		relevant = true
	}
	for _, a := range args {
		if interesting(a, c.heap, 0) {
			relevant = true
		}
		// type predicates on a value whose dynamic type is known are decided by following them
		if a.Dyn != nil && callee.Signature.Results().Len() == 1 && isBoolType(callee.Signature.Results().At(0).Type()) {
			relevant = true
		}
	}
	onChain := 0
	for _, n := range g.chain {
		if n == funcName(callee) {
			onChain++
		}
	}
	if relevant && onChain >= 2 {
		// recursion the analysis cannot bound: treat as code that is not followed
		g.escape(c, args, pos, fn)
		g.escape(c, bind, pos, fn)
		return one(g.unknownOf(site.Type(), g.pathKey(site)), c)
	}
	for _, b := range bind {
		if interesting(b, c.heap, 0) {
			relevant = true
		}
	}
	if !relevant {
		return one(g.unknownOf(site.Type(), g.pathKey(site)), c)
	}
	if fr.depth > 40 {
		g.fail(pos, fn, "call depth bound reached (undecided)", c)
		return nil
	}
	g.nCalls++
	// facts about the arguments travel with them
	facts := map[string]gfact{}
	for i, p := range callee.Params {
		if i >= len(args) || args[i].Key == "" {
			continue
		}
		ak, pk := args[i].Key, g.pathKey(p)
		for k, f := range c.facts {
			if k == ak {
				facts[pk] = f
			} else if strings.HasPrefix(k, ak+".") || strings.HasPrefix(k, ak+"#") {
				facts[pk+k[len(ak):]] = f
			}
		}
	}
	// memo: abstract inputs restricted to what the callee can see
	vis := map[*gcell]bool{}
	visibleCells(args, c.heap, vis)
	visibleCells(bind, c.heap, vis)
	var kp []string
	kp = append(kp, fmt.Sprintf("%p", callee), fmt.Sprint(fr.depth+1))
	for _, a := range args {
		a.Key = ""
		kp = append(kp, a.String())
	}
	for _, b := range bind {
		kp = append(kp, "B"+b.String())
	}
	var hk []string
	for cell := range vis {
		hk = append(hk, cell.id+"="+c.heap[cell].String())
	}
	sort.Strings(hk)
	var fk []string
	for k, f := range facts {
		fk = append(fk, k+"="+f.String())
	}
	sort.Strings(fk)
	key := strings.Join(kp, ",") + "|" + strings.Join(hk, ",") + "|" + strings.Join(fk, ",")
	outs, hit := g.memo[key]
	if hit {
		g.nMemoHit++
	} else {
		if g.busy[key] {
			return one(g.unknownOf(site.Type(), g.pathKey(site)), c)
		}
		g.busy[key] = true
		entryHeap := map[*gcell]gval{}
		for cell := range vis {
			if v, ok := c.heap[cell]; ok {
				entryHeap[cell] = v
			}
		}
		g.chain = append(g.chain, funcName(callee))
		g.traceStack = append(g.traceStack, tail(c.trace, 3))
		g.siteStack = append(g.siteStack, site)
		entry := &gconf{heap: entryHeap, facts: facts}
		raw := g.invoke(callee, args, bind, entry, fr.depth+1)
		g.siteStack = g.siteStack[:len(g.siteStack)-1]
		g.chain = g.chain[:len(g.chain)-1]
		g.traceStack = g.traceStack[:len(g.traceStack)-1]
		delete(g.busy, key)
		// keep only what the caller can see
		outs = nil
		seen := map[string]bool{}
		for _, o := range raw {
			h := map[*gcell]gval{}
			for cell, v := range o.heap {
				if vis[cell] {
					h[cell] = v
				}
			}
			k := o.ret.String() + "||" + heapKey(h) + "||" + pfactsKey(o.pfacts)
			if seen[k] {
				continue
			}
			seen[k] = true
			outs = append(outs, gout{ret: o.ret, heap: h, tr: o.tr, pfacts: o.pfacts})
		}
		g.memo[key] = outs
	}
	var res []gres
	for i, o := range outs {
		n := c
		if i < len(outs)-1 {
			n = c.clone()
		}
		for cell, v := range o.heap {
			n.heap[cell] = v
		}
		for _, t := range o.tr {
			n.note(t)
		}
		for i, f := range o.pfacts {
			if i < len(args) && args[i].Key != "" {
				n.facts[args[i].Key] = mergeFact(n.facts[args[i].Key], f)
			}
		}
		r := o.ret
		if r.K == gTuple && len(r.Tup) == 0 {
			r = gval{K: gUnknown}
		}
		r = rekey(r, g.pathKey(site))
		res = append(res, gres{r, n})
	}
	return res
}

// rekey gives a callee's result the caller-side name of the call, so that later tests (len(v) > 0, err == nil) can
// record what they learn.
func rekey(v gval, key string) gval {
	if v.K == gTuple {
		n := v
		n.Tup = make([]gval, len(v.Tup))
		for i, t := range v.Tup {
			n.Tup[i] = rekey(t, fmt.Sprintf("%s#%d", key, i))
		}
		return n
	}
	v.Key = key
	return v
}

var litFormat = regexp.MustCompile(`^(%d|%t)$`)

func (g *gram) external(fr *gframe, c *gconf, site *ssa.Call, callee *ssa.Function, args []gval, pos, fn string) []gres {
	full := callee.Name()
	if callee.Object() != nil && callee.Object().Pkg() != nil {
		full = callee.Object().Pkg().Path() + "." + callee.Name()
		if recv := callee.Signature.Recv(); recv != nil {
			if n := namedOf(recv.Type()); n != nil {
				full = callee.Object().Pkg().Path() + "." + n.Obj().Name() + "." + callee.Name()
			}
		}
	}
	key := g.pathKey(site)
	bufCell := func() *gcell {
		if len(args) > 0 && args[0].K == gPtr && args[0].Cell != nil {
			return args[0].Cell
		}
		return nil
	}
	switch full {
	case "bytes.Buffer.Write", "bytes.Buffer.WriteString", "bytes.Buffer.WriteByte", "bytes.Buffer.WriteRune":
		cell := bufCell()
		if cell == nil || len(args) < 2 {
			return one(g.unknownOf(site.Type(), key), c)
		}
		data := args[1]
		var out []gres
		// the write itself is a site: a member name written directly in the function under interpretation has no other
		g.siteStack = append(g.siteStack, site)
		written := g.writeTo(c, cell, data, pos, fn)
		g.siteStack = g.siteStack[:len(g.siteStack)-1]
		for _, n := range written {
			var r gval
			if callee.Name() == "WriteByte" {
				r = gval{K: gErr, Nil: triYes}
			} else {
				ln := gval{K: gInt}
				if data.K == gBytes {
					d := g.withFacts(n, data)
					ln = gval{K: gInt, LenOf: &d}
				} else if data.K == gByteVal {
					ln = gval{K: gInt, Known: true, I: 1}
				}
				r = gval{K: gTuple, Tup: []gval{ln, {K: gErr, Nil: triYes}}}
			}
			out = append(out, gres{r, n})
		}
		return out
	case "bytes.Buffer.Bytes", "bytes.Buffer.String":
		if cell := bufCell(); cell != nil {
			if cur, ok := c.heap[cell]; ok {
				return one(cur, c)
			}
		}
	case "bytes.Buffer.Len":
		if cell := bufCell(); cell != nil {
			if cur, ok := c.heap[cell]; ok && cur.K == gBytes {
				return one(gval{K: gInt, LenOf: &cur}, c)
			}
		}
	case "bytes.Buffer.Reset":
		if cell := bufCell(); cell != nil {
			c.heap[cell] = gval{K: gBytes, Cls: clsSnap, Stack: "", Empty: triYes}
			return one(gval{K: gUnknown}, c)
		}
	case "fmt.Sprintf":
		if len(args) >= 1 && args[0].K == gBytes && args[0].Cls == clsConst && litFormat.MatchString(args[0].S) {
			return one(gval{K: gBytes, Cls: clsLit, Empty: triNo}, c)
		}
		return one(gval{K: gBytes, Cls: clsText, Key: key}, c)
	case "strconv.AppendFloat", "strconv.FormatFloat":
		fi := 0
		if callee.Name() == "AppendFloat" {
			fi = 1
		}
		if len(args) > fi {
			// the text of a finite number is a JSON literal; finiteness must have been established on this path
			if f := c.facts[args[fi].Key]; args[fi].Key != "" && f.notNaN && f.notInf {
				return one(gval{K: gBytes, Cls: clsLit, Empty: triNo}, c)
			}
			return one(gval{K: gBytes, Cls: clsFloat, FKey: args[fi].Key, Empty: triNo}, c)
		}
	case "strconv.AppendInt", "strconv.FormatInt", "strconv.Itoa", "strconv.FormatBool", "strconv.AppendBool", "strconv.FormatUint", "strconv.AppendUint":
		return one(gval{K: gBytes, Cls: clsLit, Empty: triNo}, c)
	case "math.IsNaN":
		if len(args) == 1 && args[0].Key != "" {
			return one(gval{K: gBool, OnFalse: []grefine{{args[0].Key, gfact{notNaN: true}}}}, c)
		}
	case "math.IsInf":
		if len(args) == 2 && args[0].Key != "" && args[1].K == gInt && args[1].Known && args[1].I == 0 {
			return one(gval{K: gBool, OnFalse: []grefine{{args[0].Key, gfact{notInf: true}}}}, c)
		}
	case "encoding/json.Marshal":
		return one(gval{K: gTuple, Tup: []gval{{K: gBytes, Cls: clsValue, Key: key + "#0"}, {K: gErr, Key: key + "#1"}}}, c)
	}
	g.escape(c, args, pos, fn)
	return one(g.unknownOf(site.Type(), key), c)
}

var _ = constant.MakeBool

// ---- roots ----

type gramRootResult struct {
	fn       *ssa.Function
	exits    int
	valid    int
	byClass  map[string][]string // problem class -> findings
	problems []string            // grammar findings attributed to this root
	lost     []string            // members written, then nothing returned
	ppos     string
	lpos     string
}

type gramReport struct {
	dynKeys  []dynKey
	roots    []*gramRootResult
	visited  int
	stats    map[string]int
	aborted  string
	entrySts map[string]map[string]bool
}

// marshalRoots: every MarshalJSON method with the json.Marshaler signature declared in the package.
func marshalRoots(w *World) []*ssa.Function {
	var out []*ssa.Function
	for _, f := range w.Funcs {
		if f.Parent() != nil || f.Synthetic != "" || f.Name() != "MarshalJSON" || f.Signature.Recv() == nil {
			continue
		}
		if !isMarshalJSONSig(types.NewSignatureType(nil, nil, nil, f.Signature.Params(), f.Signature.Results(), false)) {
			continue
		}
		out = append(out, f)
	}
	sort.Slice(out, func(i, j int) bool { return funcName(out[i]) < funcName(out[j]) })
	return out
}

var gramCache = map[*World]*gramReport{}

func runGram(w *World) *gramReport {
	if r, ok := gramCache[w]; ok {
		return r
	}
	rep := &gramReport{stats: map[string]int{}}
	g := newGram(w)
	for _, root := range marshalRoots(w) {
		rr := &gramRootResult{fn: root, ppos: w.FuncPos(root), lpos: w.FuncPos(root), byClass: map[string][]string{}}
		nErr := len(g.errs)
		g.chain = []string{funcName(root)}
		var args []gval
		for _, p := range root.Params {
			args = append(args, g.unknownOf(p.Type(), g.pathKey(p)))
		}
		entry := &gconf{heap: map[*gcell]gval{}, facts: map[string]gfact{}}
		outs := g.invoke(root, args, nil, entry, 0)
		rr.exits = len(outs)
		for _, o := range outs {
			ret := o.ret
			if ret.K == gTuple && len(ret.Tup) >= 1 {
				ret = ret.Tup[0]
			}
			empty := false
			switch {
			case ret.K == gNil:
				empty = true
				rr.valid++
			case ret.K == gBytes && ret.Cls == clsConst && ret.S == "":
				empty = true
				rr.valid++
			case ret.K == gBytes && ret.Cls == clsSnap:
				st := ret.Stack.dropLit()
				switch st {
				case "":
					empty = true
					rr.valid++
				case "D", "Ds":
					rr.valid++
				case "Dm":
					rr.byClass["bare-member"] = append(rr.byClass["bare-member"], fmt.Sprintf("%s can return a bare member (\"name\":value) that is not a JSON value; last writes: %s", funcName(root), strings.Join(tail(o.tr, 3), " | ")))
				default:
					rr.byClass["incomplete-result"] = append(rr.byClass["incomplete-result"], fmt.Sprintf("%s can return a text that is not a complete JSON value: at the end %s; last writes: %s", funcName(root), st.describe(), strings.Join(tail(o.tr, 4), " | ")))
				}
			case ret.K == gBytes && ret.Cls == clsValue, ret.K == gBytes && ret.Cls == clsLit:
				rr.valid++
			case ret.K == gBytes && ret.Cls == clsConst:
				if st, e := gstack("").feedConst(ret.S); e == "" && (st.dropLit() == "D" || st.dropLit() == "Ds") {
					rr.valid++
				} else {
					rr.byClass["incomplete-result"] = append(rr.byClass["incomplete-result"], fmt.Sprintf("%s returns the constant %q, which is not a JSON value", funcName(root), ret.S))
				}
			default:
				rr.byClass["undecided"] = append(rr.byClass["undecided"], fmt.Sprintf("%s returns bytes whose form the analysis cannot establish (%s) (undecided); last writes: %s", funcName(root), ret.String(), strings.Join(tail(o.tr, 4), " | ")))
			}
			if empty {
				// C01.W-lost: was a member written into one of the root's own buffers and then dropped?
				for cell, v := range o.heap {
					if cell.root && v.K == gBytes && v.Cls == clsSnap && strings.ContainsAny(string(v.Stack), "ME") {
						rr.lost = append(rr.lost, fmt.Sprintf("%s can return nothing although properties were already written into its buffer (%s); last writes: %s", funcName(root), v.Stack.describe(), strings.Join(tail(o.tr, 4), " | ")))
					}
				}
			}
		}
		for _, e := range g.errs[nErr:] {
			cls := "invalid-write"
			if strings.Contains(e.msg, "undecided") {
				cls = "undecided"
			}
			if strings.Contains(e.msg, "language-map term") {
				cls = "term-kind"
			}
			rr.byClass[cls] = append(rr.byClass[cls], fmt.Sprintf("%s (in %s at %s; reached via %s; last writes: %s)", e.msg, e.fn, e.pos, e.chain, strings.Join(tail(e.trace, 5), " | ")))
			if rr.ppos == w.FuncPos(root) {
				rr.ppos = e.pos
			}
		}
		if len(outs) == 0 && len(g.errs) == nErr {
			rr.byClass["undecided"] = append(rr.byClass["undecided"], funcName(root)+" has no analysable return path (undecided)")
		}
		rep.roots = append(rep.roots, rr)
		// a finding inside a shared helper is reported once per distinct message; let later roots see it again
		g.errSeen = map[string]bool{}
		g.memo = map[string][]gout{}
	}
	rep.visited = len(g.visited)
	rep.aborted = g.aborted
	for _, k := range sortedKeys(g.dynKeys) {
		rep.dynKeys = append(rep.dynKeys, g.dynKeys[k])
	}
	rep.stats["grammar_functions_interpreted"] = len(g.visited)
	rep.stats["grammar_calls_followed"] = g.nCalls
	rep.stats["grammar_configurations"] = g.nConfigs
	rep.stats["grammar_writes"] = g.nFeeds
	rep.stats["grammar_steps"] = g.steps
	gramCache[w] = rep
	return rep
}

func tail(s []string, n int) []string {
	if len(s) > n {
		return s[len(s)-n:]
	}
	return s
}

func checkGrammar(w *World, c *Check, rule string) {
	rep := runGram(w)
	c.floor(rule, 20)
	for k, v := range rep.stats {
		c.stat(k, v)
	}
	if rep.aborted != "" {
		c.bad(rule, "engine", "-", "the grammar interpretation was cut short: "+rep.aborted)
	}
	for _, rr := range rep.roots {
		key := funcName(rr.fn)
		if len(rr.byClass) > 0 {
			for _, cls := range sortedKeys(rr.byClass) {
				c.bad(rule, key+":"+cls, rr.ppos, strings.Join(uniq(rr.byClass[cls]), " ;; "))
			}
		} else {
			c.ok(rule, key, w.FuncPos(rr.fn), fmt.Sprintf("%d distinct ways to return, each empty or exactly one JSON value; every write keeps the buffer a prefix of a JSON text", rr.exits))
		}
	}
}

func checkWrittenThenLost(w *World, c *Check, rule string) {
	rep := runGram(w)
	c.floor(rule, 20)
	for _, rr := range rep.roots {
		key := funcName(rr.fn)
		if len(rr.lost) > 0 {
			c.bad(rule, key, rr.lpos, strings.Join(uniq(rr.lost), " ;; "))
		} else {
			c.ok(rule, key, w.FuncPos(rr.fn), "no path returns nothing after a property was written")
		}
	}
}

// lenGetterFn: every return of f (one parameter, one integer result) is the constant 0 or (a conversion of) the length
// of the parameter (deref: of what the pointer parameter points to).
func lenGetterFn(f *ssa.Function) (deref bool, ok bool) {
	if f == nil || f.Blocks == nil || len(f.Params) != 1 || f.Signature.Results().Len() != 1 || len(f.Blocks) > 4 {
		return false, false
	}
	if b, isB := types.Unalias(f.Signature.Results().At(0).Type()).Underlying().(*types.Basic); !isB || b.Info()&types.IsInteger == 0 {
		return false, false
	}
	_, deref = types.Unalias(f.Params[0].Type()).Underlying().(*types.Pointer)
	n := 0
	for _, rb := range returnBlocks(f) {
		ret := rb.Instrs[len(rb.Instrs)-1].(*ssa.Return)
		v := ret.Results[0]
		if k, isC := v.(*ssa.Const); isC && k.Value != nil && k.Int64() == 0 {
			continue
		}
		if cv, isCv := v.(*ssa.Convert); isCv {
			v = cv.X
		}
		inner, isLen := lenOperand(v)
		if !isLen {
			return false, false
		}
		if deref {
			ld, isLd := inner.(*ssa.UnOp)
			if !isLd || ld.Op != token.MUL || ld.X != ssa.Value(f.Params[0]) {
				return false, false
			}
		} else if inner != ssa.Value(f.Params[0]) {
			return false, false
		}
		n++
	}
	return deref, n > 0
}

// checkTermKind: a call hands over a member name ending in "Map" (the JSON-LD language-map form of a natural-language
// property: nameMap, contentMap, …) together with a complete value that is a JSON string. The Map term announces an
// object keyed by language; a consumer that sees "nameMap":"hello" drops or misreads the text.
func (g *gram) checkTermKind(c *gconf, args []gval, pos, fn string) {
	name := ""
	for _, a := range args {
		if a.K == gBytes && a.Cls == clsConst && len(a.S) > 3 && strings.HasSuffix(a.S, "Map") {
			name = a.S
		}
	}
	if name == "" {
		return
	}
	for _, a := range args {
		if a.K == gBytes && ((a.Cls == clsSnap && a.Stack.dropLit() == "Ds") || (a.Cls == clsValue && a.IsStr)) {
			g.fail(pos, fn, fmt.Sprintf("the language-map term %q is written with a plain JSON string as its value (the Map form must carry an object keyed by language)", name), c)
		}
	}
}

// smallIntFn: one integer result, at most six blocks, no calls other than builtins: cheap to follow.
func smallIntFn(f *ssa.Function) bool {
	if f == nil || f.Blocks == nil || len(f.Blocks) > 6 || f.Signature.Results().Len() != 1 || len(f.Params) == 0 {
		return false
	}
	b, ok := types.Unalias(f.Signature.Results().At(0).Type()).Underlying().(*types.Basic)
	if !ok || b.Info()&types.IsInteger == 0 {
		return false
	}
	usesLen := false
	for _, blk := range f.Blocks {
		for _, in := range blk.Instrs {
			if call, isCall := in.(ssa.CallInstruction); isCall {
				bi, isBuiltin := call.Common().Value.(*ssa.Builtin)
				if !isBuiltin {
					return false
				}
				if bi.Name() == "len" {
					usesLen = true
				}
			}
		}
	}
	return usesLen
}

// checkDynamicNames (C02.dup:dynamic): member names that come from data (the language tags of a language map) are
// written in a loop over the entries. "No object repeats a member name" then needs a test, inside that loop and before
// the write, that relates the entry's key to the keys of the OTHER entries: a lookup in a map of names already written,
// an inner scan over the earlier entries, or a helper that is given the collection and the key. Without one, a value
// holding the same tag twice (Append does not de-duplicate; a document with a repeated key decodes to such a value) is
// written as {"en":"a","en":"b"}.
func checkDynamicNames(w *World, c *Check, rule string) {
	rep := runGram(w)
	seen := map[*ssa.Call]bool{}
	n := 0
	for _, dk := range rep.dynKeys {
		// innermost call site on the stack that sits in a loop of its function
		var site *ssa.Call
		for i := len(dk.stack) - 1; i >= 0; i-- {
			cs := dk.stack[i]
			if len(loopHeaders(cs.Parent())[cs.Block()]) > 0 {
				site = cs
				break
			}
		}
		if site == nil || seen[site] {
			continue
		}
		seen[site] = true
		n++
		f := site.Parent()
		key := funcName(f) + ":dynamic-names"
		// the names are the name column of a local literal table the loop ranges over: constants, one per row
		tableNames := ""
		for _, a := range site.Common().Args {
			if rows, nf, _, isRow := literalTableRowsOf(unwrap(a)); isRow && len(rows) > 0 && isStringish(a.Type()) {
				distinct, seenN := true, map[string]bool{}
				for _, row := range rows {
					nm, isC := constString(row[nf])
					if !isC || seenN[nm] {
						distinct = false
					}
					seenN[nm] = true
				}
				if distinct {
					tableNames = fmt.Sprintf("%d distinct constant names of a literal table", len(rows))
				}
			}
		}
		if tableNames != "" {
			c.ok(rule, key, w.InstrPos(site), "member names are "+tableNames)
			continue
		}
		if how := nameTransformedAt(w, site); how != "" {
			c.bad(rule, key, w.InstrPos(site), fmt.Sprintf("%s writes member names that are a transformation of the entry's name (%s) while the test that keeps names apart compares the names as they are: two entries whose names differ only in what the transformation removes (letter case) are written under one and the same member name", funcName(f), how))
		} else if why := dedupGuard(w, site); why != "" {
			c.ok(rule, key, w.InstrPos(site), "member names taken from data are written under "+why)
		} else {
			c.bad(rule, key, w.InstrPos(site), fmt.Sprintf("%s writes member names taken from data in a loop (reached from %s) without relating the entry's name to the names of the other entries: a value that holds the same name twice is written as an object that repeats a member name", funcName(f), dk.root))
		}
	}
	c.stat("dynamic_member_name_loops", n)
}

// dedupGuard: a branch inside the loop around site, dominating it, whose condition depends on a map lookup, on a value
// computed by an inner loop, or on a package call that is given an element-derived value together with the ranged
// collection. Returns a description or "".
func dedupGuard(w *World, site *ssa.Call) string {
	f := site.Parent()
	lh := loopHeaders(f)
	var h *ssa.BasicBlock
	for cand := range lh[site.Block()] {
		if h == nil || len(loopBody(lh, cand)) < len(loopBody(lh, h)) {
			h = cand
		}
	}
	if h == nil {
		return ""
	}
	for _, g := range rawGuards(site.Block()) {
		if !lh[g.block][h] {
			continue
		}
		found := ""
		seen := map[ssa.Value]bool{}
		var walk func(v ssa.Value, d int)
		walk = func(v ssa.Value, d int) {
			if v == nil || d > 12 || seen[v] || found != "" {
				return
			}
			seen[v] = true
			switch x := v.(type) {
			case *ssa.Lookup:
				if _, isMap := types.Unalias(x.X.Type()).Underlying().(*types.Map); isMap {
					found = "a lookup in a map of names"
				}
			case *ssa.Extract:
				walk(x.Tuple, d+1)
			case *ssa.UnOp:
				walk(x.X, d+1)
			case *ssa.BinOp:
				walk(x.X, d+1)
				walk(x.Y, d+1)
			case *ssa.Phi:
				// a value computed by a loop nested inside ours (scan over the other entries)?
				for hh := range lh[x.Block()] {
					if hh != h && lh[hh][h] {
						found = "a scan over the other entries"
					}
				}
				for _, e := range x.Edges {
					walk(e, d+1)
				}
				for _, p := range x.Block().Preds {
					if iff, ok := p.Instrs[len(p.Instrs)-1].(*ssa.If); ok {
						for hh := range lh[p] {
							if hh != h && lh[hh][h] {
								found = "a scan over the other entries"
							}
						}
						walk(iff.Cond, d+1)
					}
				}
			case *ssa.Call:
				cal := x.Common().StaticCallee()
				if cal != nil && w.InPkg(cal) {
					hasColl := false
					for _, a := range x.Common().Args {
						if _, isSlice := types.Unalias(a.Type()).Underlying().(*types.Slice); isSlice && !isByteSlice(a.Type()) {
							hasColl = true
						}
					}
					if hasColl {
						found = "a test by " + funcName(cal) + " against the collection"
						return
					}
				}
				for _, a := range x.Common().Args {
					walk(a, d+1)
				}
			}
		}
		walk(g.cond, 0)
		if found != "" {
			return found
		}
	}
	return ""
}

// nameTransformedAt: the text handed to the write at site is the data as it is — seen through conversions, package
// functions that hand their argument back, and quoting helpers that pass their argument to the escaper — or the result
// of something that rewrites it (strings.ToLower, a String() method that normalises). Returns a description of the
// rewriting step, "" when there is none.
func nameTransformedAt(w *World, site *ssa.Call) string {
	esc := w.Func("stringBytes")
	pr := newProver(w)
	var quotes func(g *ssa.Function, d int) int // index of the parameter g passes on to the escaper, -1 if none
	quotes = func(g *ssa.Function, d int) int {
		if g == nil || g.Blocks == nil || d > 2 {
			return -1
		}
		for _, call := range callsIn(g) {
			cal := call.Common().StaticCallee()
			if cal == nil {
				continue
			}
			for _, a := range call.Common().Args {
				for pi, p := range g.Params {
					if isSameText(pr, a, p, 0) && (cal == esc || quotes(cal, d+1) >= 0) {
						return pi
					}
				}
			}
		}
		return -1
	}
	var trace func(v ssa.Value, d int) string
	trace = func(v ssa.Value, d int) string {
		if v == nil || d > 10 {
			return ""
		}
		v = unwrap(v)
		call, ok := v.(*ssa.Call)
		if !ok {
			return ""
		}
		cal := call.Common().StaticCallee()
		if cal == nil {
			return ""
		}
		if !w.InPkg(cal) {
			if cal.Object() != nil && cal.Object().Pkg() != nil {
				switch cal.Object().Pkg().Path() {
				case "strings", "bytes", "unicode", "golang.org/x/text/cases":
					for _, a := range call.Common().Args {
						if isStringish(a.Type()) || isByteSlice(a.Type()) {
							return extName(cal)
						}
					}
				}
			}
			return ""
		}
		sum := symReturns(pr, cal, 0, map[*ssa.Function]bool{})
		allParam := len(sum) > 0
		for _, sv := range sum {
			if sv.kind != "param" {
				allParam = false
			}
		}
		if allParam {
			for _, sv := range sum {
				if sv.param < len(call.Common().Args) {
					if how := trace(call.Common().Args[sv.param], d+1); how != "" {
						return how
					}
				}
			}
			return ""
		}
		if qi := quotes(cal, 0); qi >= 0 && qi < len(call.Common().Args) {
			return trace(call.Common().Args[qi], d+1)
		}
		// a package function that computes the text: look at what it returns
		for _, rb := range returnBlocks(cal) {
			ret := rb.Instrs[len(rb.Instrs)-1].(*ssa.Return)
			for _, r := range ret.Results {
				if how := trace(r, d+1); how != "" {
					return funcName(cal) + " → " + how
				}
			}
		}
		return ""
	}
	for _, a := range site.Common().Args {
		if isStringish(a.Type()) || isByteSlice(a.Type()) {
			if how := trace(a, 0); how != "" {
				return how
			}
		}
	}
	return ""
}

// textRewrittenBy: v (a text) is the result of something that rewrites text — a strings/bytes/unicode function, directly
// or inside the package functions that produced it; "" when it is data seen through conversions, identity helpers and
// quoting helpers only.
func textRewrittenBy(w *World, v ssa.Value) string {
	pr := newProver(w)
	var trace func(v ssa.Value, d int) string
	trace = func(v ssa.Value, d int) string {
		if v == nil || d > 10 {
			return ""
		}
		v = unwrap(v)
		switch x := v.(type) {
		case *ssa.Phi:
			for _, e := range x.Edges {
				if how := trace(e, d+1); how != "" {
					return how
				}
			}
			return ""
		case *ssa.UnOp:
			if al, ok := x.X.(*ssa.Alloc); ok && x.Op == token.MUL {
				for _, st := range storesTo(al) {
					if how := trace(st.Val, d+1); how != "" {
						return how
					}
				}
			}
			return ""
		case *ssa.Call:
			cal := x.Common().StaticCallee()
			if cal == nil {
				return ""
			}
			if !w.InPkg(cal) {
				if cal.Object() != nil && cal.Object().Pkg() != nil {
					switch cal.Object().Pkg().Path() {
					case "strings", "bytes", "unicode", "golang.org/x/text/cases", "mime", "net/url", "path", "path/filepath", "html", "net/textproto", "unicode/utf8", "golang.org/x/text/unicode/norm":
						// accumulators hand back what was written into them: not a rewriting
						if cal.Signature.Recv() != nil {
							if n := namedOf(cal.Signature.Recv().Type()); n != nil && (n.Obj().Name() == "Builder" || n.Obj().Name() == "Buffer") {
								return ""
							}
						}
						for _, a := range x.Common().Args {
							if _, isConst := a.(*ssa.Const); isConst {
								continue
							}
							if isStringish(a.Type()) || isByteSlice(a.Type()) {
								return extName(cal)
							}
						}
					}
				}
				return ""
			}
			sum := symReturns(pr, cal, 0, map[*ssa.Function]bool{})
			allParam := len(sum) > 0
			for _, sv := range sum {
				if sv.kind != "param" {
					allParam = false
				}
			}
			if allParam {
				for _, sv := range sum {
					if sv.param < len(x.Common().Args) {
						if how := trace(x.Common().Args[sv.param], d+1); how != "" {
							return how
						}
					}
				}
				return ""
			}
			for _, rb := range returnBlocks(cal) {
				ret := rb.Instrs[len(rb.Instrs)-1].(*ssa.Return)
				for _, r := range ret.Results {
					if how := trace(r, d+1); how != "" {
						return funcName(cal) + " → " + how
					}
				}
			}
		}
		return ""
	}
	return trace(v, 0)
}

// checkQuotedAsIs (W-asis): the text handed to the quoting helpers by the encoders is the value as it is — seen through
// conversions and identity helpers — never the result of a function that rewrites text (a media type put through
// mime.ParseMediaType/FormatMediaType "to normalise it", a lower-cased tag, a cleaned path): the document would then
// carry a different value than the one stored, for the spellings the rewriting changes.
func checkQuotedAsIs(w *World, c *Check, rule string) {
	quoters := map[*ssa.Function]bool{}
	for _, n := range []string{"jsonQuoted", "stringBytes"} {
		if f := w.Func(n); f != nil {
			quoters[f] = true
		}
	}
	if len(quoters) == 0 {
		c.bad(rule, "anchor", "-", "the quoting helpers jsonQuoted / stringBytes were not found")
		return
	}
	n := 0
	perFn := map[string]int{}
	for _, f := range w.Funcs {
		if quoters[f] {
			continue
		}
		for _, call := range callsIn(f) {
			if !quoters[call.Common().StaticCallee()] {
				continue
			}
			for _, a := range call.Common().Args {
				if !(isStringish(a.Type()) || isByteSlice(a.Type())) {
					continue
				}
				if _, isConst := a.(*ssa.Const); isConst {
					continue
				}
				n++
				perFn[funcName(f)]++
				key := fmt.Sprintf("%s#%d", funcName(f), perFn[funcName(f)])
				if how := textRewrittenBy(w, a); how != "" {
					c.bad(rule, key, w.InstrPos(call), fmt.Sprintf("%s quotes a text that has been through %s: the document carries a rewriting of the stored value, so the value that is read back differs from the one written for every spelling the rewriting changes", funcName(f), how))
				} else {
					c.ok(rule, key, w.InstrPos(call), "the text is quoted as it is")
				}
			}
		}
	}
	c.stat(rule+"_quoted_texts", n)
}
