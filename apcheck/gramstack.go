package main

// JSON grammar as a typestate over what an encoder has written into one buffer so far.
//
// The state is the stack of a shift/reduce parser over tokens, kept as a short string; nested values that arrive as
// already complete byte slices count as one token, so the stack depth inside one buffer is bounded by the literal
// nesting in the encoder's source (3 on this code base) and the state space is finite.
//
//   ""      nothing written              "D"   one complete value      "Ds"  one complete string value
//   "m:"    top-level  "key":  written   "Dm"  one complete bare member ("key":value) — a fragment, not a value
//   "{"     object opened, no member     "{M"  >=1 complete member     "{M," separator written, member name expected
//   "{k"    inside a member-name string  "{K"  member name complete    "{:"  name and colon written, value expected
//   "["     array opened                 "[E"  >=1 element             "[E," separator written, element expected
//   "…q"    inside a string value        "…l"  inside a bare literal (number, true, false, null)

import (
	"fmt"
	"strings"
)

type gstack string

func (s gstack) top() byte {
	if len(s) == 0 {
		return 0
	}
	return s[len(s)-1]
}

func (s gstack) below() byte {
	if len(s) < 2 {
		return 0
	}
	return s[len(s)-2]
}

func (s gstack) inString() bool { return s.top() == 'q' || s.top() == 'k' }

// dropLit closes a bare literal that is in progress.
func (s gstack) dropLit() gstack {
	if s.top() == 'l' {
		return s[:len(s)-1]
	}
	return s
}

func (s gstack) expectsValue() bool {
	s = s.dropLit()
	switch {
	case s == "", s == "m:":
		return true
	case s.top() == ':', s.top() == '[':
		return true
	case s.top() == ',' && s.below() == 'E':
		return true
	}
	return false
}

func (s gstack) expectsKey() bool {
	s = s.dropLit()
	return s.top() == '{' || (s.top() == ',' && s.below() == 'M')
}

// afterValue: a complete value has just been written at a value position.
func (s gstack) afterValue(isString bool) (gstack, string) {
	switch {
	case s == "":
		if isString {
			return "Ds", ""
		}
		return "D", ""
	case s == "m:":
		return "Dm", ""
	case s.top() == ':':
		s = s[:len(s)-1]
		if strings.HasSuffix(string(s), "M,") {
			return s[:len(s)-1], ""
		}
		if s.top() == '{' {
			return s + "M", ""
		}
		return s, "internal: colon outside an object"
	case s.top() == '[':
		return s + "E", ""
	case s.top() == ',' && s.below() == 'E':
		return s[:len(s)-1], ""
	}
	return s, "a value is written where " + s.describe()
}

// afterMember: a complete "name":value pair has just been written at a member position.
func (s gstack) afterMember() (gstack, string) {
	switch {
	case s.top() == '{':
		return s + "M", ""
	case s.top() == ',' && s.below() == 'M':
		return s[:len(s)-1], ""
	case s == "":
		return "Dm", ""
	}
	return s, "a member is written where " + s.describe()
}

func (s gstack) describe() string {
	switch {
	case s == "":
		return "nothing has been written yet"
	case s == "D", s == "Ds":
		return "a complete value has already been written (two values without a separator)"
	case s == "Dm":
		return "a bare member has been written outside any object"
	case s == "m:":
		return "a top-level string was followed by a colon"
	}
	ctx := "an object"
	if strings.LastIndexByte(string(s), '[') > strings.LastIndexByte(string(s), '{') {
		ctx = "an array"
	}
	switch s.top() {
	case '{':
		return "an object was just opened (a member name or '}' must follow)"
	case '[':
		return "an array was just opened (a value or ']' must follow)"
	case 'M':
		return "a member is complete (',' or '}' must follow)"
	case 'E':
		return "an element is complete (',' or ']' must follow)"
	case ',':
		return "a separator was just written in " + ctx + " (another element must follow; a closing bracket here leaves a trailing comma)"
	case 'K':
		return "a member name is complete (':' must follow)"
	case ':':
		return "a member name and colon were written (the member's value must follow)"
	case 'q', 'k':
		return "a string is still open"
	case 'l':
		return "a bare literal is in progress"
	}
	return fmt.Sprintf("state %q", string(s))
}

// feedByte consumes one constant byte.
func (s gstack) feedByte(c byte) (gstack, string) {
	if s.inString() {
		if c == '"' {
			if s.top() == 'q' {
				return s[:len(s)-1].afterValue(true)
			}
			return s[:len(s)-1] + "K", ""
		}
		return s, ""
	}
	switch c {
	case ' ', '\t', '\n', '\r':
		return s.dropLit(), ""
	case '{', '[':
		s = s.dropLit()
		if !s.expectsValue() {
			return s, fmt.Sprintf("'%c' is written where %s", c, s.describe())
		}
		if len(s) > 24 {
			return s, "nesting grows without bound"
		}
		return s + gstack(c), ""
	case '}':
		s = s.dropLit()
		switch {
		case s.top() == '{':
			return s[:len(s)-1].afterValue(false)
		case s.top() == 'M' && s.below() == '{':
			return s[:len(s)-2].afterValue(false)
		}
		return s, "'}' is written where " + s.describe()
	case ']':
		s = s.dropLit()
		switch {
		case s.top() == '[':
			return s[:len(s)-1].afterValue(false)
		case s.top() == 'E' && s.below() == '[':
			return s[:len(s)-2].afterValue(false)
		}
		return s, "']' is written where " + s.describe()
	case ',':
		s = s.dropLit()
		if s.top() == 'M' || s.top() == 'E' {
			return s + ",", ""
		}
		return s, "',' is written where " + s.describe()
	case ':':
		s = s.dropLit()
		if s.top() == 'K' {
			return s[:len(s)-1] + ":", ""
		}
		if s == "Ds" {
			return "m:", ""
		}
		return s, "':' is written where " + s.describe()
	case '"':
		s = s.dropLit()
		if s.expectsValue() {
			return s + "q", ""
		}
		if s.expectsKey() {
			return s + "k", ""
		}
		return s, "a string is opened where " + s.describe()
	}
	// a character of a bare literal
	if s.top() == 'l' {
		return s, ""
	}
	if s.expectsValue() {
		n, e := s.afterValue(false)
		if e != "" {
			return s, e
		}
		return n + "l", ""
	}
	return s, fmt.Sprintf("the character %q is written outside a string where %s", c, s.describe())
}

func (s gstack) feedConst(b string) (gstack, string) {
	for i := 0; i < len(b); i++ {
		var e string
		if s, e = s.feedByte(b[i]); e != "" {
			return s, e
		}
	}
	return s, ""
}

// feedValue: one complete, non-empty JSON value arrives as a unit.
func (s gstack) feedValue(isString bool) (gstack, string) {
	s = s.dropLit()
	if s.inString() {
		return s, "a complete JSON value is written inside an open string"
	}
	if s.expectsValue() {
		return s.afterValue(isString)
	}
	if s.expectsKey() {
		if isString {
			return s + "K", ""
		}
		return s, "a value is written where a member name is expected (" + s.describe() + ")"
	}
	return s, "a value is written where " + s.describe()
}

// feedText: arbitrary bytes (escaped or not is decided by the byte-provenance rule) — legal only inside a string.
func (s gstack) feedText() (gstack, string) {
	if s.inString() {
		return s, ""
	}
	return s, "unquoted data is written where " + s.describe()
}

// feedSnapshot: the contents of another buffer are appended.
func (s gstack) feedSnapshot(o gstack) (gstack, string) {
	o = o.dropLit()
	switch o {
	case "":
		return s, ""
	case "D":
		return s.feedValue(false)
	case "Ds":
		return s.feedValue(true)
	case "Dm":
		s = s.dropLit()
		if s.expectsKey() || s == "" {
			return s.afterMember()
		}
		return s, "a bare member is written where " + s.describe()
	}
	if s.inString() && !strings.ContainsAny(string(o), "{[") {
		return s, "" // text assembled elsewhere
	}
	return s, fmt.Sprintf("an incomplete JSON fragment (%s) is appended", o.describe())
}

// trunc1 removes the last byte.
func (s gstack) trunc1() (gstack, string) {
	switch s.top() {
	case ',', '{', '[':
		return s[:len(s)-1], ""
	case ':':
		return s[:len(s)-1] + "K", ""
	}
	return s, "the last byte is cut off where " + s.describe() + " — the result is no longer a prefix of a JSON text"
}

// lenRange: bounds on the number of bytes written (max -1: unbounded).
func (s gstack) lenRange() (min, max int) {
	exact := true
	for i := 0; i < len(s); i++ {
		switch s[i] {
		case '{', '[', ',', ':':
			min++
		case 'M':
			min += 4
			exact = false
		case 'K':
			min += 2
			exact = false
		case 'l':
			exact = false
		default:
			min++
			exact = false
		}
	}
	if exact {
		return min, min
	}
	return min, -1
}

// lastByteIs: is the last byte written equal to c? (known=false when it cannot be told)
func (s gstack) lastByteIs(c byte) (eq, known bool) {
	switch s.top() {
	case 0:
		return false, false
	case '{', '[', ',', ':':
		return s.top() == c, true
	case 'q', 'k', 'l':
		return false, false
	}
	// the last byte of a complete value or name: '"', '}', ']', a digit or a letter
	switch c {
	case ',', ':', '{', '[':
		return false, true
	}
	return false, false
}
