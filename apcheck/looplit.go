package main

import (
	"go/token"
	"go/types"

	"golang.org/x/tools/go/ssa"
)

// literalElems: the elements of a local literal array (t = local [n]T; t[k] = e_k for every k, each once, nothing else
// stored into it). Unlike variadicElems the argument is the array cell itself, not a slice of it.
func literalElems(al *ssa.Alloc) ([]ssa.Value, bool) {
	arr, ok := derefType(al.Type()).Underlying().(*types.Array)
	if !ok || al.Referrers() == nil {
		return nil, false
	}
	elems := make([]ssa.Value, arr.Len())
	for _, r := range *al.Referrers() {
		switch r := r.(type) {
		case *ssa.IndexAddr:
			idx, isConst := r.Index.(*ssa.Const)
			if r.Referrers() == nil {
				continue
			}
			for _, rr := range *r.Referrers() {
				st, isStore := rr.(*ssa.Store)
				if !isStore || st.Addr != ssa.Value(r) {
					continue
				}
				if !isConst {
					return nil, false // a store at a computed position
				}
				i := int(idx.Int64())
				if i < 0 || i >= len(elems) || elems[i] != nil {
					return nil, false
				}
				elems[i] = st.Val
			}
		case *ssa.Store:
			if r.Addr == ssa.Value(al) {
				return nil, false // the whole array is overwritten
			}
		}
	}
	for _, e := range elems {
		if e == nil {
			return nil, false
		}
	}
	return elems, true
}

// rangedLiteralElem: v is the element, at the running position of a loop that visits every position, of a local literal
// array or of a slice of one (for _, e := range [...]T{…} / []T{…}, or the index form of the same loop). Returns the
// literal's elements and the loop's header. The loop is one whose only exit is the header's own bound test, so that its
// body runs once for every element.
func rangedLiteralElem(v ssa.Value) ([]ssa.Value, *ssa.BasicBlock, bool) {
	return rangedLiteralElemOpt(v, true)
}

// rangedLiteralElemOpt: with strict == false the loop may be left early (a search that returns at the first hit): the
// element is then "some element of the literal", which is all a per-element test needs.
func rangedLiteralElemOpt(v ssa.Value, strict bool) ([]ssa.Value, *ssa.BasicBlock, bool) {
	var idx ssa.Value
	var elems []ssa.Value
	var ok bool
	switch x := unwrap(v).(type) {
	case *ssa.Index: // t8 = *t3; t8[i]
		ld, isLoad := x.X.(*ssa.UnOp)
		if !isLoad || ld.Op != token.MUL {
			return nil, nil, false
		}
		al, isAlloc := ld.X.(*ssa.Alloc)
		if !isAlloc {
			return nil, nil, false
		}
		if elems, ok = literalElems(al); !ok {
			return nil, nil, false
		}
		// the copy is taken after the last element store: the stores all precede it in the same block or dominate it
		for _, r := range *al.Referrers() {
			if ia, isIA := r.(*ssa.IndexAddr); isIA && !(ia.Block() == ld.Block() && instrIndex(ia) < instrIndex(ld)) && !(ia.Block() != ld.Block() && ia.Block().Dominates(ld.Block())) {
				return nil, nil, false
			}
		}
		idx = x.Index
	case *ssa.UnOp: // *(&t[i])
		if x.Op != token.MUL {
			return nil, nil, false
		}
		ia, isIA := x.X.(*ssa.IndexAddr)
		if !isIA {
			return nil, nil, false
		}
		switch base := ia.X.(type) {
		case *ssa.Alloc:
			elems, ok = literalElems(base)
		case *ssa.Slice:
			if base.Low == nil && base.High == nil {
				elems, ok = variadicElems(base)
				if al, isAlloc := base.X.(*ssa.Alloc); ok && isAlloc {
					_, ok = literalElems(al) // each position stored exactly once
				}
			}
		}
		if !ok {
			return nil, nil, false
		}
		idx = ia.Index
	default:
		return nil, nil, false
	}
	n := int64(len(elems))
	// the index: go/ssa's rangeindex (phi from -1, used as phi+1, tested phi+1 < n) or the written-out loop (phi from 0,
	// tested phi < n, stepped by one)
	var phi *ssa.Phi
	var tested ssa.Value
	if bo, isBin := idx.(*ssa.BinOp); isBin && bo.Op == token.ADD && isConstInt(bo.Y, 1) {
		p, isPhi := bo.X.(*ssa.Phi)
		if !isPhi || len(p.Edges) != 2 {
			return nil, nil, false
		}
		if !((isConstInt(p.Edges[0], -1) && p.Edges[1] == ssa.Value(bo)) || (isConstInt(p.Edges[1], -1) && p.Edges[0] == ssa.Value(bo))) {
			return nil, nil, false
		}
		phi, tested = p, bo
	} else if p, isPhi := idx.(*ssa.Phi); isPhi && len(p.Edges) == 2 {
		step := func(e ssa.Value) bool {
			bo, isBin := e.(*ssa.BinOp)
			return isBin && bo.Op == token.ADD && bo.X == ssa.Value(p) && isConstInt(bo.Y, 1)
		}
		if !((isConstInt(p.Edges[0], 0) && step(p.Edges[1])) || (isConstInt(p.Edges[1], 0) && step(p.Edges[0]))) {
			return nil, nil, false
		}
		phi, tested = p, p
	} else {
		return nil, nil, false
	}
	h := phi.Block()
	br, isIf := h.Instrs[len(h.Instrs)-1].(*ssa.If)
	if !isIf {
		return nil, nil, false
	}
	cmp, isBin := br.Cond.(*ssa.BinOp)
	if !isBin || cmp.Op != token.LSS || cmp.X != tested {
		return nil, nil, false
	}
	switch bound := cmp.Y.(type) {
	case *ssa.Const:
		if bound.Int64() != n {
			return nil, nil, false
		}
	case *ssa.Call: // len(the slice of the literal)
		bi, isBuiltin := bound.Common().Value.(*ssa.Builtin)
		if !isBuiltin || bi.Name() != "len" {
			return nil, nil, false
		}
		es, isLit := variadicElems(bound.Common().Args[0])
		if !isLit || int64(len(es)) != n {
			return nil, nil, false
		}
	default:
		return nil, nil, false
	}
	if !strict {
		return elems, h, true
	}
	// no way out of the body but through the header
	lh := loopHeaders(h.Parent())
	for _, b := range h.Parent().Blocks {
		if b == h || !lh[b][h] {
			continue
		}
		for _, s := range b.Succs {
			if !lh[s][h] {
				return nil, nil, false
			}
		}
		if len(b.Succs) == 0 {
			return nil, nil, false
		}
	}
	return elems, h, true
}

func isConstInt(v ssa.Value, k int64) bool {
	c, ok := v.(*ssa.Const)
	if !ok || c.Value == nil {
		return false
	}
	bt, ok := types.Unalias(c.Type()).Underlying().(*types.Basic)
	return ok && bt.Info()&types.IsInteger != 0 && c.Int64() == k
}

// everyIteration: b runs on every trip of the loop headed by h (it dominates each of the loop's latches).
func everyIteration(b, h *ssa.BasicBlock) bool {
	found := false
	for _, p := range h.Preds {
		if h.Dominates(p) {
			found = true
			if b != p && !b.Dominates(p) {
				return false
			}
		}
	}
	return found
}
