// apcheck: repository-specific static checks for go-ap/activitypub (properties C01..C20).
// Nothing in the target is executed: the tool loads the type-checked program and its SSA form from source on
// every run and decides rule obligations over it.
package main

import (
	"flag"
	"fmt"
	"os"
	"runtime/debug"
	"sort"
	"strings"
	"time"
)

type checkFn func(w *World, c *Check, tier string)

var registry = map[string]checkFn{}

func register(id string, fn checkFn) { registry[id] = fn }

func main() {
	prop := flag.String("property", "", "property id (C01..C20) or 'all'")
	tier := flag.String("tier", "quick", "quick | thorough")
	target := flag.String("target", "/repo", "directory of the go-ap/activitypub tree to analyse")
	verif := flag.String("verif", "/verif", "verification directory (evidence, known_findings.json)")
	noEvid := flag.Bool("no-evidence", false, "do not write evidence/replay files (self-tests on scratch copies)")
	list := flag.Bool("list", false, "list implemented properties")
	flag.Parse()
	if t := os.Getenv("VERIF_TIER"); t != "" && !flagSet("tier") {
		*tier = t
	}
	if *list {
		ids := sortedKeys(registry)
		fmt.Println(strings.Join(ids, " "))
		return
	}
	if *tier != "quick" && *tier != "thorough" {
		fmt.Fprintln(os.Stderr, "bad -tier")
		os.Exit(2)
	}
	var ids []string
	if *prop == "all" {
		ids = sortedKeys(registry)
	} else {
		for _, p := range strings.Split(*prop, ",") {
			if _, ok := registry[p]; !ok {
				fmt.Fprintf(os.Stderr, "unknown property %q (have: %s)\n", p, strings.Join(sortedKeys(registry), " "))
				os.Exit(2)
			}
			ids = append(ids, p)
		}
	}
	sort.Strings(ids)
	start := time.Now()
	w, err := loadWorld(*target, "")
	if err != nil {
		fmt.Printf("CHECKER-ERROR cannot load %s: %v\n", *target, err)
		os.Exit(2)
	}
	fmt.Printf("loaded %s: %d packages, %d source functions of the package (incl. closures/instances) in %.1fs\n",
		*target, w.NPkgs, w.NFuncs, time.Since(start).Seconds())
	if w.NPkgs == 0 || w.NFuncs < 100 {
		fmt.Printf("CHECKER-ERROR implausibly small program (%d packages, %d functions)\n", w.NPkgs, w.NFuncs)
		os.Exit(2)
	}
	exit := 0
	for _, id := range ids {
		code := runOne(w, id, *tier, *target, *verif, *noEvid, start)
		start = time.Now()
		if code > exit {
			exit = code
		}
	}
	os.Exit(exit)
}

func runOne(w *World, id, tier, target, verif string, noEvid bool, start time.Time) (code int) {
	c := newCheck(id)
	o := runOpts{verifDir: verif, tier: tier, target: target, noEvid: noEvid, start: start,
		cmd: fmt.Sprintf("./run.sh %s %s", id, tier)}
	defer func() {
		if r := recover(); r != nil {
			fmt.Printf("CHECKER-ERROR property=%s panic: %v\n%s\n", id, r, debug.Stack())
			code = 2
		}
	}()
	registry[id](w, c, tier)
	return c.finish(o)
}

func flagSet(name string) bool {
	set := false
	flag.Visit(func(f *flag.Flag) {
		if f.Name == name {
			set = true
		}
	})
	return set
}
