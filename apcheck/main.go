// apcheck: repository-specific static checks for go-ap/activitypub (properties C01..C20).
// Nothing in the target is executed: the tool loads the type-checked program and its SSA form from source on
// every run and decides rule obligations over it.
package main

import (
	"flag"
	"fmt"
	"os"
	"runtime"
	"runtime/debug"
	"sort"
	"strings"
	"time"
)

type checkFn func(w *World, c *Check, tier string)

var registry = map[string]checkFn{}

func register(id string, fn checkFn) { registry[id] = fn }

func main() {
	prop := flag.String("property", "", "property id (C01..C20) or 'all'")
	tier := flag.String("tier", "quick", "quick | thorough")
	target := flag.String("target", "/repo", "directory of the go-ap/activitypub tree to analyse")
	verif := flag.String("verif", "/verif", "verification directory (evidence, known_findings.json)")
	noEvid := flag.Bool("no-evidence", false, "do not write evidence/replay files (self-tests on scratch copies)")
	list := flag.Bool("list", false, "list implemented properties")
	flag.Parse()
	if t := os.Getenv("VERIF_TIER"); t != "" && !flagSet("tier") {
		*tier = t
	}
	if *list {
		ids := sortedKeys(registry)
		fmt.Println(strings.Join(ids, " "))
		return
	}
	if *tier != "quick" && *tier != "thorough" {
		fmt.Fprintln(os.Stderr, "bad -tier")
		os.Exit(2)
	}
	var ids []string
	if *prop == "all" {
		ids = sortedKeys(registry)
	} else {
		for _, p := range strings.Split(*prop, ",") {
			if _, ok := registry[p]; !ok {
				fmt.Fprintf(os.Stderr, "unknown property %q (have: %s)\n", p, strings.Join(sortedKeys(registry), " "))
				os.Exit(2)
			}
			ids = append(ids, p)
		}
	}
	sort.Strings(ids)
	// quick: the default build configuration (linux/amd64). thorough: additionally 32-bit (386: int, uint and
	// uintptr are 32 bits wide, other struct offsets) and arm64 (other compiler back end for the prove pass, other
	// build-tagged files of the dependencies); every rule is re-decided on each program and the verdicts are merged
	// per obligation key (a construct that fails on any architecture fails).
	archs := []string{""}
	if *tier == "thorough" {
		archs = []string{"", "386", "arm64"}
		thoroughBounds = true
	}
	checks := map[string]*Check{}
	codes := map[string]int{}
	for _, id := range ids {
		checks[id] = newCheck(id)
	}
	for _, arch := range archs {
		start := time.Now()
		w, err := loadWorld(*target, arch)
		if err != nil {
			fmt.Printf("CHECKER-ERROR cannot load %s (GOARCH=%q): %v\n", *target, arch, err)
			os.Exit(2)
		}
		fmt.Printf("loaded %s GOARCH=%s: %d packages, %d source functions of the package (incl. closures/instances) in %.1fs\n",
			*target, w.ArchName(), w.NPkgs, w.NFuncs, time.Since(start).Seconds())
		if w.NPkgs == 0 || w.NFuncs < 100 {
			fmt.Printf("CHECKER-ERROR implausibly small program (%d packages, %d functions)\n", w.NPkgs, w.NFuncs)
			os.Exit(2)
		}
		for _, id := range ids {
			c := checks[id]
			c.beginArch(w.ArchName())
			t0 := time.Now()
			if code := analyseOne(w, c, *tier); code > codes[id] {
				codes[id] = code
			}
			c.elapsed += time.Since(t0)
		}
		w = nil
		runtime.GC()
	}
	exit := 0
	for _, id := range ids {
		code := codes[id]
		if code == 0 {
			o := runOpts{verifDir: *verif, tier: *tier, target: *target, noEvid: *noEvid, start: time.Now(),
				cmd: fmt.Sprintf("./run.sh %s %s", id, *tier)}
			code = checks[id].finish(o)
		}
		if code > exit {
			exit = code
		}
	}
	os.Exit(exit)
}

func analyseOne(w *World, c *Check, tier string) (code int) {
	defer func() {
		if r := recover(); r != nil {
			fmt.Printf("CHECKER-ERROR property=%s GOARCH=%s panic: %v\n%s\n", c.ID, w.ArchName(), r, debug.Stack())
			code = 2
		}
	}()
	registry[c.ID](w, c, tier)
	return 0
}

// thoroughBounds raises the abstract interpreter's depth and step bounds (thorough tier).
var thoroughBounds bool

func flagSet(name string) bool {
	set := false
	flag.Visit(func(f *flag.Flag) {
		if f.Name == name {
			set = true
		}
	})
	return set
}
