package main

// Symmetry and reflexivity of a binary predicate, decided on its SSA as a decision tree.
//
// The predicate's loop-free part is executed symbolically: every boolean that depends on exactly one of the two
// operands (validURL(#), #.URL()#1 != nil, #.Path == "/") is an atom of that operand; a boolean that relates the SAME
// expression of both operands through a symmetric operation (strings.EqualFold, ==, !=, or a callee already proven
// symmetric) is an atom shared by both argument orders; anything else is undecided. Reaching a loop ends the path with
// the symbolic result LOOP (the loop is judged by its own rule). The leaves (atom assignment → result) are then
// compared: symmetry — for every pair of leaves whose assignments are consistent once the operand roles of the second
// are exchanged, the results agree; reflexivity — every leaf that is consistent with both operands being the same
// value (shared symmetric atoms then have their reflexive value) returns true or LOOP.

import (
	"fmt"
	"go/constant"
	"go/token"
	"go/types"
	"sort"
	"strings"

	"golang.org/x/tools/go/ssa"
)

type psVal struct {
	kind  int // 0 undecided, 1 concrete bool, 2 expression over one parameter, 3 parameter-free, 4 symmetric relation of both operands
	b     bool
	param int
	key   string
}

type psAtom struct {
	param int // 0/1 operand, >=2 other parameter, -1 shared symmetric relation
	key   string
}

type psLeaf struct {
	sigma  map[psAtom]bool
	result string // "true" | "false" | "LOOP" | symbolic
	pos    string
}

type psEval struct {
	w        *World
	f        *ssa.Function
	symCalls map[*ssa.Function]bool // callees proven symmetric in (arg0, arg1)
	leaves   []psLeaf
	undecide string
	steps    int
	headers  map[*ssa.BasicBlock]bool
	busy     map[*ssa.Function]bool
	reflFns  map[*ssa.Function]bool // helpers found reflexive while recursing
}

var psSymmetricExternal = map[string]bool{"strings.EqualFold": true, "bytes.Equal": true, "bytes.EqualFold": true}

func (e *psEval) operand(env map[ssa.Value]psVal, v ssa.Value) psVal {
	if s, ok := env[v]; ok {
		return s
	}
	switch x := v.(type) {
	case *ssa.Parameter:
		for i, p := range e.f.Params {
			if p == x {
				return psVal{kind: 2, param: i, key: "#"}
			}
		}
	case *ssa.Const:
		if x.Value != nil && x.Value.Kind() == constant.Bool {
			return psVal{kind: 1, b: constant.BoolVal(x.Value)}
		}
		if x.Value == nil {
			return psVal{kind: 3, key: "nil"}
		}
		return psVal{kind: 3, key: x.Value.ExactString()}
	case *ssa.Global:
		return psVal{kind: 3, key: "&" + x.Name()}
	case *ssa.Function:
		return psVal{kind: 3, key: "func " + funcName(x)}
	}
	return psVal{}
}

// psCombine builds the expression of an operation. symmetric: the operation is symmetric in its two operand-dependent
// arguments.
func psCombine(op string, ops []psVal, symmetric bool) psVal {
	params := map[int]bool{}
	var keys []string
	for _, o := range ops {
		switch o.kind {
		case 2:
			params[o.param] = true
			keys = append(keys, o.key)
		case 3:
			keys = append(keys, o.key)
		case 1:
			keys = append(keys, fmt.Sprint(o.b))
		case 4:
			return psVal{}
		default:
			return psVal{}
		}
	}
	if params[0] && params[1] {
		// relates both operands
		if !symmetric {
			return psVal{}
		}
		var k0, k1 string
		n := 0
		for _, o := range ops {
			if o.kind == 2 && (o.param == 0 || o.param == 1) {
				n++
				if o.param == 0 {
					k0 = o.key
				} else {
					k1 = o.key
				}
			} else if o.kind == 2 {
				return psVal{} // a third parameter mixed into the relation
			}
		}
		if n != 2 || k0 != k1 {
			return psVal{}
		}
		return psVal{kind: 4, key: op + "(" + k0 + ")"}
	}
	k := op + "(" + strings.Join(keys, ",") + ")"
	for p := range params {
		return psVal{kind: 2, param: p, key: k}
	}
	return psVal{kind: 3, key: k}
}

func clonePS(m map[psAtom]bool) map[psAtom]bool {
	n := make(map[psAtom]bool, len(m)+1)
	for k, v := range m {
		n[k] = v
	}
	return n
}

func clonePSEnv(m map[ssa.Value]psVal) map[ssa.Value]psVal {
	n := make(map[ssa.Value]psVal, len(m)+4)
	for k, v := range m {
		n[k] = v
	}
	return n
}

func (e *psEval) run() {
	e.headers = map[*ssa.BasicBlock]bool{}
	for b, hs := range loopHeaders(e.f) {
		if hs[b] {
			e.headers[b] = true
		}
	}
	e.walk(e.f.Blocks[0], nil, 0, map[ssa.Value]psVal{}, map[psAtom]bool{}, map[*ssa.BasicBlock]bool{}, 0)
}

func (e *psEval) leaf(sigma map[psAtom]bool, result, pos string) {
	e.leaves = append(e.leaves, psLeaf{sigma: clonePS(sigma), result: result, pos: pos})
}

// atomise: a boolean expression becomes a concrete value by consulting / forking the assignment.
func (e *psEval) atomise(s psVal, isBool bool) (psAtom, bool) {
	if !isBool {
		return psAtom{}, false
	}
	switch s.kind {
	case 2:
		return psAtom{s.param, s.key}, true
	case 4:
		return psAtom{-1, s.key}, true
	}
	return psAtom{}, false
}

func (e *psEval) walk(b, prev *ssa.BasicBlock, from int, env map[ssa.Value]psVal, sigma map[psAtom]bool, onPath map[*ssa.BasicBlock]bool, depth int) {
	if e.undecide != "" {
		return
	}
	e.steps++
	if depth > 400 || e.steps > 200000 {
		e.undecide = "the predicate is too large to enumerate"
		return
	}
	if from == 0 {
		if e.headers[b] || onPath[b] {
			e.leaf(sigma, "LOOP", e.w.InstrPos(b.Instrs[0]))
			return
		}
		onPath = cloneBlockSet(onPath)
		onPath[b] = true
	}
	fork := func(idx int, x ssa.Value, ak psAtom) {
		for _, v := range []bool{true, false} {
			if v && eqOtherConst(sigma, ak) {
				continue // the same expression already equals a different constant on this path
			}
			env2, sig2 := clonePSEnv(env), clonePS(sigma)
			sig2[ak] = v
			env2[x] = psVal{kind: 1, b: v}
			e.walk(b, prev, idx+1, env2, sig2, onPath, depth)
		}
	}
	for idx := from; idx < len(b.Instrs); idx++ {
		in := b.Instrs[idx]
		setOrFork := func(x ssa.Value, s psVal) bool {
			if ak, ok := e.atomise(s, isBoolType(x.Type())); ok {
				if v, has := sigma[ak]; has {
					env[x] = psVal{kind: 1, b: v}
					return false
				}
				fork(idx, x, ak)
				return true
			}
			env[x] = s
			return false
		}
		switch x := in.(type) {
		case *ssa.DebugRef:
		case *ssa.Phi:
			for i, p := range b.Preds {
				if p == prev {
					env[x] = e.operand(env, x.Edges[i])
				}
			}
		case *ssa.Call:
			cc := x.Common()
			name := ""
			symmetric := false
			var ops []psVal
			switch {
			case cc.IsInvoke():
				name = "." + cc.Method.Name()
				ops = append(ops, e.operand(env, cc.Value))
			case cc.StaticCallee() != nil:
				cal := cc.StaticCallee()
				name = funcName(cal)
				full := ""
				if cal.Object() != nil && cal.Object().Pkg() != nil {
					full = cal.Object().Pkg().Path() + "." + cal.Name()
				}
				symmetric = psSymmetricExternal[full] || e.symCalls[cal]
				if !symmetric && e.w.InPkg(cal) && cal.Blocks != nil && len(cal.Params) >= 2 && cal != e.f && isBoolType(x.Type()) && !e.busy[cal] {
					// a package helper that relates the two operands (queriesEqual(a.Query(), b.Query()), pathsEqual(…)):
					// it is a symmetric relation iff its own decision tree is symmetric in its first two parameters
					if e.busy == nil {
						e.busy = map[*ssa.Function]bool{}
					}
					e.busy[cal] = true
					if e.reflFns == nil {
						e.reflFns = map[*ssa.Function]bool{}
					}
					sub := &psEval{w: e.w, f: cal, symCalls: e.symCalls, busy: e.busy, reflFns: e.reflFns}
					sub.run()
					delete(e.busy, cal)
					if sub.undecide == "" && leavesSymmetric(sub.leaves) {
						e.symCalls[cal] = true
						symmetric = true
						names := map[string]bool{"==": true, "EqualFold": true, "Equal": true}
						for g := range e.reflFns {
							names[funcName(g)] = true
						}
						if ok, _ := leavesReflexive(sub.leaves, names); ok {
							e.reflFns[cal] = true
						}
					}
				}
			default:
				if bi, ok := cc.Value.(*ssa.Builtin); ok {
					name = "builtin " + bi.Name()
				} else if mc, ok := cc.Value.(*ssa.MakeClosure); ok && env[mc].kind == 3 {
					// a local closure that captures nothing of the operands (see MakeClosure below): an uninterpreted
					// function of its arguments
					name = "call"
					ops = append(ops, env[mc])
				} else {
					e.undecide = "dynamic call at " + e.w.InstrPos(x)
					return
				}
			}
			for _, a := range cc.Args {
				ops = append(ops, e.operand(env, a))
			}
			var s psVal
			if symmetric && len(ops) > 2 {
				// a symmetric callee with further arguments (irisEqual(a, b, checkScheme)): the extra arguments become part of the name
				extra := []string{}
				okExtra := true
				for _, o := range ops[2:] {
					switch o.kind {
					case 1:
						extra = append(extra, fmt.Sprint(o.b))
					case 3:
						extra = append(extra, o.key)
					case 2:
						if o.param < 2 {
							okExtra = false
						}
						extra = append(extra, fmt.Sprintf("p%d:%s", o.param, o.key))
					default:
						okExtra = false
					}
				}
				if okExtra {
					s = psCombine(name+"["+strings.Join(extra, ",")+"]", ops[:2], true)
				}
			} else {
				s = psCombine(name, ops, symmetric)
			}
			if s.kind == 0 {
				e.undecide = fmt.Sprintf("the call of %s at %s relates the two operands in a way that is not a symmetric comparison of the same expression of each", name, e.w.InstrPos(x))
				return
			}
			if setOrFork(x, s) {
				return
			}
		case *ssa.UnOp:
			o := e.operand(env, x.X)
			switch {
			case x.Op == token.NOT && o.kind == 1:
				env[x] = psVal{kind: 1, b: !o.b}
			case x.Op == token.MUL:
				if g, ok := x.X.(*ssa.Global); ok {
					env[x] = psVal{kind: 3, key: g.Name()}
				} else if o.kind == 2 || o.kind == 3 {
					if setOrFork(x, psCombine("*", []psVal{o}, false)) {
						return
					}
				} else {
					e.undecide = "load through an untracked pointer at " + e.w.InstrPos(x)
					return
				}
			default:
				s := psCombine(x.Op.String(), []psVal{o}, false)
				if s.kind == 0 {
					e.undecide = "untracked operand at " + e.w.InstrPos(x)
					return
				}
				env[x] = s
			}
		case *ssa.BinOp:
			l, r := e.operand(env, x.X), e.operand(env, x.Y)
			if l.kind == 1 && r.kind == 1 && (x.Op == token.EQL || x.Op == token.NEQ) {
				env[x] = psVal{kind: 1, b: (l.b == r.b) == (x.Op == token.EQL)}
				break
			}
			sym := x.Op == token.EQL || x.Op == token.NEQ
			s := psCombine(x.Op.String(), []psVal{l, r}, sym)
			if s.kind == 0 {
				e.undecide = fmt.Sprintf("the comparison %s at %s relates the two operands asymmetrically (or different expressions of them)", x.Op, e.w.InstrPos(x))
				return
			}
			if setOrFork(x, s) {
				return
			}
		case *ssa.ChangeInterface:
			env[x] = e.operand(env, x.X)
		case *ssa.MakeInterface:
			env[x] = e.operand(env, x.X)
		case *ssa.ChangeType:
			env[x] = e.operand(env, x.X)
		case *ssa.Convert:
			env[x] = psCombine("conv "+x.Type().String(), []psVal{e.operand(env, x.X)}, false)
		case *ssa.TypeAssert:
			s := psCombine("assert "+x.AssertedType.String(), []psVal{e.operand(env, x.X)}, false)
			if s.kind == 0 {
				e.undecide = "type assertion on an untracked value at " + e.w.InstrPos(x)
				return
			}
			env[x] = s
		case *ssa.Extract:
			s := psCombine(fmt.Sprintf("#%d", x.Index), []psVal{e.operand(env, x.Tuple)}, false)
			if s.kind == 0 {
				e.undecide = "untracked tuple at " + e.w.InstrPos(x)
				return
			}
			if setOrFork(x, s) {
				return
			}
		case *ssa.Field:
			env[x] = psCombine(fmt.Sprintf(".f%d", x.Field), []psVal{e.operand(env, x.X)}, false)
		case *ssa.FieldAddr:
			env[x] = psCombine(fmt.Sprintf("&.f%d", x.Field), []psVal{e.operand(env, x.X)}, false)
		case *ssa.If:
			c := e.operand(env, x.Cond)
			if c.kind != 1 {
				if ak, ok := e.atomise(c, true); ok {
					if v, has := sigma[ak]; has {
						c = psVal{kind: 1, b: v}
					} else {
						for _, v := range []bool{true, false} {
							sig2 := clonePS(sigma)
							sig2[ak] = v
							if v {
								e.walk(b.Succs[0], b, 0, clonePSEnv(env), sig2, onPath, depth+1)
							} else {
								e.walk(b.Succs[1], b, 0, clonePSEnv(env), sig2, onPath, depth+1)
							}
						}
						return
					}
				} else {
					e.undecide = "branch on a value that is not a decided atom at " + e.w.InstrPos(x)
					return
				}
			}
			if c.b {
				e.walk(b.Succs[0], b, 0, env, sigma, onPath, depth+1)
			} else {
				e.walk(b.Succs[1], b, 0, env, sigma, onPath, depth+1)
			}
			return
		case *ssa.Jump:
			e.walk(b.Succs[0], b, 0, env, sigma, onPath, depth+1)
			return
		case *ssa.Return:
			if len(x.Results) != 1 {
				e.undecide = "the predicate does not return a single boolean"
				return
			}
			r := e.operand(env, x.Results[0])
			if r.kind != 1 {
				ak, ok := e.atomise(r, true)
				if !ok {
					e.undecide = "the predicate returns a value that is not a decided atom at " + e.w.InstrPos(x)
					return
				}
				if v, has := sigma[ak]; has {
					e.leaf(sigma, fmt.Sprint(v), e.w.InstrPos(x))
					return
				}
				for _, v := range []bool{true, false} {
					sig2 := clonePS(sigma)
					sig2[ak] = v
					e.leaf(sig2, fmt.Sprint(v), e.w.InstrPos(x))
				}
				return
			}
			e.leaf(sigma, fmt.Sprint(r.b), e.w.InstrPos(x))
			return
		case *ssa.Range, *ssa.Next, *ssa.Lookup, *ssa.MakeSlice, *ssa.Alloc, *ssa.Store, *ssa.IndexAddr, *ssa.Index, *ssa.Slice, *ssa.MapUpdate, *ssa.MakeMap:
			// the beginning of an iteration: everything from here on is the loop part
			if _, isStore := in.(*ssa.Store); isStore {
				continue
			}
			if v, ok := in.(ssa.Value); ok {
				var ops []psVal
				var rands [8]*ssa.Value
				undec := false
				for _, op := range in.Operands(rands[:0]) {
					if op != nil && *op != nil {
						o := e.operand(env, *op)
						if o.kind == 0 || o.kind == 4 {
							undec = true
						}
						ops = append(ops, o)
					}
				}
				s := psVal{}
				if !undec {
					s = psCombine(fmt.Sprintf("%T", in), ops, false)
				}
				if s.kind == 0 {
					// mixes both operands (e.g. a lookup of one operand's key in the other's map): part of the loop
					e.leaf(sigma, "LOOP", e.w.InstrPos(in))
					return
				}
				env[v] = s
			}
		case *ssa.MakeClosure:
			// prepare := func(iri IRI) string {…}: admitted as an uninterpreted function when it only reads what it
			// captures and nothing it captures derives from an operand
			fn, _ := x.Fn.(*ssa.Function)
			why := ""
			var keys []string
			if fn == nil || len(fn.FreeVars) != len(x.Bindings) {
				why = "unknown closure"
			}
			for i := 0; why == "" && i < len(x.Bindings); i++ {
				if refs := fn.FreeVars[i].Referrers(); refs != nil {
					for _, r := range *refs {
						if ld, isLoad := r.(*ssa.UnOp); !isLoad || ld.Op != token.MUL {
							why = "the closure does more than read the variable " + fn.FreeVars[i].Name()
						}
					}
				}
				vals := []ssa.Value{x.Bindings[i]}
				if al, isAlloc := x.Bindings[i].(*ssa.Alloc); isAlloc {
					vals = vals[:0]
					for _, st := range storesTo(al) {
						vals = append(vals, st.Val)
					}
				}
				for _, v := range vals {
					o := e.operand(env, v)
					switch {
					case o.kind == 1:
						keys = append(keys, fmt.Sprint(o.b))
					case o.kind == 3:
						keys = append(keys, o.key)
					case o.kind == 2 && o.param >= 2:
						keys = append(keys, fmt.Sprintf("p%d:%s", o.param, o.key))
					default:
						why = "the closure captures something derived from an operand"
					}
				}
			}
			if why != "" {
				e.undecide = fmt.Sprintf("local closure at %s: %s", e.w.InstrPos(in), why)
				return
			}
			env[x] = psVal{kind: 3, key: "closure " + fn.Name() + "[" + strings.Join(keys, ",") + "]"}
		default:
			e.undecide = fmt.Sprintf("unsupported instruction %T at %s", in, e.w.InstrPos(in))
			return
		}
	}
}

func cloneBlockSet(m map[*ssa.BasicBlock]bool) map[*ssa.BasicBlock]bool {
	n := make(map[*ssa.BasicBlock]bool, len(m)+1)
	for k, v := range m {
		n[k] = v
	}
	return n
}

func fmtPS(m map[psAtom]bool) string {
	var ks []string
	for a, v := range m {
		who := "both"
		switch {
		case a.param == 0:
			who = "a"
		case a.param == 1:
			who = "b"
		case a.param >= 2:
			who = fmt.Sprintf("arg%d", a.param)
		}
		ks = append(ks, fmt.Sprintf("%s:%s=%v", who, a.key, v))
	}
	sort.Strings(ks)
	return "{" + strings.Join(ks, " ") + "}"
}

// checkPairPredicate decides symmetry and reflexivity of f(a, b, …). It returns (symmetric, reflexive, witness texts, undecided reason).
func checkPairPredicate(w *World, f *ssa.Function, symCalls, reflCalls map[*ssa.Function]bool) (sym, refl bool, symWitness, reflWitness, undecided string, nLeaves int) {
	reflNames := map[string]bool{"==": true, "EqualFold": true, "Equal": true}
	for g := range reflCalls {
		reflNames[funcName(g)] = true
	}
	ev := &psEval{w: w, f: f, symCalls: symCalls}
	ev.run()
	if ev.undecide != "" {
		return false, false, "", "", ev.undecide, 0
	}
	swap := func(a psAtom) psAtom {
		switch a.param {
		case 0:
			a.param = 1
		case 1:
			a.param = 0
		}
		return a
	}
	sym = true
	if ev.symCalls == nil {
		ev.symCalls = map[*ssa.Function]bool{}
	}
	for i, l1 := range ev.leaves {
		for j, l2 := range ev.leaves {
			if j < i {
				continue
			}
			// l1: f(a,b); l2: f(b,a) — exchange the operand roles of l2
			consistent := true
			comb := clonePS(l1.sigma)
			for a, v := range l2.sigma {
				sa := swap(a)
				if old, ok := comb[sa]; ok && old != v {
					consistent = false
					break
				}
				comb[sa] = v
			}
			if !consistent {
				continue
			}
			if l1.result != l2.result && sym {
				sym = false
				symWitness = fmt.Sprintf("with %s, %s(a, b) takes the path ending at %s (%s) while %s(b, a) takes the one ending at %s (%s)", fmtPS(comb), funcName(f), l1.pos, l1.result, funcName(f), l2.pos, l2.result)
			}
		}
	}
	for g := range ev.reflFns {
		reflNames[funcName(g)] = true
	}
	refl, reflWitness = leavesReflexive(ev.leaves, reflNames)
	return sym, refl, symWitness, reflWitness, "", len(ev.leaves)
}

var _ = types.Identical

// eqOtherConst: ak is "==(expr,const)" and the assignment already makes "==(expr,const')" true for another constant.
func eqOtherConst(sigma map[psAtom]bool, ak psAtom) bool {
	if !strings.HasPrefix(ak.key, "==(") {
		return false
	}
	i := strings.LastIndexByte(ak.key, ',')
	if i < 0 {
		return false
	}
	prefix := ak.key[:i+1]
	for a, v := range sigma {
		if v && a.param == ak.param && a.key != ak.key && strings.HasPrefix(a.key, prefix) && strings.LastIndexByte(a.key, ',') == i {
			return true
		}
	}
	return false
}

// leavesSymmetric: every pair of leaves that is consistent after exchanging the operand roles returns the same result.
func leavesSymmetric(leaves []psLeaf) bool {
	swap := func(a psAtom) psAtom {
		switch a.param {
		case 0:
			a.param = 1
		case 1:
			a.param = 0
		}
		return a
	}
	for i, l1 := range leaves {
		for j, l2 := range leaves {
			if j < i {
				continue
			}
			consistent := true
			comb := clonePS(l1.sigma)
			for a, v := range l2.sigma {
				sa := swap(a)
				if old, ok := comb[sa]; ok && old != v {
					consistent = false
					break
				}
				comb[sa] = v
			}
			if consistent && psExclusive(comb) {
				consistent = false
			}
			if consistent && l1.result != l2.result {
				return false
			}
		}
	}
	return true
}

// psExclusive: the assignment makes the same expression of the same operand equal to two different string constants
// (p == "/" and p == "") — no value does that.
func psExclusive(sigma map[psAtom]bool) bool {
	type lhs struct {
		param int
		expr  string
	}
	seen := map[lhs]string{}
	for a, v := range sigma {
		if !v || !strings.HasPrefix(a.key, "==(") || !strings.HasSuffix(a.key, "\")") {
			continue
		}
		i := strings.LastIndex(a.key, ",\"")
		if i < 0 {
			continue
		}
		k := lhs{a.param, a.key[3:i]}
		c := a.key[i+1 : len(a.key)-1]
		if old, ok := seen[k]; ok && old != c {
			return true
		}
		seen[k] = c
	}
	return false
}

// leavesReflexive: every leaf that is consistent with both operands being the same value returns true (or LOOP).
func leavesReflexive(leaves []psLeaf, reflNames map[string]bool) (bool, string) {
	for _, l := range leaves {
		merged := map[string]bool{}
		feasible := true
		for a, v := range l.sigma {
			switch {
			case a.param == 0 || a.param == 1:
				if old, ok := merged[a.key]; ok && old != v {
					feasible = false
				}
				merged[a.key] = v
			case a.param == -1:
				op := a.key
				if i := strings.IndexAny(op, "(["); i >= 0 {
					op = op[:i]
				}
				switch {
				case op == "!=":
					if v {
						feasible = false
					}
				case reflNames[op]:
					if !v {
						feasible = false
					}
				}
			}
		}
		if !feasible {
			continue
		}
		if l.result != "true" && l.result != "LOOP" {
			return false, fmt.Sprintf("for a == b with %s the path ending at %s returns %s", fmtPS(l.sigma), l.pos, l.result)
		}
	}
	return true, ""
}
