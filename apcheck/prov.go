package main

// E2 (part 1): value provenance and guard classification over SSA.

import (
	"fmt"
	"go/constant"
	"go/token"
	"go/types"
	"sort"
	"strings"

	"golang.org/x/tools/go/ssa"
)

// FieldPath names a field (possibly nested) of a root struct value.
type FieldPath struct {
	Root     ssa.Value    // the SSA value standing for the struct (parameter, free variable, allocation, call result)
	RootType *types.Named // its named struct type
	Idx      []int        // field indices from the root
	Names    []string
}

func (p FieldPath) key() string {
	return fmt.Sprintf("%p/%s.%s", p.Root, p.RootType.Obj().Name(), strings.Join(p.Names, "."))
}

func (p FieldPath) String() string {
	return p.RootType.Obj().Name() + "." + strings.Join(p.Names, ".")
}

type provSet struct {
	refs   map[string]FieldPath
	opaque []string // reasons a part of the value could not be traced to a field (informational)
	roots  map[ssa.Value]bool
}

func newProv() *provSet { return &provSet{refs: map[string]FieldPath{}, roots: map[ssa.Value]bool{}} }

func (p *provSet) add(f FieldPath) { p.refs[f.key()] = f }
func (p *provSet) merge(q *provSet) {
	for k, v := range q.refs {
		p.refs[k] = v
	}
	for r := range q.roots {
		p.roots[r] = true
	}
	p.opaque = append(p.opaque, q.opaque...)
}

func (p *provSet) list() []FieldPath {
	var out []FieldPath
	for _, k := range sortedKeys(p.refs) {
		out = append(out, p.refs[k])
	}
	return out
}

// prover computes provenance with memoisation and closure free-variable resolution.
type prover struct {
	w     *World
	memo  map[ssa.Value]*provSet
	busy  map[ssa.Value]bool
	fvMap map[*ssa.FreeVar]ssa.Value // free variable -> binding in the parent function
}

func newProver(w *World) *prover {
	p := &prover{w: w, memo: map[ssa.Value]*provSet{}, busy: map[ssa.Value]bool{}, fvMap: map[*ssa.FreeVar]ssa.Value{}}
	for _, f := range w.Funcs {
		for _, b := range f.Blocks {
			for _, in := range b.Instrs {
				if mc, ok := in.(*ssa.MakeClosure); ok {
					fn := mc.Fn.(*ssa.Function)
					for i, fv := range fn.FreeVars {
						if i < len(mc.Bindings) {
							p.fvMap[fv] = mc.Bindings[i]
						}
					}
				}
			}
		}
	}
	return p
}

// canonicalRoot maps spilled parameters (Alloc written once from a Parameter in the entry block) to the
// parameter, and free variables to their bindings.
func (p *prover) canonicalRoot(v ssa.Value) ssa.Value {
	for i := 0; i < 8; i++ {
		switch x := v.(type) {
		case *ssa.FreeVar:
			if b, ok := p.fvMap[x]; ok {
				v = b
				continue
			}
		case *ssa.Alloc:
			if refs := x.Referrers(); refs != nil {
				var src ssa.Value
				n := 0
				for _, r := range *refs {
					if st, ok := r.(*ssa.Store); ok && st.Addr == x {
						n++
						src = st.Val
					}
				}
				if n == 1 {
					if par, ok := src.(*ssa.Parameter); ok {
						return par
					}
				}
			}
		}
		break
	}
	return v
}

// structRoot resolves an address or struct value to (root value, named struct type, index path).
func (p *prover) structPath(v ssa.Value, depth int) (FieldPath, bool) {
	if depth > 12 {
		return FieldPath{}, false
	}
	switch x := v.(type) {
	case *ssa.FieldAddr:
		base, ok := p.structPath(x.X, depth+1)
		if !ok {
			return FieldPath{}, false
		}
		return extendPath(base, derefType(x.X.Type()), x.Field), true
	case *ssa.Field:
		base, ok := p.structPath(x.X, depth+1)
		if !ok {
			return FieldPath{}, false
		}
		return extendPath(base, x.X.Type(), x.Field), true
	case *ssa.UnOp:
		if x.Op == token.MUL {
			// load of a whole struct through a pointer: same root
			return p.structPath(x.X, depth+1)
		}
	case *ssa.ChangeType:
		return p.structPath(x.X, depth+1)
	case *ssa.Convert:
		// pointer reinterpretation (views): same memory, keep the root but retype it to the view
		if _, isPtr := types.Unalias(x.Type()).Underlying().(*types.Pointer); isPtr {
			if n := namedOf(x.Type()); n != nil {
				if _, isStruct := n.Underlying().(*types.Struct); isStruct {
					return FieldPath{Root: p.canonicalRoot(x), RootType: n}, true
				}
			}
		}
	case *ssa.Phi:
		// all edges must agree on the root type; use the phi itself as root identity
		if n := namedOf(x.Type()); n != nil {
			if _, isStruct := n.Underlying().(*types.Struct); isStruct {
				return FieldPath{Root: x, RootType: n}, true
			}
		}
	}
	root := p.canonicalRoot(v)
	if root != v {
		if _, again := root.(*ssa.FieldAddr); again {
			return p.structPath(root, depth+1)
		}
	}
	n := namedOf(root.Type())
	if n == nil {
		return FieldPath{}, false
	}
	if _, isStruct := n.Underlying().(*types.Struct); !isStruct {
		return FieldPath{}, false
	}
	return FieldPath{Root: root, RootType: n}, true
}

func extendPath(base FieldPath, structT types.Type, idx int) FieldPath {
	st, _ := types.Unalias(structT).Underlying().(*types.Struct)
	name := fmt.Sprintf("#%d", idx)
	if st != nil && idx < st.NumFields() {
		name = st.Field(idx).Name()
	}
	np := FieldPath{Root: base.Root, RootType: base.RootType}
	np.Idx = append(append([]int(nil), base.Idx...), idx)
	np.Names = append(append([]string(nil), base.Names...), name)
	return np
}

// prov computes the set of struct fields a value derives from.
func (p *prover) prov(v ssa.Value) *provSet {
	if r, ok := p.memo[v]; ok {
		return r
	}
	if p.busy[v] {
		return newProv()
	}
	p.busy[v] = true
	defer delete(p.busy, v)
	r := newProv()
	switch x := v.(type) {
	case *ssa.Const, *ssa.Function, *ssa.Builtin, *ssa.Global:
	case *ssa.Field:
		if fp, ok := p.structPath(x, 0); ok && len(fp.Idx) > 0 {
			r.add(fp)
		} else {
			r.merge(p.prov(x.X))
		}
	case *ssa.FieldAddr:
		if fp, ok := p.structPath(x, 0); ok && len(fp.Idx) > 0 {
			r.add(fp)
		} else {
			r.merge(p.prov(x.X))
		}
	case *ssa.UnOp:
		if x.Op == token.MUL {
			switch a := x.X.(type) {
			case *ssa.FieldAddr:
				r.merge(p.prov(a))
			case *ssa.Alloc:
				root := p.canonicalRoot(a)
				if root != a {
					r.merge(p.prov(root))
				} else {
					for _, s := range storesTo(a) {
						r.merge(p.prov(s.Val))
					}
				}
			case *ssa.FreeVar:
				b := p.canonicalRoot(a)
				if b != a {
					if al, ok := b.(*ssa.Alloc); ok {
						for _, s := range storesTo(al) {
							r.merge(p.prov(s.Val))
						}
					} else {
						r.merge(p.prov(b))
					}
				}
			case *ssa.IndexAddr:
				r.merge(p.prov(a.X))
			default:
				r.merge(p.prov(x.X))
			}
		} else {
			r.merge(p.prov(x.X))
		}
	case *ssa.Convert:
		r.merge(p.prov(x.X))
	case *ssa.ChangeType:
		r.merge(p.prov(x.X))
	case *ssa.ChangeInterface:
		r.merge(p.prov(x.X))
	case *ssa.MakeInterface:
		r.merge(p.prov(x.X))
	case *ssa.TypeAssert:
		r.merge(p.prov(x.X))
	case *ssa.Extract:
		r.merge(p.prov(x.Tuple))
	case *ssa.Slice:
		r.merge(p.prov(x.X))
	case *ssa.Index:
		r.merge(p.prov(x.X))
	case *ssa.IndexAddr:
		r.merge(p.prov(x.X))
	case *ssa.Lookup:
		r.merge(p.prov(x.X))
	case *ssa.BinOp:
		r.merge(p.prov(x.X))
		r.merge(p.prov(x.Y))
	case *ssa.Phi:
		for _, e := range x.Edges {
			r.merge(p.prov(e))
		}
	case *ssa.Call:
		cc := x.Common()
		if cc.IsInvoke() {
			r.merge(p.prov(cc.Value))
		}
		for _, a := range cc.Args {
			if isByteBufPtr(a.Type()) {
				continue
			}
			r.merge(p.prov(a))
		}
	case *ssa.Parameter, *ssa.FreeVar, *ssa.Alloc:
		root := p.canonicalRoot(x)
		if root != x {
			if _, isFA := root.(*ssa.FieldAddr); isFA {
				r.merge(p.prov(root))
				break
			}
		}
		if n := namedOf(root.Type()); n != nil {
			if _, isStruct := n.Underlying().(*types.Struct); isStruct {
				r.roots[root] = true
			}
		}
	case *ssa.MakeClosure, *ssa.MakeSlice, *ssa.MakeMap:
	default:
		r.opaque = append(r.opaque, fmt.Sprintf("%T", v))
	}
	p.memo[v] = r
	return r
}

func storesTo(a *ssa.Alloc) []*ssa.Store {
	var out []*ssa.Store
	if refs := a.Referrers(); refs != nil {
		for _, r := range *refs {
			if st, ok := r.(*ssa.Store); ok && st.Addr == a {
				out = append(out, st)
			}
		}
	}
	return out
}

func isByteBufPtr(t types.Type) bool {
	p, ok := types.Unalias(t).Underlying().(*types.Pointer)
	if !ok {
		return false
	}
	s, ok := types.Unalias(p.Elem()).Underlying().(*types.Slice)
	if !ok {
		return false
	}
	b, ok := types.Unalias(s.Elem()).Underlying().(*types.Basic)
	return ok && b.Kind() == types.Byte
}

// ---- guards ----

type guardSide int

const (
	sideNeutral guardSide = iota
	sideSet               // the guarded code runs when the field is set / non-empty
	sideUnset             // the guarded code runs when the field is unset / empty / zero
)

type guard struct {
	cond     ssa.Value
	refs     []FieldPath
	side     guardSide
	signOnly bool // the condition is a strict sign test (> 0, >= 1, < 0 …) on a value of signed/float type
	desc     string
}

// dominatingGuards returns the classified branch conditions that dominate block b.
func (p *prover) dominatingGuards(b *ssa.BasicBlock) []guard {
	var out []guard
	for d := b.Idom(); d != nil; d = d.Idom() {
		ifi, ok := d.Instrs[len(d.Instrs)-1].(*ssa.If)
		if !ok || len(d.Succs) != 2 {
			continue
		}
		t, f := d.Succs[0], d.Succs[1]
		onTrue := len(t.Preds) == 1 && (t == b || t.Dominates(b))
		onFalse := len(f.Preds) == 1 && (f == b || f.Dominates(b))
		if onTrue == onFalse {
			continue
		}
		g := p.classifyCond(ifi.Cond, onTrue)
		out = append(out, g...)
	}
	return out
}

// classifyCond decodes a branch condition. holds==true means the guarded code runs when cond is true.
func (p *prover) classifyCond(cond ssa.Value, holds bool) []guard {
	switch x := cond.(type) {
	case *ssa.UnOp:
		if x.Op == token.NOT {
			return p.classifyCond(x.X, !holds)
		}
	case *ssa.Phi:
		// short-circuit && / ||: handled by the dominating Ifs of the operand blocks; nothing to add here
		return nil
	case *ssa.BinOp:
		var val ssa.Value
		var k constant.Value
		isNil := false
		op := x.Op
		if c, ok := x.Y.(*ssa.Const); ok {
			val, k, isNil = x.X, c.Value, c.Value == nil
		} else if c, ok := x.X.(*ssa.Const); ok {
			val, k, isNil = x.Y, c.Value, c.Value == nil
			op = flipOp(op)
		} else {
			return nil
		}
		if isErrorType(val.Type()) {
			return nil // err == nil says nothing about the field being set
		}
		refs := p.prov(val).list()
		zero := isNil || isZeroConst(k)
		one := k != nil && k.Kind() == constant.Int && constant.Compare(k, token.EQL, constant.MakeInt64(1))
		g := guard{cond: cond, refs: refs, desc: fmt.Sprintf("%s %s %s", shortVal(val), op, constStr(k))}
		_, isLen := lenOperand(val)
		signed := isSignedNumeric(val.Type()) && !isLen
		switch {
		case zero && op == token.NEQ:
			g.side = pick(holds, sideSet, sideUnset)
		case zero && op == token.EQL:
			g.side = pick(holds, sideUnset, sideSet)
		case zero && op == token.GTR, one && op == token.GEQ:
			g.side = pick(holds, sideSet, sideUnset)
			g.signOnly = signed
		case zero && op == token.LEQ, one && op == token.LSS:
			g.side = pick(holds, sideUnset, sideSet)
			g.signOnly = signed
		case zero && op == token.LSS, zero && op == token.GEQ:
			g.side = sideNeutral
			g.signOnly = signed
		default:
			g.side = sideNeutral
		}
		return []guard{g}
	case *ssa.Call:
		cc := x.Common()
		if cal := cc.StaticCallee(); cal != nil && len(cc.Args) >= 1 {
			switch cal.Name() {
			case "IsZero", "IsNil":
				refs := p.prov(cc.Args[0]).list()
				if len(refs) > 0 {
					return []guard{{cond: cond, refs: refs, side: pick(holds, sideUnset, sideSet), desc: cal.Name() + "(" + shortVal(cc.Args[0]) + ")"}}
				}
			}
		}
		return nil
	case *ssa.Field, *ssa.Extract:
		if b, ok := types.Unalias(cond.Type()).Underlying().(*types.Basic); ok && b.Kind() == types.Bool {
			refs := p.prov(cond).list()
			if len(refs) > 0 {
				if _, isExtract := cond.(*ssa.Extract); isExtract {
					return []guard{{cond: cond, refs: refs, side: sideNeutral, desc: "ok/flag"}}
				}
				return []guard{{cond: cond, refs: refs, side: pick(holds, sideSet, sideUnset), desc: shortVal(cond)}}
			}
		}
	}
	return nil
}

func pick(c bool, a, b guardSide) guardSide {
	if c {
		return a
	}
	return b
}

func flipOp(op token.Token) token.Token {
	switch op {
	case token.LSS:
		return token.GTR
	case token.GTR:
		return token.LSS
	case token.LEQ:
		return token.GEQ
	case token.GEQ:
		return token.LEQ
	}
	return op
}

func isZeroConst(k constant.Value) bool {
	if k == nil {
		return true
	}
	switch k.Kind() {
	case constant.Int, constant.Float:
		return constant.Sign(k) == 0
	case constant.String:
		return constant.StringVal(k) == ""
	case constant.Bool:
		return !constant.BoolVal(k)
	}
	return false
}

func constStr(k constant.Value) string {
	if k == nil {
		return "nil"
	}
	return k.ExactString()
}

func lenOperand(v ssa.Value) (ssa.Value, bool) {
	if c, ok := v.(*ssa.Call); ok {
		if b, ok := c.Common().Value.(*ssa.Builtin); ok && (b.Name() == "len" || b.Name() == "cap") && len(c.Common().Args) == 1 {
			return c.Common().Args[0], true
		}
	}
	if bo, ok := v.(*ssa.BinOp); ok && bo.Op == token.ADD {
		_, l1 := lenOperand(bo.X)
		_, l2 := lenOperand(bo.Y)
		if l1 && l2 {
			return bo.X, true
		}
	}
	return nil, false
}

func isSignedNumeric(t types.Type) bool {
	b, ok := types.Unalias(t).Underlying().(*types.Basic)
	if !ok {
		return false
	}
	return b.Info()&types.IsFloat != 0 || (b.Info()&types.IsInteger != 0 && b.Info()&types.IsUnsigned == 0)
}

func shortVal(v ssa.Value) string {
	switch x := v.(type) {
	case *ssa.Field:
		return shortVal(x.X) + "." + fieldNameOf(x.X.Type(), x.Field)
	case *ssa.FieldAddr:
		return shortVal(x.X) + "." + fieldNameOf(x.X.Type(), x.Field)
	case *ssa.UnOp:
		if x.Op == token.MUL {
			return shortVal(x.X)
		}
		return x.Op.String() + shortVal(x.X)
	case *ssa.Parameter:
		return x.Name()
	case *ssa.Call:
		if b, ok := x.Common().Value.(*ssa.Builtin); ok && len(x.Common().Args) > 0 {
			return b.Name() + "(" + shortVal(x.Common().Args[0]) + ")"
		}
		if cal := x.Common().StaticCallee(); cal != nil {
			return cal.Name() + "(…)"
		}
		return "call"
	case *ssa.Convert:
		return shortVal(x.X)
	case *ssa.Alloc:
		return x.Comment
	case *ssa.Const:
		return constStr(x.Value)
	case *ssa.BinOp:
		return shortVal(x.X) + x.Op.String() + shortVal(x.Y)
	}
	return v.Name()
}

func pathsString(ps []FieldPath) string {
	var s []string
	for _, p := range ps {
		s = append(s, p.String())
	}
	sort.Strings(s)
	return strings.Join(s, ",")
}

func isErrorType(t types.Type) bool {
	n, ok := types.Unalias(t).(*types.Named)
	return ok && n.Obj().Pkg() == nil && n.Obj().Name() == "error"
}
