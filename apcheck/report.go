package main

import (
	"encoding/json"
	"fmt"
	"os"
	"path/filepath"
	"sort"
	"strconv"
	"strings"
	"time"
)

// Ob is one proof obligation of a rule: a named construct of the analysed source together with the verdict.
type Ob struct {
	Key    string `json:"key"`  // rule:construct — names only, never line numbers
	Rule   string `json:"rule"` // e.g. C01.W-term
	OK     bool   `json:"ok"`
	Pos    string `json:"pos,omitempty"`
	Detail string `json:"detail,omitempty"`
}

type Check struct {
	ID          string
	Level       string
	Explanation string
	Trusted     []string
	Assumptions []string
	RuleText    string
	Exhaustive  bool

	obs   []*Ob
	byKey map[string]*Ob
	// arch is the GOARCH of the program being analysed; Archs lists all programs this check was decided on
	// (quick: the default one; thorough: amd64, 386, arm64). Verdicts are merged per key: bad on any arch is bad.
	arch      string
	elapsed   time.Duration // time spent deciding this property's obligations (all programs), excluding shared loading
	Archs     []string
	archStats map[string]map[string]int
	Stats     map[string]int
	Notes     []string
	// Floors: rule -> minimum number of obligations that rule must have produced (vacuity guard)
	floors map[string]int
	// broken: positive controls of the checker itself that did not fire (the rule would be blind)
	broken []string
}

func newCheck(id string) *Check {
	return &Check{ID: id, Level: "other", byKey: map[string]*Ob{}, Stats: map[string]int{}, floors: map[string]int{}}
}

func (c *Check) add(rule, construct string, ok bool, pos, detail string) {
	key := rule + ":" + construct
	if !ok && len(c.Archs) > 1 {
		detail = "[GOARCH=" + c.arch + "] " + detail
	}
	if o, dup := c.byKey[key]; dup {
		if !ok && o.OK {
			o.OK, o.Pos, o.Detail = false, pos, detail
		} else if !ok && !o.OK && detail != "" && !strings.Contains(o.Detail, detail) {
			o.Detail += "; " + detail
		}
		return
	}
	o := &Ob{Key: key, Rule: rule, OK: ok, Pos: pos, Detail: detail}
	c.obs = append(c.obs, o)
	c.byKey[key] = o
}

func (c *Check) ok(rule, construct, pos, detail string)  { c.add(rule, construct, true, pos, detail) }
func (c *Check) bad(rule, construct, pos, detail string) { c.add(rule, construct, false, pos, detail) }
func (c *Check) note(format string, a ...any) {
	n := fmt.Sprintf(format, a...)
	for _, x := range c.Notes {
		if x == n {
			return
		}
	}
	c.Notes = append(c.Notes, n)
}

// beginArch starts the analysis of one more program (architecture); statistics are kept per program.
func (c *Check) beginArch(arch string) {
	if c.archStats == nil {
		c.archStats = map[string]map[string]int{}
	}
	c.arch = arch
	c.Archs = append(c.Archs, arch)
	c.Stats = map[string]int{}
	c.archStats[arch] = c.Stats
}
func (c *Check) floor(rule string, n int) { c.floors[rule] = n }
func (c *Check) stat(name string, n int)  { c.Stats[name] += n }

// control records a positive control: a construct the rule's engine must recognise on every run.
func (c *Check) control(ok bool, what string) {
	c.Stats["positive_controls"]++
	if !ok {
		c.broken = append(c.broken, what)
	}
}

type knownFinding struct {
	Property string `json:"property"`
	Key      string `json:"key"`
	Status   string `json:"status"` // known | fixed
	Commit   string `json:"commit,omitempty"`
	What     string `json:"what"`
}

func loadKnown(verifDir string) ([]knownFinding, error) {
	b, err := os.ReadFile(filepath.Join(verifDir, "known_findings.json"))
	if err != nil {
		if os.IsNotExist(err) {
			return nil, nil
		}
		return nil, err
	}
	var ks []knownFinding
	if err := json.Unmarshal(b, &ks); err != nil {
		return nil, fmt.Errorf("known_findings.json: %w", err)
	}
	return ks, nil
}

type runOpts struct {
	verifDir string
	tier     string
	target   string
	cmd      string
	noEvid   bool
	start    time.Time
}

// finish prints the verdict lines, writes the evidence file and returns the exit code.
func (c *Check) finish(o runOpts) int {
	// vacuity floors
	perRule := map[string]int{}
	for _, ob := range c.obs {
		perRule[ob.Rule]++
	}
	for rule, n := range c.floors {
		if perRule[rule] < n {
			c.bad(rule, "floor", "-", fmt.Sprintf("rule matched %d constructs, expected at least %d: the rule would pass vacuously (anchor lost or idiom no longer recognised)", perRule[rule], n))
		}
	}
	if len(c.broken) > 0 {
		for _, b := range c.broken {
			fmt.Printf("CHECKER-BROKEN property=%s positive control did not fire: %s\n", c.ID, b)
		}
		return 2
	}
	known, err := loadKnown(o.verifDir)
	if err != nil {
		fmt.Printf("CHECKER-ERROR property=%s %v\n", c.ID, err)
		return 2
	}
	knownByKey := map[string]knownFinding{}
	for _, k := range known {
		if k.Property == c.ID && k.Status == "known" {
			knownByKey[k.Key] = k
		}
	}
	sort.SliceStable(c.obs, func(i, j int) bool { return c.obs[i].Key < c.obs[j].Key })
	var viol, knownHit []*Ob
	discharged := 0
	for _, ob := range c.obs {
		if ob.OK {
			discharged++
			continue
		}
		if _, isKnown := knownByKey[ob.Key]; isKnown {
			knownHit = append(knownHit, ob)
		} else {
			viol = append(viol, ob)
		}
	}
	fmt.Printf("== %s tier=%s target=%s: %d obligations, %d discharged, %d known findings, %d violations\n",
		c.ID, o.tier, o.target, len(c.obs), discharged, len(knownHit), len(viol))
	rules := sortedKeys(perRule)
	for _, r := range rules {
		fmt.Printf("   rule %-22s %4d obligations\n", r, perRule[r])
	}
	fmt.Printf("   programs analysed: GOARCH=%s\n", strings.Join(c.Archs, ","))
	c.Stats = c.archStats[c.Archs[0]]
	for _, k := range sortedKeys(c.Stats) {
		fmt.Printf("   stat %-30s %d\n", k, c.Stats[k])
	}
	for _, n := range c.Notes {
		fmt.Printf("   note: %s\n", n)
	}
	if os.Getenv("APCHECK_VERBOSE") != "" {
		for _, ob := range c.obs {
			fmt.Printf("   ob %-5v %s [%s] %s\n", ob.OK, ob.Key, ob.Pos, ob.Detail)
		}
	}
	for _, ob := range knownHit {
		fmt.Printf("KNOWN-FINDING: property=%s %s %s [%s] %s\n", c.ID, ob.Key, knownByKey[ob.Key].What, ob.Pos, ob.Detail)
	}
	hit := map[string]bool{}
	for _, ob := range knownHit {
		hit[ob.Key] = true
	}
	for k := range knownByKey {
		if !hit[k] {
			fmt.Printf("   note: known finding %s no longer reproduces on this tree (listed entry is stale)\n", k)
		}
	}
	replayDir := filepath.Join(o.verifDir, "evidence", "replay")
	if len(viol) > 0 && !o.noEvid {
		_ = os.MkdirAll(replayDir, 0o755)
	}
	for i, ob := range viol {
		fmt.Printf("FAIL %s %s  at %s\n     %s\n", c.ID, ob.Key, ob.Pos, ob.Detail)
		path := filepath.Join(replayDir, fmt.Sprintf("%s-%d.json", c.ID, i+1))
		if !o.noEvid {
			rb, _ := json.MarshalIndent(map[string]any{
				"property": c.ID, "key": ob.Key, "rule": ob.Rule, "pos": ob.Pos, "detail": ob.Detail,
				"target": o.target, "tier": o.tier,
				"replay": fmt.Sprintf("./run.sh %s %s   # then look for key %s", c.ID, o.tier, ob.Key),
			}, "", " ")
			_ = os.WriteFile(path, rb, 0o644)
		}
		fmt.Printf("VIOLATION property=%s replay=%s\n", c.ID, path)
	}
	if !o.noEvid {
		if err := c.writeEvidence(o, discharged, len(viol), knownHit); err != nil {
			fmt.Printf("CHECKER-ERROR property=%s cannot write evidence: %v\n", c.ID, err)
			return 2
		}
	}
	if len(viol) > 0 {
		return 1
	}
	fmt.Printf("PASS %s\n", c.ID)
	return 0
}

func (c *Check) writeEvidence(o runOpts, discharged, nviol int, knownHit []*Ob) error {
	seed := 0
	if s := os.Getenv("VERIF_SEED"); s != "" {
		if n, err := strconv.Atoi(s); err == nil {
			seed = n
		}
	}
	// samples: a spread of obligations (first of each rule, plus any non-discharged)
	samples := []any{}
	seenRule := map[string]int{}
	for _, ob := range c.obs {
		if !ob.OK || seenRule[ob.Rule] < 2 {
			seenRule[ob.Rule]++
			if len(samples) < 60 {
				samples = append(samples, ob)
			}
		}
	}
	level := c.Level
	if level == "proof" && discharged != len(c.obs) {
		level = "other" // a proof-level claim needs every obligation discharged
	}
	cov := map[string]any{
		"obligations":         len(c.obs),
		"discharged":          discharged,
		"checker_cmd":         o.cmd,
		"trusted_base":        c.Trusted,
		"explanation":         c.Explanation,
		"evaluations":         len(c.obs),
		"distinct_nontrivial": len(c.byKey),
		"rule":                c.RuleText,
		"samples":             samples,
		"exhaustive":          c.Exhaustive,
		"known_findings":      len(knownHit),
		"stats":               c.archStats[c.Archs[0]],
		"architectures":       c.Archs,
		"notes":               c.Notes,
	}
	perRule := map[string]int{}
	for _, ob := range c.obs {
		perRule[ob.Rule]++
	}
	cov["obligations_per_rule"] = perRule
	if len(c.Archs) > 1 {
		cov["stats_per_architecture"] = c.archStats
	}
	var kf []string
	for _, ob := range knownHit {
		kf = append(kf, ob.Key)
	}
	cov["known_finding_keys"] = kf
	if c.Assumptions == nil {
		c.Assumptions = []string{}
	}
	if c.Trusted == nil {
		c.Trusted = []string{}
		cov["trusted_base"] = c.Trusted
	}
	ev := map[string]any{
		"property_id": c.ID,
		"tier":        o.tier,
		"seed":        seed,
		"level":       level,
		"coverage":    cov,
		"assumptions": c.Assumptions,
		"wall_s":      c.elapsed.Seconds() + time.Since(o.start).Seconds(),
		"violations":  nviol,
	}
	b, err := json.MarshalIndent(ev, "", " ")
	if err != nil {
		return err
	}
	dir := filepath.Join(o.verifDir, "evidence")
	if err := os.MkdirAll(dir, 0o755); err != nil {
		return err
	}
	return os.WriteFile(filepath.Join(dir, c.ID+".json"), b, 0o644)
}
